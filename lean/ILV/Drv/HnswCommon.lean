/-
  Shared driver code of C24/C25: runs a history of harness/src/u/hnswhist.rs on the model
  (ILV.Model.Hnsw over native floats), prints what the harness prints, and judges the
  implementation's output against the Spec:
  * an abstract index (identifier ↦ latest raw vector, the identifiers stored, the identifiers
    deleted since the last compaction) maintained with upsert / remove / replace semantics and the
    documented compaction policy (> 30 % tombstones) — no reference to how the code stores things;
  * C24 (`s` ops): results are ≤ k distinct live identifiers, distances non-decreasing and equal to
    the configured metric on the latest vector within the budget (L2: 4 ulp of f32; cosine / dot:
    1e-6 absolute; L1: 1e-9 relative), and for |live| ≤ ef exactly min(k,|live|) results that are k
    nearest; the `ann` contract (ILV.Hnsw.AnnContract) is checked on the observed raw answer;
  * C25 (`st` ops): stored-minus-tombstoned = live (vectors within 4 ulp of the prepared latest
    vector, exact for l2/l1), searchable graph identifiers (graph minus tombstoned) = live
    identifiers, len / tombstone count / dimension / config as implied by the history.
-/
import ILV.Drv.Common
import ILV.Drv.NativeFloat
import ILV.Model.Hnsw
namespace ILV.Drv.Hnsw
open ILV ILV.Hnsw

abbrev NF := nativeFloat
abbrev V := List Float32

def f64w (x : Float) : String := if x.isNaN then "nan" else natToHexW 16 x.toBits.toNat
def f32w (x : Float32) : String := if x.isNaN then "nan" else natToHexW 8 x.toBits.toNat
def hexvec (v : V) : String := if v.isEmpty then "-" else "/".intercalate (v.map (fun x => natToHexW 8 x.toBits.toNat))

def vecOfWire (s : String) : Option V :=
  if !s.startsWith "v:" then none else
  let r := (s.drop 2).toString
  if r.isEmpty then some [] else
    optMapM (fun x => if x.length ≤ 8 then (hexToNat x).map NF.ofBits32 else none) (r.splitOn "/")

def parseUsize (s : String) : Option Nat :=
  match parseNat s with
  | some n => if n < 2 ^ 64 then some n else none
  | none => none

def parseEntries (ws : List String) : Option (List (Nat × V)) :=
  optMapM (fun w => match w.splitOn "=" with
    | [i, v] => (match parseUsize i, vecOfWire v with | some i, some v => some (i, v) | _, _ => none)
    | _ => none) ws

def metricOfWire : String → Option Metric
  | "cos" => some .cosine | "l2" => some .euclidean | "dot" => some .dot | "l1" => some .manhattan | _ => none

def errWire : Option Err → String
  | none => "ok" | some .empty => "err:empty" | some .zeroNorm => "err:zeronorm" | some .dim => "err:dim"

/-! ### abstract index (Spec) -/

structure Abs where
  live : List (Nat × V) := []        -- identifier ↦ latest raw vector
  stored : List Nat := []            -- identifiers held since the last compaction (live or deleted)
  pending : List Nat := []           -- identifiers deleted since the last compaction

def Abs.upsert (a : Abs) (id : Nat) (v : V) : Abs :=
  { live := if a.live.any (·.1 == id) then a.live.map (fun p => if p.1 == id then (id, v) else p) else a.live ++ [(id, v)],
    stored := if a.stored.contains id then a.stored else a.stored ++ [id],
    pending := a.pending.filter (· != id) }

def Abs.delete (a : Abs) (id : Nat) : Abs :=
  let a1 : Abs := { a with live := a.live.filter (·.1 != id), pending := if a.pending.contains id then a.pending else a.pending ++ [id] }
  if !a1.stored.isEmpty && 10 * a1.pending.length > 3 * a1.stored.length then
    { a1 with stored := a1.live.map (·.1), pending := [] }
  else a1

def Abs.rebuild (es : List (Nat × V)) : Abs := { live := es, stored := es.map (·.1), pending := [] }

structure St where
  idx : Index NF
  abs : Abs := {}

/-! ### printing the state like the harness's `st` -/

def stateWire (s : Index NF) : String :=
  let vecs := s.vectors.map (fun p => s!"{p.1}={hexvec p.2}")
  let tombs := ILV.sortBy (fun a b => decide (a ≤ b)) s.tombs
  let inner := match s.inner with
    | none => "none"
    | some g => if g.isEmpty then "-" else ",".intercalate (g.map (fun (e : Nat × V) => toString e.1))
  s!"len={s.vectors.length} tomb={s.tombs.length} dim={s.dim} ratio={if ratioAbove s then 1 else 0} " ++
  s!"vec={if vecs.isEmpty then "-" else "|".intercalate vecs} tombs={if tombs.isEmpty then "-" else ",".intercalate (tombs.map toString)} " ++
  s!"inner={inner} pdim={s.dim} metric={metricName s.cfg.metric} cfg={s.cfg.m},{s.cfg.efc},{s.cfg.efs}"

/-! ### search -/

def parseRaw (s : String) : Option (List (Nat × Float32)) :=
  if s == "-" then some [] else
  optMapM (fun e => match e.splitOn ":" with
    | [i, d] => (match parseUsize i, (if d == "nan" then some 0x7fc00000 else hexToNat d) with
      | some i, some b => some (i, NF.ofBits32 b)
      | _, _ => none)
    | _ => none) (s.splitOn ",")

def parseRes (s : String) : Option (List (Nat × String)) :=
  if s == "-" then some [] else
  optMapM (fun e => match e.splitOn ":" with
    | [i, d] => (parseUsize i).map (fun i => (i, d))
    | _ => none) (s.splitOn ",")

def resWire (r : List (Nat × Float)) : String :=
  if r.isEmpty then "-" else ",".intercalate (r.map (fun p => s!"{p.1}:{f64w p.2}"))
def rawWire (r : List (Nat × Float32)) : String :=
  if r.isEmpty then "-" else ",".intercalate (r.map (fun p => s!"{p.1}:{f32w p.2}"))

def fieldsOf (s : String) : List (String × String) :=
  (s.splitOn " ").filterMap (fun kv => match kv.splitOn "=" with
    | k :: rest => if rest.isEmpty then none else some (k, "=".intercalate rest)
    | [] => none)

def l2n (a b : V) : Float32 := l2 (F := NF) a b

/-- the `ann` contract on an observed answer. -/
def annContract (stored : List V) (pq : V) (knbn ef : Nat) (raw : List (Nat × Float32)) : Option String :=
  let n := stored.length
  let idxs := raw.map (·.1)
  if raw.length > knbn then some "more-than-knbn"
  else if idxs.any (· ≥ n) then some "index-out-of-range"
  else if (dedupBy (· == ·) idxs).length != idxs.length then some "duplicate-index"
  else if raw.any (fun r => match stored[r.1]? with
      | some v => (l2n v pq).toBits != r.2.toBits && !((l2n v pq).isNaN && r.2.isNaN)
      | none => true) then some "distance-not-l2"
  else if !((raw.zip (raw.drop 1)).all (fun (a, b) => !(b.2 < a.2))) then some "not-sorted"
  else if n ≤ ef then
    if raw.length != min knbn n then some s!"incomplete-although-n-le-ef n={n} knbn={knbn} ef={ef} got={raw.length} distinct={(dedupBy (fun (a b : V) => a.map Float32.toBits == b.map Float32.toBits) stored).length}"
    else
      let worst := raw.foldl (fun m r => if r.2 > m then r.2 else m) (Float32.ofBits 0)
      let missed := ((List.range n).zip stored).any (fun (i, v) => !idxs.contains i && l2n v pq < worst)
      if missed then some s!"nearer-point-left-out n={n} knbn={knbn} ef={ef} got={raw.length} distinct={(dedupBy (fun (a b : V) => a.map Float32.toBits == b.map Float32.toBits) stored).length}" else none
  else none

/-- metric of the Spec in f64 on raw vectors. -/
def dot64 (a b : V) : Float := (a.zip b).foldl (fun (s : Float) (p : Float32 × Float32) => s + p.1.toFloat * p.2.toFloat) 0.0
def trueDist (m : Metric) (q v : V) : Float :=
  match m with
  | .euclidean => ((q.zip v).foldl (fun (s : Float) (p : Float32 × Float32) => s + (p.1.toFloat - p.2.toFloat) * (p.1.toFloat - p.2.toFloat)) 0.0).sqrt
  | .manhattan => (q.zip v).foldl (fun (s : Float) (p : Float32 × Float32) => s + (p.1.toFloat - p.2.toFloat).abs) 0.0
  | .cosine => 1.0 - dot64 q v / ((dot64 q q).sqrt * (dot64 v v).sqrt)
  | .dot => -(dot64 q v / ((dot64 q q).sqrt * (dot64 v v).sqrt))

/-- stated budgets: L2 4 ulp of f32 (relative 4·2^-23), cosine/dot 1e-6 absolute, L1 1e-9 relative. -/
def budget (m : Metric) (t : Float) : Float :=
  match m with
  | .euclidean => t.abs * 4.76837158203125e-7 + 1e-30
  | .manhattan => t.abs * 1e-9 + 1e-30
  | _ => 1e-6

def hexToF64 (h : String) : Option Float := if h == "nan" then some (0.0 / 0.0) else (hexToNat h).map NF.ofBits64

/-- C24 on one search. `live` = abstract live map, `n ≤ ef` decided on the abstract side. -/
def searchSpec (m : Metric) (live : List (Nat × V)) (dim : Nat) (q : V) (k ef : Nat) (res : List (Nat × String)) : Option String :=
  let finite := q.all Float32.isFinite
  let qnorm := (dot64 q q).sqrt
  if !finite || live.any (fun p => p.2.length != q.length) || (needsNorm m && !(qnorm > 1e-10)) then none   -- outside the Spec's domain: one common dimension, finite query, non-zero query norm for cosine/dot
  else
    let ids := res.map (·.1)
    let ds := res.filterMap (fun r => hexToF64 r.2)
    if ds.length != res.length then some "unparsable"
    else if res.length > k then some "more-than-k"
    else if (dedupBy (· == ·) ids).length != ids.length then some "duplicate-id"
    else match ids.find? (fun i => !(live.any (·.1 == i))) with
    | some i => some s!"non-live-id-{i}"
    | none =>
      if ds.any Float.isNaN then some "nan-distance"
      else if !((ds.zip (ds.drop 1)).all (fun (a, b) => a ≤ b)) then some "distances-decrease"
      else
        let wrong := (res.zip ds).find? (fun (r, d) => match live.find? (·.1 == r.1) with
          | some (_, v) => let t := trueDist m q v; !((d - t).abs ≤ budget m t)
          | none => true)
        match wrong with
        | some (r, d) => some s!"distance-off-budget-id-{r.1} got={d} true={(live.find? (·.1 == r.1)).map (fun p => trueDist m q p.2)}"
        | none =>
          if live.length ≤ ef then
            if res.length != min k live.length then some "fewer-than-min-k-live"
            else
              let worst := (live.filter (fun p => ids.contains p.1)).foldl (fun mx p => let t := trueDist m q p.2; if t > mx then t else mx) (-1e300)
              let missed := live.find? (fun p => !ids.contains p.1 && trueDist m q p.2 + 2.0 * budget m worst < worst)
              match missed with
              | some p => some s!"nearer-live-id-{p.1}-left-out"
              | none => none
          else none

/-! ### C25 on one observed state -/

def ulpClose (a b : Float32) (ulps : Nat) : Bool :=
  a.toBits == b.toBits || (!a.isNaN && !b.isNaN &&
    ((a.toFloat - b.toFloat).abs ≤ (Float.ofNat ulps) * 1.1920928955078125e-7 * (if a.abs > b.abs then a.abs else b.abs).toFloat + 1e-44))

def parseStVec (s : String) : Option (List (Nat × V)) :=
  if s == "-" then some [] else
  optMapM (fun e => match e.splitOn "=" with
    | [i, v] => (match parseUsize i, (if v == "-" then some [] else optMapM (fun x => (hexToNat x).map NF.ofBits32) (v.splitOn "/")) with
      | some i, some v => some (i, v)
      | _, _ => none)
    | _ => none) (s.splitOn "|")

def parseIds (s : String) : Option (List Nat) :=
  if s == "-" || s == "none" then some [] else optMapM parseUsize (s.splitOn ",")

def sameSet (a b : List Nat) : Bool := a.all b.contains && b.all a.contains

def stateSpec (cfg : Cfg) (a : Abs) (impl : String) : Option String :=
  let fs := fieldsOf impl
  let g (k : String) : String := (fs.lookup k).getD "?"
  match parseStVec (g "vec"), parseIds (g "tombs"), parseIds (g "inner"), parseUsize (g "len"), parseUsize (g "tomb"), parseUsize (g "dim") with
  | some vecs, some tombs, some inner, some len, some tomb, some dim =>
    let liveImpl := vecs.filter (fun p => !tombs.contains p.1)
    let exact := !needsNorm cfg.metric
    if !sameSet (liveImpl.map (·.1)) (a.live.map (·.1)) then some "stored-minus-tombstones-differs-from-live"
    else if (dedupBy (· == ·) (liveImpl.map (·.1))).length != liveImpl.length then some "duplicate-stored-id"
    else match liveImpl.find? (fun p => match a.live.find? (·.1 == p.1) with
        | some (_, raw) =>
          let want := prepare NF cfg.metric raw
          !(want.length == p.2.length && (want.zip p.2).all (fun (x, y) => if exact then x.toBits == y.toBits else ulpClose x y 4))
        | none => true) with
      | some p => some s!"stored-vector-not-latest-id-{p.1}"
      | none =>
        if !sameSet (inner.filter (fun i => !tombs.contains i)) (a.live.map (·.1)) then some "searchable-graph-ids-differ-from-live"
        else if len != a.stored.length then some "len-not-implied-by-history"
        else if tomb != a.pending.length then some "tombstone-count-not-implied-by-history"
        else if !a.live.isEmpty && a.live.all (fun p => p.2.length == (a.live.head?.map (·.2.length)).getD 0) && dim != (a.live.head?.map (·.2.length)).getD 0 then some "dimension"
        else if g "metric" != metricName cfg.metric || g "cfg" != s!"{cfg.m},{cfg.efc},{cfg.efs}" then some "config"
        else none
  | _, _, _, _, _, _ => some "unparsable-state"

/-! ### the history fold -/

structure Acc where
  st : St
  outs : List String := []
  fails : List (String × String) := []   -- (class, detail)
  searches : Nat := 0
  states : Nat := 0

def stepOp (judgeSearch judgeState : Bool) (acc : Acc) (op : String) (implRes : String) : Acc :=
  let st := acc.st
  let s := st.idx
  let push (st' : St) (o : String) : Acc := { acc with st := st', outs := acc.outs ++ [o] }
  match op.splitOn " " with
  | ["i", id, v] => (match parseUsize id, vecOfWire v with
    | some id, some v =>
      let (s1, e) := insert s id v
      push { idx := s1, abs := if e.isNone then st.abs.upsert id v else st.abs } (errWire e)
    | _, _ => push st "bad")
  | "ib" :: ws => (match parseEntries ws with
    | some es =>
      let (s1, e) := insertBatch s es
      -- a rejected batch stores nothing (all entries are validated first)
      push { idx := s1, abs := if e.isNone then es.foldl (fun a p => a.upsert p.1 p.2) st.abs else st.abs } (errWire e)
    | none => push st "bad")
  | "rb" :: ws => (match parseEntries ws with
    | some es =>
      let (s1, e) := rebuild s es
      push { idx := s1, abs := if e.isNone then Abs.rebuild es else st.abs } (errWire e)
    | none => push st "bad")
  | ["d", id] => (match parseUsize id with
    | some id => push { idx := delete s id, abs := st.abs.delete id } "-"
    | none => push st "bad")
  | ["sl"] => push { st with idx := (load (save s)).getD s } "ok"
  | ["st"] =>
    let acc1 := push st (stateWire s)
    if judgeState then
      match stateSpec s.cfg st.abs implRes with
      | some d => { acc1 with fails := acc1.fails ++ [("unclassified", d)], states := acc1.states + 1 }
      | none => { acc1 with states := acc1.states + 1 }
    else acc1
  | ["s", k, ef, q] => (match parseUsize k, (if ef == "-" then some none else (parseUsize ef).map some), vecOfWire q with
    | some k, some ef, some q =>
      let fs := fieldsOf implRes
      let rawS := (fs.lookup "raw").getD "?"
      let resS := (fs.lookup "res").getD "?"
      match parseRaw rawS with
      | some raw =>
        let model := s!"raw={rawWire raw} res={resWire (searchRaw s q k raw)}"
        let acc1 := push st model
        if judgeSearch then
          let efv := searchEf s ef
          let efUser := ef.getD s.cfg.efs
          let pq := prepare NF s.cfg.metric q
          let contract := match s.inner with
            | none => if raw.isEmpty then none else some "raw-without-graph"
            | some g => annContract (g.map (·.2)) pq (searchK s k) efv raw
          let dimA := (st.abs.live.head?.map (·.2.length)).getD 0
          let verdict := match parseRes resS with
            | some res => searchSpec s.cfg.metric st.abs.live dimA q k efUser res
            | none => some "unparsable"
          let acc2 := { acc1 with searches := acc1.searches + (if st.abs.live.isEmpty then 0 else 1) }
          let hasDup : Bool := match s.inner with
            | some g => (dedupBy (fun (a b : V) => a.map Float32.toBits == b.map Float32.toBits) (g.map (·.2))).length != g.length
            | none => false
          -- identifying predicates of the incomplete-graph family: identical points in the graph, or M ≤ 4
          let annCls := if hasDup then "ann_incomplete_duplicates" else if s.cfg.m ≤ 4 then "ann_incomplete_small_m" else "ann_contract"
          let acc3 := match contract with
            | some d => if q.all Float32.isFinite then { acc2 with fails := acc2.fails ++ [(annCls, d)] } else acc2
            | none => acc2
          match verdict with
          | some d =>
            -- a completeness failure that is the direct consequence of an incomplete raw answer is
            -- reported once, as the contract failure
            if contract.isSome && (d.startsWith "fewer-than-min-k-live" || d.startsWith "nearer-live-id") then acc3 else
            let cls := if s.cfg.metric == .manhattan && 4 * k < st.abs.live.length && d.startsWith "nearer-live-id" then "manhattan_rerank_window"
              else "unclassified"
            { acc3 with fails := acc3.fails ++ [(cls, d)] }
          | none => acc3
        else acc1
      | none => push st "raw=? res=?"
    | _, _, _ => push st "bad")
  | _ => push st "bad"

def histHandler (judgeSearch judgeState : Bool) : Handler := fun args impl =>
  match args.span (· != "|") with
  | ([metric, m, efc, efs], _ :: rest) =>
    (match metricOfWire metric, parseUsize m, parseUsize efc, parseUsize efs with
    | some metric, some m, some efc, some efs =>
      if m < 2 || m > 64 || efc < 1 || efc > 1000 then badReq else
      let ops := (" ".intercalate rest).splitOn " ; "
      let impls := impl.splitOn " ; "
      let impls := if impls.length == ops.length then impls else ops.map (fun _ => "?")
      let acc0 : Acc := { st := { idx := { cfg := { m, efc, efs, metric } } } }
      let acc := (ops.zip impls).foldl (fun a (op, r) => stepOp judgeSearch judgeState a op r) acc0
      let spec := match acc.fails with
        | [] => if (judgeSearch && acc.searches == 0) || (judgeState && acc.states == 0) then "na" else "ok"
        | (c, d) :: _ =>
          -- report a known family only if every failure of the history belongs to known families;
          -- an unclassified failure anywhere takes precedence
          match acc.fails.find? (fun f => f.1 == "unclassified" || f.1 == "ann_contract") with
          | some (c', d') => specFail c' d'
          | none => specFail c d
      { model := " ; ".intercalate acc.outs, spec, nt := (judgeSearch && acc.searches > 0) || (judgeState && acc.states > 1) }
    | _, _, _, _ => badReq)
  | _ => badReq

end ILV.Drv.Hnsw
