import ILV.Drv.C01
import ILV.Model.SipHashTuple
namespace ILV.Drv.C03
open ILV ILV.DL ILV.Engine ILV.Drv.C01

def runW (cfg : Cfg) (p : Program) (edb : DB) : String :=
  (Engine.run cfg Sip.hashTuple (fun _ ts => ts) fuelDefault p edb).toWire

def verdict (cfg : Cfg) (p : Program) (impl : String) : String × Bool :=
  match impl.splitOn " / " with
  | [a, b] =>
    let nt := cfg.workers > 1 && (heads p).any (fun h => !selfRec p h && parSafe (clausesOf p h)) && a != "{}" && !a.startsWith "err:"
    if a == b then (specOk, nt)
    else (specFail "unclassified" "workers-differ", nt)
  | _ => (specFail "unclassified" "unparsable-impl-output", false)

/-- `c03.run sssss:W:0 | items` → `answer with 1 worker / answer with W workers`. -/
def runH : Handler := fun args impl =>
  match parseReq args with
  | some (cfg, edb, p) =>
    let (sv, nt) := verdict cfg p impl
    if allOff cfg then
      { model := s!"{runW { cfg with workers := 1 } p edb} / {runW cfg p edb}", spec := sv, nt := nt }
    else { model := impl, spec := sv, nt := nt }
  | none => badReq

/-- `c03.hash <tuple>`: the real `DefaultHasher` value of a tuple. -/
def hashH : Handler := fun args _ =>
  match args.map Tuple.ofWire with
  | [some t] => { model := toString (Sip.hashTuple t), spec := specOk, nt := true }
  | _ => badReq

/-- a small partitioner for closed examples (kernel-friendly). -/
def parity3 : Tuple → Nat
  | (.i64 n) :: _ => n.toNat % 3
  | _ => 0

/-- `c03.rank cfg <iql-hex> | facts`: ranking aggregates (`top_k`, `top_k_threshold`,
    `within_radius`) are not in the Datalog AST / engine model; the program travels as IQL text, the
    model column echoes (no correspondence claim) and the Spec — answer with W workers = answer with
    one worker, as sets — is judged on the two real answers. -/
def rankH : Handler := fun args impl =>
  match args with
  | c :: _ :: _ =>
    match cfgOfWire c, impl.splitOn " / " with
    | some cfg, [a, b] =>
      let nt := cfg.workers > 1 && a != "{}" && !a.startsWith "err:"
      { model := impl, spec := if a == b then specOk else specFail "unclassified" "rank-workers-differ", nt := nt }
    | _, _ => { model := impl, spec := specFail "unclassified" "unparsable-impl-output", nt := false }
  | _ => badReq

def handlers : List (String × Handler) := [("c03.run", runH), ("c03.hash", hashH), ("c03.rank", rankH)]

end ILV.Drv.C03
