import ILV.Drv.Common
import ILV.Model.EStep
/-
  Shared request/response codec of the storage-engine step system (C20, C19).
  request : <op> inc=<0|1> R=<#relations> T=<programs> | t ; t ; …
            programs: threads `/`, operations `,`:  i<r>.<t>.<t>… insert, d<r>.<t>… delete, q<r> snapshot
            query, c<r> consistent read from the incremental engine.  `-` = empty program.
  output  : res=<t0>/<t1>… obs=<o0> <o1> … fin=<per relation consistent read | ->
            <ti> = `-` or `,`-joined `<step>:<out>`;  out = i<new>.<dup> | d<n> | r<sorted ids> | err
            <oi> = published snapshot after i steps: per relation the ids in storage order, `|`-joined
-/
namespace ILV.Drv.EStepIO
open ILV ILV.EStep

def dropStr (n : Nat) (s : String) : String := String.ofList (s.toList.drop n)
def kv (key : String) (s : String) : Option String :=
  if s.startsWith (key ++ "=") then some (dropStr (key.length + 1) s) else none

def parseRelIds (r : List Char) : Option (Nat × List Nat) :=
  match (String.ofList r).splitOn "." with
  | rel :: ts => match rel.toNat?, optMapM String.toNat? ts with
    | some rel, some ts => some (rel, ts)
    | _, _ => none
  | [] => none

def parseOp (s : String) : Option Op :=
  match s.toList with
  | 'i' :: r => (parseRelIds r).map (fun (a, b) => Op.insert a b)
  | 'd' :: r => (parseRelIds r).map (fun (a, b) => Op.delete a b)
  | 'q' :: r => (String.ofList r).toNat?.map Op.query
  | 'c' :: r => (String.ofList r).toNat?.map Op.readc
  | 'g' :: r => match parseRelIds r with | some (v, [rel]) => some (Op.regRule v rel) | _ => none
  | 'x' :: r => (String.ofList r).toNat?.map Op.dropRule
  | 'w' :: r => (String.ofList r).toNat?.map Op.queryV
  | _ => none

def parseProg (s : String) : Option (List Op) := if s == "-" then some [] else optMapM parseOp (s.splitOn ",")
def parseProgs (s : String) : Option (List (List Op)) := optMapM parseProg (s.splitOn "/")
def parseSched (items : List String) : Option (List Nat) :=
  optMapM String.toNat? (items.filter (fun x => x != ";" && x != "" && x != "|"))

structure Req where
  incOn : Bool
  nr : Nat
  nv : Nat := 0
  progs : List (List Op)
  sched : List Nat

def parseReq3 (i r t : String) (nv : Nat) (items : List String) : Option Req :=
  match (kv "inc" i).bind String.toNat?, (kv "R" r).bind String.toNat?, (kv "T" t).bind parseProgs, parseSched items with
  | some i, some r, some t, some sc => some { incOn := i != 0, nr := r, nv := nv, progs := t, sched := sc }
  | _, _, _, _ => none

/-- `inc= R= [V=] T= | schedule` -/
def parseReq (args : List String) : Option Req :=
  match args with
  | i :: r :: v :: rest =>
    if v.startsWith "V=" then
      match (kv "V" v).bind String.toNat?, rest with
      | some nv, t :: items => parseReq3 i r t nv items
      | _, _ => none
    else parseReq3 i r v 0 rest
  | _ => none

def Req.init (r : Req) : State := EStep.init r.progs r.incOn
def Req.fuel (r : Req) : Nat := 3 * (r.progs.map List.length).sum + 3
def Req.full (r : Req) : List Nat := r.sched ++ completeSched r.fuel (lastState r.init r.sched)

def ids (l : List Nat) : String := ".".intercalate (l.map toString)
def sortNat (l : List Nat) : List Nat := sortBy (fun a b => decide (a ≤ b)) l

def showOut : Out → String
  | .ins a b => s!"i{a}.{b}"
  | .del n => s!"d{n}"
  | .rows l => "r" ++ ids (sortNat l)
  | .created => "c"
  | .added n => s!"a{n}"
  | .dropped => "x"
  | .err => "err"

def idsE (l : List Nat) : String := if l.isEmpty then "_" else ids l
def showRules (rules : Rules) : String :=
  let cl := rules.flatMap (fun e => e.2.map (fun r => (e.1, r)))
  let cl := sortBy (fun (a b : Nat × Nat) => decide (a.1 < b.1 || (a.1 == b.1 && a.2 ≤ b.2))) cl
  if cl.isEmpty then "_" else ",".intercalate (cl.map (fun (v, r) => s!"v{v}:r{r}"))
def obsOf (nr : Nat) (st : State) : String :=
  "|".intercalate ((List.range nr).map (fun r => idsE (st.snap r))) ++ "~" ++ showRules st.snapRules

def vfinOf (nv : Nat) (st : State) : String :=
  if nv = 0 then "-" else "|".intercalate ((List.range nv).map (fun v => showOut (.rows (evalView st.snap st.snapRules v))))

def doneOf (st : State) (t : Nat) : List (Op × Out × Nat) := (st.threads t).done

def resStepsAux (t : Nat) : List State → Nat → List (Nat × Out)
  | a :: b :: rest, k =>
    ((doneOf b t).drop (doneOf a t).length).map (fun d => (k, d.2.1)) ++ resStepsAux t (b :: rest) (k + 1)
  | _, _ => []

def showRes (l : List (Nat × Out)) : String :=
  if l.isEmpty then "-" else ",".intercalate (l.map (fun (k, o) => s!"{k}:{showOut o}"))

/-- final consistent read of every relation, issued by the controller when all threads are done -/
def finOf (nr : Nat) (st : State) : String :=
  match st.inc with
  | none => "-"
  | some i => "|".intercalate ((List.range nr).map (fun r => showOut (i.readc r).2))

def isDead (st : State) : Bool := match st.inc with | some i => i.dead | none => false

/-- index of the step that kills the incremental worker, if any -/
def deathStep (states : List State) : Option Nat :=
  (List.range states.length).find? (fun k => isDead (states.getD k {}))

/-- the write call during which the worker dies either returns an error or never returns (it waits
    for an answer of the dead worker while holding the KG write lock); the run is reported up to the
    boundary before that step. -/
def modelOut (r : Req) : String :=
  let states := trace r.init r.full
  match deathStep states with
  | some k1 =>
    let states := states.take k1
    let res := "/".intercalate ((List.range r.progs.length).map (fun t => showRes (resStepsAux t states 0)))
    s!"res={res} obs={" ".intercalate (states.map (obsOf r.nr))} fin=dead@{k1 - 1} vfin=-"
  | none =>
    let fin := states.getLastD r.init
    let res := "/".intercalate ((List.range r.progs.length).map (fun t => showRes (resStepsAux t states 0)))
    s!"res={res} obs={" ".intercalate (states.map (obsOf r.nr))} fin={finOf r.nr fin} vfin={vfinOf r.nv fin}"

/-! ### parsing the implementation's output (for the Spec oracles) -/

def parseIds (s : String) : Option (List Nat) := if s.isEmpty || s == "_" then some [] else optMapM String.toNat? (s.splitOn ".")

inductive IOut where
  | ins (a b : Nat) | del (n : Nat) | rows (l : List Nat) | created | added (n : Nat) | dropped | err
  deriving Repr, DecidableEq, Inhabited

def parseIOut (s : String) : Option IOut :=
  if s == "err" then some .err else if s == "c" then some .created else if s == "x" then some .dropped else
  match s.toList with
  | 'a' :: r => (String.ofList r).toNat?.map IOut.added
  | 'i' :: r => match (String.ofList r).splitOn "." with
    | [a, b] => match a.toNat?, b.toNat? with | some a, some b => some (.ins a b) | _, _ => none
    | _ => none
  | 'd' :: r => (String.ofList r).toNat?.map IOut.del
  | 'r' :: r => (parseIds (String.ofList r)).map IOut.rows
  | _ => none

def parseResList (s : String) : Option (List (Nat × IOut)) :=
  if s == "-" then some [] else optMapM (fun x => match x.splitOn ":" with
    | [k, o] => match k.toNat?, parseIOut o with | some k, some o => some (k, o) | _, _ => none
    | _ => none) (s.splitOn ",")

structure Impl where
  res : List (List (Nat × IOut))      -- per thread: (step index, output) in program order
  obs : List (List (List Nat))        -- per boundary, per relation
  obsRules : List (List (Nat × Nat)) := []   -- per boundary: the snapshot's (view, body relation) clauses, sorted
  vfin : List IOut := []
  fin : List IOut
  dead : Option Nat := none           -- `fin=dead@k`

def parseClause (s : String) : Option (Nat × Nat) :=
  match s.splitOn ":" with
  | [v, r] => match (dropStr 1 v).toNat?, (dropStr 1 r).toNat? with | some v, some r => some (v, r) | _, _ => none
  | _ => none

def parseRulesObs (s : String) : Option (List (Nat × Nat)) :=
  if s == "_" then some [] else optMapM parseClause (s.splitOn ",")

def parseImpl (impl : String) : Option Impl :=
  match impl.splitOn " vfin=" with
  | [body, vf] =>
    match body.splitOn " obs=" with
    | [a, rest] => match rest.splitOn " fin=" with
      | [o, f] =>
        let imgs := (o.splitOn " ").map (fun img => match img.splitOn "~" with | [fa, ru] => (fa, ru) | _ => (img, "_"))
        match optMapM parseResList ((dropStr 4 a).splitOn "/"),
              optMapM (fun (img : String × String) => optMapM parseIds (img.1.splitOn "|")) imgs,
              optMapM (fun (img : String × String) => parseRulesObs img.2) imgs,
              (if f == "-" || f.startsWith "dead@" then some [] else optMapM parseIOut (f.splitOn "|")),
              (if vf == "-" then some [] else optMapM parseIOut (vf.splitOn "|")) with
        | some res, some obs, some orl, some fin, some vfin =>
          some { res := res, obs := obs, obsRules := orl, fin := fin, vfin := vfin,
                 dead := if f.startsWith "dead@" then (dropStr 5 f).toNat? else none }
        | _, _, _, _, _ => none
      | _ => none
    | _ => none
  | _ => none

end ILV.Drv.EStepIO
