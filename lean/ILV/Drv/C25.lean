/- C25 handler: histories judged on their observed states (see ILV.Drv.HnswCommon). -/
import ILV.Drv.HnswCommon
namespace ILV.Drv.C25
def handlers : List (String × ILV.Handler) := [("c25.hist", ILV.Drv.Hnsw.histHandler false true)]
end ILV.Drv.C25
