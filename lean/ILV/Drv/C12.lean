/-
  C12 driver. Model: the storage model run with the real batch codec and the WAL codec extended by the
  request's serde_json table (values whose JSON image differs from the value, or whose line cannot be
  read back). Spec: after every restart each relation holds exactly the tuples it held before — same
  values, same kinds (the wire form is kind-tagged and bit-exact) — and the reopen succeeds.
-/
import ILV.Drv.StoreRun
namespace ILV.Drv.C12
open ILV ILV.Batch ILV.Store ILV.Drv.StoreRun

/-- `wire>wire` / `wire>!` entries. -/
def parseTable (s : String) : Option (List (Value × Option Value)) :=
  if s == "-" then some [] else
  optMapM (fun (e : String) => match e.splitOn ">" with
    | [a, b] => match Value.ofWire a with
      | none => none
      | some v => if b == "!" then some (v, none) else (Value.ofWire b).map (fun w => (v, some w))
    | _ => none) (s.splitOn "+")

def tableGet (tab : List (Value × Option Value)) (v : Value) : Option (Option Value) :=
  (tab.find? (fun p => decide (p.1 = v))).map (·.2)

/-- the value as read back from its WAL line: the table entry if there is one, else `Batch.jsonSafe`. -/
def walValue (tab : List (Value × Option Value)) (v : Value) : Option Value :=
  match tableGet tab v with
  | some img => img
  | none => if jsonSafe v then some v else none

def walCodecWith (tab : List (Value × Option Value)) (u : Update) : Option Update :=
  (optMapM (walValue tab) u.data).map (fun t => { u with data := t })

def codecWith (tab : List (Value × Option Value)) : Codec := { wal := walCodecWith tab, batch := batchCodec }

/-! ### identifying predicates -/

/-- kind vector of a tuple (vector kinds carry their dimension). -/
def kindVec (t : Tuple) : List DType := t.map dataType

def ackTuples (r : String) : List (Op × String) → List Tuple
  | [] => []
  | (.ins r' ts, tok) :: rest => (if r' == r && (tok.startsWith "+" || tok.startsWith "err:arrow") then ts else []) ++ ackTuples r rest
  | (.del r' ts, tok) :: rest => (if r' == r && (tok.startsWith "-" || tok.startsWith "err:arrow") then ts else []) ++ ackTuples r rest
  | _ :: rest => ackTuples r rest

def mixedKinds (ts : List Tuple) : Bool :=
  match ts with
  | [] => false
  | t :: rest => rest.any (fun x => kindVec x != kindVec t)

/-- Spec-level bookkeeping of *flush units* of one relation: `buf` = acknowledged tuples not yet written
    to a batch file, `all` = everything acknowledged, `flag` = some batch file was written from tuples of
    differing kind vectors (one buffer flushed as a unit, or a compaction merging all batches). -/
structure Units where
  buf : List Tuple := []
  all : List Tuple := []
  flag : Bool := false

def Units.flush (u : Units) : Units := { u with flag := u.flag || mixedKinds u.buf, buf := [] }
def Units.add (bufSize : Nat) (u : Units) (ts : List Tuple) : Units :=
  let u1 := { u with buf := u.buf ++ ts, all := u.all ++ ts }
  if u1.buf.length ≥ bufSize then u1.flush else u1

/-- the flush units of relation `r` along the history prefix (immediate mode, no WAL limit: a buffer is
    flushed when it reaches `buffer_size`, by save / compact / shutdown, and by the replay at a restart). -/
def unitsOf (bufSize : Nat) (r : String) : Units → List (Op × String) → Units
  | u, [] => u
  | u, (.ins r' ts, tok) :: rest =>
    unitsOf bufSize r (if r' == r && (tok.startsWith "+" || tok.startsWith "err:arrow") then u.add bufSize ts else u) rest
  | u, (.del r' ts, tok) :: rest =>
    unitsOf bufSize r (if r' == r && (tok.startsWith "-" || tok.startsWith "err:arrow") then u.add bufSize ts else u) rest
  | u, (.save, _) :: rest | u, (.savekg, _) :: rest | u, (.restart, _) :: rest | u, (.shutdown, _) :: rest =>
    unitsOf bufSize r u.flush rest
  | u, (.compact, _) :: rest | u, (.compactIf _, _) :: rest =>
    let u1 := u.flush
    unitsOf bufSize r { u1 with flag := u1.flag || mixedKinds u1.all } rest
  | u, _ :: rest => unitsOf bufSize r u rest

/-- identifying predicate of the mixed-kinds family: tuples of differing kind vectors met **inside one
    batch file** before (or at) this restart. Kinds that merely differ between separately flushed
    batches are not covered — such data must survive. -/
def mixedInOneBatch (bufSize : Nat) (r : String) (seen : List (Op × String)) : Bool :=
  (unitsOf bufSize r {} (seen ++ [(Op.restart, "")])).flag

def hasNull (ts : List Tuple) : Bool := ts.any (fun t => t.any (fun v => v == Value.null))
def hasTs (ts : List Tuple) : Bool := ts.any (fun t => t.any (fun v => match v with | .ts _ => true | _ => false))
def hasEmptyVec (ts : List Tuple) : Bool := ts.any (fun t => t.any (fun v => match v with | .vec [] => true | .vec8 [] => true | _ => false))
def hasArity0 (ts : List Tuple) : Bool := ts.any (fun t => t.isEmpty)
def hasNonFinite (ts : List Tuple) : Bool := ts.any (fun t => t.any (fun v => !jsonSafe v))
def hasInexact (tab : List (Value × Option Value)) (ts : List Tuple) : Bool :=
  ts.any (fun t => t.any (fun v => match tableGet tab v with | some (some w) => w != v | _ => false))

/-- class of a failure concerning relation `r`, from the tuples its log received. Most specific first. -/
def relClass (tab : List (Value × Option Value)) (mixed : Bool) (ts : List Tuple) : String :=
  if mixed then "mixed_kinds_in_column"
  else if hasNonFinite ts then "nonfinite_float_wal_line"
  else if hasInexact tab ts then "float_json_roundtrip"
  -- repaired families, kept as named regression classes (none of them is a known finding any more)
  else if hasArity0 ts then "zero_arity_tuple"
  else if hasNull ts then "null_typed_column"
  else if hasEmptyVec ts then "empty_vector_column"
  else if hasTs ts then "timestamp_retyped_int64"
  else "unclassified"

def relsOf (seen : List (Op × String)) : List String :=
  dedupBy (· == ·) (seen.filterMap (fun p => match p.1 with | .ins r _ => some r | .del r _ => some r | _ => none))

structure Mismatch where
  cls : String
  detail : String

def sameMultiset (a b : List String) : Bool := sortBy strLe a == sortBy strLe b

def judgeRestart (tab : List (Value × Option Value)) (bufSize : Nat) (seen : List (Op × String)) (idx : Nat) (tok : String) : List Mismatch :=
  match parseRestartTok tok with
  | none => [⟨"unclassified", s!"unparsable-restart-token@{idx}"⟩]
  | some (_, none) =>
    -- the reopen failed: blame the first relation whose log explains it
    let cs := ((relsOf seen).map (fun r => relClass tab (mixedInOneBatch bufSize r seen) (ackTuples r seen))).filter (fun c =>
      c == "zero_arity_tuple" || c == "mixed_kinds_in_column" || c == "null_typed_column" || c == "empty_vector_column")
    [⟨cs.headD "unclassified", s!"reopen-failed@{idx}"⟩]
  | some (pre, some post) =>
    (pre.filterMap (fun (p : String × List String) =>
      let q := ((post.find? (fun x => x.1 == p.1)).map (·.2)).getD []
      if sameMultiset p.2 q then none
      else some ⟨relClass tab (mixedInOneBatch bufSize p.1 seen) (ackTuples p.1 seen), s!"changed@{idx}:{p.1}"⟩))

def judge (tab : List (Value × Option Value)) (bufSize : Nat) : List (Op × String) → List (Op × String) → Nat → List Mismatch
  | _, [], _ => []
  | seen, (o, tok) :: rest, i =>
    (match o with
      | .restart | .shutdown => if tok == "dead" then [] else judgeRestart tab bufSize seen.reverse i tok
      | _ => []) ++ judge tab bufSize ((o, tok) :: seen) rest (i + 1)

def spec (tab : List (Value × Option Value)) (bufSize : Nat) (ops : List Op) (impl : String) : String :=
  let toks := impl.splitOn " | "
  if toks.length != ops.length then (if ops.isEmpty then "na" else specFail "unclassified" "token-count")
  else
    let ms := judge tab bufSize [] (ops.zip toks) 0
    match ms.find? (fun m => m.cls == "unclassified") with
    | some m => specFail m.cls m.detail
    | none => match ms with
      | m :: _ => specFail m.cls m.detail
      | [] => if ops.any (fun o => match o with | .restart | .shutdown => true | _ => false) then specOk else "na"

def nontrivial : List Op → Bool → Bool
  | [], _ => false
  | .ins _ _ :: rest, _ => nontrivial rest true
  | .restart :: rest, w => w || nontrivial rest w
  | .shutdown :: rest, w => w || nontrivial rest w
  | _ :: rest, w => nontrivial rest w

def hist : Handler := fun args impl =>
  match args with
  | cfg :: tab :: rest =>
    match parseHist (cfg :: rest), parseTable tab with
    | some (c, ops), some t =>
      { model := histOutputWith (codecWith t) c ops, spec := spec t c.buffer ops impl, nt := nontrivial ops false }
    | _, _ => badReq
  | _ => badReq

def handlers : List (String × Handler) := [("c12.hist", hist)]

end ILV.Drv.C12
