import ILV.Drv.Common
import ILV.Model.SStep
/-
  C10 driver. Request/output grammar: harness/src/p/c10.rs.
  Spec (model-independent): persistent relations and every session are replayed sequentially as
  *sets* (each session is driven by one thread; persistent writes by one thread). A session query must
  equal the set-semantics answer over (some prefix state of the persistent writer) ∪ (the session's own
  facts at that point of its thread), with its own rules — never anything of another session.
-/
namespace ILV.Drv.C10
open ILV ILV.SStep

def dropStr (n : Nat) (s : String) : String := String.ofList (s.toList.drop n)

def parseRT (s : String) : Option (Nat × Nat) :=
  match s.splitOn "." with
  | [r, x] => match r.toNat?, x.toNat? with | some r, some x => some (r, x) | _, _ => none
  | _ => none

def parseOp (s : String) : Option Op :=
  match s.toList with
  | 'p' :: '+' :: r => (parseRT (String.ofList r)).map (fun (a, b) => Op.pIns a b)
  | 'p' :: '-' :: r => (parseRT (String.ofList r)).map (fun (a, b) => Op.pDel a b)
  | 's' :: k :: rest =>
    match (String.ofList [k]).toNat? with
    | none => none
    | some k =>
      match rest with
      | '+' :: r => (parseRT (String.ofList r)).map (fun (a, b) => Op.sIns k a b)
      | '-' :: r => (parseRT (String.ofList r)).map (fun (a, b) => Op.sRet k a b)
      | ['R'] => some (.sRule k)
      | ['C'] => some (.sClear k)
      | ['c'] => some (.qCount k)
      | 'q' :: r => (String.ofList r).toNat?.map (fun r => Op.qScan k r)
      | _ => none
  | _ => none

def parseProgs (s : String) : Option (List (List Op)) :=
  optMapM (fun p => if p == "-" then some [] else optMapM parseOp (p.splitOn ",")) (s.splitOn "/")
def parseSched (items : List String) : Option (List Nat) :=
  optMapM String.toNat? (items.filter (fun x => x != ";" && x != "" && x != "|"))

def sortNat (l : List Nat) : List Nat := sortBy (fun a b => decide (a ≤ b)) l
def ids (l : List Nat) : String := ".".intercalate (l.map toString)
def showOut : Out → String
  | .ok => "ok" | .n k => s!"n{k}" | .rows l => "r" ++ ids (sortNat l) | .err => "err"

structure Req where
  ns : Nat
  progs : List (List Op)
  sched : List Nat

def parseReq (args : List String) : Option Req :=
  match args with
  | s :: t :: items =>
    if !(s.startsWith "S=") || !(t.startsWith "T=") then none else
    match (dropStr 2 s).toNat?, parseProgs (dropStr 2 t), parseSched items with
    | some ns, some p, some sc => some { ns := ns, progs := p, sched := sc }
    | _, _, _ => none
  | _ => none

def Req.full (r : Req) : List Nat :=
  r.sched ++ completeSched (4 * (r.progs.map List.length).sum + 1) (lastState (init r.progs) r.sched)

def showSess (s : Sess) : String :=
  let fs := (List.range NREL).flatMap (fun r => (sortNat (s.facts r)).map (fun x => s!"r{r}.{x}"))
  s!"{if fs.isEmpty then "_" else ",".intercalate fs};{s.rules}"

def modelOut (r : Req) : String :=
  let fin := lastState (init r.progs) r.full
  let res := "/".intercalate ((List.range r.progs.length).map (fun t =>
    let d := (fin.threads t).done
    if d.isEmpty then "-" else ",".intercalate (d.map (fun e => showOut e.2))))
  let pers := ",".intercalate ((List.range NREL).map (fun rel => "r" ++ ids (sortNat (fin.pers rel))))
  let sess := if r.ns = 0 then "-" else " ".intercalate ((List.range r.ns).map (fun k => showSess (fin.sess k)))
  s!"res={res} fin={pers} | {sess}"

/-! ### Spec oracle -/
abbrev SetState := List (List Nat)       -- per relation, sorted distinct

def sIns (s : SetState) (r x : Nat) : SetState :=
  (List.range (max s.length (r + 1))).map (fun i => if i = r then sortNat (if (s.getD i []).contains x then s.getD i [] else x :: s.getD i []) else s.getD i [])
def sDel (s : SetState) (r x : Nat) : SetState :=
  (List.range (max s.length (r + 1))).map (fun i => if i = r then (s.getD i []).filter (· != x) else s.getD i [])

/-- all prefix states of the persistent operations (in program order of each thread, threads concatenated
    per their own order — the generator uses one persistent writer) -/
def persPrefixStates (progs : List (List Op)) : List SetState :=
  let pops := progs.flatMap (fun p => p.filter (fun o => match o with | .pIns _ _ => true | .pDel _ _ => true | _ => false))
  (List.range (pops.length + 1)).map (fun k => (pops.take k).foldl (fun s o => match o with
    | .pIns r x => sIns s r x | .pDel r x => sDel s r x | _ => s) [])

def union (a b : List Nat) : List Nat := sortNat (a ++ b.filter (fun x => !a.contains x))

/-- does a count query in this request see a session fact that duplicates a persistent fact? -/
def dupUnderCount (progs : List (List Op)) : Bool :=
  let pIds := progs.flatMap (fun p => p.filterMap (fun o => match o with | .pIns 0 x => some x | _ => none))
  progs.any (fun p =>
    (p.foldl (fun (acc : List (Nat × Nat) × Bool) o => match o with
      | .sIns k 0 x => (if acc.1.contains (k, x) then acc.1 else (k, x) :: acc.1, acc.2)
      | .sRet k 0 x => (acc.1.filter (· != (k, x)), acc.2)
      | .qCount k => (acc.1, acc.2 || acc.1.any (fun e => e.1 == k && pIds.contains e.2))
      | _ => acc) ([], false)).2)

/-- no known defect class is left for C10 (the duplicate-under-count class is repaired) -/
def cls (_r : Req) : String := "unclassified"

def parseRows (s : String) : Option (List Nat) :=
  match s.toList with
  | 'r' :: rest => let t := String.ofList rest; if t.isEmpty then some [] else optMapM String.toNat? (t.splitOn ".")
  | _ => none

/-- check one thread's results against the sequential set semantics of its own sessions -/
def checkThread (prefixes : List SetState) (prog : List Op) (res : List String) : Option String :=
  let step := fun (acc : (List (Nat × SetState × Nat)) × Option String) (e : Op × String) =>
    -- acc.1 : per session (id, facts, #rules)
    let sessOf := fun (k : Nat) => (acc.1.find? (fun s => s.1 == k)).getD (k, [], 0)
    let put := fun (k : Nat) (f : SetState) (ru : Nat) => (k, f, ru) :: acc.1.filter (fun s => s.1 != k)
    match acc.2 with
    | some b => (acc.1, some b)
    | none =>
      match e.1 with
      | .sIns k r x =>
        let s := sessOf k
        let had := (s.2.1.getD r []).contains x
        if e.2 != (if had then "n0" else "n1") then (acc.1, some "session-insert-count") else (put k (sIns s.2.1 r x) s.2.2, none)
      | .sRet k r x =>
        let s := sessOf k
        let had := (s.2.1.getD r []).contains x
        if e.2 != (if had then "n1" else "n0") then (acc.1, some "session-retract-count") else (put k (sDel s.2.1 r x) s.2.2, none)
      | .sRule k => let s := sessOf k; if e.2 != "ok" then (acc.1, some "session-rule") else (put k s.2.1 (s.2.2 + 1), none)
      | .sClear k => if e.2 != "ok" then (acc.1, some "session-clear") else (put k [] 0, none)
      | .pIns _ _ => (acc.1, if e.2 == "ok" then none else some "persistent-insert-failed")
      | .pDel _ _ => (acc.1, if e.2 == "ok" then none else some "persistent-delete-failed")
      | .qScan k r =>
        let s := sessOf k
        match parseRows e.2 with
        | none => (acc.1, some "query-failed")
        | some l => (acc.1, if prefixes.any (fun p => union (p.getD r []) (s.2.1.getD r []) == l) then none else some s!"scan-of-r{r}-in-session-{k}-is-not-persistent-prefix-plus-own-facts")
      | .qCount k =>
        let s := sessOf k
        match parseRows e.2 with
        | none => (acc.1, some "query-failed")
        | some l =>
          let ok := prefixes.any (fun p =>
            let u := union (p.getD 0 []) (s.2.1.getD 0 [])
            l == (if s.2.2 = 0 then [] else if u.isEmpty then [] else [u.length]))
          (acc.1, if ok then none else some s!"count-in-session-{k}-is-not-the-number-of-distinct-facts")
  ((prog.zip res).foldl step ([], none)).2

def specOf (r : Req) (impl : String) : String :=
  match impl.splitOn " fin=" with
  | [a, fin] =>
    let res := ((dropStr 4 a).splitOn "/").map (fun t => if t == "-" then [] else t.splitOn ",")
    if res.map List.length != r.progs.map List.length then specFail "unclassified" "missing-results" else
    let prefixes := persPrefixStates r.progs
    match ((r.progs.zip res).filterMap (fun (p, rs) => checkThread prefixes p rs)).head? with
    | some d => specFail (cls r) d
    | none =>
      -- (a) persistent state = persistent ops alone
      let expPers := ",".intercalate ((List.range NREL).map (fun rel => "r" ++ ids ((prefixes.getLastD []).getD rel [])))
      match fin.splitOn " | " with
      | [pers, _] => if pers == expPers then specOk else specFail (cls r) "persistent-facts-differ-from-the-persistent-operations-alone"
      | _ => specFail "unclassified" "unparsable-impl-output"
  | _ => specFail "unclassified" "unparsable-impl-output"

def isQuery : Op → Bool | .qScan _ _ => true | .qCount _ => true | _ => false

def run1 : Handler := fun args impl =>
  match parseReq args with
  | none => badReq
  | some r => { model := modelOut r, spec := specOf r impl,
                nt := r.progs.any (fun p => p.any isQuery) && (r.progs.filter (fun p => !p.isEmpty)).length ≥ 2 }

def handlers : List (String × Handler) := [("c10.run", run1)]

end ILV.Drv.C10
