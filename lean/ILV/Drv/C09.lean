import ILV.Drv.Common
import ILV.Model.RuleText
/-
  Driver for C09.  `c09.rt <xhex source> <AST prefix code…>`, `c09.e2e …` (same arguments),
  `c09.builtins`.  Prefix code (harness/src/p/c09.rs `wire_rule`):
    Rule  := R Atom n Lit^n            Atom := A xname n Term^n
    Lit   := P Atom | N Atom | M cmp Term Term
    Term  := C xfn n Term0^n | Term0
    Term0 := V xname | I int | F bits xtext | S xstr | B 0|1 | W | E AExpr | G xfn xvar | L n (bits xtext)^n
    AExpr := v xname | i int | f bits xtext | b op AExpr AExpr
-/
namespace ILV.Drv.C09
open ILV ILV.RText

def unx (s : String) : Option String :=
  match s.toList with
  | 'x' :: r => (hexToBytes (String.ofList r)).bind fun bs =>
      String.fromUTF8? (ByteArray.mk (bs.map (·.toUInt8)).toArray)
  | _ => none

def decFloat (b t jb jt : String) : Option FloatLit :=
  match hexToNat b, unx t with
  | some n, some s =>
    if jb == "-" then some ⟨n, s, none⟩
    else match hexToNat jb, unx jt with
      | some m, some u => some ⟨n, s, some (m, u)⟩
      | _, _ => none
  | _, _ => none

def decOp : String → Option AOp
  | "add" => some .add | "sub" => some .sub | "mul" => some .mul | "div" => some .div | "mod" => some .mod
  | _ => none

def decCmp : String → Option CmpOp
  | "eq" => some .eq | "ne" => some .ne | "lt" => some .lt | "le" => some .le | "gt" => some .gt | "ge" => some .ge
  | _ => none

abbrev P (α : Type) := List String → Option (α × List String)

def decArith : Nat → P AExpr
  | 0, _ => none
  | fuel + 1, ts =>
    match ts with
    | "v" :: n :: r => (unx n).map fun s => (.var s, r)
    | "i" :: n :: r => n.toInt?.map fun k => (.const k, r)
    | "f" :: b :: t :: jb :: jt :: r => (decFloat b t jb jt).map fun f => (.flt f, r)
    | "b" :: o :: r =>
      match decOp o with
      | some op =>
        match decArith fuel r with
        | some (l, r1) =>
          match decArith fuel r1 with
          | some (rr, r2) => some (.bin op l rr, r2)
          | none => none
        | none => none
      | none => none
    | _ => none

def decN {α} (p : P α) : Nat → P (List α)
  | 0, ts => some ([], ts)
  | n + 1, ts =>
    match p ts with
    | some (a, r) => (decN p n r).map fun (as, r') => (a :: as, r')
    | none => none

def decFloats : Nat → P (List FloatLit)
  | 0, ts => some ([], ts)
  | n + 1, b :: t :: jb :: jt :: r =>
    match decFloat b t jb jt with
    | some f => (decFloats n r).map fun (fs, r') => (f :: fs, r')
    | none => none
  | _, _ => none

def decTerm0 : P Term0 := fun ts =>
  match ts with
  | "V" :: n :: r => (unx n).map fun s => (.var s, r)
  | "I" :: n :: r => n.toInt?.map fun k => (.const k, r)
  | "F" :: b :: t :: jb :: jt :: r => (decFloat b t jb jt).map fun f => (.flt f, r)
  | "S" :: s :: r => (unx s).map fun x => (.str x, r)
  | "B" :: b :: r => some (.bool (b == "1"), r)
  | "W" :: r => some (.wild, r)
  | "E" :: r => (decArith (r.length + 1) r).map fun (e, r') => (.arith e, r')
  | "G" :: f :: v :: r => match unx f, unx v with
    | some f, some v => some (.agg f v, r)
    | _, _ => none
  | "L" :: n :: r => n.toNat?.bind fun k => (decFloats k r).map fun (fs, r') => (.vec fs, r')
  | _ => none

def decTerm : P Term := fun ts =>
  match ts with
  | "C" :: f :: n :: r =>
    match unx f, n.toNat? with
    | some f, some k => (decN decTerm0 k r).map fun (as, r') => (.call f as, r')
    | _, _ => none
  | _ => (decTerm0 ts).map fun (t, r) => (.base t, r)

def decAtom : P Atom := fun ts =>
  match ts with
  | "A" :: rel :: n :: r =>
    match unx rel, n.toNat? with
    | some rel, some k => (decN decTerm k r).map fun (as, r') => (⟨rel, as⟩, r')
    | _, _ => none
  | _ => none

def decLit : P BodyLit := fun ts =>
  match ts with
  | "P" :: r => (decAtom r).map fun (a, r') => (.pos a, r')
  | "N" :: r => (decAtom r).map fun (a, r') => (.neg a, r')
  | "M" :: c :: r =>
    match decCmp c with
    | some c =>
      match decTerm r with
      | some (l, r1) => (decTerm r1).map fun (rr, r2) => (.cmp l c rr, r2)
      | none => none
    | none => none
  | _ => none

def decRule (ts : List String) : Option Rule :=
  match ts with
  | "R" :: r =>
    match decAtom r with
    | some (h, n :: r1) =>
      match n.toNat? with
      | some k =>
        match decN decLit k r1 with
        | some (ls, []) => some ⟨h, ls⟩
        | _ => none
      | none => none
    | _ => none
  | _ => none

def xhexOf (s : String) : String := "x" ++ bytesToHex (strBytes s)

def verdictOf (orig : Rule) : Option Rule → String
  | none => "err"
  | some r => if r == orig then "same" else "diff"

def rtModel (r : Rule) : String :=
  s!"S={verdictOf r (viaSession r)} P={verdictOf r (viaPersistent r)} R={verdictOf r (viaRestart r)} T={xhexOf (render (printRule r))}"

/-- identifying predicate of the one defect family left: the catalog serialisation drops vector literals.
    (Repaired families — integral_float_literal, sci_tail_variable, atom_arg_ends_paren, the boolean / call
    part of serialize_drops_term, nonfinite_float_json, json_float_inexact — are `unclassified` again.) -/
def classOf (r : Rule) (path : String) : String :=
  if path != "S" && !r.serStable then "serialize_drops_term"
  else "unclassified"

/-- Spec: every path hands the engine the rule that was submitted.  A failure is attributed to a known
    defect family only where the model itself predicts that this path fails for this rule; a failure the
    model does not predict is `unclassified`. -/
def pathSpec (r : Rule) (path impl : String) (modelSame : Bool) : Option String :=
  if impl == path ++ "=same" then none
  else some (specFail (if modelSame then "unclassified" else classOf r path) s!"{impl}")

def rtSpec (r : Rule) (impl : String) : String :=
  match impl.splitOn " " with
  | [s, p, q, _] =>
    match pathSpec r "S" s (viaSession r == some r) with
    | some f => f
    | none =>
      match pathSpec r "P" p (viaPersistent r == some r) with
      | some f => f
      | none =>
        match pathSpec r "R" q (viaRestart r == some r) with
        | some f => f
        | none => specOk
  | _ => specFail "unclassified" ("unparsable-impl-output " ++ impl)

def interesting (r : Rule) : Bool :=
  !r.floats.isEmpty || r.body.any (fun l => match l with | .cmp _ _ _ => true | _ => false) ||
  (printRule r).any (fun t => match t with | .op _ | .str _ | .lb => true | _ => false)

def rt : Handler := fun args impl =>
  match args with
  | _src :: wire =>
    match decRule wire with
    | some r => { model := rtModel r, spec := rtSpec r impl, nt := interesting r }
    | none => badReq
  | _ => badReq

/-- end to end: the model predicts agreement of all paths when both round trips are the identity;
    otherwise it makes no prediction (answers may or may not coincide) and only the Spec judges. -/
def e2e : Handler := fun args impl =>
  match args with
  | _src :: wire =>
    match decRule wire with
    | some r =>
      let stable := viaSession r == some r && viaPersistent r == some r && viaRestart r == some r
      let spec :=
        if impl == "agree" then specOk
        else if impl.startsWith "differ:" then
          specFail (if stable then "unclassified" else classOf r "R") impl
        else specFail "unclassified" impl
      { model := if stable then "agree" else impl, spec := spec, nt := stable || impl != "agree" }
    | none => badReq
  | _ => badReq

def builtins : Handler := fun _ impl =>
  let m := joinWith "," (sortBy (fun a b => decide (a ≤ b)) builtinNames)
  { model := m, spec := if impl == m then specOk else specFail "unclassified" "builtin-table-differs", nt := true }

/-- `c09.lit <bits>`: what does the printed literal (`Display for Term`) re-parse as?  Since the printer
    uses `{:?}`: a float, for every finite value. -/
def lit : Handler := fun args impl =>
  match args with
  | [b] =>
    match hexToNat b with
    | some _ => { model := "float", spec := if impl == "float" then specOk else specFail "unclassified" ("float-literal-reparsed-as-" ++ impl), nt := true }
    | none => badReq
  | _ => badReq

/-- `c09.reject <source>`: sources with a non-finite float constant are not in the parser's image. -/
def reject : Handler := fun _ impl =>
  { model := "rejected", spec := if impl == "rejected" then specOk else specFail "unclassified" "non-finite-float-constant-accepted", nt := true }

def handlers : List (String × Handler) := [("c09.reject", reject), ("c09.rt", rt), ("c09.e2e", e2e), ("c09.builtins", builtins), ("c09.lit", lit)]

end ILV.Drv.C09
