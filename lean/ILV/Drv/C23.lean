/-
  C23 — why-not explanations are truthful.
  model = `explainWhyNot` (greedy first-match trace per clause, base data only, no derived data —
          exactly how `why_not_query` builds its context), whole explanation compared verbatim;
  spec  = the REAL explanation is decoded and judged against the perfect model (`pmEval`):
          a tuple no clause derives needs, for every clause, a reported blocker that holds
          (`blockerHolds`, ILV.Props.C23.blocker_sound); a tuple some clause derives must not have
          every clause reported blocked.
-/
import ILV.Drv.ProvShared
namespace ILV.Drv.C23
open ILV ILV.Prov ILV.Drv.Prov

structure Req where
  kg : KG
  rel : String
  target : Tuple

def parseReq (args : List String) : Option Req :=
  let (pre, items) := splitItems args
  match pre, parseKG items with
  | [rel, t], some kg => (Tuple.ofWire t).map (fun t => { kg := kg, rel := rel, target := t })
  | _, _ => none

def implExpl (impl : String) : Option (Option (List ClauseExpl)) :=
  match sections impl with
  | [_, _, e] => explOfWire e
  | _ => none

/-- the derived data the handler gave to the explanation (`D -`: none). -/
def implDerivedOpt (impl : String) : Option (Option DB) :=
  match sections impl with
  | _ :: d :: _ => if d == "D -" then some none else if d.startsWith "D " then (dbOfWire (d.drop 2).toString).map some else none
  | _ => none

/-- does the positive atom at body position `i` meet a variable that is still unbound when it is
    reached (so that the first match is a *choice*)? -/
def choiceBefore (r : Rule) (i : Nat) : Bool :=
  let rec go : List Lit → Nat → List String → Bool
    | [], _, _ => false
    | l :: ls, k, bound =>
      if k ≥ i then false else
      match l with
      | .pos a =>
        let vs := a.args.filterMap (fun | .var x => some x | _ => none)
        if vs.any (fun x => !bound.contains x) then true else go ls (k + 1) bound
      | _ => go ls (k + 1) bound
  go r.body 0 (r.head.args.filterMap (fun | .var x => some x | _ => none))

def blockerIdx : Blocker → Option Nat
  | .headMismatch => none
  | .atomFailed i _ _ => some i
  | .negSucceeded i _ _ => some i
  | .cmpFailed i => some i
  | .cmpError i => some i

/-- the one known defect family left, from the program and the offending clause report:
    `greedy_first_match`: the tuple is derived, yet every clause is reported blocked, the reported
    blocker sitting behind a positive atom that had to choose a binding (first match, no
    backtracking, why_not.rs `matches[0]`). (`derived_atom_invisible` and `neg_derived_invisible` are
    fixed; their witnesses are replayed from corpus/C23.) -/
def classify (_prog : Program) (r : Rule) (c : ClauseExpl) (fires : Bool) : String :=
  match c.blocker with
  | some b => if fires && choiceBefore r ((blockerIdx b).getD 0) then "greedy_first_match" else "unclassified"
  | none => "unclassified"

def judge (q : Req) (expl : Option (List ClauseExpl)) : String × Bool :=
  match pmEval q.kg.rules q.kg.base with
  | none => ("na", false)
  | some m =>
    match expl with
    | none => if hasRules q.kg.rules q.rel then (specFail "unclassified" "norules-for-relation-with-rules", false) else ("na", false)
    | some cs =>
      let clauses := q.kg.rules.filter (fun r => r.head.rel == q.rel)
      if truthful q.kg.rules q.kg.base m q.rel q.target cs &&
         cs.all (fun c => c.facts.all (fun f => memL f.2.1 (world q.kg.base m f.1))) then (specOk, true) else
      -- diagnostics and class of the failure
      if cs.length != clauses.length then (specFail "unclassified" "clause-count-differs", true) else
      let pairs := clauses.zip cs
      let anyFires := clauses.any (fun r => clauseFires q.kg.base m r q.target)
      if anyFires then
        -- derived: not every clause may be reported blocked
        if cs.all (fun c => c.blocker.isSome) then
          match pairs.find? (fun (r, _) => clauseFires q.kg.base m r q.target) with
          | some (r, c) => (specFail (classify q.kg.rules r c true) s!"derived-but-all-clauses-blocked:{q.rel}", true)
          | none => (specFail "unclassified" "derived-but-all-clauses-blocked", true)
        else (specFail "unclassified" "rejected", true)
      else
        -- not derived: every clause needs a blocker that holds, and the facts it lists must be true
        let bad := pairs.filterMap (fun (r, c) =>
          if !c.facts.all (fun f => memL f.2.1 (world q.kg.base m f.1)) then some ("unclassified", s!"listed-fact-false:{q.rel}") else
          match c.blocker with
          | none => some (classify q.kg.rules r c false, s!"underived-but-clause-unblocked:{q.rel}")
          | some b => if blockerHolds q.kg.base m r q.target c.bindings b then none
                      else some (classify q.kg.rules r c false, s!"blocker-does-not-hold:{q.rel}"))
        match bad with
        | [] => (specFail "unclassified" "rejected", true)
        | (cls, d) :: _ => (specFail cls d, true)

def whynot : Handler := fun args impl =>
  match parseReq args with
  | none => badReq
  | some q0 =>
    if !supportedReq q0.kg then { model := "unsupported", spec := "na", nt := false } else
    match implPerm impl, implDerivedOpt impl with
    | some perm, some dOpt =>
      match applyPerm q0.kg.rules perm with
      | none => { model := "bad-clause-order", spec := "na", nt := false }
      | some rules =>
        let q := { q0 with kg := { q0.kg with rules := rules } }
        let ctx : Ctx := { rules := rules, base := q.kg.base, derived := dOpt }
        let m := permWire perm ++ " | D " ++ (match dOpt with | some d => dbWire d | none => "-") ++ " | " ++
          explWire (explainWhyNot ctx q.rel q.target)
        match implExpl impl with
        | none => { model := m, spec := specFail "unclassified" "unparsable-impl-output", nt := false }
        | some e =>
          let (s, nt) := judge q e
          { model := m, spec := s, nt := nt }
    | _, _ => { model := impl, spec := "na", nt := false }

def handlers : List (String × Handler) := [("c23.whynot", whynot)]

end ILV.Drv.C23
