import ILV.Drv.Common
import ILV.Model.Persist
import ILV.Spec.C13
/-
  C13 driver.  Request: `c13.run <buffer_size> | item ; item ; …` with items
    i <kg>:<rel> <t,t,…> | d <kg>:<rel> <t,t,…> | X <kg>:<rel> | F <kg> | C      each optionally followed by `@<j>[c<keep><e|p|l|m>]`
    R                                                       crash between operations
    O @<j>[c<keep><f>]                                      the reopen after a crash crashes after its j-th step
  Output: one token per event — `ok/<steps>` `err/<steps>` for an operation, `!` for a crash,
  `[<relations>/<steps>]` for a successful reopen, `err:open-failed`.
  Spec: every reopen succeeds and serves the state of the acknowledged operations, or that plus the one in flight.
-/
namespace ILV.Drv.C13
open ILV ILV.FS ILV.Persist ILV.Spec.C13

def nameOfWire (s : String) : Name := strBytes s
def nameToWire (n : Name) : String := String.ofList (n.map Char.ofNat)

def natsOfWire (s : String) : Option (List Nat) := optMapM (fun x => x.toNat?) (s.splitOn ",")

def cutOfWire (s : String) : Option Cut :=
  -- c<keep><f>
  if !s.startsWith "c" then none else
  let body := (s.drop 1).toString
  let digits := (body.takeWhile Char.isDigit).toString
  let f := (body.drop digits.length).toString
  match digits.toNat? with
  | none => none
  | some k =>
    if f == "e" then some ⟨k, .clean⟩ else if f == "p" then some ⟨k, .part⟩
    else if f == "l" then some ⟨k, .nonl⟩ else if f == "m" then some ⟨k, .midchar⟩ else none

def crashOfWire (s : String) : Option (Nat × Option Cut) :=
  if !s.startsWith "@" then none else
  let body := (s.drop 1).toString
  let digits := (body.takeWhile Char.isDigit).toString
  let rest := (body.drop digits.length).toString
  match digits.toNat? with
  | none => none
  | some 0 => none
  | some j => if rest.isEmpty then some (j, none) else (cutOfWire rest).map (fun c => (j, some c))

def opOfWire : List String → Option EOp
  | ["i", r, ts] => (natsOfWire ts).map (fun l => .ins (nameOfWire r) l)
  | ["d", r, ts] => (natsOfWire ts).map (fun l => .del (nameOfWire r) l)
  | ["X", r] => some (.dropRel (nameOfWire r))
  | ["F", kg] => some (.flushAll (nameOfWire kg) [])   -- the shard order is read off the implementation's token (`fillOrd`)
  | ["C"] => some (.compactAll [])
  | _ => none

def itemOfWire (toks : List String) : Option HItem :=
  match toks with
  | ["R"] => some .restart
  | ["O", c] => (crashOfWire c).map (fun (j, cut) => .openCrash j cut [])
  | _ =>
    match toks.getLast? with
    | some l =>
      if l.startsWith "@" then
        match crashOfWire l, opOfWire toks.dropLast with
        | some (j, cut), some o => some (.opCrash o j cut)
        | _, _ => none
      else (opOfWire toks).map .op
    | none => none

def splitItems : List String → List String → List (List String) → List (List String)
  | [], cur, acc => (if cur.isEmpty then acc else cur.reverse :: acc).reverse
  | t :: ts, cur, acc =>
    if t == ";" then splitItems ts [] (if cur.isEmpty then acc else cur.reverse :: acc)
    else splitItems ts (t :: cur) acc

def parseReq (args : List String) : Option (Nat × List HItem) :=
  match args with
  | b :: "|" :: rest => match b.toNat?, optMapM itemOfWire (splitItems rest [] []) with
    | some b, some h => some (b, h)
    | _, _ => none
  | [b] => b.toNat?.map (fun b => (b, []))
  | _ => none

def lblChar : Lbl → Char
  | .persistNewMkdir => 'a' | .walNewMkdir => 'b'
  | .orphansUnlinkBatch => 'c' | .orphansUnlinkTmp => 'd' | .orphansDirsync => 'e'
  | .metaTmpwrite => 'f' | .metaFsync => 'g' | .metaRename => 'h'
  | .batchTmpwrite => 'i' | .batchFsync => 'j' | .batchRename => 'k'
  | .compactUnlinkOld => 'l' | .compactDirsync => 'm'
  | .deleteUnlinkBatch => 'n' | .deleteDirsyncBatches => 'o' | .deleteUnlinkMeta => 'p' | .deleteDirsyncShards => 'q'
  | .walOpen => 'r' | .walAppendWrite => 's' | .walAppendFsync => 't' | .walSyncWrite => 'u' | .walSyncFsync => 'v'
  | .walRewriteUnlink => 'w' | .walRewriteTmpwrite => 'x' | .walRewriteFsync => 'y' | .walRewriteRename => 'z'
  | .walArchivesUnlinkNew => 'A'

def renderSteps (l : List Lbl) : String := if l.isEmpty then "-" else String.ofList (l.map lblChar)

def renderVis (v : List (Name × List Nat)) : String :=
  if v.isEmpty then "-" else
  ";".intercalate (v.map (fun e => nameToWire e.1 ++ "=" ++ ".".intercalate (e.2.map toString)))

def renderOrd (l : List Name) : String := "+".intercalate (l.map nameToWire)

def renderOut : Out → String
  | .ack ok s ord => (if ok then "ok/" else "err/") ++ renderSteps s ++ (if ord.isEmpty then "" else "/" ++ renderOrd ord)
  | .crashed ord => "!" ++ renderOrd ord
  | .opened v s => "[" ++ renderVis v ++ "/" ++ renderSteps s ++ "]"
  | .openFailed => "err:open-failed"

/-! ### identifying predicates of the known defect families (all computed from the request) -/

/-- steps of `o` from world `w`, as labels -/
def stepsOf (b : Nat) (w : World) (o : EOp) : List Lbl := (runOp b w o).trace.map (·.1)

/-- crash inside a flush after the shard metadata was renamed into place and before the WAL rewrite finished:
    index (1-based) window of a step list. -/
def inMetaWalWindow (steps : List Lbl) (j : Nat) : Bool :=
  -- some metaRename at position p ≤ j such that no walRewriteUnlink / walRewriteRename lies in (p, j], and the
  -- flush did write a batch before (batchRename somewhere before p)
  let pre := steps.take j
  match pre.reverse.span (fun l => l != .walRewriteUnlink && l != .walRewriteRename) with
  | (tail, _) => tail.contains .metaRename && (tail.contains .batchRename)

structure Track where
  spec : SpecSt := []
  pendingNew : Option SpecSt := none      -- state if the operation in flight took effect
  c11 : Bool := false
  doubled : Bool := false                 -- an earlier crash fell into a flush's meta→WAL window
  tornHit : Bool := false                 -- an acknowledged append went into a WAL that still holds a torn fragment
  cur : String := ""                      -- class of the crash that led to the next reopen ("" = none)

def Track.cls (tr : Track) : String :=
  if tr.cur != "" then tr.cur
  else if tr.doubled then "flush_crash_between_meta_and_wal"
  else if tr.tornHit then "wal_append_after_torn_tail"
  else "unclassified"

def cutClass (steps : List Lbl) (j : Nat) (cut : Option Cut) : Option String :=
  match cut, steps[j - 1]? with
  | some c, some .walAppendWrite =>
    if c.frag == .midchar then some "torn_wal_append_midchar" else some "torn_wal_append"
  | _, _ => none

/-- expectation attached to an output token: allowed states / class / abstain for reopen tokens. -/
structure Ann where
  exp : Option (List SpecSt × String × Bool) := none

def Track.expect (tr : Track) : Ann := { exp := some (tr.spec :: tr.pendingNew.toList, tr.cls, tr.c11) }

def hasTorn (d : Disk) : Bool :=
  match get d .wal with
  | some f => f.items.any (fun i => match i with | .torn _ _ => true | _ => false)
  | none => false

/-- walk the history with the model, attaching the Spec's expectation to every reopen token. -/
def annotate (b : Nat) (sys : Sys) (tr : Track) : List HItem → List (Out × Ann)
  | [] => (bringUp sys).1.map (fun o => (o, tr.expect))
  | it :: rest =>
    match sys, it with
    | .down d, .openCrash j cut ord =>
      match openEngine d ord with
      | none => [(.openFailed, tr.expect)]
      | some w =>
        let steps := w.trace.map (·.1)
        let win := inMetaWalWindow steps j
        (.crashed (metaOrder w.trace), {}) :: annotate b (.down (imageAt d w.trace j cut)) { tr with doubled := tr.doubled || win } rest
    | _, _ =>
      match bringUp sys with
      | (outs, none) => outs.map (fun o => (o, tr.expect))
      | (outs, some w) =>
        -- a successful reopen (if any) is judged against the pending expectation, then adopted
        let judged := outs.map (fun o => (o, tr.expect))
        let tr := match outs with
          | [.opened v _] => { tr with spec := v, pendingNew := none, cur := "" }
          | _ => tr
        match it with
        | .op o =>
          let w' := runOp b w o
          let appends := match o with | .ins _ _ => true | .del _ _ => true | _ => false
          let tr := { tr with c11 := tr.c11 || c11Shape tr.spec o,
                              tornHit := tr.tornHit || (appends && hasTorn w.disk && !w'.failed),
                              spec := if w'.failed then tr.spec else specApply tr.spec o }
          judged ++ (.ack (!w'.failed) (w'.trace.map (·.1)) (loopOrder o w'.trace), {}) :: annotate b (.up w') tr rest
        | .opCrash o j cut =>
          let w' := runOp b w o
          let steps := w'.trace.map (·.1)
          let win := inMetaWalWindow steps j
          let cur := match cutClass steps j cut with
            | some c => c
            | none => match o with
              | .dropRel _ => if j < steps.length then "crash_inside_delete_shard" else ""
              | _ => ""
          let appends := match o with | .ins _ _ => true | .del _ _ => true | _ => false
          let tr := { tr with pendingNew := some (specApply tr.spec o), c11 := tr.c11 || c11Shape tr.spec o,
                              tornHit := tr.tornHit || (appends && hasTorn w.disk),
                              doubled := tr.doubled || win, cur := cur }
          judged ++ (.crashed (loopOrder o w'.trace), {}) :: annotate b (.down (imageAt w.disk w'.trace j cut)) tr rest
        | .restart => judged ++ (.crashed [], {}) :: annotate b (.down (crash w.disk noCut)) tr rest
        | .openCrash _ _ _ => judged ++ (.crashed [], {}) :: annotate b (.down (crash w.disk noCut)) tr rest

def judge (ann : List (Out × Ann)) (impl : List String) : String :=
  if ann.length != impl.length then specFail "unclassified" "output-shape" else
  let verdicts := (ann.zip impl).filterMap (fun ((o, a), tok) =>
    match o, a.exp with
    | .opened _ _, some (allowed, cls, abstain) =>
      if tok == "err:open-failed" then some (specFail cls "recovery-failed")
      else
        let vis := (((tok.drop 1).dropEnd 1).toString.splitOn "/").headD ""
        if allowed.any (fun s => renderVis s == vis) then none
        else if abstain then some "na"
        else some (specFail cls "recovered-state-not-between-acked-and-attempted")
    | .openFailed, some (_, cls, _) =>
      if tok == "err:open-failed" then some (specFail cls "recovery-failed")
      else none      -- model says unopenable but the code opened: the correspondence reports it
    | _, _ => none)
  match verdicts.find? (· != "na") with
  | some v => v
  | none => if verdicts.isEmpty then specOk else "na"

/-- shard order observed by the implementation: `ok/<steps>/<r+s>` or `!<r+s>`. -/
def ordOfTok (tok : String) : List Name :=
  let o := if tok.startsWith "!" then (tok.drop 1).toString
           else match tok.splitOn "/" with
             | [_, _, o] => o
             | _ => ""
  if o.isEmpty || o == "-" then [] else (o.splitOn "+").map nameOfWire

def withOrd (ord : List Name) : HItem → HItem
  | .op (.flushAll kg _) => .op (.flushAll kg ord)
  | .op (.compactAll _) => .op (.compactAll ord)
  | .opCrash (.flushAll kg _) j c => .opCrash (.flushAll kg ord) j c
  | .opCrash (.compactAll _) j c => .opCrash (.compactAll ord) j c
  | x => x

/-- the iteration order of every multi-shard loop is a schedule parameter of the model; it is read off the
    implementation's own tokens (walking the tokens in lockstep with the model). -/
def fillOrd (b : Nat) : Sys → List HItem → List String → List HItem
  | _, [], _ => []
  | sys, it :: rest, toks =>
    match sys, it with
    | .down d, .openCrash j cut _ =>
      let ord := ordOfTok (toks.headD "")
      match openEngine d ord with
      | none => .openCrash j cut ord :: rest
      | some w => .openCrash j cut ord :: fillOrd b (.down (imageAt d w.trace j cut)) rest (toks.drop 1)
    | _, _ =>
      match bringUp sys with
      | (_, none) => it :: rest
      | (outs, some w) =>
        let toks := toks.drop outs.length
        let it' := withOrd (ordOfTok (toks.headD "")) it
        let sys' : Sys := match it' with
          | .op o => .up (runOp b w o)
          | .opCrash o j cut => .down (imageAt w.disk (runOp b w o).trace j cut)
          | _ => .down (crash w.disk noCut)
        it' :: fillOrd b sys' rest (toks.drop 1)

def run : Handler := fun args impl =>
  match parseReq args with
  | none => badReq
  | some (b, h) =>
    let toks := impl.splitOn " "
    let h := fillOrd b (.up {}) (h ++ [.restart]) toks
    let ann := annotate b (.up {}) {} h
    let outs := runItems b (.up {}) h          -- = Persist.run b (the history without the final restart)
    if ann.map (·.1) != outs then { model := " ".intercalate (outs.map renderOut), spec := specFail "unclassified" "driver-annotate-mismatch", nt := false } else
    let nt := ann.any (fun (o, _) => match o with
      | .opened v _ => !v.isEmpty
      | .openFailed => true
      | .ack true (_ :: _) _ => true
      | _ => false)
    { model := " ".intercalate (outs.map renderOut),
      spec := judge ann toks,
      nt := nt }

def handlers : List (String × Handler) := [("c13.run", run)]

end ILV.Drv.C13
