/-
  The executable instance of `FloatOps`: Lean's native `Float32` / `Float` (IEEE-754 binary32 /
  binary64 in hardware — the operations Rust's `f32`/`f64` compile to).  Only the driver uses it;
  no theorem mentions it.  Every field is compared with Rust's on sampled operands by `c26.law`.
-/
import ILV.Model.FloatOps
namespace ILV

def nativeFloat : FloatOps where
  F32 := Float32
  F64 := Float
  ofBits32 n := Float32.ofBits (UInt32.ofNat n)
  bits32 x := x.toBits.toNat
  ofBits64 n := Float.ofBits (UInt64.ofNat n)
  bits64 x := x.toBits.toNat
  add32 := (· + ·)
  sub32 := (· - ·)
  mul32 := (· * ·)
  div32 := (· / ·)
  abs32 := Float32.abs
  round32 := Float32.round
  sqrt32 := Float32.sqrt
  lt32 a b := decide (a < b)
  eq32 a b := a == b
  isNaN32 := Float32.isNaN
  isFin32 := Float32.isFinite
  toI8 x := x.toInt8.toInt
  ofInt32 := Float32.ofInt
  to64 := Float32.toFloat
  to32 := Float.toFloat32
  add64 := (· + ·)
  sub64 := (· - ·)
  mul64 := (· * ·)
  div64 := (· / ·)
  abs64 := Float.abs
  neg64 := Float.neg
  sqrt64 := Float.sqrt
  lt64 a b := decide (a < b)
  eq64 a b := a == b
  isNaN64 := Float.isNaN
  ofInt64 := Float.ofInt

end ILV
