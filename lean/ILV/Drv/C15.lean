import ILV.Drv.Common
import ILV.Model.PStep
/-
  C15 driver (persist level).
  request : c15.p B=<buffer_size> fine=<0|1> S=<#shards> pre=<#shards ensured up front> T=<programs> | t ; t ; t …
            programs: threads separated by `/`, operations by `,`;  a<shard>.<u>.<u>… = append, f<shard> = flush
            the items after `|` are the explicit schedule (thread ids); afterwards the harness completes
            with "lock holder first, else lowest unfinished thread".
  output  : blocked <k>
          | acks=<t0>/<t1>… c=<img0> <img1> … served=<per shard> shards=<present shards>
            <ti>  = `-` or `,`-joined `<step>:<ok|err>` (step = index of the step during which the call returned)
            <img> = per shard `r<ids>~w<ids>` joined by `|` : what a restart from a copy of the directory
                    taken after that many steps serves, and the ids found in the copy's WAL file
-/
namespace ILV.Drv.C15
open ILV ILV.PStep

def dropStr (n : Nat) (s : String) : String := String.ofList (s.toList.drop n)

def kv (key : String) (s : String) : Option String :=
  if s.startsWith (key ++ "=") then some (dropStr (key.length + 1) s) else none

def parseOp (s : String) : Option Op :=
  match s.toList with
  | 'f' :: r => (String.ofList r).toNat?.map Op.flush
  | 'a' :: r =>
    match (String.ofList r).splitOn "." with
    | sh :: us => match sh.toNat?, optMapM String.toNat? us with
      | some sh, some us => some (.append sh us)
      | _, _ => none
    | [] => none
  | _ => none

def parseProg (s : String) : Option (List Op) :=
  if s == "-" then some [] else optMapM parseOp (s.splitOn ",")

def parseProgs (s : String) : Option (List (List Op)) := optMapM parseProg (s.splitOn "/")

def parseSched (items : List String) : Option (List Nat) :=
  optMapM String.toNat? (items.filter (fun x => x != ";" && x != "" && x != "|"))

def ids (l : List Nat) : String := ".".intercalate (l.map toString)

def image (ns : Nat) (st : State) : String :=
  "|".intercalate ((List.range ns).map (fun s => s!"r{ids (recovered st s)}~w{ids (diskWal st s)}"))

def doneOf (st : State) (t : Nat) : List (Op × Bool) := (st.threads t).done

/-- acks with step indices, by watching `done` grow along the trace -/
def ackStepsAux (t : Nat) : List State → Nat → List (Nat × Op × Bool)
  | a :: b :: rest, k =>
    ((doneOf b t).drop (doneOf a t).length).map (fun d => (k, d.1, d.2)) ++ ackStepsAux t (b :: rest) (k + 1)
  | _, _ => []

def ackSteps (states : List State) (t : Nat) : List (Nat × Op × Bool) := ackStepsAux t states 0

def showAcks (l : List (Nat × Op × Bool)) : String :=
  if l.isEmpty then "-" else ",".intercalate (l.map (fun (k, _, ok) => s!"{k}:{if ok then "ok" else "err"}"))

structure Req where
  cfg : Cfg
  ns : Nat
  pre : Nat
  progs : List (List Op)
  sched : List Nat

def parseReq (args : List String) : Option Req :=
  match args with
  | b :: f :: s :: p :: t :: items =>
    match (kv "B" b).bind String.toNat?, (kv "fine" f).bind String.toNat?, (kv "S" s).bind String.toNat?,
          (kv "pre" p).bind String.toNat?, (kv "T" t).bind parseProgs, parseSched items with
    | some b, some f, some s, some p, some t, some sc =>
      some { cfg := { bufSize := b, fine := f != 0 }, ns := s, pre := p, progs := t, sched := sc }
    | _, _, _, _, _, _ => none
  | _ => none

def Req.init (r : Req) : State := PStep.init r.progs (List.range r.pre)

def Req.fuel (r : Req) : Nat := 4 * (r.progs.map List.length).sum + 4

/-- explicit schedule followed by the harness's completion order -/
def Req.full (r : Req) : Option (List Nat) :=
  match run r.cfg r.init r.sched with
  | .inr _ => none
  | .inl st => some (r.sched ++ completeSched r.cfg r.fuel st)

def presentShards (ns : Nat) (st : State) : String :=
  ids ((List.range ns).filter (fun s => (st.shards s).present))

def modelOut (r : Req) : String :=
  match run r.cfg r.init r.sched with
  | .inr k => s!"blocked {k}"
  | .inl st =>
    let full := r.sched ++ completeSched r.cfg r.fuel st
    let states := trace r.cfg r.init full
    let fin := states.getLastD r.init
    let acks := "/".intercalate ((List.range r.progs.length).map (fun t => showAcks (ackSteps states t)))
    let imgs := " ".intercalate (states.map (image r.ns))
    let served := "|".intercalate ((List.range r.ns).map (fun s => ids (served fin s)))
    s!"acks={acks} c={imgs} served={served} shards={presentShards r.ns fin}"

/-! ### Spec oracle, judged on the implementation's output

  durability : an append that returned Ok during step `j` is served by a restart from any copy of
               the directory taken after step `j` (images `j+1 …`).
  served     : once every thread has finished, `read(s)` = exactly the updates of the Ok appends. -/

def parseIds (s : String) : Option (List Nat) :=
  if s.isEmpty then some [] else optMapM String.toNat? (s.splitOn ".")

/-- image → per shard recovered ids -/
def parseImage (s : String) : Option (List (List Nat)) :=
  optMapM (fun part => match (dropStr 1 part).splitOn "~w" with
    | r :: _ => parseIds r
    | [] => none) (s.splitOn "|")

def parseAcks (s : String) : Option (List Nat) :=     -- step index per returned op (in program order)
  if s == "-" then some [] else optMapM (fun x => match x.splitOn ":" with
    | k :: _ => k.toNat?
    | [] => none) (s.splitOn ",")

def parseAckOks (s : String) : List Bool :=
  if s == "-" then [] else (s.splitOn ",").map (fun x => x.endsWith ":ok")

structure ImplOut where
  acks : List (List Nat)
  oks : List (List Bool)
  imgs : List (List (List Nat))
  served : List (List Nat)

def parseImpl (impl : String) : Option ImplOut :=
  match impl.splitOn " c=" with
  | [a, rest] =>
    match rest.splitOn " served=" with
    | [imgs, rest2] =>
      match rest2.splitOn " shards=" with
      | served :: _ =>
        let a := dropStr 5 a
        match optMapM parseAcks (a.splitOn "/"), optMapM parseImage (imgs.splitOn " "), optMapM parseIds (served.splitOn "|") with
        | some acks, some imgs, some sv => some { acks := acks, oks := (a.splitOn "/").map parseAckOks, imgs := imgs, served := sv }
        | _, _, _ => none
      | [] => none
    | _ => none
  | _ => none

def sortNat (l : List Nat) : List Nat := sortBy (fun a b => decide (a ≤ b)) l

/-- first lost update: (update, image index) -/
def firstLost (r : Req) (o : ImplOut) : Option (Nat × Nat) :=
  let checks : List (Nat × Nat) :=
    (List.range r.progs.length).flatMap (fun t =>
      let prog : List Op := r.progs.getD t []
      let acks := o.acks.getD t []
      let oks := o.oks.getD t []
      (List.range acks.length).flatMap (fun i =>
        match prog[i]?, acks[i]?, oks[i]? with
        | some (Op.append s us), some j, some true =>
          (List.range o.imgs.length).flatMap (fun k =>
            if k ≥ j + 1 then us.filterMap (fun u => if ((o.imgs.getD k []).getD s []).contains u then none else some (u, k)) else [])
        | _, _, _ => []))
  checks.head?

def expectedServed (r : Req) (o : ImplOut) (s : Nat) : List Nat :=
  sortNat ((List.range r.progs.length).flatMap (fun t =>
    let prog : List Op := r.progs.getD t []
    let oks := o.oks.getD t []
    (List.range prog.length).flatMap (fun i => match prog[i]?, oks[i]? with
      | some (Op.append s' us), some true => if s' = s then us else []
      | _, _ => [])))

def cls (r : Req) : String :=
  match r.full with
  | some full => if hazardous r.cfg r.init full then "flush_between_wal_append_and_buffer_push" else "unclassified"
  | none => "unclassified"

def specOf (r : Req) (impl : String) : String :=
  if impl.startsWith "blocked " then "na" else
  match parseImpl impl with
  | none => specFail "unclassified" ("unparsable-impl-output " ++ impl)
  | some o =>
    match firstLost r o with
    | some (u, k) => specFail (cls r) s!"acked-update-{u}-not-served-after-restart-from-image-{k}"
    | none =>
      match (List.range r.ns).find? (fun s => sortNat (o.served.getD s []) != expectedServed r o s) with
      | some s => specFail (cls r) s!"served-state-of-shard-{s}-is-not-the-set-of-acked-appends"
      | none => specOk

/-- non-trivial: some operation of one thread is interrupted by a step of another thread -/
def interrupted (cfg : Cfg) : State → List Nat → Option Nat → Bool
  | _, [], _ => false
  | st, t :: ts, prev =>
    let mid := decide (t < st.n) && (st.threads t).pc != .start && !(st.threads t).todo.isEmpty
    (mid && prev != some t && prev.isSome) ||
    match step cfg st t with
    | .ok st' => interrupted cfg st' ts (some t)
    | _ => interrupted cfg st ts prev

def run1 : Handler := fun args impl =>
  match parseReq args with
  | none => badReq
  | some r =>
    { model := modelOut r, spec := specOf r impl,
      nt := match r.full with
        | some full => interrupted r.cfg r.init full none
        | none => true }

def handlers : List (String × Handler) := [("c15.p", run1)]

end ILV.Drv.C15
