import ILV.Drv.Common
import ILV.Model.KStep
/-
  C17 driver.
  c17.h | item ; item ; …      sequential history with restarts (item syntax: harness/src/p/c17.rs)
  c17.s T=<programs> | t ; …   scheduled threads, then a restart
  Spec (independent of the model): a map  KG name ↦ (relation ↦ set of ids)  with the obvious
  create / drop / insert / delete; save and restart change nothing; an operation on a missing KG
  fails without any effect. For c17.s: some interleaving of the threads' operations (per-thread order
  kept) must explain all result codes, the live observation and the observation after restart.
-/
namespace ILV.Drv.C17
open ILV ILV.KStep

/-- wire form of names: `^xx` = one byte in hex; everything else is an ASCII byte standing for itself -/
def decName : List Char → Name
  | '^' :: a :: b :: rest =>
    match hexDigit a, hexDigit b with
    | some x, some y => Char.ofNat (x * 16 + y) :: decName rest
    | _, _ => '^' :: decName (a :: b :: rest)
  | c :: rest => c :: decName rest
  | [] => []
def nm (s : String) : Name := decName s.toList
def safeByte (c : Char) : Bool := c.isAlphanum || c == '.' || c == '_' || c == '-' || c == ':'
def str (n : Name) : String :=
  String.join (n.map (fun c => if safeByte c then String.singleton c else "^" ++ byteToHex c.toNat))

def parseItem (s : String) : Option Op :=
  match s.splitOn "," with
  | ["create", k] => some (.create (nm k))
  | ["drop", k] => some (.drop (nm k))
  | ["save", k] => some (.save (nm k))
  | ["restart"] => some .restart
  | ["ins", k, r, x] => x.toNat?.map (fun x => Op.ins (nm k) (nm r) x)
  | ["del", k, r, x] => x.toNat?.map (fun x => Op.del (nm k) (nm r) x)
  | _ => none

def showOut : Out → String
  | .ok => "ok" | .insd a b => s!"i{a}.{b}" | .deld n => s!"d{n}" | .nf => "nf" | .ex => "ex" | .inv => "inv" | .drp => "drp" | .dd => "dd"

def nameLe : Name → Name → Bool
  | [], _ => true
  | _ :: _, [] => false
  | a :: as, b :: bs => if a.toNat < b.toNat then true else if a.toNat > b.toNat then false else nameLe as bs

def sortNat (l : List Nat) : List Nat := sortBy (fun a b => decide (a ≤ b)) l

def showRels (rels : List (Name × List Nat)) : String :=
  let rs := sortBy (fun a b => nameLe a.1 b.1) (rels.filter (fun r => !r.2.isEmpty))
  ",".intercalate (rs.map (fun r => s!"{str r.1}={".".intercalate ((sortNat r.2).map toString)}"))

def showObs (kgs : List (Name × List (Name × List Nat))) : String :=
  if kgs.isEmpty then "-" else
  " ".intercalate ((sortBy (fun a b => nameLe a.1 b.1) kgs).map (fun k => s!"{str k.1}\{{showRels k.2}}"))

def obs (st : State) : String := showObs st.kgs

/-! ### model runs -/
def seqOp (st : State) (op : Op) : State × Out :=
  let st0 := { st with n := 1, threads := fun _ => { todo := [op] } }
  let st1 := lastState st0 (List.replicate 7 0)
  (st1, match (st1.threads 0).done.getLast? with | some d => d.2 | none => .ok)

def runH (ops : List Op) : List String × List String × State :=
  ops.foldl (fun (acc : List String × List String × State) op =>
    let (st', o) := seqOp acc.2.2 op
    (acc.1 ++ [showOut o], if op == .restart then acc.2.1 ++ [obs st'] else acc.2.1, st')) ([], [], fresh)

def modelH (ops : List Op) : String :=
  let (res, obss, st) := runH ops
  s!"{" ".intercalate res} # {" # ".intercalate (obss ++ [obs st])}"

def parseProgs (s : String) : Option (List (List Op)) :=
  optMapM (fun p => if p == "-" then some [] else optMapM parseItem (p.splitOn "+")) (s.splitOn "/")

def parseSched (items : List String) : Option (List Nat) :=
  optMapM String.toNat? (items.filter (fun x => x != ";" && x != "" && x != "|"))

def fullSched (progs : List (List Op)) (sched : List Nat) : List Nat :=
  sched ++ completeSched (7 * (progs.map List.length).sum + 1) (lastState (init progs) sched)

def modelS (progs : List (List Op)) (sched : List Nat) : String :=
  match blockedAt (init progs) sched 0 with
  | some k => s!"blocked {k}"
  | none =>
    let fin := lastState (init progs) (fullSched progs sched)
    let res := "/".intercalate ((List.range progs.length).map (fun t =>
      let d := (fin.threads t).done
      if d.isEmpty then "-" else ",".intercalate (d.map (fun e => showOut e.2))))
    s!"res={res} live={obs fin} restart={obs (restart fin)}"

/-! ### Spec -/
abbrev SKgs := List (Name × List (Name × List Nat))

def specOp (s : SKgs) : Op → SKgs × String
  | .create k => if !validName k then (s, "inv") else if (lookup k s).isSome then (s, "ex") else (s ++ [(k, [])], "ok")
  | .drop k => if k = defaultKg then (s, "dd") else if (lookup k s).isNone then (s, "nf") else (erase k s, "ok")
  | .save k => if (lookup k s).isNone then (s, "nf") else (s, "ok")
  | .restart => (s, "ok")
  | .ins k r x => match lookup k s with
    | none => (s, "nf")
    | some rels => let cur := (lookup r rels).getD []
      if cur.contains x then (s, "i0.1") else (put k (put r (cur ++ [x]) rels) s, "i1.0")
  | .del k r x => match lookup k s with
    | none => (s, "nf")
    | some rels => let cur := (lookup r rels).getD []
      if cur.contains x then (put k (put r (cur.filter (· != x)) rels) s, "d1") else (s, "d0")

def specInit : SKgs := [(defaultKg, [])]

/-- identifying predicates of the known defect families (syntactic, on the operations) -/
def writesOf (ops : List Op) : List (Name × Name) := ops.filterMap (fun o => match o with
  | .ins k r _ => some (k, r) | .del k r _ => some (k, r) | _ => none)
def hasColonKg (ops : List Op) : Bool := ops.any (fun o => match o with | .create k => k.contains ':' | _ => false)
def hasFileCollision (ops : List Op) : Bool :=
  let ws := writesOf ops
  ws.any (fun a => ws.any (fun b => a != b && shardFile a.1 a.2 == shardFile b.1 b.2))
/-- a delete addressed to a KG that does not exist at that moment (sequential histories) -/
def deleteOnMissing (ops : List Op) : Bool :=
  (ops.foldl (fun (acc : SKgs × Bool) o =>
    let hit := match o with | .del k _ _ => (lookup k acc.1).isNone | _ => false
    ((specOp acc.1 o).1, acc.2 || hit)) (specInit, false)).2

/-- the one defect family left in place: colliding metadata file names (`sanitize_name`) -/
def clsH (ops : List Op) : String :=
  if hasFileCollision ops then "shard_file_name_collision" else "unclassified"

def specH (ops : List Op) (impl : String) : String :=
  match impl.splitOn " # " with
  | resS :: obsS =>
    let res := resS.splitOn " "
    let (expRes, expObs, s) := ops.foldl (fun (acc : List String × List String × SKgs) o =>
      let (s', r) := specOp acc.2.2 o
      (acc.1 ++ [r], if o == .restart then acc.2.1 ++ [showObs s'] else acc.2.1, s')) ([], [], specInit)
    if res != expRes then specFail (clsH ops) "result-codes-differ-from-the-sequential-spec"
    else if obsS != expObs ++ [showObs s] then specFail (clsH ops) "observed-knowledge-graphs-differ-from-the-sequential-spec"
    else specOk
  | [] => specFail "unclassified" "unparsable-impl-output"

/-- all interleavings of the threads' operation lists (per-thread order kept), operations tagged with their thread -/
def interleave : Nat → List (List Op) → List (List (Nat × Op))
  | 0, _ => [[]]
  | fuel + 1, ps =>
    if ps.all List.isEmpty then [[]] else
    (List.range ps.length).flatMap (fun t => match ps.getD t [] with
      | [] => []
      | o :: rest => (interleave fuel (ps.set t rest)).map (fun l => (t, o) :: l))

/-- does the serial order explain the observed result codes? A `create` may also be refused with
    `drp` ("is being dropped", no effect) when some thread drops the same KG. -/
def explains (progs : List (List Op)) (order : List (Nat × Op)) (obsRes : List (List String)) : Option SKgs :=
  let dropsOf := fun (k : Name) => progs.any (fun p => p.contains (.drop k))
  let r := order.foldl (fun (acc : Option (SKgs × List Nat)) e =>
    match acc with
    | none => none
    | some (s, pos) =>
      let i := pos.getD e.1 0
      let seen := (obsRes.getD e.1 []).getD i "?"
      let pos' := pos.set e.1 (i + 1)
      let (s', code) := specOp s e.2
      if seen == code then some (s', pos')
      else match e.2 with
        | .create k => if seen == "drp" && dropsOf k then some (s, pos') else none
        | _ => none) (some (specInit, List.replicate progs.length 0))
  r.map (·.1)

def parseRes (r : String) : List (List String) :=
  (r.splitOn "/").map (fun t => if t == "-" then [] else t.splitOn ",")

/-- no known defect class is left for scheduled runs (drop races and the metadata race are repaired) -/
def clsS (_progs : List (List Op)) (_sched : List Nat) : String := "unclassified"

def specS (progs : List (List Op)) (sched : List Nat) (impl : String) : String :=
  if impl.startsWith "blocked" then "na" else
  match impl.splitOn " live=" with
  | [r, rest] => match rest.splitOn " restart=" with
    | [live, after] =>
      let res := parseRes (String.ofList (r.toList.drop 4))
      let nops := (progs.map List.length).sum
      let finals := (interleave nops progs).filterMap (fun order => explains progs order res)
      if (res.map List.length) != progs.map List.length then specFail "unclassified" "missing-results"
      else if finals.any (fun s => showObs s == live && showObs s == after) then specOk
      else if finals.any (fun s => showObs s == live)
        then specFail (clsS progs sched) "state-after-restart-differs-from-every-serial-execution"
      else specFail (clsS progs sched) "results-and-live-state-match-no-serial-execution"
    | _ => specFail "unclassified" "unparsable-impl-output"
  | _ => specFail "unclassified" "unparsable-impl-output"

def hist : Handler := fun args impl =>
  match args with
  | "|" :: items =>
    match optMapM parseItem ((" ".intercalate items).splitOn " ; ") with
    | some ops => { model := modelH ops, spec := specH ops impl, nt := ops.contains .restart && !(writesOf ops).isEmpty }
    | none => badReq
  | _ => badReq

def sched : Handler := fun args impl =>
  match args with
  | t :: items =>
    if !t.startsWith "T=" then badReq else
    match parseProgs (String.ofList (t.toList.drop 2)), parseSched items with
    | some progs, some sc => { model := modelS progs sc, spec := specS progs sc impl, nt := progs.length ≥ 2 }
    | _, _ => badReq
  | _ => badReq

def handlers : List (String × Handler) := [("c17.h", hist), ("c17.s", sched)]

end ILV.Drv.C17
