/-
  C14 driver. A request is a history with maintenance items under some configuration; the harness (and
  the model) run it and its *twin* — the same items without save / savekg / compact / compactif / files,
  under `buffer 10000, no WAL limit, immediate`. Spec: the two runs give the same answer to every write,
  the same observations, and the same state after every clean shutdown.
-/
import ILV.Drv.StoreRun
namespace ILV.Drv.C14
open ILV ILV.Batch ILV.Store ILV.Drv.StoreRun

def isMaintenance : Op → Bool
  | .save | .savekg | .compact | .compactIf _ | .files => true
  | _ => false

def refCfg : Cfg := { buffer := 10000, walMax := 0, mode := .immediate }

def pairOutput (cfg : Cfg) (ops : List Op) : String :=
  histOutput cfg ops ++ " || " ++ histOutput refCfg (ops.filter (fun o => !isMaintenance o))

/-- drop the `pre=` part of a shutdown token that only differs by arity bookkeeping? no: keep all. -/
def spec (ops : List Op) (impl : String) : String :=
  match impl.splitOn " || " with
  | [a, b] =>
    let ta := a.splitOn " | "
    let tb := b.splitOn " | "
    if ta.length != ops.length then specFail "unclassified" "token-count"
    else
      let kept := ((ops.zip ta).filter (fun p => !isMaintenance p.1)).map (·.2)
      let bad := (ops.zip ta).filter (fun p => isMaintenance p.1 && p.2.startsWith "err")
      if !bad.isEmpty then specFail "unclassified" "maintenance-operation-failed"
      else if kept.length != tb.length then specFail "unclassified" "twin-token-count"
      else match ((kept.zip tb).zipIdx).find? (fun p => p.1.1 != p.1.2) with
        | some p => specFail "unclassified" s!"differs-from-twin@{p.2}"
        | none => if ops.any isMaintenance then specOk else "na"
  | _ => specFail "unclassified" "unparsable-output"

def nontrivial (ops : List Op) : Bool :=
  ops.any (fun o => match o with | .save | .savekg | .compact | .compactIf _ => true | _ => false) &&
  ops.any (fun o => match o with | .ins _ _ | .del _ _ => true | _ => false)

def pair : Handler := fun args impl =>
  match parseHist args with
  | none => badReq
  | some (cfg, ops) => { model := pairOutput cfg ops, spec := spec ops impl, nt := nontrivial ops }

def handlers : List (String × Handler) := [("c14.pair", pair)]

end ILV.Drv.C14
