import ILV.Drv.C02
import ILV.Model.IRBuild
import ILV.Model.AggSpec
namespace ILV.Drv.C06
open ILV ILV.DL ILV.Engine ILV.IR ILV.AggSpec

def parseRuleOnly (args : List String) : Option Rule :=
  match args with
  | "|" :: items => match parseItems (items.filter (· != ";")) [] [] with
    | some (_, [r]) => some r
    | _ => none
  | _ => none

def buildH : Handler := fun args _impl =>
  match parseRuleOnly args with
  | some r =>
    match IRBuild.buildRule r with
    | some t => { model := t.wire, spec := specOk, nt := r.hasAgg }
    | none => { model := "err:build", spec := "na", nt := false }
  | none => badReq

def maskOf (s : String) : Option (List Bool) :=
  if s.length == 5 then some (s.toList.map (· == '1')) else none

/-- sum values whose partial sums can leave the i64 range although (or before) the total fits -/
def bigValues (db : DB) : Bool :=
  db.any (fun rt => rt.2.any (fun t => t.any (fun v => match v with | .i64 n => n ≥ 2^62 || n ≤ -(2^62 : Int) | _ => false)))

def classify (m : List Bool) (db : DB) (r : Rule) : String :=
  let sip := m.getD 1 false
  if sip && r.posAtoms.length ≥ 2 && r.posAtoms.any C02.atomHasNonVarColumn then "sip_drops_columns_under_aggregate"
  else if C02.hasRepeatedVarAtom [r] then "repeated_variable_in_atom"
  else if r.hargs.any (fun | .agg .sum _ => true | .agg .avg _ => true | _ => false) && bigValues db then "sum_partial_saturation"
  else "unclassified"

def runH : Handler := fun args impl =>
  match args with
  | mask :: rest =>
    match maskOf mask, (match rest with | "|" :: items => parseItems (items.filter (· != ";")) [] [] | _ => none) with
    | some m, some (db, [r]) =>
      let modelled := !(m.getD 0 false || m.getD 1 false || m.getD 2 false || m.getD 4 false)
      let model :=
        if !modelled then impl
        else if !r.isSafe then "err:range"
        else match IRBuild.buildRule r with
          | some t => relWire (answer db (pipe (m.getD 3 false) t))
          | none => "err:build"
      match specAnswer db r with
      | none => { model := model, spec := "na", nt := false }
      | some want =>
        let w := relWire (dedupT want)
        let sv := if impl.startsWith "err:" then "na"   -- a rejected rule has no aggregate values to judge
                  else if impl == w then specOk else specFail (classify m db r) s!"want={w}"
        { model := model, spec := sv, nt := !want.isEmpty }
    | _, _ => badReq
  | [] => badReq

def handlers : List (String × Handler) := [("c06.build", buildH), ("c06.run", runH)]

end ILV.Drv.C06
