import ILV.Drv.EStepIO
/-
  C19 driver: model output = EStep run with the incremental engine on; Spec: every consistent read
  (thread-issued, and the final one per relation) returns exactly the facts the engine serves for
  that relation at that moment (the published snapshot at the boundary where the read ran).
  Known-finding class, computed by the model from programs + schedule: some in-memory apply carries a
  logical time below the input-session time of its relation (the worker's `update_at` assertion).
-/
namespace ILV.Drv.C19
open ILV ILV.EStep ILV.Drv.EStepIO

def cls (r : Req) : String :=
  match (lastState r.init r.full).inc with
  | some i => if i.dead then "apply_time_below_incremental_frontier" else "unclassified"
  | none => "unclassified"

def firstBad (r : Req) (im : Impl) : Option String :=
  let perThread := (List.range r.progs.length).filterMap (fun t =>
    let prog : List Op := r.progs.getD t []
    let res := im.res.getD t []
    ((List.range prog.length).filterMap (fun k =>
      match prog[k]?, res[k]? with
      | some (Op.readc rel), some (ack, IOut.rows l) =>
        if sortNat ((im.obs.getD ack []).getD rel []) == l then none else some s!"read-of-r{rel}-at-step-{ack}-differs-from-served-facts"
      | some (Op.readc rel), some (ack, _) => some s!"read-of-r{rel}-at-step-{ack}-failed"
      | some (Op.insert rel _), some (ack, IOut.err) => some s!"insert-into-r{rel}-failed-at-step-{ack}"
      | some (Op.delete rel _), some (ack, IOut.err) => some s!"delete-from-r{rel}-failed-at-step-{ack}"
      | _, _ => none)).head?)
  match perThread.head? with
  | some b => some b
  | none =>
    let last := im.obs.getLastD []
    ((List.range im.fin.length).filterMap (fun rel => match im.fin[rel]? with
      | some (IOut.rows l) => if sortNat (last.getD rel []) == l then none else some s!"final-read-of-r{rel}-differs-from-served-facts"
      | _ => some s!"final-read-of-r{rel}-failed")).head?

def specOf (r : Req) (impl : String) : String :=
  if !r.incOn then "na" else
  match parseImpl impl with
  | none => specFail "unclassified" ("unparsable-impl-output " ++ impl)
  | some im =>
    match im.dead with
    | some k => specFail (cls r) s!"incremental-worker-died-during-step-{k}-write-fails-or-hangs-holding-the-KG-lock"
    | none =>
    match firstBad r im with
    | some d => specFail (cls r) d
    | none => specOk

/-- non-trivial: at least one consistent read ran after at least one effective write -/
def nontrivial (r : Req) : Bool :=
  let fin := lastState r.init r.full
  !fin.applied.isEmpty

def run1 : Handler := fun args impl =>
  match parseReq args with
  | none => badReq
  | some r => { model := modelOut r, spec := specOf r impl, nt := nontrivial r }

def handlers : List (String × Handler) := [("c19.run", run1)]

end ILV.Drv.C19
