import ILV.Drv.Common
import ILV.Model.Index
/-
  Driver for C36.
  c36.bloom <ctor> | item ; item ; …      ctor = wp:<num_bits>:<num_hashes> | new:<n>:<p as f64 hex>
      item = i <key> <h1> <h2> | q <key> <h1> <h2> | c        (key is an opaque injective rendering)
      impl/model output: m=<bits> k=<hashes> | <one token per item: - or 0/1> | n=<count> bits=<idx:hex/…>
  c36.index <cols> <expected_keys> | item ; …
      item = ins <t> <h1> <h2> | rem <t> | build (<t> <h1> <h2>)* | get <k> | getb <k> <h1> <h2>
           | mc <k> <h1> <h2> | probe <k> <h1> <h2> | len
      (h1,h2) = the real `hash_pair` of the tuple's key / of the probe key, obtained by the harness
      through the cfg accessor; the model's hash function is the table these pairs define.
-/
namespace ILV.Drv.C36
open ILV

def bitsWire (ws : List Nat) : String :=
  let nz := (ws.zipIdx).filter (fun (w, _) => w != 0)
  if nz.isEmpty then "-" else joinWith "/" (nz.map (fun (w, i) => s!"{i}:{natToHexW 16 w}"))

def bloomHead (b : Bloom) : String := s!"m={b.numBits} k={b.numHashes}"
def bloomTail (b : Bloom) : String := s!"n={b.count} bits={bitsWire b.bits}"

def splitReq (args : List String) : String × List (List String) :=
  let s := joinWith " " args
  match s.splitOn " | " with
  | [hd] => (hd, [])
  | hd :: tl :: _ => (hd, (tl.splitOn " ; ").map (fun it => it.splitOn " "))
  | [] => ("", [])

/-- `m=<a> k=<b>` prefix of the implementation output. -/
def parseHead (impl : String) : Option (Nat × Nat) :=
  match (impl.splitOn " | ").head?.map (·.splitOn " ") with
  | some [m, k] =>
    match m.splitOn "=", k.splitOn "=" with
    | ["m", a], ["k", b] => match parseNat a, parseNat b with
      | some a, some b => some (a, b)
      | _, _ => none
    | _, _ => none
  | _ => none

def implOuts (impl : String) : List String :=
  match impl.splitOn " | " with
  | _ :: o :: _ => if o.isEmpty then [] else o.splitOn " "
  | _ => []

/-- constructor: `some (Except.ok b)` a filter, `some (Except.error s)` the constructor fails with `s`. -/
def mkBloom (ctor : String) (impl : String) : Option (Except String Bloom) :=
  match ctor.splitOn ":" with
  | ["wp", nb, k] => match parseNat nb, parseNat k with
    | some nb, some k => some (.ok (Bloom.withParams nb k))
    | _, _ => none
  | ["new", n, p] => match parseNat n, hexToNat p with
    | some n, some p =>
      if !Bloom.newArgsOk n p then some (.error "err:assert")
      else match parseHead impl with
        -- the float sizing is a parameter: take the size the code chose and require that it is in the
        -- range of `newFrom` (a multiple of 64 that is ≥ 64, 1 ≤ k ≤ 16) — otherwise the outputs differ
        | some (m, k) => some (.ok (Bloom.newFrom m k))
        | none => some (.error "err:no-size")
    | _, _ => none
  | _ => none

inductive BItem where
  | i (key : String) (h1 h2 : Nat)
  | q (key : String) (h1 h2 : Nat)
  | c

def parseBItem : List String → Option BItem
  | ["i", k, a, b] => match parseNat a, parseNat b with
    | some a, some b => some (.i k a b) | _, _ => none
  | ["q", k, a, b] => match parseNat a, parseNat b with
    | some a, some b => some (.q k a b) | _, _ => none
  | ["c"] => some .c
  | _ => none

def bloomRun : Bloom → List BItem → Bloom × List String
  | b, [] => (b, [])
  | b, it :: its =>
    let (b', o) := match it with
      | .i _ h1 h2 => (b.apply (.ins h1 h2), "-")
      | .q _ h1 h2 => (b, if b.mightContain h1 h2 then "1" else "0")
      | .c => (b.apply .clear, "-")
    let (b'', os) := bloomRun b' its
    (b'', o :: os)

/-- Spec: a key inserted since the last clear must be answered `1` by the implementation. -/
def bloomSpec : List String → List BItem → List String → Nat → Option String
  | _, [], _, _ => none
  | live, it :: its, outs, pos =>
    let o := outs.head?.getD "?"
    match it with
    | .i k _ _ => bloomSpec (k :: live) its outs.tail (pos + 1)
    | .c => bloomSpec [] its outs.tail (pos + 1)
    | .q k _ _ =>
      if live.contains k && o != "1" then some s!"false-negative at item {pos} key {k}"
      else bloomSpec live its outs.tail (pos + 1)

def bloomNt : List String → List BItem → Bool
  | _, [] => false
  | live, .i k _ _ :: its => bloomNt (k :: live) its
  | _, .c :: its => bloomNt [] its
  | live, .q k _ _ :: its => live.contains k || bloomNt live its

def bloom : Handler := fun args impl =>
  let (ctor, items) := splitReq args
  match mkBloom ctor impl, optMapM parseBItem items with
  | some (.error e), some _ => { model := e, spec := "na", nt := false }
  | some (.ok b), some its =>
    let (b', outs) := bloomRun b its
    let m := s!"{bloomHead b} | {joinWith " " outs} | {bloomTail b'}"
    let spec := match bloomSpec [] its (implOuts impl) 0 with
      | none => if (implOuts impl).length == its.length then specOk else specFail "unclassified" "output-shape"
      | some d => specFail "unclassified" d
    { model := m, spec := spec, nt := bloomNt [] its }
  | _, _ => badReq

/-! ### hash index -/

def parseTriples : List String → Option (List (Tuple × Nat × Nat))
  | [] => some []
  | t :: a :: b :: rest => match Tuple.ofWire t, parseNat a, parseNat b, parseTriples rest with
    | some t, some a, some b, some r => some ((t, a, b) :: r)
    | _, _, _, _ => none
  | _ => none

/-- an item as (operation, hash-table entries it contributes: (tuple-or-key, isKey, h1, h2)). -/
def parseXItem : List String → Option (IxOp × List (Tuple × Bool × Nat × Nat))
  | ["ins", t, a, b] => match Tuple.ofWire t, parseNat a, parseNat b with
    | some t, some a, some b => some (.ins t, [(t, false, a, b)]) | _, _, _ => none
  | ["rem", t] => (Tuple.ofWire t).map (fun t => (.rem t, []))
  | "build" :: rest => (parseTriples rest).map (fun l => (.build (l.map (·.1)), l.map (fun (t, a, b) => (t, false, a, b))))
  | ["get", k] => (Tuple.ofWire k).map (fun k => (.get k, []))
  | ["getb", k, a, b] => match Tuple.ofWire k, parseNat a, parseNat b with
    | some k, some a, some b => some (.getB k, [(k, true, a, b)]) | _, _, _ => none
  | ["mc", k, a, b] => match Tuple.ofWire k, parseNat a, parseNat b with
    | some k, some a, some b => some (.mc k, [(k, true, a, b)]) | _, _, _ => none
  | ["probe", k, a, b] => match Tuple.ofWire k, parseNat a, parseNat b with
    | some k, some a, some b => some (.probe k, [(k, true, a, b)]) | _, _, _ => none
  | ["len"] => some (.len, [])
  | _ => none

/-- the hash function the request's pairs define (first occurrence wins; keys never hashed → (0,0)). -/
def hashOf (cols : List Nat) (tbl : List (Tuple × Bool × Nat × Nat)) (k : Tuple) : Nat × Nat :=
  match tbl.find? (fun (t, isKey, _, _) => Tuple.eq (if isKey then t else projectT cols t) k) with
  | some (_, _, a, b) => (a, b)
  | none => (0, 0)

def rowsWire (l : List Tuple) : String := "[" ++ joinWith "+" (l.map Tuple.toWire) ++ "]"

def outWire : IxOut → String
  | .unit => "-"
  | .bool b => if b then "1" else "0"
  | .rows none => "none"
  | .rows (some l) => rowsWire l
  | .nat n => toString n

/-- multiset reading of a rows token: the sorted list of tuple renderings. -/
def rowsKey (s : String) : List String :=
  if s == "none" then [] else
  let inner := ((s.drop 1).dropEnd 1).toString
  if inner.isEmpty then [] else sortBy (fun a b => decide (a ≤ b)) (inner.splitOn "+")

/-- Spec verdict on the implementation's tokens: lookups equal the Spec's as multisets (and `none`
    exactly when empty), `remove`/`len` exact, `might_contain_key` at least the Spec's lower bound. -/
def indexSpec : List IxOp → List IxOut → List String → Nat → Option String
  | [], _, _, _ => none
  | _ :: _, [], _, _ => some "spec-shape"
  | op :: ops, s :: ss, outs, pos =>
    let o := outs.head?.getD "?"
    let bad : Bool := match op, s with
      | .mc _, .bool true => o != "1"
      | .mc _, _ => !(o == "0" || o == "1")
      | _, .rows none => o != "none"
      | _, .rows (some l) => o == "none" || !o.startsWith "[" || rowsKey o != rowsKey (rowsWire l)
      | _, s => o != outWire s
    if bad then some s!"item {pos}: spec {outWire s} impl {o}" else indexSpec ops ss outs.tail (pos + 1)

def index : Handler := fun args impl =>
  let (hd, items) := splitReq args
  match hd.splitOn " " with
  | [colsS, _expected] =>
    let cols? := if colsS == "-" then some [] else optMapM parseNat (colsS.splitOn ",")
    match (if (parseNat _expected).isSome then cols? else none), optMapM parseXItem items, parseHead impl with
    | some cols, some its, some (m, k) =>
      let ops := its.map (·.1)
      let h := hashOf cols (its.flatMap (·.2))
      let ix0 := HIndex.new cols (Bloom.newFrom m k)
      let (ix, outs) := HIndex.run h ix0 ops
      let model := s!"{bloomHead ix0.bloom} | {joinWith " " (outs.map outWire)} | keys={ix.numKeys} tuples={ix.numTuples} max={ix.maxPerKey} ver={ix.version} {bloomTail ix.bloom}"
      let specOuts := specRun cols [] ops
      let io := implOuts impl
      let spec := if io.length != ops.length then specFail "unclassified" "output-shape" else
        match indexSpec ops specOuts io 0 with
        | none => specOk
        | some d => specFail "unclassified" d
      let nt := specOuts.any (fun o => match o with | .rows (some (_ :: _)) => true | _ => false)
      { model := model, spec := spec, nt := nt }
    | some _, some _, none => { model := "err:no-size", spec := specFail "unclassified" ("no-size " ++ impl), nt := false }
    | _, _, _ => badReq
  | _ => badReq

def handlers : List (String × Handler) := [("c36.bloom", bloom), ("c36.index", index)]

end ILV.Drv.C36
