import ILV.Drv.Common
import ILV.Model.Strat
/-
  Driver for C34.  Requests carry abstract rules (see harness/src/p/c34.rs for the wire syntax):
    rule  := atom "/" lit ("/" lit)*        atom := <pred> "(" arg ("." arg)* ")"
    arg   := "v"<n> | "k"<int> | "_"        lit  := "+"atom | "-"atom | ("="|"<"|"#") arg "." arg
  `c34.check r r …`       one rule set, pure decisions
  `c34.hist | op ; op …`  a history against one handler
-/
namespace ILV.Drv.C34
open ILV ILV.Strat

/-! ### wire syntax -/

def parseArg (s : String) : Option Arg :=
  match s.toList with
  | ['_'] => some .wild
  | 'v' :: ds => (String.ofList ds).toNat?.map .var
  | 'k' :: ds => (String.ofList ds).toInt?.map .const
  | _ => none

def parseAtom (s : String) : Option Atom :=
  match s.splitOn "(" with
  | [p, rest] =>
    match rest.toList.getLast? with
    | some ')' =>
      let inner := String.ofList rest.toList.dropLast
      match p.toNat? with
      | some pn =>
        if inner.isEmpty then some ⟨pn, []⟩
        else (optMapM parseArg (inner.splitOn ".")).map fun as => ⟨pn, as⟩
      | none => none
    | _ => none
  | _ => none

def parseCmp (op : CmpOp) (rest : String) : Option Lit :=
  match rest.splitOn "." with
  | [x, y] => match parseArg x, parseArg y with
    | some a, some b => some (.cmp op a b)
    | _, _ => none
  | _ => none

def parseLit (s : String) : Option Lit :=
  match s.toList with
  | '+' :: r => (parseAtom (String.ofList r)).map .pos
  | '-' :: r => (parseAtom (String.ofList r)).map .neg
  | '=' :: r => parseCmp .eq (String.ofList r)
  | '<' :: r => parseCmp .lt (String.ofList r)
  | '#' :: r => parseCmp .ne (String.ofList r)
  | _ => none

def parseRule (s : String) : Option Rule :=
  match s.splitOn "/" with
  | h :: b :: bs =>
    match parseAtom h, optMapM parseLit (b :: bs) with
    | some ha, some ls => some ⟨ha, ls⟩
    | _, _ => none
  | _ => none

/-! ### c34.check -/

def vrWire (r : Rule) : String := match validateRule r with | some e => e.wire | none => "ok"

def partWire (p : List (List Nat)) : String :=
  if p.isEmpty then "-" else joinWith "|" (p.map fun c => joinWith "," (c.map toString))

def hasNeg (g : Graph) : Bool := g.any (·.neg)

def checkModel (rs : List Rule) : String :=
  let g := graphOf rs
  let rej := rejects g
  let strat := if rej then "err:unstrat" else "ok"
  let swn := if rej then "ns" else "ok"
  let eng := if engineAccepts rs then "ok" else "err:unsafe_engine"
  let per := joinWith "," (rs.map vrWire)
  let part := partWire (sccPartition g (rs.map (·.head.pred)))
  s!"{strat} {swn} cover {eng} {per} {part}"

/-- Spec on the implementation's answer: rejected ⇔ a negative edge lies on a cycle (decided by the
    executable `rejects`, proved equal to `NegCycle` in `Props.C34.check_iff_neg_cycle`); and the
    real `find_sccs` classes are the mutual-reachability classes. -/
def checkSpec (rs : List Rule) (impl : String) : String :=
  let g := graphOf rs
  match impl.splitOn " " with
  | [strat, swn, _, _, _, part] =>
    let rej := rejects g
    if (strat == "err:unstrat") != rej then specFail "unclassified" s!"validate_rules_stratification={strat}-but-neg-cycle={rej}"
    else if (swn == "ns") != rej then specFail "unclassified" s!"stratify_with_negation={swn}-but-neg-cycle={rej}"
    else if part != partWire (sccPartition g (rs.map (·.head.pred))) then specFail "unclassified" "scc-partition-is-not-mutual-reachability"
    else specOk
  | _ => specFail "unclassified" ("unparsable-impl-output " ++ impl)

def check : Handler := fun args impl =>
  match optMapM parseRule (args.filter (· != "")) with
  | some rs => { model := checkModel rs, spec := checkSpec rs impl, nt := hasNeg (graphOf rs) }
  | none => badReq

/-! ### c34.hist -/

def splitItems : List String → List String → List (List String) → List (List String)
  | [], cur, acc => (if cur.isEmpty then acc else cur.reverse :: acc).reverse
  | t :: ts, cur, acc =>
    if t == ";" then splitItems ts [] (if cur.isEmpty then acc else cur.reverse :: acc)
    else if t == "" || t == "|" then splitItems ts cur acc
    else splitItems ts (t :: cur) acc

def parseOp : List String → Option Op
  | ["P", r] => (parseRule r).map .persist
  | ["R", r] => (parseRule r).map .registerApi
  | ["E", n, i, r] => match n.toNat?, i.toNat?, parseRule r with
    | some n, some i, some r => some (.replace n i r)
    | _, _, _ => none
  | ["D", n] => n.toNat?.map .drop
  | ["X"] => some (.dropPrefix "")
  | ["X", d] => if d.toNat?.isSome then some (.dropPrefix d) else none
  | ["C", n] => n.toNat?.map .clear
  | ["M", n, i] => match n.toNat?, i.toNat? with
    | some n, some i => some (.remove n i)
    | _, _ => none
  | ["S", r] => (parseRule r).map .sessRule
  | ["SC"] => some .sessClear
  | ["QS", n] => n.toNat?.map .querySess
  | ["QN", n] => n.toNat?.map .queryPlain
  | "QL" :: n :: rs => match n.toNat?, optMapM parseRule rs with
    | some n, some rs => some (.queryLocal n rs)
    | _, _ => none
  | ["T"] => some .restart
  | _ => none

/-- state change of an op *given that the implementation acknowledged it* (no checks). -/
def applyAck (s : St) : Op → St
  | .persist r | .registerApi r =>
    let n := r.head.pred
    let rs := (catGet s.cat n).getD []
    { s with cat := catSet s.cat n (if rs.contains r then rs else rs ++ [r]) }
  | .sessRule r => { s with sess := s.sess ++ [r] }
  | .replace n i r =>
    match catGet s.cat n with
    | some rs => if i < rs.length then { s with cat := catSet s.cat n (rs.set i r) } else s
    | none => s
  | op => (step s op).1

inductive Verdict where
  | pass
  | fail (cls detail : String)

/-- Spec for one request, judged on the implementation's outcome `o` in the spec-tracked state. -/
def judge (s : St) (op : Op) (o : String) : Verdict :=
  match inForce s op with
  | some rs =>
    let neg := stratRejects rs
    if o == "eval" && neg then
      -- (repaired defect families, kept in the detail for diagnosis: catalog itself unstratifiable =
      --  `replace_unchecked`, otherwise `session_rules_unchecked`)
      .fail "unclassified" (if stratRejects (catRules s.cat) then "unstratifiable-catalog-was-evaluated"
                            else "unstratifiable-union-with-session-rules-was-evaluated")
    else if o != "eval" && !neg && (step s op).2 == .eval then .fail "unclassified" s!"stratifiable-safe-query-rejected:{o}"
    else .pass
  | none =>
    match op with
    | .replace n i r =>
      if o == "ok" && stratRejects (catRules (catSet s.cat n (((catGet s.cat n).getD []).set i r))) then
        .fail "unclassified" "unstratifiable-clause-replacement-stored"
      else .pass
    | .persist r | .registerApi r =>
      if o == "ok" && stratRejects (catRules s.cat ++ [r]) then .fail "unclassified" "unstratifiable-rule-registered"
      else if o != "ok" && (step s op).2 == .ok then .fail "unclassified" s!"stratifiable-valid-rule-rejected:{o}"
      else .pass
    | _ => .pass

def isAck (op : Op) (o : String) : Bool :=
  match op with
  | .querySess _ | .queryPlain _ | .queryLocal _ _ => false
  | _ => o == "ok"

def judgeAll : St → List Op → List String → List Verdict
  | _, [], _ => []
  | _, _, [] => []
  | s, op :: ops, o :: os =>
    judge s op o :: judgeAll (if isAck op o then applyAck s op else s) ops os

def firstFail (vs : List Verdict) : String :=
  let fs := vs.filterMap fun v => match v with | .fail c d => some (c, d) | .pass => none
  match fs.find? (·.1 == "unclassified") with
  | some (c, d) => specFail c d
  | none => match fs.head? with
    | some (c, d) => specFail c d
    | none => specOk

def opNontrivial (s : St) (op : Op) : Bool :=
  match inForce s op with
  | some rs => hasNeg (graphOf rs) && rs.length ≥ 2
  | none => match op with
    | .persist r | .registerApi r => hasNeg (graphOf (catRules s.cat ++ [r])) && !(catRules s.cat).isEmpty
    | _ => false

def ntAll : St → List Op → Bool
  | _, [] => false
  | s, op :: ops => opNontrivial s op || ntAll (step s op).1 ops

def hist : Handler := fun args impl =>
  match optMapM parseOp (splitItems args [] []) with
  | some ops =>
    let outs := (run {} ops).2
    let m := if outs.isEmpty then "-" else joinWith " " (outs.map Out.wire)
    let implOuts := if impl == "-" then [] else impl.splitOn " "
    let spec :=
      if implOuts.length != ops.length then specFail "unclassified" ("history-did-not-complete " ++ impl)
      else firstFail (judgeAll {} ops implOuts)
    { model := m, spec := spec, nt := ntAll {} ops }
  | none => badReq

def handlers : List (String × Handler) := [("c34.check", check), ("c34.hist", hist)]

end ILV.Drv.C34
