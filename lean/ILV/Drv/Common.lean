/-
  Driver plumbing: a handler takes the request arguments (the request line split on single
  spaces, without the leading operation name) and the implementation's canonical output for the
  same request, and returns (model output, spec verdict).
  Spec verdict: "ok" | "na" | "fail:<class>:<detail>" where <class> is the identifying predicate
  used by KNOWN_FINDINGS.jsonl ("unclassified" when no named predicate applies).
-/
import ILV.Model.Util
namespace ILV

structure Reply where
  model : String            -- what the Lean model computes for the request
  spec : String             -- verdict of the Spec oracle on the implementation's output
  nt : Bool := true         -- does the case exercise the anchored mechanism non-trivially?

abbrev Handler := List String → String → Reply

def badReq : Reply := { model := "bad-request", spec := "na", nt := false }

def specOk : String := "ok"
def specFail (cls detail : String) : String := s!"fail:{cls}:{detail}"

end ILV
