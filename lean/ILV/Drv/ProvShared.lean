/-
  Shared request decoding / model execution for the provenance handlers (C21, C22, C23).

  Requests (items after ` | `, separated by ` ; `, see ILV.Model.ProvSyntax):
    <p>.why <query atom> | items            `.why ?<atom>` through the real Handler (max_depth 50)
    <p>.bpt <max_depth> <rel> <tuple> | items   `build_proof_tree` called directly with a context built
                                             as the handler does (engine derived data) but a chosen depth limit
    c23.whynot <rel> <tuple> | items        `.why_not rel(values)` through the real Handler

  Implementation output of why/bpt:  `O <clause order> | D <derived data> | T <tree> | T <tree> …` (`| none` when the
  answer is empty), or `err:<class>`. The derived data is what the engine handed to the chainer
  (`execute_and_get_context`); it is an *input* of the provenance code produced by another
  component, so the model is run on the recorded value and echoes it; the Spec side compares it
  with the perfect model computed here and declares the case `na` when the engine was wrong.
-/
import ILV.Drv.Common
import ILV.Model.ProvWire
namespace ILV.Drv.Prov
open ILV ILV.Prov

structure WhyReq where
  kg : KG
  rel : String
  maxDepth : Nat
  /-- `some t`: a single explicit tuple (bpt); `none`: all answers of the query (why) -/
  tuple : Option Tuple
  query : Option Atom

def sections (impl : String) : List String := impl.splitOn " | "

/-- the clause order of the snapshot the implementation worked on, as positions in the request's
    rule list (`RuleCatalog::all_rules` orders clauses through hash maps, so this is an input that is
    only known after the fact — like the derived data it is recorded by the harness and echoed). -/
def implPerm (impl : String) : Option (List Nat) :=
  match sections impl with
  | o :: _ =>
    if o == "O -" then some []
    else if o.startsWith "O " then optMapM parseNat ((o.drop 2).toString.splitOn ",") else none
  | [] => none

def isPerm (perm : List Nat) (n : Nat) : Bool :=
  perm.length == n && (List.range n).all (fun i => perm.contains i)

def applyPerm (rules : Program) (perm : List Nat) : Option Program :=
  if isPerm perm rules.length then optMapM (fun i => rules[i]?) perm else none

def permWire (perm : List Nat) : String :=
  if perm.isEmpty then "O -" else "O " ++ joinWith "," (perm.map toString)

/-- the recorded derived data of an implementation output. -/
def implDerived (impl : String) : Option DB :=
  match sections impl with
  | _ :: d :: _ => if d.startsWith "D " then dbOfWire (d.drop 2).toString else none
  | _ => none

def implTrees (impl : String) : Option (List Tree) :=
  match sections impl with
  | _ :: _ :: rest =>
    if rest == ["none"] then some [] else
    optMapM (fun (s : String) => if s.startsWith "T " then Tree.ofWire (s.drop 2).toString else none) rest
  | _ => none

def sortTuples (ts : List Tuple) : List Tuple := sortBy (fun a b => Tuple.cmp a b != .gt) ts

def parseWhy (op : String) (args : List String) : Option WhyReq :=
  let (pre, items) := splitItems args
  match parseKG items with
  | none => none
  | some kg =>
    if op == "why" then
      match pre with
      | [q] => (Atom.ofWire q).map (fun a => { kg := kg, rel := a.rel, maxDepth := 50, tuple := none, query := some a })
      | _ => none
    else
      match pre with
      | [d, rel, t] => match parseNat d, Tuple.ofWire t with
        | some d, some t => some { kg := kg, rel := rel, maxDepth := d, tuple := some t, query := none }
        | _, _ => none
      | _ => none

def WhyReq.ctx (r : WhyReq) (d : DB) : Ctx :=
  { rules := r.kg.rules, base := r.kg.base, derived := some d, maxDepth := r.maxDepth }

/-- the tuples explained: the sorted query answer (handler.rs:532 `result_tuples.sort()`), or the
    explicit tuple. -/
def WhyReq.answers (r : WhyReq) (d : DB) : List Tuple :=
  match r.tuple with
  | some t => [t]
  | none => sortTuples (d.get "__query__")

def WhyReq.modelTrees (r : WhyReq) (d : DB) : List Tree :=
  (r.answers d).map (fun t => whyTree (r.ctx d) r.rel t)

def renderWhy (perm : List Nat) (d : DB) (trees : List Tree) : String :=
  permWire perm ++ " | D " ++ dbWire d ++ (if trees.isEmpty then " | none" else String.join (trees.map (fun t => " | T " ++ t.toWire)))

/-- was the engine right about the *answer*? (`why`: the query answer recorded under `__query__`
    against the matching tuples of the perfect model; intermediate relations are not compared — with
    magic sets the engine legitimately computes only a part of them.) -/
def engineAgrees (r : WhyReq) (d m : DB) : Bool :=
  match r.query with
  | none => true
  | some q =>
    let expected := (world r.kg.base m q.rel).filter (fun t => (matchTuple (substituteAtom q []) t).isSome)
    let got := d.get "__query__"
    got.all (fun t => memL t expected) && expected.all (fun t => memL t got)

/-- the relations with at least one rule. -/
def hasRules (p : Program) (rel : String) : Bool := p.any (fun r => r.head.rel == rel)

def negOverDerived (p : Program) : Bool :=
  p.any (fun r => r.body.any (fun | .neg a => hasRules p a.rel | _ => false))

def supportedReq (kg : KG) : Bool := kg.rules.supported

end ILV.Drv.Prov
