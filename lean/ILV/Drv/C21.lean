/-
  C21 — proof trees are valid derivations.
  model  = the Lean backward chainer run on the recorded derived data, whole trees compared verbatim;
  spec   = every tree the REAL `.why` returned is fed to the verified checker `valid`
           (ILV.Props.C21.valid_sound), against the perfect model computed by `pmEval`.
-/
import ILV.Drv.ProvShared
namespace ILV.Drv.C21
open ILV ILV.Prov ILV.Drv.Prov

mutual
/-- first reason why `valid` rejects a tree (diagnostics only; the verdict is `valid`). -/
def diagnose (prog : Program) (base M : DB) : Tree → Option String
  | .node (.fact .edb) pred args _ => if memL args (base.get pred) then none else some s!"fact-not-stored:{pred}"
  | .node (.fact .derived) pred args _ => if memL args (world base M pred) then none else some s!"derived-leaf-false:{pred}"
  | .node (.trunc _) _ _ _ => none
  | .node (.neg _) pred _ _ => some s!"negation-node-as-proof:{pred}"
  | .node (.rule idx β) pred args kids =>
    match prog[idx]? with
    | none => some s!"no-such-clause:{pred}"
    | some r =>
      if r.head.rel != pred then some s!"clause-of-other-relation:{pred}"
      else if !headMatches β r.head.args args then some s!"head-instance-differs:{pred}"
      else diagnoseBody prog base M β r.body kids
def diagnoseBody (prog : Program) (base M : DB) (β : Bindings) : List Lit → List Tree → Option String
  | [], [] => none
  | .pos a :: ls, k :: ks =>
    match k with
    | .node kk kp ka kc =>
      if kp != a.rel then some s!"child-relation-differs:{a.rel}"
      else if !argsMatch β a.args ka then some s!"child-not-body-instance:{a.rel}"
      else match diagnose prog base M (.node kk kp ka kc) with
        | some e => some e
        | none => diagnoseBody prog base M β ls ks
  | .neg a :: ls, k :: ks =>
    match k with
    | .node (.neg pat) kp ka _ =>
      if kp != a.rel then some s!"negation-relation-differs:{a.rel}"
      else if pat != substituteAtom a β || ka != concPart (substituteAtom a β) then
        some s!"negation-pattern-differs:{a.rel}"
      else if !(world base M a.rel).all (fun t => !negBlockedBy β a t) then some s!"negation-leaf-has-match:{a.rel}"
      else diagnoseBody prog base M β ls ks
    | _ => some s!"negation-child-missing:{a.rel}"
  | .cmp l op r :: ls, ks =>
    if evalCmp l op r β != some true then some "comparison-not-true" else diagnoseBody prog base M β ls ks
  | .other :: _, _ => some "unsupported-literal"
  | _, _ => some "children-count-differs"
end

/-- no defect family of C21 is known any more (`neg_over_derived` and `repeated_var_over_derived` are
    fixed; their witnesses are replayed from corpus/C21): every rejected tree is a violation. -/
def classOf (_prog : Program) (_reason : String) : String := "unclassified"

def judge (r : WhyReq) (d : DB) (impl : String) : String × Bool :=
  match pmEval r.kg.rules r.kg.base with
  | none => ("na", false)
  | some m =>
    if !engineAgrees r d m then ("na", false) else
    match implTrees impl with
    | none => (specFail "unclassified" "unparsable-impl-output", false)
    | some trees =>
      let answers := r.answers d
      if trees.length != answers.length then (specFail "unclassified" "tree-count-differs", false) else
      -- C21 speaks about answer tuples only: an explicitly requested tuple (bpt) that is not in the
      -- perfect model is skipped
      let bad := (trees.zip answers).filterMap (fun (t, a) =>
        if !memL a (world r.kg.base m r.rel) then none
        else if t.pred != r.rel || t.args != a then some "root-conclusion-differs"
        else if valid r.kg.rules r.kg.base m t then none
        else some ((diagnose r.kg.rules r.kg.base m t).getD "rejected"))
      let nt := hasRules r.kg.rules r.rel && answers.any (fun a => memL a (world r.kg.base m r.rel))
      match bad with
      | [] => (specOk, nt)
      | e :: _ => (specFail (classOf r.kg.rules e) e, nt)

def run (op : String) : Handler := fun args impl =>
  match parseWhy op args with
  | none => badReq
  | some r0 =>
    if !supportedReq r0.kg then { model := "unsupported", spec := "na", nt := false } else
    match implPerm impl, implDerived impl with
    | some perm, some d =>
      match applyPerm r0.kg.rules perm with
      | none => { model := "bad-clause-order", spec := "na", nt := false }
      | some rules =>
        let r := { r0 with kg := { r0.kg with rules := rules } }
        let (s, nt) := judge r d impl
        { model := renderWhy perm d (r.modelTrees d), spec := s, nt := nt }
    | _, _ => { model := impl, spec := "na", nt := false }      -- engine-level error (`err:…`): nothing to explain

/-- diagnostics: the perfect model the Spec side computes for a request. -/
def showPM : Handler := fun args _ =>
  match parseWhy "why" args with
  | none => badReq
  | some r => { model := match pmEval r.kg.rules r.kg.base with | some m => dbWire m | none => "none", spec := "na", nt := false }

def handlers : List (String × Handler) := [("c21.why", run "why"), ("c21.bpt", run "bpt"), ("c21.pm", showPM)]

end ILV.Drv.C21
