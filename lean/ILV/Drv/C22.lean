/-
  C22 — every answer can be explained: for every answer tuple whose reference derivation depth
  (least stage of the staged evaluation, a stored fact having depth 1) is within the depth limit, the
  REAL `.why` tree must be complete: no `Truncated` node (in particular not the fallback root) and no
  unexplained `Fact{Derived}` leaf.
  model = the same chainer model as C21 (trees compared verbatim).
-/
import ILV.Drv.ProvShared
namespace ILV.Drv.C22
open ILV ILV.Prov ILV.Drv.Prov

def hasTrunc (t : Tree) : Bool := t.hasTrunc

def isFallbackRoot (t : Tree) : Bool := match t.kind with | .trunc _ => true | _ => false

/-- is some relation of the program (transitively) recursive? here: directly self-recursive. -/
def selfRecursive (p : Program) : Bool :=
  p.any (fun r => r.body.any (fun | .pos a => a.rel == r.head.rel | _ => false))

mutual
/-- relations of the `Fact{Derived}` leaves of a tree. -/
def derivedLeaves : Tree → List String
  | .node (.fact .derived) p _ _ => [p]
  | .node _ _ _ kids => derivedLeavesList kids
def derivedLeavesList : List Tree → List String
  | [] => []
  | k :: ks => derivedLeaves k ++ derivedLeavesList ks
end

def selfRecursiveRel (p : Program) (rel : String) : Bool :=
  p.any (fun r => r.head.rel == rel && r.body.any (fun | .pos a => a.rel == rel | _ => false))

/-- known defect families (decided from the program and the shape of the incomplete tree):
    * `cycle_cut_memoized`: an unexplained `Fact{Derived}` leaf of a self-recursive relation — inside a
      branch where the goal's own ancestors are on the `visited` stack the sub-goal finds no rule proof,
      falls back to the derived-fact node (backward_chaining.rs:316) and that node is memoised in
      `seen` and reused where a real proof exists;
    * `memo_truncated_reuse`: a `Truncated` node inside the proof of a tuple whose derivation fits the
      limit, in a self-recursive program — alternative clauses are explored (max_proofs_per_tuple) at
      greater depth, hit the limit, and the rule node with the truncated child is memoised and reused
      at smaller depth (backward_chaining.rs:155-180). -/
def classOf (r : WhyReq) (t : Tree) : String :=
  if isFallbackRoot t then "no_proof_found"
  else if hasTrunc t then "truncated_within_limit"
  else if (derivedLeaves t).any (selfRecursiveRel r.kg.rules) then "cycle_cut_memoized"
  else "derived_leaf"

def judge (r : WhyReq) (d : DB) (impl : String) : String × Bool :=
  match pmEval r.kg.rules r.kg.base with
  | none => ("na", false)
  | some m =>
    if !engineAgrees r d m then ("na", false) else
    match implTrees impl with
    | none => (specFail "unclassified" "unparsable-impl-output", false)
    | some trees =>
      let answers := r.answers d
      if trees.length != answers.length then (specFail "unclassified" "tree-count-differs", false) else
      let inScope := fun (a : Tuple) => memL a (world r.kg.base m r.rel) &&
        (match refDepth r.kg.rules r.kg.base m r.rel a with | some k => k ≤ r.maxDepth | none => false)
      let bad := (trees.zip answers).filterMap (fun (t, a) =>
        if !inScope a then none
        else if t.complete then none
        else some (classOf r t, s!"incomplete-proof:{r.rel}"))
      let nt := hasRules r.kg.rules r.rel && answers.any inScope
      match bad with
      | [] => (specOk, nt)
      | (c, e) :: _ => (specFail c e, nt)

def run (op : String) : Handler := fun args impl =>
  match parseWhy op args with
  | none => badReq
  | some r0 =>
    if !supportedReq r0.kg then { model := "unsupported", spec := "na", nt := false } else
    match implPerm impl, implDerived impl with
    | some perm, some d =>
      match applyPerm r0.kg.rules perm with
      | none => { model := "bad-clause-order", spec := "na", nt := false }
      | some rules =>
        let r := { r0 with kg := { r0.kg with rules := rules } }
        let (s, nt) := judge r d impl
        { model := renderWhy perm d (r.modelTrees d), spec := s, nt := nt }
    | _, _ => { model := impl, spec := "na", nt := false }

def handlers : List (String × Handler) := [("c22.why", run "why"), ("c22.bpt", run "bpt")]

end ILV.Drv.C22
