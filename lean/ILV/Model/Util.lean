/-
  Import-free utilities shared by all executable models and by the driver:
  hex / decimal codecs for the line protocol, list helpers.
  Nothing here is property-specific.
-/
namespace ILV

def hexDigit (c : Char) : Option Nat :=
  if '0' ≤ c ∧ c ≤ '9' then some (c.toNat - '0'.toNat)
  else if 'a' ≤ c ∧ c ≤ 'f' then some (c.toNat - 'a'.toNat + 10)
  else if 'A' ≤ c ∧ c ≤ 'F' then some (c.toNat - 'A'.toNat + 10)
  else none

def hexToNatAux : List Char → Nat → Option Nat
  | [], acc => some acc
  | c :: cs, acc => match hexDigit c with
    | some d => hexToNatAux cs (acc * 16 + d)
    | none => none

/-- Parse a non-empty hex string into a natural number. -/
def hexToNat (s : String) : Option Nat :=
  if s.isEmpty then none else hexToNatAux s.toList 0

def hexBytesAux : List Char → List Nat → Option (List Nat)
  | [], acc => some acc.reverse
  | [_], _ => none
  | a :: b :: cs, acc => match hexDigit a, hexDigit b with
    | some x, some y => hexBytesAux cs ((x * 16 + y) :: acc)
    | _, _ => none

/-- Parse an even-length hex string into bytes. -/
def hexToBytes (s : String) : Option (List Nat) := hexBytesAux s.toList []

def nibble (n : Nat) : Char :=
  if n < 10 then Char.ofNat ('0'.toNat + n) else Char.ofNat ('a'.toNat + (n - 10))

def byteToHex (b : Nat) : String := String.ofList [nibble (b / 16 % 16), nibble (b % 16)]

def bytesToHex (bs : List Nat) : String := String.join (bs.map byteToHex)

def natToHexAux : Nat → Nat → List Char → List Char
  | 0, _, acc => acc
  | fuel + 1, n, acc => natToHexAux fuel (n / 16) (nibble (n % 16) :: acc)

/-- Fixed-width lower-case hex. -/
def natToHexW (width n : Nat) : String := String.ofList (natToHexAux width n [])

def strBytes (s : String) : List Nat := s.toUTF8.toList.map (·.toNat)

def parseInt (s : String) : Option Int := s.toInt?

def parseNat (s : String) : Option Nat := s.toNat?

/-- `mapM` for `Option` over lists (structural; avoids monad-generic lemmas in proofs). -/
def optMapM {α β} (f : α → Option β) : List α → Option (List β)
  | [] => some []
  | a :: as => match f a, optMapM f as with
    | some b, some bs => some (b :: bs)
    | _, _ => none

def splitNonEmpty (s : String) (sep : String) : List String :=
  if s.isEmpty then [] else s.splitOn sep

def joinWith (sep : String) (l : List String) : String := sep.intercalate l

/-- insertion sort by a boolean `le`; used only for canonical printing. -/
def insertBy {α} (le : α → α → Bool) (x : α) : List α → List α
  | [] => [x]
  | y :: ys => if le x y then x :: y :: ys else y :: insertBy le x ys

def sortBy {α} (le : α → α → Bool) (l : List α) : List α := l.foldr (insertBy le) []

def dedupBy {α} (eq : α → α → Bool) : List α → List α
  | [] => []
  | x :: xs => if xs.any (eq x) then dedupBy eq xs else x :: dedupBy eq xs

end ILV
