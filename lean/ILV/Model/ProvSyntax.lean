/-
  Rule / program syntax for the provenance properties (C21–C23) and its one-line wire encoding.
  The encoding is produced by the harness from the *real parser's AST* (`src/ast/mod.rs`
  `Term`/`Atom`/`BodyPredicate`/`Rule`); Lean never parses IQL text.

  Fragment: terms = variable | integer / string / bool / float constant | `_` ; everything else
  (aggregates, arithmetic, function calls, vectors, records, `hnsw_nearest`) is `Term.other` /
  `Lit.other` and makes a request "unsupported" for the model.

  wire:  term  ::= V.<name> | C.<int> | S.<hex utf8> | B.0 | B.1 | L.<16 hex f64 bits> | W | O
         atom  ::= <rel>(<term>,<term>,…)            (nullary: <rel>())
         lit   ::= +<atom> | -<atom> | ?<op>,<term>,<term> | X       op ∈ eq ne lt le gt ge
         item  ::= F@<rel>@<tuple wire>  |  R@<atom>@<lit>&<lit>&…   (empty body: R@<atom>@)
-/
import ILV.Model.Value
namespace ILV.Prov
open ILV

inductive Term where
  | var (x : String)
  | int (n : Int)          -- `Term::Constant(i64)`
  | str (s : List Nat)     -- `Term::StringConstant`, UTF-8 bytes
  | bool (b : Bool)
  | flt (bits : Nat)       -- `Term::FloatConstant`
  | wild                   -- `Term::Placeholder`
  | other                  -- anything outside the fragment
  deriving Repr, DecidableEq, Inhabited

structure Atom where
  rel : String
  args : List Term
  deriving Repr, DecidableEq, Inhabited

inductive CmpOp where
  | eq | ne | lt | le | gt | ge
  deriving Repr, DecidableEq, Inhabited

inductive Lit where
  | pos (a : Atom)
  | neg (a : Atom)
  | cmp (l : Term) (op : CmpOp) (r : Term)
  | other
  deriving Repr, DecidableEq, Inhabited

structure Rule where
  head : Atom
  body : List Lit
  deriving Repr, DecidableEq, Inhabited

abbrev Program := List Rule

/-- relation name ↦ tuples in stored order (a Rust `HashMap<String, Vec<Tuple>>`; keys unique). -/
abbrev DB := List (String × List Tuple)

def DB.get (db : DB) (rel : String) : List Tuple :=
  match db.lookup rel with
  | some ts => ts
  | none => []

def DB.has (db : DB) (rel : String) : Bool := (db.lookup rel).isSome

/-- append a tuple to a relation, creating it when absent (how the harness's item list is read). -/
def DB.push (db : DB) (rel : String) (t : Tuple) : DB :=
  match db with
  | [] => [(rel, [t])]
  | (r, ts) :: rest => if r == rel then (r, ts ++ [t]) :: rest else (r, ts) :: DB.push rest rel t

/-! ### fragment predicates -/

def Term.supported : Term → Bool
  | .other => false
  | _ => true

def Atom.supported (a : Atom) : Bool := a.args.all Term.supported

def Lit.supported : Lit → Bool
  | .pos a => a.supported
  | .neg a => a.supported
  | .cmp l _ r => l.supported && r.supported
  | .other => false

def Rule.supported (r : Rule) : Bool := r.head.supported && r.body.all Lit.supported

def Program.supported (p : Program) : Bool := p.all Rule.supported

/-! ### wire codec -/

def Term.ofWire (s : String) : Option Term :=
  if s == "W" then some .wild
  else if s == "O" then some .other
  else match s.splitOn "." with
    | ["V", x] => if x.isEmpty then none else some (.var x)
    | ["C", n] => (parseInt n).map .int
    | ["S", h] => (hexToBytes h).map .str
    | ["B", "1"] => some (.bool true)
    | ["B", "0"] => some (.bool false)
    | ["L", h] => (hexToNat h).map .flt
    | _ => none

def Term.toWire : Term → String
  | .var x => "V." ++ x
  | .int n => s!"C.{n}"
  | .str s => "S." ++ bytesToHex s
  | .bool b => if b then "B.1" else "B.0"
  | .flt b => "L." ++ natToHexW 16 b
  | .wild => "W"
  | .other => "O"

def Atom.ofWire (s : String) : Option Atom :=
  match s.splitOn "(" with
  | [rel, rest] =>
    if rel.isEmpty || !rest.endsWith ")" then none else
    let inner := (rest.dropEnd 1).toString
    if inner.isEmpty then some ⟨rel, []⟩
    else (optMapM Term.ofWire (inner.splitOn ",")).map (fun as => ⟨rel, as⟩)
  | _ => none

def Atom.toWire (a : Atom) : String := a.rel ++ "(" ++ joinWith "," (a.args.map Term.toWire) ++ ")"

def CmpOp.ofWire : String → Option CmpOp
  | "eq" => some .eq | "ne" => some .ne | "lt" => some .lt
  | "le" => some .le | "gt" => some .gt | "ge" => some .ge | _ => none

def CmpOp.toWire : CmpOp → String
  | .eq => "eq" | .ne => "ne" | .lt => "lt" | .le => "le" | .gt => "gt" | .ge => "ge"

def Lit.ofWire (s : String) : Option Lit :=
  if s == "X" then some .other
  else if s.startsWith "+" then (Atom.ofWire (s.drop 1).toString).map .pos
  else if s.startsWith "-" then (Atom.ofWire (s.drop 1).toString).map .neg
  else if s.startsWith "?" then
    match (s.drop 1).toString.splitOn "," with
    | [op, l, r] => match CmpOp.ofWire op, Term.ofWire l, Term.ofWire r with
      | some op, some l, some r => some (.cmp l op r)
      | _, _, _ => none
    | _ => none
  else none

def Lit.toWire : Lit → String
  | .pos a => "+" ++ a.toWire
  | .neg a => "-" ++ a.toWire
  | .cmp l op r => "?" ++ op.toWire ++ "," ++ l.toWire ++ "," ++ r.toWire
  | .other => "X"

inductive Item where
  | fact (rel : String) (t : Tuple)
  | rule (r : Rule)
  deriving Repr, Inhabited

def Item.ofWire (s : String) : Option Item :=
  match s.splitOn "@" with
  | ["F", rel, t] => if rel.isEmpty then none else (Tuple.ofWire t).map (.fact rel)
  | ["R", h, b] =>
    match Atom.ofWire h, optMapM Lit.ofWire (splitNonEmpty b "&") with
    | some h, some b => some (.rule ⟨h, b⟩)
    | _, _ => none
  | _ => none

/-- stored base data: group `(rel, tuple)` pairs by relation, first occurrence order, dedup. -/
def groupFacts : List (String × Tuple) → DB → DB
  | [], db => db
  | (rel, t) :: rest, db =>
    if (db.get rel).contains t then groupFacts rest db else groupFacts rest (db.push rel t)

/-- split `a b | x ; y ; z` style requests: the driver hands us the line split on single spaces. -/
def splitItems (args : List String) : List String × List String :=
  let pre := args.takeWhile (· != "|")
  let post := (args.dropWhile (· != "|")).drop 1
  (pre, post.filter (· != ";"))

structure KG where
  rules : Program
  base : DB
  deriving Repr, Inhabited

def parseKG (items : List String) : Option KG :=
  match optMapM Item.ofWire items with
  | none => none
  | some its =>
    let rules := its.filterMap (fun | .rule r => some r | _ => none)
    let facts := its.filterMap (fun | .fact rel t => some (rel, t) | _ => none)
    some ⟨rules, groupFacts facts []⟩

end ILV.Prov
