/-
  E8 — model of the provenance code:
    src/provenance/unification.rs      unify_head, substitute_atom, find_matching_tuples,
                                       evaluate_comparison, term_to_value, values_equal, value_cmp
    src/provenance/proof_tree.rs       ProofTreeBuilder (insert / insert_unique / get_existing)
    src/provenance/backward_chaining.rs build_proof_tree, build_node
    src/provenance/prove_body.rs       prove_body, enumerate_derived_candidates
    src/provenance/why_not.rs          explain_why_not
    src/protocol/handler.rs            why_query (499-651), why_not_query (656-744),
                                       parse_literal_value (8214)
  The model mirrors what the code does, including what it does wrong (negated atoms are looked up in
  base data only; `.why_not` is greedy and sees no derived data).
  Hash maps are association lists (`lookup` = first entry, insert = cons, i.e. latest wins) — the
  code never iterates a hash map on these paths, it only looks keys up.
-/
import ILV.Model.ProvSyntax
namespace ILV.Prov
open ILV

/-! ### values (unification.rs:210-266) -/

def fitsI32 (n : Int) : Bool := decide (-(2:Int)^31 ≤ n) && decide (n < (2:Int)^31)

/-- `term_to_value` (unification.rs:210): small integers become `Int32`. -/
def termToValue : Term → Option Value
  | .int n => some (if fitsI32 n then .i32 n else .i64 n)
  | .flt b => some (.f64 b)
  | .str s => some (.str s)
  | .bool b => some (.bool b)
  | _ => none

/-- `values_equal` (unification.rs:237): integers compare across widths, floats by IEEE `==`,
    everything else by `PartialEq for Value` (structural). -/
def valuesEqual : Value → Value → Bool
  | .i32 x, .i32 y => x == y
  | .i64 x, .i64 y => x == y
  | .i32 x, .i64 y => x == y
  | .i64 x, .i32 y => x == y
  | .f64 x, .f64 y => f64PartialCmp x y == some .eq
  | a, b => a == b

/-- `value_cmp` (unification.rs:253); `none` = `Err("NaN comparison")`. -/
def valueCmp : Value → Value → Option Ordering
  | .i32 x, .i32 y => some (compare x y)
  | .i64 x, .i64 y => some (compare x y)
  | .i32 x, .i64 y => some (compare x y)
  | .i64 x, .i32 y => some (compare x y)
  | .f64 x, .f64 y => f64PartialCmp x y
  | a, b => some (Value.cmp a b)

abbrev Bindings := List (String × Value)

/-- `BoundTerm` (unification.rs:16). `anon` is the `Unbound("_placeholder_<fresh>")` the code makes
    for `_`: a name that no other term can mention, so it never constrains or is looked up. -/
inductive BT where
  | conc (v : Value)
  | unb (x : String)
  | anon
  deriving Repr, DecidableEq, Inhabited

/-- the concrete positions of a pattern (what a negation / why-not node shows as `conclusion.args`). -/
def concPart (bts : List BT) : Tuple := bts.filterMap (fun | .conc v => some v | _ => none)

/-- `resolve_term` (unification.rs:179). Unsupported terms do not reach the model. -/
def resolveTerm (b : Bindings) : Term → BT
  | .var x => match b.lookup x with
    | some v => .conc v
    | none => .unb x
  | .wild => .anon
  | t => match termToValue t with
    | some v => .conc v
    | none => .anon

/-- `substitute_atom` (unification.rs:61). -/
def substituteAtom (a : Atom) (b : Bindings) : List BT := a.args.map (resolveTerm b)

/-- `unify_head` loop body (unification.rs:32-52). -/
def unifyArgs : List Term → List Value → Bindings → Option Bindings
  | [], _, b => some b
  | _ :: _, [], _ => none
  | t :: ts, v :: vs, b =>
    match t with
    | .var x => match b.lookup x with
      | some e => if e == v then unifyArgs ts vs b else none     -- `existing != value` (strict)
      | none => unifyArgs ts vs ((x, v) :: b)
    | .wild => unifyArgs ts vs b
    | t => match termToValue t with
      | some e => if valuesEqual e v then unifyArgs ts vs b else none
      | none => none

/-- `unify_head` (unification.rs:27). -/
def unifyHead (tuple : Tuple) (head : Atom) : Option Bindings :=
  if tuple.length != head.args.length then none else unifyArgs head.args tuple []

/-- inner loop of `find_matching_tuples` for one tuple (unification.rs:90-125). -/
def matchArgs : List BT → List Value → Bindings → Option Bindings
  | [], _, nb => some nb
  | _ :: _, [], _ => none
  | bt :: bts, v :: vs, nb =>
    match bt with
    | .conc e => if valuesEqual e v then matchArgs bts vs nb else none
    | .unb x => match nb.lookup x with
      | some e => if valuesEqual e v then matchArgs bts vs nb else none
      | none => matchArgs bts vs ((x, v) :: nb)
    | .anon => matchArgs bts vs nb

def matchTuple (bts : List BT) (t : Tuple) : Option Bindings :=
  if t.length != bts.length then none else matchArgs bts t []

/-- `find_matching_tuples` (unification.rs:72). -/
def findMatching (rel : String) (bts : List BT) (db : DB) : List (Tuple × Bindings) :=
  (db.get rel).filterMap (fun t => (matchTuple bts t).map (fun nb => (t, nb)))

/-- `evaluate_comparison` (unification.rs:145); `none` = `Err`. -/
def evalCmp (l : Term) (op : CmpOp) (r : Term) (b : Bindings) : Option Bool :=
  match resolveTerm b l, resolveTerm b r with
  | .conc x, .conc y =>
    match op with
    | .eq => some (valuesEqual x y)
    | .ne => some (!valuesEqual x y)
    | .lt => (valueCmp x y).map (· == .lt)
    | .le => (valueCmp x y).map (· != .gt)
    | .gt => (valueCmp x y).map (· == .gt)
    | .ge => (valueCmp x y).map (· != .lt)
  | _, _ => none

/-! ### proof nodes and the builder (proof_tree.rs:392-581) -/

inductive Src where
  | edb | derived
  deriving Repr, DecidableEq, Inhabited

inductive NodeKind where
  | fact (src : Src)
  | rule (idx : Nat) (bindings : Bindings)
  | neg (pattern : List BT)
  | trunc (limit : Nat)
  deriving Repr, DecidableEq, Inhabited

structure Node where
  kind : NodeKind
  pred : String
  args : Tuple
  children : List Nat := []
  deriving Repr, DecidableEq, Inhabited

def NodeKind.isFact : NodeKind → Bool
  | .fact _ => true
  | _ => false

/-- `ProofTreeBuilder`: node `n<i>` is `nodes[i]` (`next_id = nodes.length`). -/
structure Builder where
  nodes : List Node := []
  seen : List ((String × Tuple) × Nat) := []
  /-- ids of nodes that do not fully explain their conclusion (truncated at the depth limit, or a
      step resting on such a node); they are never memoised (proof_tree.rs `incomplete`) -/
  incomplete : List Nat := []
  deriving Repr, Inhabited

def Builder.getExisting (b : Builder) (pred : String) (args : Tuple) : Option Nat :=
  b.seen.lookup (pred, args)

/-- `insert_unique` (proof_tree.rs:566). -/
def Builder.insertUnique (b : Builder) (n : Node) : Nat × Builder :=
  (b.nodes.length, { b with nodes := b.nodes ++ [n] })

/-- `insert_unique` followed by `mark_incomplete`. -/
def Builder.insertIncomplete (b : Builder) (n : Node) : Nat × Builder :=
  (b.nodes.length, { b with nodes := b.nodes ++ [n], incomplete := b.nodes.length :: b.incomplete })

def Builder.isIncomplete (b : Builder) (id : Nat) : Bool := b.incomplete.contains id

/-- `insert` (proof_tree.rs:549): fact nodes are deduplicated by conclusion; every inserted node
    (re)binds the `seen` key. -/
def Builder.insert (b : Builder) (n : Node) : Nat × Builder :=
  match (if n.kind.isFact then b.seen.lookup (n.pred, n.args) else none) with
  | some id => (id, b)
  | none => (b.nodes.length, { b with nodes := b.nodes ++ [n], seen := ((n.pred, n.args), b.nodes.length) :: b.seen })

/-- a rule step: memoised (`insert`) unless it rests on an incomplete premise
    (backward_chaining.rs `rests_on_incomplete`). -/
def Builder.insertRule (b : Builder) (n : Node) : Nat × Builder :=
  if n.children.any b.isIncomplete then b.insertIncomplete n else b.insert n

/-! ### context (backward_chaining.rs:26-97) -/

structure Ctx where
  rules : Program
  base : DB
  derived : Option DB
  maxDepth : Nat := 50
  maxProofs : Nat := 5
  maxCandidates : Nat := 1000
  deriving Repr, Inhabited

def Ctx.isDerived (c : Ctx) (rel : String) : Bool := c.rules.any (fun r => r.head.rel == rel)
def Ctx.rulesFor (c : Ctx) (rel : String) : List Rule := c.rules.filter (fun r => r.head.rel == rel)

/-- `tuple_exists_in` (backward_chaining.rs:498): `Vec::contains`, i.e. strict `==`. -/
def tupleExistsIn (rel : String) (t : Tuple) (db : DB) : Bool := (db.get rel).contains t

/-- a rule node carries `format!("{rule}")`; the harness maps that text back to the first clause
    with the same text, the model names the first clause equal to the one it used. -/
def ruleIndex (rules : Program) (r : Rule) : Nat := rules.findIdx (· == r)

abbrev Visited := List (String × Tuple)
abbrev State := Bindings × List Nat

/-- `build_node` at some depth: returns the node ids and the mutated builder. `visited` is passed
    down only: every path of `build_node` that inserts its key removes it again before returning
    (backward_chaining.rs:187,217,241,264,336) and nothing else touches the set. -/
abbrev BuildFn := String → Tuple → Builder → Visited → List Nat × Builder
/-- `enumerate_derived_candidates` at some depth (it uses a private, discarded builder). -/
abbrev EnumFn := String → List BT → Visited → List (Tuple × Bindings)

/-! ### prove_body (prove_body.rs:25-209), parameterised by the `build_node` / `enumerate` of the
    same depth -/

/-- the `for (matched_tuple, new_binds) in matches` loop (prove_body.rs:63-82). -/
def stepMatches (bn : BuildFn) (rel : String) (vis : Visited) (bindings : Bindings) (children : List Nat) :
    List (Tuple × Bindings) → Builder → List State × Builder
  | [], b => ([], b)
  | (t, nb) :: ms, b =>
    let r := bn rel t b vis
    let rest := stepMatches bn rel vis bindings children ms r.2
    match r.1 with
    | id :: _ => ((nb ++ bindings, children ++ [id]) :: rest.1, rest.2)
    | [] => rest

/-- candidate matches for a positive atom (prove_body.rs:40-61). -/
def posMatches (ctx : Ctx) (en : EnumFn) (vis : Visited) (a : Atom) (bindings : Bindings) : List (Tuple × Bindings) :=
  let bound := substituteAtom a bindings
  let m0 := findMatching a.rel bound ctx.base
  let m1 := if m0.isEmpty && ctx.isDerived a.rel then
      match ctx.derived with
      | some d => findMatching a.rel bound d
      | none => m0
    else m0
  if m1.isEmpty && ctx.isDerived a.rel then en a.rel bound vis else m1

/-- facts refuting a negated atom: stored ones, else derived ones (prove_body.rs:84-93, why_not.rs:210-218). -/
def negMatches (ctx : Ctx) (rel : String) (bound : List BT) : List (Tuple × Bindings) :=
  let m := findMatching rel bound ctx.base
  if m.isEmpty then
    match ctx.derived with
    | some d => findMatching rel bound d
    | none => m
  else m

/-- one body predicate applied to one state (prove_body.rs:38-198). -/
def stepState (ctx : Ctx) (bn : BuildFn) (en : EnumFn) (vis : Visited) (l : Lit) (st : State) (b : Builder) :
    List State × Builder :=
  match l with
  | .pos a => stepMatches bn a.rel vis st.1 st.2 (posMatches ctx en vis a st.1) b
  | .neg a =>
    let bound := substituteAtom a st.1
    if (negMatches ctx a.rel bound).isEmpty then
      let r := b.insertUnique { kind := .neg bound, pred := a.rel, args := concPart bound }
      ([(st.1, st.2 ++ [r.1])], r.2)
    else ([], b)
  | .cmp l op r =>
    match evalCmp l op r st.1 with
    | some true => ([st], b)
    | _ => ([], b)
  | .other => ([], b)

def stepStates (ctx : Ctx) (bn : BuildFn) (en : EnumFn) (vis : Visited) (l : Lit) :
    List State → Builder → List State × Builder
  | [], b => ([], b)
  | st :: sts, b =>
    let r := stepState ctx bn en vis l st b
    let rest := stepStates ctx bn en vis l sts r.2
    (r.1 ++ rest.1, rest.2)

/-- `prove_body`: `none` = `Err("No matching tuples for body predicate …")`. -/
def proveBody (ctx : Ctx) (bn : BuildFn) (en : EnumFn) (vis : Visited) :
    List Lit → List State → Builder → Option (List State) × Builder
  | [], sts, b => (some sts, b)
  | l :: ls, sts, b =>
    let r := stepStates ctx bn en vis l sts b
    if r.1.isEmpty then (none, r.2) else proveBody ctx bn en vis ls r.1 r.2

/-! ### build_node below the depth limit (backward_chaining.rs:177-338) -/

def isPlaceholderName (x : String) : Bool := x.startsWith "_placeholder_"

/-- the `for (final_bindings, child_ids) in body_results` loop (backward_chaining.rs:278-308). -/
def addRuleNodes (ctx : Ctx) (rel : String) (values : Tuple) (idx : Nat) :
    List State → List Nat → Builder → List Nat × Builder
  | [], res, b => (res, b)
  | (fb, kids) :: sts, res, b =>
    if res.length ≥ ctx.maxProofs then (res, b) else
    let r := b.insertRule { kind := .rule idx (fb.filter (fun p => !isPlaceholderName p.1)), pred := rel, args := values, children := kids }
    addRuleNodes ctx rel values idx sts (res ++ [r.1]) r.2

/-- the `for (clause_idx, rule) in rules` loop (backward_chaining.rs:248-312).
    `pb` is `prove_body` at depth + 1. -/
def tryRules (ctx : Ctx) (pb : Visited → List Lit → List State → Builder → Option (List State) × Builder)
    (rel : String) (tuple : Tuple) (vis : Visited) : List Rule → List Nat → Builder → List Nat × Builder
  | [], res, b => (res, b)
  | r :: rs, res, b =>
    if res.length ≥ ctx.maxProofs then (res, b) else
    match unifyHead tuple r.head with
    | none => tryRules ctx pb rel tuple vis rs res b
    | some bd =>
      let p := pb vis r.body [(bd, [])] b
      match p.1 with
      | some sts =>
        let a := addRuleNodes ctx rel tuple (ruleIndex ctx.rules r) sts res p.2
        tryRules ctx pb rel tuple vis rs a.1 a.2
      | none => tryRules ctx pb rel tuple vis rs res p.2

def factNode (rel : String) (t : Tuple) (s : Src) : Node := { kind := .fact s, pred := rel, args := t }

/-- "if it exists as a base fact, record it" (backward_chaining.rs:222-244). -/
def baseFactStep (rel : String) (tuple : Tuple) (inBase : Bool) (b : Builder) : List Nat × Builder :=
  if inBase then ([(b.insert (factNode rel tuple .edb)).1], (b.insert (factNode rel tuple .edb)).2) else ([], b)

/-- fallback: no rule proof but the engine materialised the tuple (backward_chaining.rs:316-334). -/
def fallbackStep (rel : String) (tuple : Tuple) (inDerived : Bool) (r1 : List Nat × Builder) : List Nat × Builder :=
  if r1.1.isEmpty && inDerived then
    ([(r1.2.insert (factNode rel tuple .derived)).1], (r1.2.insert (factNode rel tuple .derived)).2)
  else r1

/-- the part of `build_node` for a relation that has rules (backward_chaining.rs:221-337). -/
def derivedStep (ctx : Ctx) (pb : Visited → List Lit → List State → Builder → Option (List State) × Builder)
    (rel : String) (tuple : Tuple) (vis' : Visited) (inBase inDerived : Bool) (b : Builder) : List Nat × Builder :=
  if inBase && (baseFactStep rel tuple inBase b).1.length ≥ ctx.maxProofs then baseFactStep rel tuple inBase b
  else fallbackStep rel tuple inDerived
    (tryRules ctx pb rel tuple vis' (ctx.rulesFor rel) (baseFactStep rel tuple inBase b).1 (baseFactStep rel tuple inBase b).2)

/-- `build_node` for `depth < max_depth`. -/
def buildNodeAt (ctx : Ctx) (pb : Visited → List Lit → List State → Builder → Option (List State) × Builder) : BuildFn :=
  fun rel tuple b vis =>
    match b.getExisting rel tuple with
    | some id => ([id], b)
    | none =>
      if vis.contains (rel, tuple) then ([], b) else
      let inBase := tupleExistsIn rel tuple ctx.base
      let inDerived := match ctx.derived with
        | some d => tupleExistsIn rel tuple d
        | none => false
      if !ctx.isDerived rel then
        if inBase || inDerived then
          ([(b.insert (factNode rel tuple .edb)).1], (b.insert (factNode rel tuple .edb)).2)
        else ([], b)
      else derivedStep ctx pb rel tuple ((rel, tuple) :: vis) inBase inDerived b

/-- `build_node` at `depth ≥ max_depth` (backward_chaining.rs:155-175). -/
def truncNodeAt (ctx : Ctx) : BuildFn :=
  fun rel tuple b _ =>
    let r := b.insertIncomplete { kind := .trunc ctx.maxDepth, pred := rel, args := tuple }
    ([r.1], r.2)

/-! ### enumerate_derived_candidates (prove_body.rs:225-323) -/

/-- head bindings from the concrete positions of the pattern (prove_body.rs:246-253). -/
def enumHeadBindings : List BT → List Term → Bindings → Bindings
  | .conc v :: bts, .var x :: ts, b => enumHeadBindings bts ts ((x, v) :: b)
  | _ :: bts, _ :: ts, b => enumHeadBindings bts ts b
  | _, _, b => b

/-- head values under the final bindings (prove_body.rs:269-290). -/
def enumHeadValues (fb : Bindings) : List Term → Option Tuple
  | [] => some []
  | .var x :: ts => match fb.lookup x, enumHeadValues fb ts with
    | some v, some vs => some (v :: vs)
    | _, _ => none
  | t :: ts => match termToValue t, enumHeadValues fb ts with
    | some v, some vs => some (v :: vs)
    | _, _ => none

/-- `matches_pattern` (prove_body.rs:293-303): strict `!=`, positions beyond the tuple are ignored. -/
def enumMatchesPattern : List BT → Tuple → Bool
  | .conc e :: bts, v :: vs => e == v && enumMatchesPattern bts vs
  | _ :: bts, _ :: vs => enumMatchesPattern bts vs
  | _, _ => true

/-- new bindings of a candidate; `none` when a repeated pattern variable would get two different
    values (prove_body.rs `consistent`). -/
def enumNewBinds : List BT → Tuple → Bindings → Option Bindings
  | .unb x :: bts, v :: vs, nb =>
    match nb.lookup x with
    | some e => if e == v then enumNewBinds bts vs nb else none
    | none => enumNewBinds bts vs ((x, v) :: nb)
  | _ :: bts, _ :: vs, nb => enumNewBinds bts vs nb
  | _, _, nb => some nb

def enumCollect (ctx : Ctx) (bts : List BT) (head : Atom) : List State → List (Tuple × Bindings) → List (Tuple × Bindings)
  | [], acc => acc
  | (fb, _) :: sts, acc =>
    if acc.length ≥ ctx.maxCandidates then acc else
    match enumHeadValues fb head.args with
    | some t =>
      if enumMatchesPattern bts t then
        match enumNewBinds bts t [] with
        | some nb => enumCollect ctx bts head sts (acc ++ [(t, nb)])
        | none => enumCollect ctx bts head sts acc
      else enumCollect ctx bts head sts acc
    | none => enumCollect ctx bts head sts acc

def enumRules (ctx : Ctx) (pb : Visited → List Lit → List State → Builder → Option (List State) × Builder)
    (bts : List BT) (vis : Visited) : List Rule → Builder → List (Tuple × Bindings) → List (Tuple × Bindings)
  | [], _, acc => acc
  | r :: rs, tb, acc =>
    if acc.length ≥ ctx.maxCandidates then acc else
    let p := pb vis r.body [(enumHeadBindings bts r.head.args [], [])] tb
    match p.1 with
    | some sts => enumRules ctx pb bts vis rs p.2 (enumCollect ctx bts r.head sts acc)
    | none => enumRules ctx pb bts vis rs p.2 acc

def enumerateAt (ctx : Ctx) (pb : Visited → List Lit → List State → Builder → Option (List State) × Builder) : EnumFn :=
  fun rel bts vis => enumRules ctx pb bts vis (ctx.rulesFor rel) {} []

/-! ### the depth tower: `level n` = the functions at depth `max_depth - n` -/

structure Fns where
  bn : BuildFn
  en : EnumFn

def level (ctx : Ctx) : Nat → Fns
  | 0 => { bn := truncNodeAt ctx, en := fun _ _ _ => [] }
  | n + 1 =>
    let f := level ctx n
    let pb := fun vis => proveBody ctx f.bn f.en vis
    { bn := buildNodeAt ctx pb, en := enumerateAt ctx pb }

/-- the arity truncation of `build_proof_tree` (backward_chaining.rs:108-122). -/
def truncateToArity (ctx : Ctx) (rel : String) (tuple : Tuple) : Tuple :=
  match (ctx.rulesFor rel).head? with
  | some r => if tuple.length > r.head.args.length then tuple.take r.head.args.length else tuple
  | none => tuple

/-- `build_proof_tree` (backward_chaining.rs:103): arity truncation, then `build_node` at depth 0;
    `none` = `Err("No derivation found …")`. -/
def buildProofTree (ctx : Ctx) (rel : String) (tuple : Tuple) : Option (Nat × Builder) :=
  match ((level ctx ctx.maxDepth).bn rel (truncateToArity ctx rel tuple) {} []).1 with
  | id :: _ => some (id, ((level ctx ctx.maxDepth).bn rel (truncateToArity ctx rel tuple) {} []).2)
  | [] => none

/-! ### trees: the DAG unfolded from a root (what the harness prints by walking the real nodes) -/

inductive Tree where
  | node (kind : NodeKind) (pred : String) (args : Tuple) (children : List Tree)
  deriving Repr, Inhabited

def Tree.kind : Tree → NodeKind | .node k _ _ _ => k
def Tree.pred : Tree → String | .node _ p _ _ => p
def Tree.args : Tree → Tuple | .node _ _ a _ => a
def Tree.children : Tree → List Tree | .node _ _ _ c => c

/-- unfold node `id`; children always have smaller ids (they are inserted first), `fuel` ≥ id + 1. -/
def unfold (nodes : List Node) : Nat → Nat → Tree
  | 0, _ => .node (.trunc 0) "?" [] []
  | fuel + 1, id =>
    match nodes[id]? with
    | some n => .node n.kind n.pred n.args (n.children.map (unfold nodes fuel))
    | none => .node (.trunc 0) "?" [] []

def Builder.tree (b : Builder) (id : Nat) : Tree := unfold b.nodes (id + 1) id

/-- what `.why` returns for one answer tuple (handler.rs:572-601): the proof tree, or the fallback
    single `Truncated` node. -/
def whyTree (ctx : Ctx) (rel : String) (tuple : Tuple) : Tree :=
  match buildProofTree ctx rel tuple with
  | some (id, b) => b.tree id
  | none => .node (.trunc ctx.maxDepth) rel tuple []

/-! ### explain_why_not (why_not.rs:25-408) -/

inductive Blocker where
  | headMismatch                                      -- HeadUnificationFailed
  | atomFailed (idx : Nat) (rel : String) (bound : List BT)   -- BodyAtomFailed (no matching tuples)
  | negSucceeded (idx : Nat) (rel : String) (t : Tuple)       -- NegationSucceeded
  | cmpFailed (idx : Nat)                              -- ComparisonFailed
  | cmpError (idx : Nat)                               -- BodyAtomFailed with the evaluation error
  deriving Repr, DecidableEq, Inhabited

/-- one clause of the explanation: the facts that matched (in body order), the blocker if any, and
    the bindings reached. -/
structure ClauseExpl where
  idx : Nat                         -- index among the clauses of the relation
  ruleIdx : Nat                     -- index in the program
  bindings : Bindings := []
  facts : List (String × Tuple × Src) := []
  blocker : Option Blocker := none
  deriving Repr, DecidableEq, Inhabited

/-- the body trace of one clause (why_not.rs:103-349): greedy, first match, no backtracking. -/
def traceBody (ctx : Ctx) : List Lit → Nat → Bindings → List (String × Tuple × Src) →
    Bindings × List (String × Tuple × Src) × Option Blocker
  | [], _, b, fs => (b, fs, none)
  | l :: ls, i, b, fs =>
    match l with
    | .pos a =>
      let bound := substituteAtom a b
      match findMatching a.rel bound ctx.base with
      | (t, nb) :: _ => traceBody ctx ls (i + 1) (nb ++ b) (fs ++ [(a.rel, t, .edb)])
      | [] =>
        let dm := match ctx.derived with
          | some d => findMatching a.rel bound d
          | none => []
        match dm with
        | (t, nb) :: _ => traceBody ctx ls (i + 1) (nb ++ b) (fs ++ [(a.rel, t.take (min t.length a.args.length), .derived)])
        | [] => (b, fs, some (.atomFailed i a.rel bound))
    | .neg a =>
      let bound := substituteAtom a b
      match negMatches ctx a.rel bound with
      | (t, _) :: _ => (b, fs, some (.negSucceeded i a.rel t))
      | [] => traceBody ctx ls (i + 1) b fs
    | .cmp x op y =>
      match evalCmp x op y b with
      | some true => traceBody ctx ls (i + 1) b fs
      | some false => (b, fs, some (.cmpFailed i))
      | none => (b, fs, some (.cmpError i))
    | .other => (b, fs, some (.cmpError i))

/-- one clause of `explain_why_not` (why_not.rs:63-374). -/
def explainClause (ctx : Ctx) (target : Tuple) (r : Rule) (i : Nat) : ClauseExpl :=
  match unifyHead target r.head with
  | none => { idx := i, ruleIdx := ruleIndex ctx.rules r, blocker := some .headMismatch }
  | some bd =>
    let t := traceBody ctx r.body 0 bd []
    { idx := i, ruleIdx := ruleIndex ctx.rules r, bindings := t.1.filter (fun p => !isPlaceholderName p.1),
      facts := t.2.1, blocker := t.2.2 }

def explainClauses (ctx : Ctx) (target : Tuple) : List Rule → Nat → List ClauseExpl
  | [], _ => []
  | r :: rs, i => explainClause ctx target r i :: explainClauses ctx target rs (i + 1)

/-- `explain_why_not`: `none` = "No rules produce this relation". -/
def explainWhyNot (ctx : Ctx) (rel : String) (target : Tuple) : Option (List ClauseExpl) :=
  if !ctx.isDerived rel then none else some (explainClauses ctx target (ctx.rulesFor rel) 0)

/-- `parse_literal_value` on integer text (handler.rs:8281): small integers become `Int32`. -/
def literalInt (n : Int) : Value := if fitsI32 n then .i32 n else .i64 n

end ILV.Prov
