/-
  Exact IEEE-754 binary64 arithmetic on bit patterns (round-to-nearest-even), import-free.
  Used by the IR model for the float paths of `predicate_to_tuple_fn`, `evaluate_arithmetic`,
  `Value::to_f64/to_i64` and the `Avg` aggregate (src/code_generator/mod.rs, src/value/mod.rs).
  Every operation is "round (exact rational result)"; the only liberty taken is that a NaN result
  is always the canonical quiet NaN 0x7ff8000000000000 (Rust leaves NaN payloads unspecified).
-/
import ILV.Model.Value
namespace ILV.F64

def qNaN : Nat := 0x7ff8000000000000
def posInf : Nat := 0x7ff0000000000000
def signMask : Nat := 2^63

def expField (b : Nat) : Nat := (b / 2^52) % 2048
def frac (b : Nat) : Nat := b % 2^52
def isNeg (b : Nat) : Bool := (b / 2^63) % 2 == 1
def isNaN (b : Nat) : Bool := f64IsNaN b
def isInf (b : Nat) : Bool := expField b == 2047 && frac b == 0
def isFinite (b : Nat) : Bool := expField b != 2047
def isZero (b : Nat) : Bool := b % 2^63 == 0
def neg (b : Nat) : Nat := if isNeg b then b - signMask else b + signMask
def abs (b : Nat) : Nat := b % 2^63
def withSign (n : Bool) (magBits : Nat) : Nat := if n then magBits + signMask else magBits

/-- mantissa and exponent of a finite pattern: |x| = m * 2^e. -/
def mant (b : Nat) : Nat := if expField b == 0 then frac b else 2^52 + frac b
def expo (b : Nat) : Int := if expField b == 0 then -1074 else (expField b : Int) - 1075

def pow2 (e : Int) : Nat := 2 ^ e.toNat

/-- nearest binary64 (ties to even) to the positive rational `num/den` (`den > 0`), as magnitude bits. -/
def roundMag (num den : Nat) : Nat :=
  if num == 0 || den == 0 then 0 else
  -- k with 2^k ≤ num/den < 2^(k+1)
  let k0 : Int := (Nat.log2 num : Int) - (Nat.log2 den : Int)
  let lhs := num * pow2 (-k0)
  let rhs := den * pow2 k0
  let k : Int := if lhs < rhs then k0 - 1 else k0
  let e : Int := (if k < -1022 then -1022 else k) - 52
  let n' := num * pow2 (-e)
  let d' := den * pow2 e
  let q := n' / d'
  let r := n' % d'
  let q := if 2 * r > d' || (2 * r == d' && q % 2 == 1) then q + 1 else q
  let (q, e) := if q == 2^53 then (2^52, e + 1) else (q, e)
  if e + 1075 ≥ 2047 then posInf else ((e + 1074).toNat) * 2^52 + q

def ofInt (n : Int) : Nat := withSign (n < 0) (roundMag n.natAbs 1)

/-- exact value of a finite pattern as a signed integer times `2^emin`, for a given `emin ≤ expo`. -/
def scaled (b : Nat) (emin : Int) : Int :=
  let v : Int := (mant b * pow2 (expo b - emin) : Nat)
  if isNeg b then -v else v

/-- signed integer `s` times `2^e` rounded to binary64; `negZero` chooses the sign of an exact zero. -/
def ofScaled (s : Int) (e : Int) (negZero : Bool) : Nat :=
  if s == 0 then withSign negZero 0
  else withSign (s < 0) (roundMag (s.natAbs * pow2 e) (pow2 (-e)))

def add (a b : Nat) : Nat :=
  if isNaN a || isNaN b then qNaN
  else if isInf a then (if isInf b && isNeg a != isNeg b then qNaN else a)
  else if isInf b then b
  else
    let emin := if expo a ≤ expo b then expo a else expo b
    ofScaled (scaled a emin + scaled b emin) emin (isNeg a && isNeg b)

def sub (a b : Nat) : Nat := if isNaN b then qNaN else add a (neg b)

def mul (a b : Nat) : Nat :=
  if isNaN a || isNaN b then qNaN
  else
    let s := isNeg a != isNeg b
    if isInf a || isInf b then (if isZero a || isZero b then qNaN else withSign s posInf)
    else withSign s (roundMag (mant a * mant b * pow2 (expo a + expo b)) (pow2 (-(expo a + expo b))))

def div (a b : Nat) : Nat :=
  if isNaN a || isNaN b then qNaN
  else
    let s := isNeg a != isNeg b
    if isInf a then (if isInf b then qNaN else withSign s posInf)
    else if isInf b then withSign s 0
    else if isZero b then (if isZero a then qNaN else withSign s posInf)
    else
      let e := expo a - expo b
      withSign s (roundMag (mant a * pow2 e) (mant b * pow2 (-e)))

/-- C `fmod` (what Rust's `%` on `f64` is): exact, sign of the dividend. -/
def fmod (a b : Nat) : Nat :=
  if isNaN a || isNaN b || isInf a || isZero b then qNaN
  else if isInf b then a
  else
    let emin := if expo a ≤ expo b then expo a else expo b
    let x := mant a * pow2 (expo a - emin)
    let y := mant b * pow2 (expo b - emin)
    withSign (isNeg a) (roundMag ((x % y) * pow2 emin) (pow2 (-emin)))

/-- Rust `f as i64`: truncation toward zero, saturating, NaN ↦ 0. -/
def toI64 (b : Nat) : Int :=
  if isNaN b then 0
  else if isInf b then (if isNeg b then -(2^63 : Int) else 2^63 - 1)
  else
    let mag : Nat := if expo b ≥ 0 then mant b * pow2 (expo b) else mant b / pow2 (-(expo b))
    let v : Int := if isNeg b then -(mag : Int) else mag
    if v < -(2^63 : Int) then -(2^63 : Int) else if v > 2^63 - 1 then 2^63 - 1 else v

/-- IEEE comparisons (false on NaN). -/
def lt (a b : Nat) : Bool := f64PartialCmp a b == some .lt
def le (a b : Nat) : Bool := f64PartialCmp a b == some .lt || f64PartialCmp a b == some .eq
def gt (a b : Nat) : Bool := f64PartialCmp a b == some .gt
def ge (a b : Nat) : Bool := f64PartialCmp a b == some .gt || f64PartialCmp a b == some .eq
def eqIeee (a b : Nat) : Bool := f64PartialCmp a b == some .eq

/-- `FLOAT_EQ_TOLERANCE = 1e-10` (code_generator/mod.rs:92). -/
def tol : Nat := 0x3ddb7cdfd9d7bdbb
/-- `(a - b).abs() < FLOAT_EQ_TOLERANCE` -/
def nearEq (a b : Nat) : Bool := lt (abs (sub a b)) tol
/-- `(a - b).abs() >= FLOAT_EQ_TOLERANCE` (false when the difference is NaN) -/
def farNe (a b : Nat) : Bool := ge (abs (sub a b)) tol

def one : Nat := 0x3ff0000000000000

end ILV.F64
