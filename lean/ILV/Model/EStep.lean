/-
  E7 (small-step part) — interleaving model of `StorageEngine` writes and snapshot reads on one
  knowledge graph (src/storage_engine/mod.rs), with the optional incremental engine
  (src/incremental.rs).

  One atomic step per region between two scheduling points; the points are the entry of each call
  and the hooks "se.insert.after_time" / "se.insert.after_persist" (and the `delete` twins):

    insert_tuples_into(kg, r, ts)                                           mod.rs:419
      step 1  empty batch → Ok((0,0));  view/arity checks; ⟨dropping_kgs.read()⟩;
              time := logical_time.fetch_add(1)                             mod.rs:425-479
              -- yield "se.insert.after_time"
      step 2  ensure_shard; persist.append(+1 per *requested* tuple); release guard      mod.rs:482-501
              -- yield "se.insert.after_persist"
      step 3  ⟨kg.write(); insert_in_memory: dedup against the growing Vec, shadow-write the *new*
               tuples to the incremental engine at `time`, publish_snapshot if new_count > 0⟩   mod.rs:504-510, 2262-2334
    delete_tuples_from: the same three steps with delete_in_memory (publish iff something was removed); tuples of
      a relation without metadata (no insert applied yet) are filtered out first: Ok(0), no time, no log   mod.rs:624-693
    execute_query_tuples_on / execute_query_with_rules_tuples_on: ⟨load the ArcSwap snapshot⟩ then evaluate
      on the immutable snapshot (facts and rule list) — one step                 mod.rs:667-683, 1438
    register_rule_in / drop_rule_in: ⟨kg.write(); rule catalog update; publish_snapshot⟩ — one step   mod.rs:911-953, 2481
    read_relation_consistent (under kg.read()): m := max_write_time; advance every input session
      to m+1; wait; read the arrangement — one step                          incremental.rs:461-467

  Incremental engine: one DD `InputSession` per known relation, created at time 0 (AddRelation,
  incremental.rs:264); `AdvanceTime(t)` advances *all* sessions (incremental.rs:226);
  `update_at(_, τ, _)` asserts `session.time ≤ τ` (differential-dataflow input.rs:243) — a violated
  assertion kills the worker thread, after which every command fails ("Worker disconnected"):
  state `dead`. In `insert_in_memory` the shadow write comes *after* the Vec was modified and
  *before* `publish_snapshot`, so a failing shadow write leaves `live` changed and unpublished.
  A tuple is identified by a natural number (the harness uses the unary tuple `(Int64 id)`).
-/
import ILV.Model.Util
namespace ILV.EStep

abbrev Rel := Nat
abbrev Tup := Nat
abbrev Tid := Nat

inductive Op where
  | insert (r : Rel) (ts : List Tup)
  | delete (r : Rel) (ts : List Tup)
  | query (r : Rel)          -- snapshot query  q(X) <- r(X)
  | readc (r : Rel)          -- IncrementalEngine::read_relation_consistent(r)
  | regRule (v : Nat) (r : Rel)   -- register the persistent view clause  v<v>(X) <- r<r>(X)
  | dropRule (v : Nat)            -- drop the rule v<v>
  | queryV (v : Nat)              -- query through the snapshot's rules:  q(X) <- v<v>(X)
  deriving Repr, DecidableEq, Inhabited

/-- what a call returned -/
inductive Out where
  | ins (new dup : Nat)
  | del (n : Nat)
  | rows (l : List Tup)      -- in storage order; printed sorted
  | created                  -- RuleRegisterResult::Created
  | added (n : Nat)          -- RuleRegisterResult::RuleAdded(n)
  | dropped
  | err
  deriving Repr, DecidableEq, Inhabited

inductive Pc where
  | start
  | afterTime (τ : Nat)
  | afterPersist (τ : Nat)
  deriving Repr, DecidableEq, Inhabited

structure Thread where
  todo : List Op := []
  pc : Pc := .start
  done : List (Op × Out × Nat) := []     -- returned calls; the Nat is a ghost: `applied.length` when it returned
  deriving Repr, DecidableEq, Inhabited

/-- incremental engine -/
structure Inc where
  sess : Rel → Option Nat := fun _ => none     -- input-session time per known relation
  arr : List (Rel × Tup × Int) := []           -- updates sent to the arrangements
  maxW : Nat := 0                               -- max_write_time
  dead : Bool := false                          -- worker thread gone

/-- rule catalog restricted to view clauses: per view the body relations of its clauses -/
abbrev Rules := List (Nat × List Rel)

structure State where
  clock : Nat := 1                              -- StorageEngine::logical_time (mod.rs:143)
  known : Rel → Bool := fun _ => false          -- relation present in `metadata.relations` (an insert was applied)
  rules : Rules := []                           -- rule_catalog (live)
  snapRules : Rules := []                       -- rules carried by the published snapshot
  live : Rel → List Tup := fun _ => []          -- engine.input_tuples
  snap : Rel → List Tup := fun _ => []          -- published snapshot
  log : List (Rel × Tup × Nat × Int) := []      -- persisted updates, in append order
  applied : List (Tid × Op) := []               -- ghost: in-memory applications in KG-lock order
  inc : Option Inc := none
  n : Nat := 0
  threads : Tid → Thread := fun _ => {}

def setRel (f : Rel → List Tup) (r : Rel) (v : List Tup) : Rel → List Tup := fun x => if x = r then v else f x
def setThread (ts : Tid → Thread) (t : Tid) (v : Thread) : Tid → Thread := fun x => if x = t then v else ts x

/-- `insert_in_memory`'s loop (mod.rs:2289-2297): returns the new Vec and the tuples that were new -/
def insertMem : List Tup → List Tup → List Tup × List Tup
  | cur, [] => (cur, [])
  | cur, t :: ts =>
    if cur.contains t then insertMem cur ts
    else let (c, nw) := insertMem (cur ++ [t]) ts; (c, t :: nw)

/-- `delete_in_memory` (mod.rs:2364-2378): retained Vec, and the distinct tuples actually removed
    (the code walks the de-duplicated request set and keeps those present; the Vec never holds a
    tuple twice — `insertMem` — so the present tuples that are requested are exactly that set). -/
def deleteMem (cur ts : List Tup) : List Tup × List Tup :=
  (cur.filter (fun x => !ts.contains x), cur.filter (fun x => ts.contains x))

/-- effect of a write on the live relations (used by the step relation *and* by `replay`) -/
def applyW (live : Rel → List Tup) : Op → (Rel → List Tup)
  | .insert r ts => setRel live r (insertMem (live r) ts).1
  | .delete r ts => setRel live r (deleteMem (live r) ts).1
  | _ => live

def replay (ops : List (Tid × Op)) : Rel → List Tup := ops.foldl (fun l o => applyW l o.2) (fun _ => [])

def lookupR (v : Nat) : Rules → Option (List Rel)
  | [] => none
  | (a, b) :: rest => if a = v then some b else lookupR v rest

/-- `RuleDefinition::add_rule` (rule_catalog.rs:338): an identical clause is not added twice -/
def addClause (cls : List Rel) (r : Rel) : List Rel := if cls.contains r then cls else cls ++ [r]

/-- `RuleCatalog::register_rule` (rule_catalog.rs:437: a new definition, or one more clause of an
    existing one) and `RuleCatalog::drop` (rule_catalog.rs:518), for view clauses -/
def applyR (rules : Rules) : Op → Rules
  | .regRule v r => match lookupR v rules with
    | none => rules ++ [(v, [r])]
    | some _ => rules.map (fun e => if e.1 = v then (e.1, addClause e.2 r) else e)
  | .dropRule v => rules.filter (fun e => e.1 != v)
  | _ => rules

def replayR (ops : List (Tid × Op)) : Rules := ops.foldl (fun l o => applyR l o.2) []

/-- answer of `q(X) <- v<v>(X)` evaluated on a snapshot: union of the clauses' body relations; a view
    the snapshot's rule list does not contain is an unknown relation (empty answer) -/
def evalView (facts : Rel → List Tup) (rules : Rules) (v : Nat) : List Tup :=
  match lookupR v rules with
  | none => []
  | some cls => (cls.flatMap facts).eraseDups

def Thread.finish (th : Thread) (out : Out) (ghost : Nat) : Thread :=
  match th.todo with
  | [] => th
  | op :: rest => { todo := rest, pc := .start, done := th.done ++ [(op, out, ghost)] }

/-- shadow write of `ts` (diff `d`) to relation `r` at time `τ` (incremental.rs:404-427 + worker):
    returns the engine state and whether the write call chain succeeded. -/
def Inc.write (i : Inc) (r : Rel) (ts : List Tup) (τ : Nat) (d : Int) : Inc × Bool :=
  if i.dead then (i, false)                                    -- command channel closed
  else
    let sess := match i.sess r with | some _ => i.sess | none => fun x => if x = r then some 0 else i.sess x   -- ensure_relation
    let i := { i with sess := sess, maxW := max i.maxW τ }
    match sess r with
    | some t0 =>
      if τ < t0 then ({ i with dead := true }, false)          -- update_at assertion → worker dies; notify_base_update fails
      else ({ i with arr := i.arr ++ ts.map (fun t => (r, t, d)) }, true)
    | none => (i, true)

/-- `read_relation_consistent` -/
def Inc.readc (i : Inc) (r : Rel) : Inc × Out :=
  if i.dead then (i, .err)
  else
    let target := i.maxW + 1
    let i := { i with sess := fun x => (i.sess x).map (fun _ => target) }
    let keys := ((i.arr.filter (fun e => e.1 == r)).map (·.2.1)).eraseDups
    let rows := keys.filter (fun k => decide (((i.arr.filter (fun e => e.1 == r && e.2.1 == k)).map (·.2.2)).sum > 0))
    (i, .rows rows)

inductive Res where
  | ok (st : State)
  | skip
  deriving Inhabited

/-- third step of insert/delete: in-memory apply under the KG write lock -/
def applyStep (st : State) (t : Tid) (th : Thread) (op : Op) (τ : Nat) : State :=
  match op with
  | .insert r ts =>
    let (cur', nw) := insertMem (st.live r) ts
    let live' := setRel st.live r cur'
    let applied' := st.applied ++ [(t, op)]
    let (inc', ok) := match st.inc with
      | some i => if nw.isEmpty then (some i, true) else let (i', ok) := i.write r nw τ 1; (some i', ok)
      | none => (none, true)
    let known' := fun x => if x = r then true else st.known x      -- metadata.add_relation (mod.rs:2301), before the shadow write
    if !ok then
      { st with live := live', known := known', applied := applied', inc := inc', threads := setThread st.threads t (th.finish .err applied'.length) }
    else
      { st with live := live', known := known', applied := applied', inc := inc',
                snap := if nw.isEmpty then st.snap else live',
                snapRules := if nw.isEmpty then st.snapRules else st.rules,
                threads := setThread st.threads t (th.finish (.ins nw.length (ts.length - nw.length)) applied'.length) }
  | .delete r ts =>
    let (cur', gone) := deleteMem (st.live r) ts
    let live' := setRel st.live r cur'
    let applied' := st.applied ++ [(t, op)]
    let removed := (st.live r).length - cur'.length
    let (inc', ok) := match st.inc with
      | some i => if removed == 0 then (some i, true) else let (i', ok) := i.write r gone τ (-1); (some i', ok)
      | none => (none, true)
    if !ok then
      { st with live := live', applied := applied', inc := inc', threads := setThread st.threads t (th.finish .err applied'.length) }
    else
      { st with live := live', applied := applied', inc := inc',
                snap := if removed == 0 then st.snap else live',
                snapRules := if removed == 0 then st.snapRules else st.rules,
                threads := setThread st.threads t (th.finish (.del removed) applied'.length) }
  | _ => st

def opRows : Op → Rel × List Tup × Int
  | .insert r ts => (r, ts, 1)
  | .delete r ts => (r, ts, -1)
  | .query r => (r, [], 0)
  | .readc r => (r, [], 0)
  | .regRule _ r => (r, [], 0)
  | .dropRule _ => (0, [], 0)
  | .queryV _ => (0, [], 0)

/-- `register_rule_in` / `drop_rule_in` (mod.rs:911 / 940): one step — ⟨kg.write(); catalog update and
    save; publish_snapshot (facts *and* rules)⟩. A failing drop returns before publishing. (With the
    incremental engine on, registration also materialises the view — not modelled; rule operations are
    generated with the engine off.) -/
def regOut (rules : Rules) (v : Nat) (r : Rel) : Out :=
  match lookupR v rules with | none => Out.created | some cls => Out.added (addClause cls r).length

def ruleStep (st : State) (t : Tid) (th : Thread) (op : Op) : State :=
  let applied' := st.applied ++ [(t, op)]
  match op with
  | .regRule v r =>
    let rules' := applyR st.rules op
    let out := regOut st.rules v r
    { st with rules := rules', applied := applied', snap := st.live, snapRules := rules',
              threads := setThread st.threads t (th.finish out applied'.length) }
  | .dropRule v =>
    match lookupR v st.rules with
    | none => { st with applied := applied', threads := setThread st.threads t (th.finish .err applied'.length) }
    | some _ =>
      let rules' := applyR st.rules op
      { st with rules := rules', applied := applied', snap := st.live, snapRules := rules',
                threads := setThread st.threads t (th.finish .dropped applied'.length) }
  | _ => st

def step (st : State) (t : Tid) : Res :=
  if t ≥ st.n then .skip else
    let th := st.threads t
    match th.todo with
    | [] => .skip
    | op :: _ =>
      match op, th.pc with
      | .query r, _ => .ok { st with threads := setThread st.threads t (th.finish (.rows (st.snap r)) st.applied.length) }
      | .queryV v, _ => .ok { st with threads := setThread st.threads t (th.finish (.rows (evalView st.snap st.snapRules v)) st.applied.length) }
      | .regRule v r, _ => .ok (ruleStep st t th (.regRule v r))
      | .dropRule v, _ => .ok (ruleStep st t th (.dropRule v))
      | .readc r, _ =>
        match st.inc with
        | none => .ok { st with threads := setThread st.threads t (th.finish .err st.applied.length) }
        | some i => let (i', out) := i.readc r
                    .ok { st with inc := some i', threads := setThread st.threads t (th.finish out st.applied.length) }
      | op, .start =>
        let (r, ts, _) := opRows op
        if ts.isEmpty then
          .ok { st with threads := setThread st.threads t (th.finish (match op with | .insert _ _ => .ins 0 0 | _ => .del 0) st.applied.length) }
        else if (match op with | .delete _ _ => !st.known r | _ => false) then
          -- delete of an unknown relation: filtered out before a time is taken or anything is persisted (mod.rs:651-660)
          .ok { st with threads := setThread st.threads t (th.finish (.del 0) st.applied.length) }
        else .ok { st with clock := st.clock + 1, threads := setThread st.threads t { th with pc := .afterTime st.clock } }
      | op, .afterTime τ =>
        let (r, ts, d) := opRows op
        .ok { st with log := st.log ++ ts.map (fun x => (r, x, τ, d)), threads := setThread st.threads t { th with pc := .afterPersist τ } }
      | op, .afterPersist τ => .ok (applyStep st t th op τ)

def lastState : State → List Tid → State
  | st, [] => st
  | st, t :: ts =>
    match step st t with
    | .ok st' => lastState st' ts
    | .skip => lastState st ts

def trace : State → List Tid → List State
  | st, [] => [st]
  | st, t :: ts =>
    match step st t with
    | .ok st' => st :: trace st' ts
    | .skip => st :: trace st ts

def Thread.finished (th : Thread) : Bool := th.todo.isEmpty

def completeSched : Nat → State → List Tid
  | 0, _ => []
  | fuel + 1, st =>
    match (List.range st.n).find? (fun t => !(st.threads t).finished) with
    | none => []
    | some t => match step st t with
      | .ok st' => t :: completeSched fuel st'
      | .skip => []

def init (progs : List (List Op)) (incOn : Bool) : State :=
  { n := progs.length, threads := fun t => { todo := progs.getD t [] }, inc := if incOn then some {} else none }

def alive (st : State) : Bool := match st.inc with | some i => !i.dead | none => true

end ILV.EStep
