/-
  E11 (part) — model of schema enforcement: `SchemaType::matches` (src/schema/mod.rs:64),
  `ValidationEngine::validate_tuple/validate_batch` (src/schema/validator.rs:166/139),
  `KnowledgeGraph::validate_tuples` (storage_engine/mod.rs:2996: no schema ⇒ accepted),
  `register_or_update_schema` (:2934 — after the repair: existing data must pass `validate_existing_data`),
  and the insert paths of `Handler::query_program`: `Statement::Insert` (handler.rs:2598-2686: validate,
  then insert, all or nothing), `Statement::Update` (:2990-…: after the repair every tuple to be inserted
  is validated before any delete/insert; then delete/insert per binding),
  `Statement::Fact` (request-local fact: after the repair validated like an insert, then visible to the
  request's queries).
  Spec `conforms` is written from docs/spec/types.md ("Type in Schemas", "Timestamps", "Type Coercion").
-/
import ILV.Model.Value
namespace ILV

inductive SType where
  | int | float | symbol | string | bool | timestamp
  | vector (dim : Option Nat)
  | any
  | named                      -- `Named(_)`: an alias that is never resolved
  deriving Repr, DecidableEq, Inhabited

/-- `SchemaType::matches` (schema/mod.rs:64-84), arm by arm. -/
def SType.matchesM : SType → Value → Bool
  | .int, .i32 _ => true
  | .int, .i64 _ => true
  | .float, .f64 _ => true
  | .float, .i32 _ => true
  | .float, .i64 _ => true
  | .symbol, .str _ => true
  | .string, .str _ => true
  | .bool, .bool _ => true
  | .timestamp, .ts _ => true
  | .timestamp, .i64 _ => true
  | .vector (some n), .vec l => l.length == n
  | .vector (some n), .vec8 l => l.length == n
  | .vector none, .vec _ => true
  | .vector none, .vec8 _ => true
  | .any, _ => true
  | .named, _ => true
  | _, _ => false

/-- Spec: which values a declared column type admits, from docs/spec/types.md:
    int ← integers (both widths); float ← floats, and integers (the one documented automatic coercion);
    string, symbol ← strings ("at the data level, symbols appear as strings"); bool ← booleans;
    timestamp ← timestamps and 64-bit integers ("stored as 64-bit integers", literal `1704067200000`);
    vector ← vector arrays (f32 or int8), of exactly the declared dimension when one is given;
    any ← everything; an alias that is not resolved constrains nothing (recorded as such). -/
def conforms : SType → Value → Bool
  | .int, v => match v with | .i32 _ | .i64 _ => true | _ => false
  | .float, v => match v with | .f64 _ | .i32 _ | .i64 _ => true | _ => false
  | .symbol, v => match v with | .str _ => true | _ => false
  | .string, v => match v with | .str _ => true | _ => false
  | .bool, v => match v with | .bool _ => true | _ => false
  | .timestamp, v => match v with | .ts _ | .i64 _ => true | _ => false
  | .vector d, v =>
    let len? : Option Nat := match v with | .vec l => some l.length | .vec8 l => some l.length | _ => none
    match len?, d with
    | some _, none => true
    | some k, some n => k == n
    | none, _ => false
  | .any, _ => true
  | .named, _ => true

def conformsTuple (cols : List SType) (t : Tuple) : Bool :=
  t.length == cols.length && (cols.zip t).all (fun (c, v) => conforms c v)

/-- `validate_tuple`: arity first, then every column. -/
def validateTuple (cols : List SType) (t : Tuple) : Bool :=
  t.length == cols.length && (cols.zip t).all (fun (c, v) => c.matchesM v)

/-- `validate_tuples` / `validate_batch`: no schema ⇒ ok; else every tuple. -/
def validateBatch (schema : Option (List SType)) (ts : List Tuple) : Bool :=
  match schema with
  | none => true
  | some cols => ts.all (validateTuple cols)

structure SState where
  schema : Option (List SType)
  stored : List Tuple          -- a set (no duplicates), in insertion order
  deriving Repr, Inhabited

def SState.init : SState := { schema := none, stored := [] }

inductive SOp where
  | decl (cols : List SType)
  | insert (ts : List Tuple)       -- `+r[…]` / `+r(…)`
  | upd (new : Tuple)              -- `-r(X…), +r(new) <- r(X…)`
  | fact (t : Tuple)               -- request-local fact followed by `?r(X…)`
  | validate (ts : List Tuple)     -- `Handler::validate_tuples_against_schema`
  | query
  deriving Repr, Inhabited

inductive SOut where
  | ok
  | rejected
  | inserted (n : Nat)
  | updated (deleted inserted : Nat)
  | rows (r : List Tuple)
  deriving Repr, DecidableEq, Inhabited

/-- `insert_in_memory`: de-duplicate against the growing vector; returns the number of new tuples. -/
def insertSet : List Tuple → List Tuple → List Tuple × Nat
  | st, [] => (st, 0)
  | st, t :: ts =>
    if st.any (Tuple.eq t) then insertSet st ts
    else let (st', n) := insertSet (st ++ [t]) ts; (st', n + 1)

def SState.step (s : SState) : SOp → SState × SOut
  | .decl cols =>
    -- `register_or_update_schema`: the tuples already stored must pass `validate_existing_data`
    if !validateBatch (some cols) s.stored then (s, .rejected)
    else ({ s with schema := some cols }, .ok)
  | .insert ts =>
    let ts := ts.filter (fun t => !t.isEmpty)              -- empty tuples are skipped (handler.rs:2606)
    if !validateBatch s.schema ts then (s, .rejected)
    else let (st, n) := insertSet s.stored ts; ({ s with stored := st }, .inserted n)
  | .upd new =>
    -- one binding per stored tuple: each is deleted, `new` is inserted (once; later attempts are duplicates)
    if s.stored.isEmpty then (s, .updated 0 0)
    -- every tuple the update would insert is validated before any data is touched
    else if !validateBatch s.schema [new] then (s, .rejected)
    else ({ s with stored := [new] }, .updated s.stored.length 1)
  | .fact t =>
    -- a request-local fact must pass the relation's schema; a rejected fact is dropped, the query still runs
    if !validateBatch s.schema [t] then (s, .rows s.stored)
    else (s, .rows (insertSet s.stored [t]).1)
  | .validate ts => (s, if validateBatch s.schema ts then .ok else .rejected)
  | .query => (s, .rows s.stored)

def SState.run : SState → List SOp → SState × List SOut
  | s, [] => (s, [])
  | s, op :: ops =>
    let (s', o) := s.step op
    let (s'', os) := SState.run s' ops
    (s'', o :: os)

/-- the invariant of the property: once a schema is declared every stored tuple conforms. -/
def SState.inv (s : SState) : Bool :=
  match s.schema with
  | none => true
  | some cols => s.stored.all (conformsTuple cols)

/-! ### wire codec for schema kinds -/

def SType.ofWire (s : String) : Option SType :=
  match s with
  | "int" => some .int | "float" => some .float | "sym" => some .symbol | "str" => some .string
  | "bool" => some .bool | "ts" => some .timestamp | "vec" => some (.vector none) | "any" => some .any
  | "named" => some .named
  | _ => if s.startsWith "vec" then (parseNat (s.drop 3).toString).map (fun n => .vector (some n)) else none

end ILV
