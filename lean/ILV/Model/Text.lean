/-
  E4 (handler part) — text pre-processing of `QueryJob::execute` and `parse_statement`, on `List Char`.
  Mirrors, function by function:
    * Rust `str::lines` (core, `split_inclusive('\n')` then strip one `\n` and then one `\r`),
      `str::trim/trim_start/trim_end` (`char::is_whitespace` = Unicode White_Space),
    * `strip_comments`            src/protocol/handler.rs:4874
    * `join_continuation_lines`   src/protocol/handler.rs:4899
    * the logical lines of phase 1/2 (`program_text.lines()`, `line.trim()`, skip empty)  handler.rs:2503-2507, 2545-2549
    * `strip_inline_comment`      src/statement/parser.rs:30 (byte scan; `"` and `/` are ASCII, so a
      scan over chars visits the same positions).
  All functions are structurally recursive (they must reduce inside `decide`).
-/
namespace ILV.Text

/-- `char::is_whitespace` (Unicode `White_Space`) -/
def isWs (c : Char) : Bool :=
  let n := c.toNat
  (9 ≤ n && n ≤ 13) || n == 32 || n == 0x85 || n == 0xA0 || n == 0x1680 || (0x2000 ≤ n && n ≤ 0x200A)
    || n == 0x2028 || n == 0x2029 || n == 0x202F || n == 0x205F || n == 0x3000

def trimStart : List Char → List Char
  | [] => []
  | c :: cs => if isWs c then trimStart cs else c :: cs

def trimEnd (l : List Char) : List Char := (trimStart l.reverse).reverse

def trim (l : List Char) : List Char := trimEnd (trimStart l)

/-- split at every `'\n'`: `k` newlines give `k+1` segments -/
def splitNl : List Char → List (List Char)
  | [] => [[]]
  | c :: cs =>
    match splitNl cs with
    | [] => [[]]
    | s :: ss => if c = '\n' then [] :: s :: ss else (c :: s) :: ss

/-- remove one trailing `'\r'` -/
def stripCr (l : List Char) : List Char :=
  match l.reverse with
  | c :: r => if c = '\r' then r.reverse else l
  | [] => l

/-- Rust `str::lines`: every `\n`-terminated segment loses its `\n` and then one `\r`; a final
    unterminated segment is kept as is (including a trailing `\r`) unless it is empty. -/
def rustLines (t : List Char) : List (List Char) :=
  let segs := splitNl t
  let last := segs.getLast?.getD []
  segs.dropLast.map stripCr ++ (if last.isEmpty then [] else [last])

def joinNl (ls : List (List Char)) : List Char := List.intercalate ['\n'] ls

def startsWith (p : List Char) (l : List Char) : Bool := p.isPrefixOf l

/-- `strip_comments`: drop physical lines whose trimmed text starts with `%` or `//` -/
def stripComments (t : List Char) : List Char :=
  joinNl ((rustLines t).filter fun l =>
    let tr := trim l
    !(startsWith ['%'] tr) && !(startsWith ['/', '/'] tr))

/-- append `' ' ++ add` to the first non-empty entry (the accumulator is kept newest-first, so
    this is "the last non-empty line" of the Rust `Vec`) -/
def appendToFirstNonEmpty (add : List Char) : List (List Char) → Option (List (List Char))
  | [] => none
  | l :: ls =>
    if l.isEmpty then (appendToFirstNonEmpty add ls).map (l :: ·)
    else some ((l ++ ' ' :: add) :: ls)

def startsWithWs : List Char → Bool
  | [] => false
  | c :: _ => isWs c

/-- one iteration of the loop in `join_continuation_lines` (accumulator newest-first) -/
def joinStep (acc : List (List Char)) (line : List Char) : List (List Char) :=
  if (trim line).isEmpty then [] :: acc
  else if startsWithWs line && !acc.isEmpty then
    match appendToFirstNonEmpty (trim line) acc with
    | some acc' => acc'
    | none => line :: acc
  else line :: acc

def joinContinuation (t : List Char) : List Char :=
  joinNl ((rustLines t).foldl joinStep []).reverse

/-- the statements-to-be of both phases: trimmed, non-empty lines of the pre-processed text -/
def logicalLines (t : List Char) : List (List Char) :=
  ((rustLines (joinContinuation (stripComments t))).map trim).filter (fun l => !l.isEmpty)

/-- scan of `strip_inline_comment`: `some prefix` when a `//` outside a string literal was found -/
def sicCut : Bool → List Char → Option (List Char)
  | _, [] => none
  | inStr, c :: cs =>
    if c = '"' then (sicCut (!inStr) cs).map (c :: ·)
    else if !inStr && c = '/' && cs.head? = some '/' then some []
    else (sicCut inStr cs).map (c :: ·)

def stripInlineComment (l : List Char) : List Char :=
  match sicCut false l with
  | some p => trimEnd p
  | none => l

/-- what `parse_statement` hands to its grammar: `strip_inline_comment(input.trim())` (statement/mod.rs:62-66) -/
def stmtKey (l : List Char) : List Char := stripInlineComment (trim l)

end ILV.Text
