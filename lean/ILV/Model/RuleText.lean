/-
  C09 / E4 — token-level model of the rule printer (`Display` impls in src/ast/mod.rs:1346-1577) and of
  the rule parser (src/parser/mod.rs), plus the rule serialisation used by the persistent catalog
  (src/statement/serialize.rs:96-200) and the three submission paths of the handler.

  The real parser works on strings by *splitting at the right-most top-level operator*
  (`parse_add_sub` :702, `parse_mul_div` :771, `parse_primary` :826), at top-level commas
  (`split_by_comma_outside_parens` :329, `split_args_respecting_angles` :409), at the first comparison
  operator outside parentheses (`try_parse_comparison` :168) and at `<-` (`parse_rule` :97).  The model does
  the same on token lists; a token is what the printer emits as one unit (identifier, numeral, string,
  bracket, operator).  Parameters (trusted, exercised by the correspondence): the decimal text Rust's
  `{}` produces for an `f64` (`FloatLit.text`) and the fact that `str::parse::<f64>` reads it back to
  the same bits.
-/
import ILV.Model.Util
namespace ILV.RText

/-! ### syntax -/

inductive AOp where | add | sub | mul | div | mod
  deriving DecidableEq, Repr, Inhabited

/-- `ArithOp::precedence` (ast/mod.rs:1348) -/
def AOp.prec : AOp → Nat
  | .add | .sub => 0
  | _ => 1

def AOp.isAdd : AOp → Bool
  | .add | .sub => true
  | _ => false

def AOp.sym : AOp → String
  | .add => "+" | .sub => "-" | .mul => "*" | .div => "/" | .mod => "%"

/-- a float literal: its bit pattern, the text `format!("{}", f)` gives for it, and what it becomes
    when written to and read back from the catalog file by serde_json (`none`: does not read back;
    otherwise bits and `{}` text of the value read).  All three are observations of library code
    (Rust float formatting, serde_json), supplied by the harness and re-checked on every request. -/
structure FloatLit where
  bits : Nat
  text : String
  json : Option (Nat × String) := none
  deriving DecidableEq, Repr, Inhabited

inductive CmpOp where | eq | ne | lt | le | gt | ge
  deriving DecidableEq, Repr, Inhabited

def CmpOp.sym : CmpOp → String
  | .eq => "=" | .ne => "!=" | .lt => "<" | .le => "<=" | .gt => ">" | .ge => ">="

/-- `ArithExpr` (ast/mod.rs:445) -/
inductive AExpr where
  | var (s : String)
  | const (n : Int)
  | flt (f : FloatLit)
  | bin (op : AOp) (l r : AExpr)
  deriving DecidableEq, Repr, Inhabited

/-- terms that are not function calls (`Term`, ast/mod.rs:710, without FieldAccess/RecordPattern and
    ranking aggregates) -/
inductive Term0 where
  | var (s : String)
  | const (n : Int)
  | flt (f : FloatLit)
  | str (s : String)
  | bool (b : Bool)
  | wild
  | arith (e : AExpr)
  | agg (fn : String) (v : String)      -- simple aggregates `count<V>` …
  | vec (fs : List FloatLit)
  deriving DecidableEq, Repr, Inhabited

inductive Term where
  | base (t : Term0)
  | call (fn : String) (args : List Term0)   -- builtin function call, arguments one level deep
  deriving DecidableEq, Repr, Inhabited

structure Atom where
  rel : String
  args : List Term
  deriving DecidableEq, Repr, Inhabited

inductive BodyLit where
  | pos (a : Atom)
  | neg (a : Atom)
  | cmp (l : Term) (op : CmpOp) (r : Term)
  deriving DecidableEq, Repr, Inhabited

structure Rule where
  head : Atom
  body : List BodyLit
  deriving DecidableEq, Repr, Inhabited

/-! ### tokens -/

inductive Tok where
  | ident (s : String)
  | int (n : Int)
  | flt (f : FloatLit)
  | fint (f : FloatLit) (n : Int)   -- a float literal whose printed text reads back as the integer `n` ("2", "-0")
  | str (s : String)
  | lp | rp | lb | rb | la | ra | comma
  | op (o : AOp)
  | cmp (c : CmpOp)
  | bang
  | arrow
  deriving DecidableEq, Repr, Inhabited

/-- the text the printer writes for a token, including the fixed spacing of `", "`, `" op "`, `" <- "`. -/
def Tok.text : Tok → String
  | .ident s => s
  | .int n => toString n
  | .flt f => f.text
  | .fint f _ => f.text
  | .str s => "\"" ++ s ++ "\""
  | .lp => "(" | .rp => ")" | .lb => "[" | .rb => "]" | .la => "<" | .ra => ">"
  | .comma => ", "
  | .op o => o.sym
  | .cmp c => " " ++ c.sym ++ " "
  | .bang => "!"
  | .arrow => " <- "

def render (ts : List Tok) : String := String.join (ts.map Tok.text)

/-! ### numeral classification (`s.parse::<i64>()` before `s.parse::<f64>()`) -/

def digitsVal (ds : List Char) : Nat := ds.foldl (fun a c => a * 10 + (c.toNat - 48)) 0

def stripSign : List Char → Bool × List Char
  | '-' :: r => (true, r)
  | '+' :: r => (false, r)
  | r => (false, r)

/-- `str::parse::<i64>`: optional sign, at least one ASCII digit, value in range. -/
def parseI64 (s : String) : Option Int :=
  let sd := stripSign s.toList
  if sd.2.isEmpty || !sd.2.all Char.isDigit then none
  else
    let n : Nat := digitsVal sd.2
    let v : Int := if sd.1 then - (n : Int) else (n : Int)
    if - (9223372036854775808 : Int) ≤ v && v < 9223372036854775808 then some v else none

/-- what the printed text of a float literal is read back as: an integer token if it looks like one. -/
def floatTok (f : FloatLit) : Tok :=
  match parseI64 f.text with
  | some n => .fint f n
  | none => .flt f

/-- exponent field not all ones (serde_json writes NaN / ±inf as `null`, which does not read back). -/
def FloatLit.finite (f : FloatLit) : Bool := (f.bits / 4503599627370496) % 2048 != 2047

/-- the literal after a trip through the catalog file. -/
def FloatLit.afterJson (f : FloatLit) : Option FloatLit :=
  match f.json with
  | none => none
  | some (b, t) => if b == f.bits then some f else some ⟨b, t, none⟩

/-- serde_json reads the literal back exactly. -/
def FloatLit.jsonExact (f : FloatLit) : Bool :=
  match f.json with
  | some (b, _) => b == f.bits
  | none => false

/-- the literal keeps its kind through print + re-read. -/
def FloatLit.stable (f : FloatLit) : Bool := (parseI64 f.text).isNone

/-- contract of Rust's `{:?}` for an f64 (the printer uses it since the `integral_float_literal` repair):
    the text shows a decimal point, an exponent, or is `inf`/`NaN` — some character that is neither a
    digit nor a sign.  Supplied text is checked against this on every request. -/
def FloatLit.hasPoint (f : FloatLit) : Bool :=
  f.text.toList.any fun c => !c.isDigit && c != '-' && c != '+'

/-- the scientific-notation guard (`is_exponent_sign`, parser/mod.rs): a `+`/`-` is an exponent sign only
    after a *numeric* token ending in `e`/`E` — digits and dots from the start of the token.  Among
    identifiers that is only something like `1e` or `2.5E`. -/
def sciTail (s : String) : Bool :=
  match s.toList.reverse with
  | c1 :: c2 :: rest => (c1 == 'e' || c1 == 'E') && (c2 :: rest).all (fun c => c.isDigit || c == '.')
  | _ => false

def startsWithDigit (s : String) : Bool :=
  match s.toList with
  | c :: _ => c.isDigit || c == '.'
  | [] => false

/-! ### printer -/

def paren (ts : List Tok) : List Tok := Tok.lp :: (ts ++ [Tok.rp])

/-- left child parenthesised iff it is a binary node of strictly lower precedence (ast/mod.rs:1367) -/
def needParenL (op : AOp) : AExpr → Bool
  | .bin lo _ _ => lo.prec < op.prec
  | _ => false

/-- right child parenthesised iff it is a binary node of lower or equal precedence (ast/mod.rs:1380) -/
def needParenR (op : AOp) : AExpr → Bool
  | .bin ro _ _ => ro.prec ≤ op.prec
  | _ => false

def wrapIf (b : Bool) (ts : List Tok) : List Tok := if b then paren ts else ts

/-- `impl Display for ArithExpr` (ast/mod.rs:1356) -/
def printArith : AExpr → List Tok
  | .var s => [.ident s]
  | .const n => [.int n]
  | .flt f => [floatTok f]
  | .bin op l r =>
    wrapIf (needParenL op l) (printArith l) ++ Tok.op op :: wrapIf (needParenR op r) (printArith r)

def intercalateTok (sep : Tok) : List (List Tok) → List Tok
  | [] => []
  | [x] => x
  | x :: xs => x ++ sep :: intercalateTok sep xs

/-- `impl Display for Term` (ast/mod.rs:1472); vector elements are printed with `{}` as well. -/
def printTerm0 : Term0 → List Tok
  | .var s => [.ident s]
  | .const n => [.int n]
  | .flt f => [floatTok f]
  | .str s => [.str s]
  | .bool b => [.ident (if b then "true" else "false")]
  | .wild => [.ident "_"]
  | .arith e => printArith e
  | .agg fn v => [.ident fn, .la, .ident v, .ra]
  | .vec fs => Tok.lb :: (intercalateTok .comma (fs.map fun f => [Tok.flt f]) ++ [Tok.rb])

def printTerm : Term → List Tok
  | .base t => printTerm0 t
  | .call fn args => Tok.ident fn :: Tok.lp :: (intercalateTok .comma (args.map printTerm0) ++ [Tok.rp])

def printAtom (a : Atom) : List Tok :=
  Tok.ident a.rel :: Tok.lp :: (intercalateTok .comma (a.args.map printTerm) ++ [Tok.rp])

def printLit : BodyLit → List Tok
  | .pos a => printAtom a
  | .neg a => Tok.bang :: printAtom a
  | .cmp l op r => printTerm l ++ Tok.cmp op :: printTerm r

/-- `impl Display for Rule` (ast/mod.rs:1568) -/
def printRule (r : Rule) : List Tok :=
  if r.body.isEmpty then printAtom r.head
  else printAtom r.head ++ Tok.arrow :: intercalateTok .comma (r.body.map printLit)

/-! ### arithmetic parser -/

/-- last character of the token's text is alphanumeric, `_` or `)` — the binary-minus test
    (parser/mod.rs:743-750). -/
def Tok.endsOperand : Tok → Bool
  | .ident _ | .int _ | .flt _ | .fint _ _ | .rp => true
  | _ => false

def Tok.sciBefore : Tok → Bool
  | .ident s => sciTail s
  | _ => false

def headSci : List Tok → Bool
  | t :: _ => t.sciBefore
  | [] => false

def headOperand : List Tok → Bool
  | t :: _ => t.endsOperand
  | [] => false

/-- may the operator `o`, with `left` (reversed: nearest token first) before it and `right` after it,
    be taken as the split point?  (`+`: not part of `1e+5`; `-`: additionally binary, i.e. preceded by an
    operand; all: both sides non-empty.) -/
def acceptOp (o : AOp) (leftRev right : List Tok) : Bool :=
  !leftRev.isEmpty && !right.isEmpty &&
  (match o with
   | .add => !headSci leftRev
   | .sub => !headSci leftRev && headOperand leftRev
   | _ => true)

/-- scan right-to-left (`rev` = remaining tokens, nearest first; `right` = tokens already passed) for
    the first accepted wanted operator at parenthesis depth 0; `)` opens, `(` closes (clamped at 0). -/
def findSplit (want : AOp → Bool) : List Tok → Nat → List Tok → Option (List Tok × AOp × List Tok)
  | [], _, _ => none
  | t :: rest, d, right =>
    match t with
    | .rp => findSplit want rest (d + 1) (t :: right)
    | .lp => findSplit want rest (d - 1) (t :: right)
    | .op o =>
      if d == 0 && want o && acceptOp o rest right then some (rest.reverse, o, right)
      else findSplit want rest d (t :: right)
    | _ => findSplit want rest d (t :: right)

/-- `parse_primary`'s test that the leading `(` is closed by the final `)`: depth (≥ 1) after the first
    token, over the remaining tokens. -/
def matchedAux : List Tok → Nat → Bool
  | [], _ => false
  | [t], d => t == .rp && d == 1
  | t :: rest, d =>
    match t with
    | .lp => matchedAux rest (d + 1)
    | .rp => if d ≤ 1 then false else matchedAux rest (d - 1)
    | _ => matchedAux rest d

def unparen : List Tok → Option (List Tok)
  | .lp :: rest => if matchedAux rest 1 then some rest.dropLast else none
  | _ => none

inductive Lvl where | add | mul | prim
  deriving DecidableEq, Repr

/-- `parse_add_sub` / `parse_mul_div` / `parse_primary` with explicit fuel. -/
def parseA : Nat → Lvl → List Tok → Option AExpr
  | 0, _, _ => none
  | f + 1, .add, ts =>
    match findSplit AOp.isAdd ts.reverse 0 [] with
    | some (l, o, r) =>
      match parseA f .add l, parseA f .mul r with
      | some a, some b => some (.bin o a b)
      | _, _ => none
    | none => parseA f .mul ts
  | f + 1, .mul, ts =>
    match findSplit (fun o => !o.isAdd) ts.reverse 0 [] with
    | some (l, o, r) =>
      match parseA f .mul l, parseA f .prim r with
      | some a, some b => some (.bin o a b)
      | _, _ => none
    | none => parseA f .prim ts
  | f + 1, .prim, ts =>
    match unparen ts with
    | some inner => parseA f .add inner
    | none =>
      match ts with
      | [.int n] => some (.const n)
      | [.fint _ n] => some (.const n)
      | [.flt x] => if x.finite then some (.flt x) else none   -- non-finite constants are rejected
      | [.ident s] => some (.var s)
      | _ => none

def parseArith (ts : List Tok) : Option AExpr := parseA (3 * ts.length + 3) .add ts

/-! ### term / atom / rule parser -/

structure Depth where
  p : Nat := 0
  a : Nat := 0
  b : Nat := 0
  deriving DecidableEq, Repr

def Depth.isZero (d : Depth) : Bool := d.p == 0 && d.a == 0 && d.b == 0

/-- `split_args_respecting_angles` (parser/mod.rs:409): every bracket kind counts, all clamped at 0. -/
def Depth.stepArgs (d : Depth) : Tok → Depth
  | .lp => { d with p := d.p + 1 } | .rp => { d with p := d.p - 1 }
  | .la => { d with a := d.a + 1 } | .ra => { d with a := d.a - 1 }
  | .lb => { d with b := d.b + 1 } | .rb => { d with b := d.b - 1 }
  | _ => d

/-- `split_by_comma_outside_parens` (parser/mod.rs:329): parentheses, and `<` only when it directly
    follows a word character (an aggregate — the comparison tokens are printed with spaces). -/
def Depth.stepBody (d : Depth) : Tok → Depth
  | .lp => { d with p := d.p + 1 } | .rp => { d with p := d.p - 1 }
  | .la => { d with a := d.a + 1 } | .ra => { d with a := d.a - 1 }
  | _ => d

def splitTopAux (stepf : Depth → Tok → Depth) : List Tok → Depth → List (List Tok)
  | [], _ => [[]]
  | t :: ts, d =>
    if t == .comma && d.isZero then [] :: splitTopAux stepf ts d
    else match splitTopAux stepf ts (stepf d t) with
      | seg :: segs => (t :: seg) :: segs
      | [] => [[t]]

/-- segments between top-level commas; a trailing empty segment is dropped (`if !current.is_empty()`). -/
def splitTop (stepf : Depth → Tok → Depth) (ts : List Tok) : List (List Tok) :=
  let segs := splitTopAux stepf ts {}
  match segs.getLast? with
  | some [] => segs.dropLast
  | _ => segs

/-- `str::to_lowercase` on the ASCII names used here (kernel-reducible, unlike `String.toLower`). -/
def lower (s : String) : String := String.ofList (s.toList.map Char.toLower)

def simpleAggs : List String := ["count", "count_distinct", "sum", "min", "max", "avg"]

/-- builtin function names (`BuiltinFunc::as_str`, ast/mod.rs:331); compared with the real table by
    the `c09.builtins` request. -/
def builtinNames : List String :=
  ["euclidean", "cosine", "dot", "manhattan", "lsh_bucket", "normalize", "vec_dim", "vec_add", "vec_scale",
   "time_now", "time_diff", "time_add", "time_sub", "time_decay", "time_decay_linear", "time_before",
   "time_after", "time_between", "within_last", "intervals_overlap", "interval_contains",
   "interval_duration", "point_in_interval", "quantize_linear", "quantize_symmetric", "dequantize",
   "dequantize_scaled", "euclidean_int8", "cosine_int8", "dot_int8", "manhattan_int8", "lsh_probes",
   "lsh_multi_probe", "abs_int64", "abs_float64", "abs", "sqrt", "pow", "log", "exp", "sin", "cos", "tan",
   "floor", "ceil", "sign", "to_float", "to_int", "len", "upper", "lower", "trim", "substr", "replace",
   "concat", "min_val", "max_val"]

/-- would `contains_arithmetic_operator` (parser/mod.rs:645) count the operator `o` preceded by `prev`? -/
def opSeen (o : AOp) (prev : Option Tok) : Bool :=
  match o with
  | .add => !(match prev with | some p => p.sciBefore | none => false)
  | .sub => (match prev with | some p => !p.sciBefore && p.endsOperand | none => false)
  | _ => true

/-- does `contains_arithmetic_operator` fire?  `prev` = previous token. -/
def hasArithOpAux : Option Tok → List Tok → Bool
  | _, [] => false
  | prev, t :: ts =>
    (match t with
     | .op o => opSeen o prev
     | _ => false) || hasArithOpAux (some t) ts

def hasArithOp (ts : List Tok) : Bool := hasArithOpAux none ts

def isVarName (s : String) : Bool :=
  match s.toList with
  | c :: _ => c.isUpper || c == '_'
  | [] => false

/-- one-token terms: `_`, variable, `true`/`false`, string, integer, float (parser/mod.rs:482-605). -/
def parseSingle : Tok → Option Term0
  | .ident s =>
    if s == "_" then some .wild
    else if isVarName s then some (.var s)
    else if s == "true" then some (.bool true)
    else if s == "false" then some (.bool false)
    else none
  | .str s => some (.str s)
  | .int n => some (.const n)
  | .fint _ n => some (.const n)
  | .flt f => if f.finite then some (.flt f) else none
  | _ => none

def vecElem : List Tok → Option FloatLit
  | [Tok.flt f] => some f
  | _ => none

/-- vector literal: plain split on commas, every element read with `parse::<f64>()` (parser/mod.rs:611). -/
def parseVec (rest : List Tok) : Option Term0 :=
  if rest.getLast? == some .rb then
    let inner := rest.dropLast
    if inner.isEmpty then some (.vec [])
    else (optMapM vecElem (splitTop (fun d _ => d) inner)).map .vec
  else none

/-- `parse_term` (parser/mod.rs:478) on the tokens of one argument, calls excluded: vector, aggregate
    `f<V>`, otherwise arithmetic if an operator is present. -/
def parseTerm0 (ts : List Tok) : Option Term0 :=
  match ts with
  | [t] => parseSingle t
  | .lb :: rest => parseVec rest
  | [.ident fn, .la, .ident v, .ra] => if simpleAggs.contains (lower fn) then some (.agg (lower fn) v) else none
  | _ => if hasArithOp ts then (parseArith ts).map .arith else none

def parseTerm (ts : List Tok) : Option Term :=
  match ts with
  | .ident fn :: .lp :: rest =>
    if rest.getLast? == some .rp && builtinNames.contains (lower fn) then
      (optMapM parseTerm0 (splitTop Depth.stepArgs rest.dropLast)).map (.call (lower fn))
    else (parseTerm0 ts).map .base
  | _ => (parseTerm0 ts).map .base

/-- remove the atom's own closing parenthesis: exactly one trailing `)` (`strip_suffix(')')`). -/
def dropOneRp (ts : List Tok) : List Tok :=
  if ts.getLast? == some .rp then ts.dropLast else ts

/-- `parse_atom` (parser/mod.rs:384): name before the first `(`, the final `)` removed, arguments split. -/
def parseAtom (ts : List Tok) : Option Atom :=
  match ts with
  | .ident rel :: .lp :: rest =>
    let inner := dropOneRp rest
    if inner.isEmpty then some ⟨rel, []⟩
    else (optMapM parseTerm (splitTop Depth.stepArgs inner)).map fun as => ⟨rel, as⟩
  | _ => none

/-- position of the first token at parenthesis depth 0 that is the comparison operator `c`
    (the characters `<` / `>` of an aggregate bracket count as `<` / `>`). -/
def cmpMatches (c : CmpOp) : Tok → Bool
  | .cmp c' => c == c'
  | .la => c == .lt
  | .ra => c == .gt
  | _ => false

/-- `find_operator_outside_parens` (parser/mod.rs:284) counts parentheses only. -/
def Depth.stepParen (d : Depth) : Tok → Depth
  | .lp => { d with p := d.p + 1 }
  | .rp => { d with p := d.p - 1 }
  | _ => d

def findCmpAux (c : CmpOp) : List Tok → Depth → List Tok → Option (List Tok × List Tok)
  | [], _, _ => none
  | t :: ts, d, leftRev =>
    if cmpMatches c t && d.isZero then some (leftRev.reverse, ts)
    else findCmpAux c ts (d.stepParen t) (t :: leftRev)

/-- `try_parse_comparison` (parser/mod.rs:168): operators tried in the order != <= >= < > =. -/
def findCmp (ts : List Tok) : Option (List Tok × CmpOp × List Tok) :=
  [CmpOp.ne, .le, .ge, .lt, .gt, .eq].findSome? fun c =>
    (findCmpAux c ts {} []).map fun (l, r) => (l, c, r)

def dropBangs : List Tok → List Tok
  | .bang :: ts => dropBangs ts
  | ts => ts

/-- one body predicate (`parse_body` :136): `!atom`, comparison, or atom. -/
def parseLit (ts : List Tok) : Option BodyLit :=
  match ts with
  | .bang :: _ => (parseAtom (dropBangs ts)).map .neg
  | _ =>
    match findCmp ts with
    | some (l, c, r) =>
      match parseTerm l, parseTerm r with
      | some a, some b => some (.cmp a c b)
      | _, _ => none
    | none => (parseAtom ts).map .pos

def splitArrow : List Tok → List (List Tok)
  | [] => [[]]
  | t :: ts =>
    if t == .arrow then [] :: splitArrow ts
    else match splitArrow ts with
      | seg :: segs => (t :: seg) :: segs
      | [] => [[t]]

def Term.isVar : Term → Bool
  | .base (.var _) => true
  | _ => false

/-- `parse_rule` (parser/mod.rs:97) -/
def parseRule (ts : List Tok) : Option Rule :=
  match splitArrow ts with
  | [h] => (parseAtom h).map fun a => ⟨a, []⟩
  | [h, b] =>
    match parseAtom h, optMapM parseLit (splitTop Depth.stepBody b) with
    | some a, some ls => if ls.isEmpty && a.args.any Term.isVar then none else some ⟨a, ls⟩
    | _, _ => none
  | _ => none

/-! ### serialisation for the catalog (`SerializableTerm::from_term` / `to_term`) -/

/-- vector literals (the only term the parser produces that `SerializableTerm` has no variant for)
    become `_`; everything else is kept. -/
def serTerm0 : Term0 → Term0
  | .vec _ => .wild
  | t => t

def serTerm : Term → Term
  | .base t => .base (serTerm0 t)
  | .call fn args => .call fn (args.map serTerm0)

def serAtom (a : Atom) : Atom := ⟨a.rel, a.args.map serTerm⟩

def serLit : BodyLit → BodyLit
  | .pos a => .pos (serAtom a)
  | .neg a => .neg (serAtom a)
  | .cmp l c r => .cmp (serTerm l) c (serTerm r)

def serRule (r : Rule) : Rule := ⟨serAtom r.head, r.body.map serLit⟩

/-! ### identifying predicates of the known defect families -/

def AExpr.allFloats : AExpr → List FloatLit
  | .flt f => [f]
  | .bin _ l r => l.allFloats ++ r.allFloats
  | _ => []

def Term0.floats : Term0 → List FloatLit
  | .flt f => [f]
  | .arith e => e.allFloats
  | _ => []          -- vector elements are always read as floats

def Term.floats : Term → List FloatLit
  | .base t => t.floats
  | .call _ args => args.flatMap Term0.floats

def Atom.floats (a : Atom) : List FloatLit := a.args.flatMap Term.floats

def BodyLit.floats : BodyLit → List FloatLit
  | .pos a | .neg a => a.floats
  | .cmp l _ r => l.floats ++ r.floats

def Rule.floats (r : Rule) : List FloatLit := r.head.floats ++ r.body.flatMap BodyLit.floats

/-- every float literal outside vectors still reads as a float after printing. -/
def Rule.litStable (r : Rule) : Bool := r.floats.all FloatLit.stable

/-- the catalog file (serde_json) can hold the rule: every float outside vectors reads back at all … -/
def Rule.jsonOk (r : Rule) : Bool := r.floats.all fun f => f.json.isSome

/-- … and reads back to the same bits. -/
def Rule.jsonExact (r : Rule) : Bool := r.floats.all FloatLit.jsonExact

def AExpr.afterJson : AExpr → Option AExpr
  | .flt f => f.afterJson.map .flt
  | .bin op l r =>
    match l.afterJson, r.afterJson with
    | some a, some b => some (.bin op a b)
    | _, _ => none
  | e => some e

def Term0.afterJson : Term0 → Option Term0
  | .flt f => f.afterJson.map .flt
  | .arith e => e.afterJson.map .arith
  | t => some t

def Term.afterJson : Term → Option Term
  | .base t => t.afterJson.map .base
  | .call fn args => (optMapM Term0.afterJson args).map (.call fn)

def Atom.afterJson (a : Atom) : Option Atom := (optMapM Term.afterJson a.args).map fun as => ⟨a.rel, as⟩

def BodyLit.afterJson : BodyLit → Option BodyLit
  | .pos a => a.afterJson.map .pos
  | .neg a => a.afterJson.map .neg
  | .cmp l c r =>
    match l.afterJson, r.afterJson with
    | some a, some b => some (.cmp a c b)
    | _, _ => none

/-- the rule read back from `rules/catalog.json`. -/
def Rule.afterJson (r : Rule) : Option Rule :=
  match r.head.afterJson, optMapM BodyLit.afterJson r.body with
  | some h, some b => some ⟨h, b⟩
  | _, _ => none

def lastTokSci (ts : List Tok) : Bool :=
  match ts.getLast? with
  | some t => t.sciBefore
  | none => false

/-- the printed left operand of some `+`/`-` ends in an identifier like `V1e`. -/
def AExpr.sciHidden : AExpr → Bool
  | .bin op l r =>
    l.sciHidden || r.sciHidden ||
    (op.isAdd && lastTokSci (wrapIf (needParenL op l) (printArith l)))
  | _ => false

def Term0.sciHidden : Term0 → Bool
  | .arith e => e.sciHidden
  | _ => false

def Term.sciHidden : Term → Bool
  | .base t => t.sciHidden
  | .call _ args => args.any Term0.sciHidden

def Atom.sciHidden (a : Atom) : Bool := a.args.any Term.sciHidden

def BodyLit.sciHidden : BodyLit → Bool
  | .pos a | .neg a => a.sciHidden
  | .cmp l _ r => l.sciHidden || r.sciHidden

def Rule.sciHidden (r : Rule) : Bool := r.head.sciHidden || r.body.any BodyLit.sciHidden

/-- the catalog serialisation keeps the rule as it is. -/
def Rule.serStable (r : Rule) : Bool := decide (serRule r = r)

/-! ### well-formedness of parsed rules (what the parser's image satisfies) -/

def AExpr.isAddBin : AExpr → Bool
  | .bin op _ _ => op.isAdd
  | _ => false

def AExpr.isBin : AExpr → Bool
  | .bin _ _ _ => true
  | _ => false

/-- float literals as the parser produces and the printer renders them: finite, `{:?}` text. -/
def FloatLit.ok (f : FloatLit) : Bool := f.finite && f.hasPoint

/-- variables of an arithmetic expression do not look like numbers; its float constants are finite. -/
def AExpr.leavesOk : AExpr → Bool
  | .var s => !startsWithDigit s
  | .const _ => true
  | .flt f => f.ok
  | .bin _ l r => l.leavesOk && r.leavesOk

/-- variables look like variables, an arithmetic term has an operator at its root, aggregate and
    function names are the canonical ones, float literals are finite and carry their `{:?}` text. -/
def Term0.wf : Term0 → Bool
  | .var s => isVarName s && s != "_"
  | .flt f => f.ok
  | .arith e => e.isBin && e.leavesOk
  | .agg fn _ => simpleAggs.contains fn
  | _ => true

def Term.wf : Term → Bool
  | .base t => t.wf
  | .call fn args => builtinNames.contains fn && args.all Term0.wf

def Atom.wf (a : Atom) : Bool := a.args.all Term.wf

/-- a comparison side is not an aggregate (its `<`/`>` would be taken for the comparison) and not a
    vector (its commas would split the body). -/
def Term.cmpSideOk : Term → Bool
  | .base (.agg _ _) => false
  | .base (.vec _) => false
  | _ => true

def BodyLit.wf : BodyLit → Bool
  | .pos a | .neg a => a.wf
  | .cmp l _ r => l.wf && r.wf && l.cmpSideOk && r.cmpSideOk

def Rule.wf (r : Rule) : Bool := r.head.wf && r.body.all BodyLit.wf

/-! ### the submission paths -/

/-- inline: the program text goes to the engine as written. -/
def viaInline (r : Rule) : Option Rule := some r

/-- session rule / request-local rule in the handler: `format_rule_text` then the engine parses the text. -/
def viaSession (r : Rule) : Option Rule := parseRule (printRule r)

/-- persistent rule, same process: `format_rule_text` → `parse_rule_definition` → `SerializableRule` →
    `to_rule` → `format_rule` into the snapshot's rule prefix → engine parse. -/
def viaPersistent (r : Rule) : Option Rule :=
  match parseRule (printRule r) with
  | some r1 => parseRule (printRule (serRule r1))
  | none => none

/-- persistent rule after a restart: additionally through `rules/catalog.json` (serde_json). -/
def viaRestart (r : Rule) : Option Rule :=
  match parseRule (printRule r) with
  | some r1 =>
    match (serRule r1).afterJson with
    | some r3 => parseRule (printRule r3)
    | none => none
  | none => none


end ILV.RText
