/-
  E7 (sessions) — step model of session state vs persistent state
  (src/session.rs `SessionManager`, src/protocol/handler.rs:3899 `query_program_with_session`,
   src/storage_engine/snapshot.rs:370 `execute_with_session_facts_profiled`).

  Every `SessionManager` call is one atomic step (one lock acquisition). A persistent write issued
  through `Handler::execute_program` is one step here (its internal boundaries are C15/C20's subject;
  apply + publish_snapshot are atomic). The session query is split at its yield points:
      step 1  touch; is_session_clean; session_kg — clean ⇒ fast path: the whole query runs on the
              current snapshot in this step                                handler.rs:3916-3928
              -- yield "handler.session_query.after_clean_check"
      step 2  session_facts  := get_session_facts(sid)                     handler.rs:3932
              -- yield "handler.session_query.between_reads"
      step 3  rule_texts     := with_session(sid, rule_texts)              handler.rs:3933-3935
              -- yield "handler.session_query.before_snapshot"
      step 4  load the snapshot pointer; evaluate  rule_texts ++ query  on
              snapshot.input_tuples with the session facts added to the cloned relation vectors
              *as a set* (`extend_as_set`: a session fact already in the relation, or repeated, is
              skipped)                                                     snapshot.rs:79-96, 411-427
  Queries are restricted to the two forms the harness issues:
      scan r   :  ?r<r>(X)            — set semantics (final distinct)
      count    :  ?cnt(N)  with the session rule  cnt(count<X>) <- r0(X)   — the aggregate's input is the
                  isolated vector; without the rule `cnt` is an unknown relation and the answer is empty.
-/
import ILV.Model.Util
namespace ILV.SStep

abbrev Rel := Nat
abbrev Tup := Nat
abbrev Tid := Nat
abbrev Sid := Nat

inductive Op where
  | pIns (r : Rel) (x : Tup)      -- persistent  +r[(x,)]
  | pDel (r : Rel) (x : Tup)      -- persistent  -r[(x,)]
  | sIns (k : Sid) (r : Rel) (x : Tup)
  | sRet (k : Sid) (r : Rel) (x : Tup)
  | sRule (k : Sid)               -- add  cnt(count<X>) <- r0(X)
  | sClear (k : Sid)              -- SessionManager::clear_session: drop all ephemeral facts and rules
  | qScan (k : Sid) (r : Rel)
  | qCount (k : Sid)
  deriving Repr, DecidableEq, Inhabited

inductive Out where
  | ok | n (k : Nat) | rows (l : List Tup) | err
  deriving Repr, DecidableEq, Inhabited

structure Sess where
  facts : Rel → List Tup := fun _ => []     -- ephemeral_facts, per relation in insertion order
  rules : Nat := 0                          -- number of ephemeral rule texts

inductive Pc where
  | start
  | q1                                      -- not clean; nothing copied yet
  | q2 (facts : Rel → List Tup)             -- session facts copied
  | q3 (facts : Rel → List Tup) (rules : Nat)

structure Thread where
  todo : List Op := []
  pc : Pc := .start
  done : List (Op × Out) := []

structure State where
  pers : Rel → List Tup := fun _ => []      -- published snapshot of the KG (= live: apply+publish atomic)
  sess : Sid → Sess := fun _ => {}
  n : Nat := 0
  threads : Tid → Thread := fun _ => {}

def setF {α} (f : Nat → α) (i : Nat) (v : α) : Nat → α := fun x => if x = i then v else f x

def Thread.finish (th : Thread) (o : Out) : Thread :=
  match th.todo with
  | [] => th
  | op :: rest => { todo := rest, pc := .start, done := th.done ++ [(op, o)] }

def dedup : List Tup → List Tup
  | [] => []
  | a :: l => if l.contains a then dedup l else a :: dedup l

/-- `extend_as_set` (snapshot.rs:84): the session facts that are neither stored nor seen before, in order -/
def addFresh (p : List Tup) (acc : List Tup) (x : Tup) : List Tup :=
  if p.contains x || acc.contains x then acc else acc ++ [x]
def freshOf (p f : List Tup) : List Tup := f.foldl (addFresh p) []
/-- the isolated relation vector of a session query -/
def isolated (p f : List Tup) : List Tup := p ++ freshOf p f

/-- answer of a scan query over the isolated vector: set semantics -/
def evalScan (p f : List Tup) : List Tup := dedup (isolated p f)
/-- answer of the count query: the aggregate sees the isolated vector -/
def evalCount (rules : Nat) (p f : List Tup) : List Tup :=
  if rules = 0 then [] else if (isolated p f).isEmpty then [] else [(isolated p f).length]

def Sess.clean (s : Sess) (nrel : Nat) : Bool := s.rules == 0 && (List.range nrel).all (fun r => (s.facts r).isEmpty)

/-- number of relations the harness uses (r0, r1); `is_clean` looks at all of them -/
def NREL : Nat := 2

inductive Res where
  | ok (st : State)
  | skip

def step (st : State) (t : Tid) : Res :=
  if t ≥ st.n then .skip else
  let th := st.threads t
  let fin := fun (s : State) (o : Out) => Res.ok { s with threads := setF s.threads t (th.finish o) }
  let go := fun (pc : Pc) => Res.ok { st with threads := setF st.threads t { th with pc := pc } }
  match th.todo with
  | [] => .skip
  | op :: _ =>
    match op, th.pc with
    | .pIns r x, _ => fin { st with pers := setF st.pers r (if (st.pers r).contains x then st.pers r else st.pers r ++ [x]) } .ok
    | .pDel r x, _ => fin { st with pers := setF st.pers r ((st.pers r).filter (· != x)) } .ok
    | .sIns k r x, _ =>
      let s := st.sess k
      if (s.facts r).contains x then fin st (.n 0)
      else fin { st with sess := setF st.sess k { s with facts := setF s.facts r (s.facts r ++ [x]) } } (.n 1)
    | .sRet k r x, _ =>
      let s := st.sess k
      if (s.facts r).contains x then fin { st with sess := setF st.sess k { s with facts := setF s.facts r ((s.facts r).erase x) } } (.n 1)
      else fin st (.n 0)
    | .sRule k, _ => let s := st.sess k; fin { st with sess := setF st.sess k { s with rules := s.rules + 1 } } .ok
    | .sClear k, _ => fin { st with sess := setF st.sess k {} } .ok
    | .qScan k r, .start => if (st.sess k).clean NREL then fin st (.rows (evalScan (st.pers r) [])) else go .q1
    | .qCount k, .start => if (st.sess k).clean NREL then fin st (.rows []) else go .q1
    | .qScan k _, .q1 => go (.q2 (st.sess k).facts)
    | .qCount k, .q1 => go (.q2 (st.sess k).facts)
    | .qScan k _, .q2 f => go (.q3 f (st.sess k).rules)
    | .qCount k, .q2 f => go (.q3 f (st.sess k).rules)
    | .qScan _ r, .q3 f _ => fin st (.rows (evalScan (st.pers r) (f r)))
    | .qCount _, .q3 f ru => fin st (.rows (evalCount ru (st.pers 0) (f 0)))

def lastState : State → List Tid → State
  | st, [] => st
  | st, t :: ts => match step st t with
    | .ok st' => lastState st' ts
    | .skip => lastState st ts

def completeSched : Nat → State → List Tid
  | 0, _ => []
  | fuel + 1, st =>
    match (List.range st.n).find? (fun (t : Nat) => !(st.threads t).todo.isEmpty) with
    | none => []
    | some t => match step st t with
      | .ok st' => t :: completeSched fuel st'
      | .skip => []

def init (progs : List (List Op)) : State := { n := progs.length, threads := fun t => { todo := progs.getD t [] } }

end ILV.SStep
