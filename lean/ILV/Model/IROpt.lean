/-
  E3 — model of `src/optimizer/mod.rs` (`Optimizer::optimize` and each of its rewrite rules) and of
  `src/boolean_specialization/mod.rs` (`BooleanSpecializer::specialize`).
  Each rule is a structural function on the IR mirroring *which node kinds the Rust function
  descends into* (the `other => other` arm differs per rule).
-/
import ILV.Model.IR
namespace ILV.IR

def isEmptyUnion : Node → Bool
  | .union .nil => true
  | _ => false

/-! ### `eliminate_identity_maps` (optimizer/mod.rs:744). Not applied below `Aggregate`, `FlatMap`, `JoinFlatMap`. -/

def isIdentityProj (proj : List Nat) (inputWidth : Nat) : Bool :=
  proj == List.range proj.length && proj.length == inputWidth

mutual
def elimIdMaps : Node → Node
  | .map i proj s =>
    let i' := elimIdMaps i
    if isIdentityProj proj (width i') then i' else .map i' proj s
  | .filter i p => .filter (elimIdMaps i) p
  | .join l r lk rk s => .join (elimIdMaps l) (elimIdMaps r) lk rk s
  | .antijoin l r lk rk s => .antijoin (elimIdMaps l) (elimIdMaps r) lk rk s
  | .distinct i => .distinct (elimIdMaps i)
  | .union is => .union (elimIdMapsL is)
  | .compute i es => .compute (elimIdMaps i) es
  | t => t
def elimIdMapsL : NodeList → NodeList
  | .nil => .nil
  | .cons t ts => .cons (elimIdMaps t) (elimIdMapsL ts)
end

/-! ### `eliminate_always_true_filters` (830) -/

mutual
def elimTrue : Node → Node
  | .filter i p =>
    let i' := elimTrue i
    if p == .tt then i' else .filter i' p
  | .map i proj s => .map (elimTrue i) proj s
  | .join l r lk rk s => .join (elimTrue l) (elimTrue r) lk rk s
  | .antijoin l r lk rk s => .antijoin (elimTrue l) (elimTrue r) lk rk s
  | .distinct i => .distinct (elimTrue i)
  | .union is => .union (elimTrueL is)
  | .compute i es => .compute (elimTrue i) es
  | t => t
def elimTrueL : NodeList → NodeList
  | .nil => .nil
  | .cons t ts => .cons (elimTrue t) (elimTrueL ts)
end

/-! ### `eliminate_always_false_filters` (908): `Filter(_, False)` becomes the empty `Union`. -/

mutual
def elimFalse : Node → Node
  | .filter i p => if p == .ff then .union .nil else .filter (elimFalse i) p
  | .map i proj s => .map (elimFalse i) proj s
  | .join l r lk rk s => .join (elimFalse l) (elimFalse r) lk rk s
  | .antijoin l r lk rk s => .antijoin (elimFalse l) (elimFalse r) lk rk s
  | .distinct i => .distinct (elimFalse i)
  | .union is => .union (elimFalseL is)
  | .compute i es => .compute (elimFalse i) es
  | t => t
def elimFalseL : NodeList → NodeList
  | .nil => .nil
  | .cons t ts => .cons (elimFalse t) (elimFalseL ts)
end

/-! ### `fuse_consecutive_maps` (115): `new_projection[i] = inner[outer[i]]` (indexing panics when out of range;
    the model reads 0 there — excluded by well-formedness). -/

mutual
def fuseMaps : Node → Node
  | .map i proj s =>
    match fuseMaps i with
    | .map ii ip _ => .map ii (proj.map (fun o => ip.getD o 0)) s
    | i' => .map i' proj s
  | .filter i p => .filter (fuseMaps i) p
  | .join l r lk rk s => .join (fuseMaps l) (fuseMaps r) lk rk s
  | .antijoin l r lk rk s => .antijoin (fuseMaps l) (fuseMaps r) lk rk s
  | .distinct i => .distinct (fuseMaps i)
  | .union is => .union (fuseMapsL is)
  | .aggregate i gb aggs s => .aggregate (fuseMaps i) gb aggs s
  | .compute i es => .compute (fuseMaps i) es
  | t => t
def fuseMapsL : NodeList → NodeList
  | .nil => .nil
  | .cons t ts => .cons (fuseMaps t) (fuseMapsL ts)
end

/-! ### `fuse_consecutive_filters` (225): `Filter(Filter(x, p1), p2) → Filter(x, And(p1, p2))` -/

mutual
def fuseFilters : Node → Node
  | .filter i p =>
    match fuseFilters i with
    | .filter ii ip => .filter ii (.and ip p)
    | i' => .filter i' p
  | .map i proj s => .map (fuseFilters i) proj s
  | .join l r lk rk s => .join (fuseFilters l) (fuseFilters r) lk rk s
  | .antijoin l r lk rk s => .antijoin (fuseFilters l) (fuseFilters r) lk rk s
  | .distinct i => .distinct (fuseFilters i)
  | .union is => .union (fuseFiltersL is)
  | .aggregate i gb aggs s => .aggregate (fuseFilters i) gb aggs s
  | .compute i es => .compute (fuseFilters i) es
  | t => t
def fuseFiltersL : NodeList → NodeList
  | .nil => .nil
  | .cons t ts => .cons (fuseFilters t) (fuseFiltersL ts)
end

/-! ### `pushdown_filters` (337).  Left-only predicates move to the left input unchanged; right-only
    predicates move to the right input with every column `c` translated by
    `remap_predicate_columns_to_right_input`: `c - left_cols` is a position among the right *non-key*
    columns, the excluded key positions are re-inserted (the mapping of
    `remap_projection_for_join_flatmap`). -/

/-- re-insert the (sorted) excluded key positions: the `a`-th non-key column is column `reinsert ks a` -/
def reinsert : List Nat → Nat → Nat
  | [], a => a
  | k :: ks, a => if k ≤ a then reinsert ks (a + 1) else reinsert ks a

def sortNat0 (l : List Nat) : List Nat := sortBy (fun (a b : Nat) => a ≤ b) l

/-- `Vec::dedup`: drop an element equal to its predecessor -/
def dedupAdj : List Nat → List Nat
  | [] => []
  | [x] => [x]
  | x :: y :: rest => if x == y then dedupAdj (y :: rest) else x :: dedupAdj (y :: rest)

/-- `sorted_keys.sort_unstable(); sorted_keys.dedup()` -/
def sortNat (l : List Nat) : List Nat := dedupAdj (sortNat0 l)


mutual
def pushdown : Node → Node
  | .filter i p =>
    match pushdown i with
    | .join l r lk rk s =>
      let lw := width l
      let refsLeft := p.cols.any (fun c => c < lw)
      let refsRight := p.cols.any (fun c => c ≥ lw)
      if refsLeft && !refsRight then .join (.filter l p) r lk rk s
      else if refsRight && !refsLeft then .join l (.filter r (p.mapCols (fun c => reinsert (sortNat rk) (c - lw)))) lk rk s
      else .filter (.join l r lk rk s) p
    | i' => .filter i' p
  | .map i proj s => .map (pushdown i) proj s
  | .join l r lk rk s => .join (pushdown l) (pushdown r) lk rk s
  | .antijoin l r lk rk s => .antijoin (pushdown l) (pushdown r) lk rk s
  | .distinct i => .distinct (pushdown i)
  | .union is => .union (pushdownL is)
  | .aggregate i gb aggs s => .aggregate (pushdown i) gb aggs s
  | .compute i es => .compute (pushdown i) es
  | t => t
def pushdownL : NodeList → NodeList
  | .nil => .nil
  | .cons t ts => .cons (pushdown t) (pushdownL ts)
end

/-! ### `eliminate_empty_unions` (593) -/

def dropEmpty : NodeList → NodeList
  | .nil => .nil
  | .cons t ts => if isEmptyUnion t then dropEmpty ts else .cons t (dropEmpty ts)

mutual
def elimEmpty : Node → Node
  | .union is =>
    match dropEmpty (elimEmptyL is) with
    | .nil => .union .nil
    | .cons t .nil => t
    | ne => .union ne
  | .map i proj s =>
    let i' := elimEmpty i
    if isEmptyUnion i' then .union .nil else .map i' proj s
  | .filter i p =>
    let i' := elimEmpty i
    if isEmptyUnion i' then .union .nil else .filter i' p
  | .join l r lk rk s =>
    let l' := elimEmpty l
    let r' := elimEmpty r
    if isEmptyUnion l' || isEmptyUnion r' then .union .nil else .join l' r' lk rk s
  | .antijoin l r lk rk s =>
    let l' := elimEmpty l
    let r' := elimEmpty r
    if isEmptyUnion l' then .union .nil else .antijoin l' r' lk rk s
  | .distinct i =>
    let i' := elimEmpty i
    if isEmptyUnion i' then .union .nil else .distinct i'
  | .aggregate i gb aggs s => .aggregate (elimEmpty i) gb aggs s
  | .compute i es =>
    let i' := elimEmpty i
    if isEmptyUnion i' then .union .nil else .compute i' es
  | t => t
def elimEmptyL : NodeList → NodeList
  | .nil => .nil
  | .cons t ts => .cons (elimEmpty t) (elimEmptyL ts)
end

/-! ### `apply_all_rules` (89) and the fix-point loop of `optimize` (41).
    The loop stops early when `ir_equals(optimized, current)`; since `apply_all_rules` is a function,
    stopping at a repeated tree and running all `max_iterations = 10` rounds give the same tree, so the
    model simply iterates 10 times (`ir_equals` returns `false` for `Aggregate`/`Compute`/`HnswScan`
    nodes — those trees always run 10 rounds in the code as well). -/

def applyAll (t : Node) : Node :=
  elimEmpty (pushdown (fuseFilters (fuseMaps (elimFalse (elimTrue (elimIdMaps t))))))

def iter {α} (f : α → α) : Nat → α → α
  | 0, x => x
  | n + 1, x => iter f n (f x)

/-! ### `fuse_to_flatmap` (990): `Filter(Map(x, proj), pred) → FlatMap(x, proj, Some(pred))` -/

mutual
def fuseFlatMap : Node → Node
  | .filter i p =>
    match fuseFlatMap i with
    | .map ii proj s => .flatMap ii proj (some p) s
    | i' => .filter i' p
  | .map i proj s => .map (fuseFlatMap i) proj s
  | .join l r lk rk s => .join (fuseFlatMap l) (fuseFlatMap r) lk rk s
  | .antijoin l r lk rk s => .antijoin (fuseFlatMap l) (fuseFlatMap r) lk rk s
  | .distinct i => .distinct (fuseFlatMap i)
  | .union is => .union (fuseFlatMapL is)
  | .aggregate i gb aggs s => .aggregate (fuseFlatMap i) gb aggs s
  | .compute i es => .compute (fuseFlatMap i) es
  | .flatMap i proj fp s => .flatMap (fuseFlatMap i) proj fp s
  | .joinFlatMap l r lk rk proj fp s => .joinFlatMap (fuseFlatMap l) (fuseFlatMap r) lk rk proj fp s
  | t => t
def fuseFlatMapL : NodeList → NodeList
  | .nil => .nil
  | .cons t ts => .cons (fuseFlatMap t) (fuseFlatMapL ts)
end

/-! ### `remap_projection_for_join_flatmap` (1131) and `fuse_to_join_flatmap` (1169) -/

def remapProj (proj : List Nat) (lw : Nat) (rk : List Nat) : List Nat :=
  proj.map (fun idx => if idx < lw then idx else lw + reinsert (sortNat rk) (idx - lw))

mutual
def fuseJFM : Node → Node
  | .map i proj s =>
    match fuseJFM i with
    | .join l r lk rk _ => .joinFlatMap l r lk rk (remapProj proj (width l) rk) none s
    | i' => .map i' proj s
  | .flatMap i proj fp s =>
    match fuseJFM i with
    | .join l r lk rk _ => .joinFlatMap l r lk rk (remapProj proj (width l) rk) fp s
    | i' => .flatMap i' proj fp s
  | .filter i p => .filter (fuseJFM i) p
  | .join l r lk rk s => .join (fuseJFM l) (fuseJFM r) lk rk s
  | .antijoin l r lk rk s => .antijoin (fuseJFM l) (fuseJFM r) lk rk s
  | .distinct i => .distinct (fuseJFM i)
  | .union is => .union (fuseJFML is)
  | .aggregate i gb aggs s => .aggregate (fuseJFM i) gb aggs s
  | .compute i es => .compute (fuseJFM i) es
  | .joinFlatMap l r lk rk proj fp s => .joinFlatMap (fuseJFM l) (fuseJFM r) lk rk proj fp s
  | t => t
def fuseJFML : NodeList → NodeList
  | .nil => .nil
  | .cons t ts => .cons (fuseJFM t) (fuseJFML ts)
end

/-- `Optimizer::optimize` (41-61) with `max_iterations = 10`. -/
def optimize (t : Node) : Node := fuseJFM (fuseFlatMap (iter applyAll 10 t))

/-! ## Boolean specialisation (`boolean_specialization/mod.rs`) -/

inductive Semiring where
  | boolean | counting | min | max
  deriving DecidableEq, Repr, Inhabited

/-- `SemiringType::meet` (49) -/
def Semiring.meet (a b : Semiring) : Semiring :=
  if a == b then a else
  match a, b with
  | .boolean, .counting | .counting, .boolean => .counting
  | .min, _ | _, .min => .min
  | .max, _ | _, .max => .max
  | _, _ => .counting

def joinSem (a b : Semiring) : Semiring :=
  if a == .boolean && b == .boolean then .boolean else a.meet b

/- the `semiring` field computed by `analyze_node` (393) -/
mutual
def analyze : Node → Semiring
  | .scan _ _ => .boolean
  | .map i _ _ => analyze i
  | .filter i _ => analyze i            -- `predicate_needs_counting` is `false` for every predicate
  | .join l r _ _ _ => joinSem (analyze l) (analyze r)
  | .distinct _ => .boolean
  | .union is => analyzeL is
  | .aggregate _ _ aggs _ =>
    if !aggs.isEmpty && aggs.all (fun a => a.1 == .min) then .min
    else if !aggs.isEmpty && aggs.all (fun a => a.1 == .max) then .max
    else .counting
  | .antijoin l r _ _ _ => joinSem (analyze l) (analyze r)
  | .compute i _ => analyze i
  | .hnsw _ _ _ _ _ => .boolean
  | .flatMap i _ _ _ => analyze i
  | .joinFlatMap l r _ _ _ _ _ => joinSem (analyze l) (analyze r)
/-- `Union`: the first input's annotation met with the others, `Boolean` when empty -/
def analyzeL : NodeList → Semiring
  | .nil => .boolean
  | .cons t ts => analyzeRest (analyze t) ts
def analyzeRest (acc : Semiring) : NodeList → Semiring
  | .nil => acc
  | .cons t ts => analyzeRest (acc.meet (analyze t)) ts
end

def isDistinct : Node → Bool
  | .distinct _ => true
  | _ => false
def isScan : Node → Bool
  | .scan _ _ => true
  | _ => false

/- `transform_for_semiring` (168). `b` = "the annotation passed down is Boolean". -/
mutual
def bsTransform (b : Bool) : Node → Node
  | .join l r lk rk s =>
    if b then .distinct (.join (bsTransform true l) (bsTransform true r) lk rk s)
    else .join (bsTransform b l) (bsTransform b r) lk rk s
  | .distinct i =>
    let inner := bsTransform b i
    if isDistinct inner then inner
    else if isScan inner && b then inner
    else .distinct inner
  | .map i proj s => .map (bsTransform b i) proj s
  | .filter i p => .filter (bsTransform b i) p
  | .union is => .union (bsTransformL b is)
  | .aggregate i gb aggs s => .aggregate (bsTransform b i) gb aggs s
  | .antijoin l r lk rk s =>
    if b then
      let l' := bsTransform true l
      let r' := bsTransform true r
      .antijoin (if isDistinct l' || isScan l' then l' else .distinct l') r' lk rk s
    else .antijoin (bsTransform b l) (bsTransform b r) lk rk s
  | .scan rel s => .scan rel s
  | .hnsw a q k ef s => .hnsw a q k ef s
  | .compute i es => .compute (bsTransform b i) es
  | .flatMap i proj fp s => .flatMap (bsTransform b i) proj fp s
  | .joinFlatMap l r lk rk proj fp s =>
    if b then .distinct (.joinFlatMap (bsTransform true l) (bsTransform true r) lk rk proj fp s)
    else .joinFlatMap (bsTransform b l) (bsTransform b r) lk rk proj fp s
def bsTransformL (b : Bool) : NodeList → NodeList
  | .nil => .nil
  | .cons t ts => .cons (bsTransform b t) (bsTransformL b ts)
end

/-- `BooleanSpecializer::specialize` (141) with specialisation enabled: tree and root annotation. -/
def specialize (t : Node) : Node × Semiring :=
  let a := analyze t
  (bsTransform (a == .boolean) t, a)

end ILV.IR

namespace ILV.IR
/-- the part of `IQLEngine::optimize_ir` (lib.rs:925) that has a Lean model: optional Boolean
    specialisation followed by the always-on basic optimizer. -/
def pipe (bs : Bool) (t : Node) : Node := optimize (if bs then (specialize t).1 else t)
def pipeSem (bs : Bool) (t : Node) : Semiring := if bs then (specialize t).2 else .counting
end ILV.IR
