/-
  E6 (small-step part) — interleaving model of `FilePersist` (src/storage/persist/mod.rs).

  One atomic step per lock-protected region of the real code; the boundaries are exactly the
  `#[cfg(inputlayer_verif)] yield_point(..)` calls plus the entry of each operation:

    append(shard, us)                                                   mod.rs:400
      step 1  ⟨wal.lock(); append_batch; fsync⟩                         mod.rs:409-411
              -- yield "persist.append.after_wal"
      step 2  ⟨shards.write(); buffer.extend(us); should_flush := len ≥ buffer_size⟩   mod.rs:425-443
              -- yield "persist.append.after_buffer"
      step 3  if should_flush then flush(shard) else return Ok          mod.rs:446-461
    flush(shard)                                                        mod.rs:581
      step F  ⟨shards.write(); missing → Err; empty buffer → Ok;
               write batch file; meta.add_batch; buffer.clear(); save meta (tmp+fsync+rename)   mod.rs:582-611
              -- yield "persist.flush.before_wal"   (a scheduling point only when cfg.fine; the
              --                                      shard-map write lock stays held across it)
               ⟨wal.lock(); remove_shard_entries(shard)⟩ ⟩               mod.rs:614-617

  The WAL mutex is never held across a boundary, so it does not appear in the state; the shard-map
  `RwLock` (one lock for *all* shards, mod.rs:121) is held across "persist.flush.before_wal" and is
  the field `lock`.
  An update is identified by a natural number (the harness uses the tuple `(Int64 id)` at time `id`
  with diff +1): the model tracks *where each update is stored*, not what it contains.
  Disk = `wal` (every WAL section ends with fsync) + `batches` of every shard (batch file + meta
  are durable before the lock is released); `buffer` is volatile.
-/
import ILV.Model.Util
namespace ILV.PStep

abbrev Shard := Nat
abbrev Upd := Nat
abbrev Tid := Nat

inductive Op where
  | append (s : Shard) (us : List Upd)
  | flush (s : Shard)
  deriving Repr, DecidableEq, Inhabited

structure ShardSt where
  present : Bool := false            -- key present in `shards: HashMap<String, ShardState>`
  batches : List (List Upd) := []    -- `meta.batches` (each already on disk)
  buffer : List Upd := []            -- `ShardState::buffer`
  deriving Repr, DecidableEq, Inhabited

/-- position of a thread inside its current operation -/
inductive Pc where
  | start                            -- operation not begun (the harness parks the thread before the call)
  | appAfterWal                      -- at "persist.append.after_wal"
  | appAfterBuf (pending : Bool)     -- at "persist.append.after_buffer"; `pending` = should_flush
  | flushHold                        -- at "persist.flush.before_wal", holding shards.write()
  deriving Repr, DecidableEq, Inhabited

structure Thread where
  todo : List Op := []
  pc : Pc := .start
  done : List (Op × Bool) := []      -- returned operations with Ok?/Err
  deriving Repr, DecidableEq, Inhabited

structure Cfg where
  bufSize : Nat                      -- PersistConfig::buffer_size
  fine : Bool                        -- is "persist.flush.before_wal" a scheduling point?
  deriving Repr, DecidableEq

structure State where
  wal : List (Shard × Upd) := []
  shards : Shard → ShardSt := fun _ => {}
  lock : Option Tid := none          -- holder of shards.write() across a boundary
  n : Nat := 0                       -- number of threads
  threads : Tid → Thread := fun _ => {}

def setShard (f : Shard → ShardSt) (s : Shard) (v : ShardSt) : Shard → ShardSt :=
  fun x => if x = s then v else f x

def setThread (ts : Tid → Thread) (t : Tid) (v : Thread) : Tid → Thread := fun x => if x = t then v else ts x

/-- the thread returns from its current operation -/
def Thread.finish (th : Thread) (ok : Bool) : Thread :=
  match th.todo with
  | [] => th
  | op :: rest => { todo := rest, pc := .start, done := th.done ++ [(op, ok)] }

/-- `remove_shard_entries` (wal.rs:266): rewrite the WAL without the entries of `s`. -/
def walRemove (wal : List (Shard × Upd)) (s : Shard) : List (Shard × Upd) :=
  wal.filter (fun e => e.1 != s)

inductive Res where
  | ok (st : State)
  | blocked        -- the step needs shards.write() while another thread holds it
  | skip           -- no such thread, or the thread has finished
  deriving Inhabited

/-- body of `flush(s)` entered by thread `t` with the shard lock free (mod.rs:582-619). -/
def flushEnter (cfg : Cfg) (st : State) (t : Tid) (th : Thread) (s : Shard) : State :=
  let sh := st.shards s
  if !sh.present then { st with threads := setThread st.threads t (th.finish false) }   -- "Shard not found"
  else if sh.buffer.isEmpty then { st with threads := setThread st.threads t (th.finish true) }
  else
    let sh' : ShardSt := { sh with batches := sh.batches ++ [sh.buffer], buffer := [] }
    if cfg.fine then
      { st with shards := setShard st.shards s sh', lock := some t,
                threads := setThread st.threads t { th with pc := .flushHold } }
    else
      { st with shards := setShard st.shards s sh', wal := walRemove st.wal s,
                threads := setThread st.threads t (th.finish true) }

def opShard : Op → Shard
  | .append s _ => s
  | .flush s => s

/-- one atomic step of thread `t`. -/
def step (cfg : Cfg) (st : State) (t : Tid) : Res :=
  if t ≥ st.n then .skip else
    let th := st.threads t
    match th.todo with
    | [] => .skip
    | op :: _ =>
      match th.pc, op with
      | .start, .append s us =>
        if us.isEmpty then .ok { st with threads := setThread st.threads t (th.finish true) }   -- mod.rs:401
        else .ok { st with wal := st.wal ++ us.map (fun u => (s, u)),
                           threads := setThread st.threads t { th with pc := .appAfterWal } }
      | .appAfterWal, .append s us =>
        if st.lock.isSome then .blocked else
        let sh := st.shards s
        let sh' : ShardSt := { sh with present := true, buffer := sh.buffer ++ us }
        .ok { st with shards := setShard st.shards s sh',
                      threads := setThread st.threads t { th with pc := .appAfterBuf (decide (sh'.buffer.length ≥ cfg.bufSize)) } }
      | .appAfterBuf false, .append _ _ =>
        .ok { st with threads := setThread st.threads t (th.finish true) }
      | .appAfterBuf true, .append s _ =>
        if st.lock.isSome then .blocked else .ok (flushEnter cfg st t th s)
      | .start, .flush s =>
        if st.lock.isSome then .blocked else .ok (flushEnter cfg st t th s)
      | .flushHold, op =>
        .ok { st with wal := walRemove st.wal (opShard op), lock := none,
                      threads := setThread st.threads t (th.finish true) }
      -- unreachable pc/op combinations: the thread is stuck
      | _, _ => .skip

/-- run an explicit schedule; `Sum.inl k` = entry `k` named a thread that is blocked on the lock. -/
def runFrom (cfg : Cfg) : State → List Tid → Nat → State ⊕ Nat
  | st, [], _ => .inl st
  | st, t :: ts, k =>
    match step cfg st t with
    | .ok st' => runFrom cfg st' ts (k + 1)
    | .skip => runFrom cfg st ts (k + 1)
    | .blocked => .inr k

def run (cfg : Cfg) (st : State) (sched : List Tid) : State ⊕ Nat := runFrom cfg st sched 0

/-- all states visited by an explicit schedule (index 0 = initial state); stops at a blocked entry. -/
def trace (cfg : Cfg) : State → List Tid → List State
  | st, [] => [st]
  | st, t :: ts =>
    match step cfg st t with
    | .ok st' => st :: trace cfg st' ts
    | .skip => st :: trace cfg st ts
    | .blocked => [st]

def Thread.finished (th : Thread) : Bool := th.todo.isEmpty

/-- completion policy of the harness once the explicit schedule is exhausted: the lock holder
    first, otherwise the lowest-numbered unfinished thread. -/
def nextToRun (st : State) : Option Tid :=
  match st.lock with
  | some t => some t
  | none => (List.range st.n).find? (fun t => !(st.threads t).finished)

def completeSched (cfg : Cfg) : Nat → State → List Tid
  | 0, _ => []
  | fuel + 1, st =>
    match nextToRun st with
    | none => []
    | some t => match step cfg st t with
      | .ok st' => t :: completeSched cfg fuel st'
      | _ => []

/-! ### observables -/

/-- what `read(s, 0)` returns (mod.rs:464): batch contents then the buffer. -/
def served (st : State) (s : Shard) : List Upd := (st.shards s).batches.flatten ++ (st.shards s).buffer

/-- what is on disk for shard `s`: batch files referenced by the meta file, and WAL lines. -/
def diskBatches (st : State) (s : Shard) : List Upd := (st.shards s).batches.flatten
def diskWal (st : State) (s : Shard) : List Upd := (st.wal.filter (fun e => e.1 == s)).map (·.2)

/-- what `FilePersist::new` on a copy of the directory serves for `s` (load_shards + replay_wal +
    drain, mod.rs:144-163): the batches, then the replayed WAL entries of the shard. -/
def recovered (st : State) (s : Shard) : List Upd := diskBatches st s ++ diskWal st s

/-- updates of the append operations that have returned Ok, per shard -/
def ackNew (s : Shard) : Op × Bool → List Upd
  | (.append s' us, true) => if s' = s then us else []
  | _ => []

def ackedOf (th : Thread) (s : Shard) : List Upd := th.done.flatMap (ackNew s)

def acked (st : State) (s : Shard) : List Upd := (List.range st.n).flatMap (fun t => ackedOf (st.threads t) s)

/-- the hazard that defines the known finding: thread `t`'s next step rewrites the WAL without the
    entries of a shard for which another thread stands between its WAL append and its buffer push. -/
def rewritesWalOf (cfg : Cfg) (st : State) (t : Tid) : Option Shard :=
  if t ≥ st.n then none else
  let th := st.threads t
  match th.todo with
    | [] => none
    | op :: _ => match th.pc, op with
      | .flushHold, op => some (opShard op)
      | .start, .flush s => if !cfg.fine && (st.shards s).present && !(st.shards s).buffer.isEmpty && st.lock.isNone then some s else none
      | .appAfterBuf true, .append s _ => if !cfg.fine && !(st.shards s).buffer.isEmpty && st.lock.isNone then some s else none
      | _, _ => none

def midAppend (th : Thread) (s : Shard) : Bool :=
  match th.pc, th.todo with
  | .appAfterWal, .append s' _ :: _ => s' == s
  | _, _ => false

def hazard (cfg : Cfg) (st : State) (t : Tid) : Bool :=
  match rewritesWalOf cfg st t with
  | none => false
  | some s => (List.range st.n).any (fun i => midAppend (st.threads i) s)

/-- does the explicit schedule (then the completion) execute a hazardous step? -/
def hazardous (cfg : Cfg) : State → List Tid → Bool
  | _, [] => false
  | st, t :: ts =>
    hazard cfg st t ||
    match step cfg st t with
    | .ok st' => hazardous cfg st' ts
    | .skip => hazardous cfg st ts
    | .blocked => false

def init (progs : List (List Op)) (present : List Shard) : State :=
  { n := progs.length, threads := fun t => { todo := progs.getD t [] },
    shards := fun s => if present.contains s then { present := true } else {} }

end ILV.PStep
