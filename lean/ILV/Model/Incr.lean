/-
  E7 (C18 part) — the materialisation state machine of one knowledge graph, as the code runs it AFTER the
  four `fix:` commits fixes/C18-1..4 (transitive invalidation; the engine's rule registry follows every
  catalogue change and is filled by enable_incremental; drop_relation notifies; no auto-materialisation).

  Mirrors (file:line of /repo at 0819470):
    src/derived_relations.rs   DerivedRelationsManager: register_rule 198, remove_rule 220,
                               set_materialized 260, notify_base_update 284, compute_invalidation_set 310,
                               get_all_valid_materializations 398
    src/storage_engine/mod.rs  KnowledgeGraph: enable_incremental 2116, publish_snapshot 2176,
                               materialize_derived_relation 2295, insert_in_memory 2316, delete_in_memory 2397,
                               register_rule 2481, auto_materialize_rule 2512, compile_rule_for_dd 2558,
                               drop_rule 2603, drop_relation 2618, drop_rules_by_prefix 2652,
                               clear_relations_by_prefix 2676, clear_rule 2761, replace_rule 2768,
                               remove_rule_clause 2781; StorageEngine::insert_tuples_into 419 (view/arity checks)
    src/storage_engine/snapshot.rs  new_with_materializations 102, build_rule_prefix 142
    src/rule_catalog.rs        register_rule 437 (validate_rule 52, arity 455, add_rule 338), drop 518,
                               drop_by_prefix 530, clear_rules 553, replace_rule 565, remove_rule_clause 591
    src/incremental.rs         the worker only forwards RegisterRule/RemoveRule/SetMaterialized/NotifyBaseUpdate
                               to the manager (286-313); register_index/remove_index 588/601

  Values are `Int64` only (`Tup = List Int`); relation names and variables are `List Nat` / `Nat`
  (character codes) so that every definition reduces in the kernel (`decide`) without `String`.

  The engine (Differential Dataflow evaluation of "rule prefix ++ query" over the snapshot's input
  tuples) is a parameter of the real system; here it is `evalProg`, the least fix-point of the
  immediate-consequence operator for positive programs, with the engine's observed convention that a
  relation that is the head of some rule in the program ignores its stored tuples.
-/
namespace ILV.C18

abbrev Name := List Nat
abbrev Tup := List Int

inductive Term where
  | var (v : Nat)
  | const (c : Int)
  deriving DecidableEq, Repr, Inhabited

structure Atom where
  rel : Name
  args : List Term
  deriving DecidableEq, Repr, Inhabited

structure Clause where
  head : Atom
  body : List Atom
  deriving DecidableEq, Repr, Inhabited

/-! ### association lists keyed by `Name` (the code's `HashMap<String, _>`; order is never observed) -/

def aget {β} : List (Name × β) → Name → Option β
  | [], _ => none
  | (k, v) :: l, n => if k = n then some v else aget l n

def aset {β} : List (Name × β) → Name → β → List (Name × β)
  | [], n, v => [(n, v)]
  | (k, w) :: l, n, v => if k = n then (k, v) :: l else (k, w) :: aset l n v

def aerase {β} : List (Name × β) → Name → List (Name × β)
  | [], _ => []
  | (k, w) :: l, n => if k = n then aerase l n else (k, w) :: aerase l n

def akeys {β} (l : List (Name × β)) : List Name := l.map (·.1)

/-- set insertion into a duplicate-free list (`HashSet::insert`). -/
def sins (l : List Name) (n : Name) : List Name := if n ∈ l then l else l ++ [n]

/-! ### the engine: positive Datalog over `Int` tuples -/

abbrev Env := List (Nat × Int)

def envGet : Env → Nat → Option Int
  | [], _ => none
  | (k, v) :: e, x => if k = x then some v else envGet e x

/-- match an atom's argument list against a stored tuple, extending the binding environment. -/
def matchArgs : List Term → Tup → Env → Option Env
  | [], [], env => some env
  | .const c :: as, v :: vs, env => if c = v then matchArgs as vs env else none
  | .var x :: as, v :: vs, env =>
    match envGet env x with
    | some w => if w = v then matchArgs as vs env else none
    | none => matchArgs as vs ((x, v) :: env)
  | _, _, _ => none

def solveBody (db : Name → List Tup) : List Atom → List Env → List Env
  | [], envs => envs
  | a :: as, envs =>
    solveBody db as (envs.flatMap fun env => (db a.rel).filterMap fun t => matchArgs a.args t env)

def instHead : List Term → Env → Option Tup
  | [], _ => some []
  | .const c :: as, env => (instHead as env).map (c :: ·)
  | .var x :: as, env =>
    match envGet env x, instHead as env with
    | some v, some r => some (v :: r)
    | _, _ => none

/-- all head instances of one clause under `db`. -/
def fire (db : Name → List Tup) (c : Clause) : List Tup :=
  (solveBody db c.body [[]]).filterMap (instHead c.head.args)

/-- append the tuples of the second list that are not yet present (order-preserving set union). -/
def addNew (l : List Tup) : List Tup → List Tup
  | [] => l
  | t :: ts => if t ∈ l then addNew l ts else addNew (l ++ [t]) ts

def clausesOf (prog : List Clause) (n : Name) : List Clause := prog.filter (fun c => c.head.rel = n)

def consequences (prog : List Clause) (db : Name → List Tup) (n : Name) : List Tup :=
  (clausesOf prog n).flatMap (fire db)

def dedupNames : List Name → List Name
  | [] => []
  | n :: l => if n ∈ l then dedupNames l else n :: dedupNames l

def heads (prog : List Clause) : List Name := dedupNames (prog.map (·.head.rel))

/-- lookup during evaluation: a head relation reads its derived table (stored tuples are shadowed),
    every other relation reads the input tuples. -/
def look (inputs derived : List (Name × List Tup)) (r : Name) : List Tup :=
  match aget derived r with
  | some ts => ts
  | none => (aget inputs r).getD []

/-- one round of the immediate-consequence operator on the derived tables. -/
def tstep (prog : List Clause) (inputs derived : List (Name × List Tup)) : List (Name × List Tup) :=
  derived.map fun p => (p.1, addNew p.2 (consequences prog (look inputs derived) p.1))

def iter (prog : List Clause) (inputs : List (Name × List Tup)) : Nat → List (Name × List Tup) → List (Name × List Tup)
  | 0, d => d
  | k + 1, d => let d' := tstep prog inputs d; if d' = d then d else iter prog inputs k d'

def maxArity (prog : List Clause) : Nat := (prog.map (·.head.args.length)).foldl max 0

def termConsts : List Term → List Int
  | [] => []
  | .const c :: l => c :: termConsts l
  | .var _ :: l => termConsts l

/-- the constants of the clause heads / the values stored in the inputs: together the active domain. -/
def headConsts (prog : List Clause) : List Int := prog.flatMap fun c => termConsts c.head.args

def inputInts (inputs : List (Name × List Tup)) : List Int := inputs.flatMap fun p => p.2.flatten

def progConsts (prog : List Clause) : Nat := (headConsts prog).length

def inputSize (inputs : List (Name × List Tup)) : Nat := (inputInts inputs).length

/-- more rounds than there are derivable tuples: |heads| · (|active domain| + 1)^maxArity + 2. -/
def evalFuel (prog : List Clause) (inputs : List (Name × List Tup)) : Nat :=
  (heads prog).length * (inputSize inputs + progConsts prog + 1) ^ (maxArity prog) + 2

/-- the engine's result: every relation's extension after evaluating `prog` over `inputs`. -/
def evalProg (prog : List Clause) (inputs : List (Name × List Tup)) : Name → List Tup :=
  look inputs (iter prog inputs (evalFuel prog inputs) ((heads prog).map fun n => (n, [])))

def d0 (prog : List Clause) : List (Name × List Tup) := (heads prog).map fun n => (n, ([] : List Tup))

/-- the derived tables `evalProg` reads (`evalProg prog inputs = look inputs (res prog inputs)`). -/
def res (prog : List Clause) (inputs : List (Name × List Tup)) : List (Name × List Tup) :=
  iter prog inputs (evalFuel prog inputs) (d0 prog)

/-- the evaluation reached a fix-point within its fuel. -/
def conv (prog : List Clause) (inputs : List (Name × List Tup)) : Bool :=
  decide (tstep prog inputs (res prog inputs) = res prog inputs)

/-- `?rel(args)`: the distinct stored tuples matching the pattern (constants, repeated variables),
    all columns (handler.rs `transform_query_shorthand`: `__query__(hv…) <- rel(hv…), _ci = k`). -/
def answer (db : Name → List Tup) (q : Atom) : List Tup :=
  addNew [] ((db q.rel).filter fun t => (matchArgs q.args t []).isSome)

def allVars : Nat → List Term
  | 0 => []
  | k + 1 => allVars k ++ [.var k]

/-! ### state -/

structure Mat where
  tuples : List Tup
  valid : Bool
  deriving DecidableEq, Repr

/-- `DerivedRelationsManager` (+ the one index the histories register). -/
structure Inc where
  compiled : List Name := []                    -- keys of `compiled_rules`
  mats : List (Name × Mat) := []                -- `materialized`
  b2d : List (Name × List Name) := []           -- `base_to_derived`
  d2b : List (Name × List Name) := []           -- `derived_to_base`
  d2d : List (Name × List Name) := []           -- `derived_to_derived` (no writer on the pinned tree)
  hasIndex : Bool := false
  deriving DecidableEq, Repr

/-- what `publish_snapshot` stores: merged input tuples and the rules kept in the query prefix. -/
structure Snap where
  inputs : List (Name × List Tup) := []
  rules : List Clause := []
  deriving DecidableEq, Repr

structure St where
  facts : List (Name × List Tup) := []          -- `engine.input_tuples`
  arity : List (Name × Nat) := []               -- `metadata.relations[_].schema.len()`
  catalog : List (Name × List Clause) := []     -- `rule_catalog.rules`
  inc : Option Inc := none
  snap : Snap := {}
  deriving DecidableEq, Repr

def init : St := {}

def allRules (cat : List (Name × List Clause)) : List Clause := cat.flatMap (·.2)

def validMats (i : Inc) : List (Name × List Tup) :=
  i.mats.filterMap fun p => if p.2.valid then some (p.1, p.2.tuples) else none

def isValid (i : Inc) (n : Name) : Bool :=
  match aget i.mats n with
  | some m => m.valid
  | none => false

/-- `input_tuples.entry(rel).or_default().extend(tuples)` for every valid materialisation. -/
def mergeMats (inputs : List (Name × List Tup)) : List (Name × List Tup) → List (Name × List Tup)
  | [] => inputs
  | (n, ts) :: l => mergeMats (aset inputs n (((aget inputs n).getD []) ++ ts)) l

/-- `publish_snapshot`: materialised tuples become input tuples, their rules leave the prefix. -/
def mkSnap (s : St) : Snap :=
  match s.inc with
  | none => { inputs := s.facts, rules := allRules s.catalog }
  | some i =>
    { inputs := mergeMats s.facts (validMats i),
      rules := (allRules s.catalog).filter fun c => !(isValid i c.head.rel) }

def publish (s : St) : St := { s with snap := mkSnap s }

/-! ### the manager's operations -/

def bodyRels (c : Clause) : List Name := c.body.map (·.rel)

/-- `compile_rule_for_dd`: the body relations of THIS clause other than the head itself. -/
def clauseDeps (c : Clause) : List Name := dedupNames ((bodyRels c).filter (· ≠ c.head.rel))

/-- `DerivedRelationsManager::register_rule`. -/
def Inc.register (i : Inc) (n : Name) (deps : List Name) : Inc :=
  { i with
    d2b := aset i.d2b n deps,
    b2d := deps.foldl (fun acc b => aset acc b (sins ((aget acc b).getD []) n)) i.b2d,
    compiled := sins i.compiled n }

/-- `DerivedRelationsManager::remove_rule`. -/
def Inc.remove (i : Inc) (n : Name) : Inc :=
  { i with
    compiled := i.compiled.filter (· ≠ n),
    mats := aerase i.mats n,
    b2d := match aget i.d2b n with
      | some deps => deps.foldl (fun acc b => match aget acc b with
          | some ds => aset acc b (ds.filter (· ≠ n))
          | none => acc) i.b2d
      | none => i.b2d,
    d2b := aerase i.d2b n,
    d2d := aerase i.d2d n }

/-- `set_materialized`. -/
def Inc.setMat (i : Inc) (n : Name) (ts : List Tup) : Inc :=
  { i with mats := aset i.mats n { tuples := ts, valid := true } }

/-- the dependents of `x`: `base_to_derived[x]` chained with `derived_to_derived[x]`. -/
def succs (i : Inc) (x : Name) : List Name := (aget i.b2d x).getD [] ++ (aget i.d2d x).getD []

/-- `l ∪ ns`, order-preserving. -/
def addNames (l : List Name) : List Name → List Name
  | [] => l
  | n :: ns => if n ∈ l then addNames l ns else addNames (l ++ [n]) ns

def grow (i : Inc) (s : List Name) : List Name := addNames s (s.flatMap (succs i))

def closeFuel (i : Inc) : Nat → List Name → List Name
  | 0, s => s
  | k + 1, s => let s' := grow i s; if s' = s then s else closeFuel i k s'

/-- every name that is somebody's dependent. -/
def depUniverse (i : Inc) : List Name := dedupNames (i.b2d.flatMap (·.2) ++ i.d2d.flatMap (·.2))

def isClosed (i : Inc) (s : List Name) : Bool := (s.flatMap (succs i)).all (s.contains ·)

/-- `compute_invalidation_set`'s work-list: everything reachable from `base` along dependency edges,
    materialised or not. The code's loop runs until its `seen` set stops growing; here the closure is
    iterated |universe|+1 times and CHECKED — were it not closed (it always is), every dependent in
    the maps is taken instead, so that the result is closed under `succs` by construction. -/
def reachFrom (i : Inc) (base : Name) : List Name :=
  let s := closeFuel i ((depUniverse i).length + 1) (dedupNames (succs i base))
  if isClosed i s then s else depUniverse i

/-- `notify_base_update`: the valid materialisations among the transitive dependents are invalidated. -/
def Inc.notify (i : Inc) (base : Name) : Inc :=
  let inv := reachFrom i base
  { i with mats := i.mats.map fun p => if p.1 ∈ inv then (p.1, { p.2 with valid := false }) else p }

/-- `compile_rule_for_dd`: the body relations of ALL clauses of `n` other than `n` itself. -/
def allDeps (cls : List Clause) (n : Name) : List Name :=
  dedupNames ((cls.flatMap bodyRels).filter (· ≠ n))

/-- `sync_rule_with_dd`: after the clauses of `n` became `cls` — the old materialisation and the old
    edges go, the dependencies of all remaining clauses are registered, `n`'s dependents are invalidated. -/
def Inc.reindex (i : Inc) (n : Name) (cls : List Clause) : Inc :=
  let i1 := i.remove n
  let i2 := if cls.isEmpty then i1 else i1.register n (allDeps cls n)
  i2.notify n

/-! ### steps -/

inductive Step where
  | ins (r : Name) (ts : List Tup)
  | del (r : Name) (ts : List Tup)
  | reg (c : Clause)
  | rmc (n : Name) (idx : Nat)
  | rep (n : Name) (idx : Nat) (c : Clause)
  | clr (n : Name)
  | drop (n : Name)
  | dropp (pre : Name)
  | drel (r : Name)
  | clrp (pre : Name)
  | idx
  | idxdrop
  | mat (n : Name) (ar : Nat)
  | q (a : Atom)
  | m
  deriving DecidableEq, Repr

inductive ErrK where
  | view | arity | notSafe | missing | bounds
  deriving DecidableEq, Repr

structure Dump where
  mats : List (Name × List Tup)
  b2d : List (Name × List Name)
  compiled : List Name
  deriving DecidableEq, Repr

inductive Out where
  | ins (new dup : Nat) | insErr (k : ErrK)
  | del (n : Nat)
  | regCreated | regAdded (n : Nat) | regErr (k : ErrK)
  | rmcRemoved | rmcDeleted | rmcErr (k : ErrK)
  | repOk | repErr (k : ErrK)
  | clrOk | clrErr (k : ErrK)
  | dropOk | dropErr (k : ErrK)
  | dropp (names : List Name)
  | drelOk | drelErr (k : ErrK)
  | clrp (l : List (Name × Nat))
  | idxOk | idxErr | idxdropOk | idxdropErr
  | matOff | mat (ts : List Tup)
  | q (inc twin : List Tup)
  | m (d : Option Dump)
  deriving DecidableEq, Repr

def termVars : List Term → List Nat
  | [] => []
  | .var x :: l => x :: termVars l
  | .const _ :: l => termVars l

/-- `validate_rule` check 2 (head variables bound by positive body atoms). -/
def clauseSafe (c : Clause) : Bool :=
  (termVars c.head.args).all fun x => c.body.any fun a => (termVars a.args).contains x

/-- what the twin (no incremental engine) answers: rules of the catalog over the stored facts. -/
def fresh (s : St) : Name → List Tup := evalProg (allRules s.catalog) s.facts

/-- what the engine under test answers: the published snapshot. -/
def snapDb (s : St) : Name → List Tup := evalProg s.snap.rules s.snap.inputs

def mapInc (s : St) (f : Inc → Inc) : St := { s with inc := s.inc.map f }

def removeAt {α} : List α → Nat → List α
  | [], _ => []
  | _ :: l, 0 => l
  | a :: l, k + 1 => a :: removeAt l k

def replaceAt {α} : List α → Nat → α → List α
  | [], _, _ => []
  | _ :: l, 0, v => v :: l
  | a :: l, k + 1, v => a :: replaceAt l k v

/-- byte-lexicographic order of names (`str::cmp`). -/
def nameLe : Name → Name → Bool
  | [], _ => true
  | _ :: _, [] => false
  | a :: as, b :: bs => if a < b then true else if b < a then false else nameLe as bs

def insertSorted (n : Name) : List Name → List Name
  | [] => [n]
  | m :: l => if nameLe n m then n :: m :: l else m :: insertSorted n l

def sortNames (l : List Name) : List Name := l.foldr insertSorted []

/-- `insert_tuples_into`: the checks before anything is written (view, batch arity, stored arity). -/
def insRefused (s : St) (r : Name) (ts : List Tup) : Option ErrK :=
  if (aget s.catalog r).isSome then some .view
  else
    let ar := (ts.head?.map (·.length)).getD 0
    if !(ts.all (·.length == ar)) then some .arity
    else if (match aget s.arity r with | some k => k != ar | none => false) then some .arity
    else none

/-- `insert_in_memory`: de-duplicating append, invalidation of dependents, publication. -/
def insApply (s : St) (r : Name) (ts : List Tup) : St × Out :=
  let ar := (ts.head?.map (·.length)).getD 0
  let old := (aget s.facts r).getD []
  let merged := addNew old ts
  let newCount := merged.length - old.length
  let s1 : St := { s with facts := aset s.facts r merged, arity := aset s.arity r ar }
  (if newCount > 0 then publish (mapInc s1 (·.notify r)) else s, .ins newCount (ts.length - newCount))

/-- `RuleCatalog::register_rule`: range restriction, then arity against the first stored clause. -/
def regRefused (s : St) (c : Clause) : Option ErrK :=
  if !(clauseSafe c) then some .notSafe
  else if (match aget s.catalog c.head.rel with
      | some (c0 :: _) => c0.head.args.length != c.head.args.length
      | _ => false) then some .arity
  else none

/-- the clause list of the head after `add_rule` (structurally equal clauses are not added twice). -/
def regCls (s : St) (c : Clause) : List Clause :=
  match aget s.catalog c.head.rel with
  | some cs => if cs.contains c then cs else cs ++ [c]
  | none => [c]

/-- `KnowledgeGraph::register_rule` after the catalogue accepted the clause. -/
def regApply (s : St) (c : Clause) : St × Out :=
  let n := c.head.rel
  let s1 : St := { s with catalog := aset s.catalog n (regCls s c) }
  (publish (mapInc s1 fun i => i.reindex n (regCls s c)),
    if (aget s.catalog n).isSome then .regAdded (regCls s c).length else .regCreated)

/-- `enable_incremental`: a new engine that knows every rule of the catalogue. -/
def enableInc (s : St) : Inc :=
  s.catalog.foldl (fun i p => if p.2.isEmpty then i else i.register p.1 (allDeps p.2 p.1)) { hasIndex := true }

/-- `clear_relations_by_prefix`: the non-empty stored relations with the prefix, sorted, with counts. -/
def clrpHit (s : St) (pre : Name) : List (Name × Nat) :=
  (sortNames ((akeys s.facts).filter fun k => pre.isPrefixOf k)).filterMap fun k =>
    let c := ((aget s.facts k).getD []).length
    if c = 0 then none else some (k, c)

def clrpFacts (s : St) (pre : Name) : List (Name × List Tup) :=
  s.facts.map fun p => (p.1, if (akeys (clrpHit s pre)).contains p.1 then [] else p.2)

/-- `drop_by_prefix`: the catalogued names with the prefix, sorted. -/
def droppNames (s : St) (pre : Name) : List Name :=
  sortNames ((akeys s.catalog).filter fun k => pre.isPrefixOf k)

def step (s : St) : Step → St × Out
  | .ins r ts =>
    if ts.isEmpty then (s, .ins 0 0)
    else match insRefused s r ts with
      | some k => (s, .insErr k)
      | none => insApply s r ts
  | .del r ts =>
    match aget s.facts r with
    | none => (s, .del 0)
    | some old =>
      let kept := old.filter fun t => !(ts.contains t)
      let n := old.length - kept.length
      if n > 0 then
        (publish (mapInc { s with facts := aset s.facts r kept } (·.notify r)), .del n)
      else (s, .del 0)
  | .reg c =>
    match regRefused s c with
    | some k => (s, .regErr k)
    | none => regApply s c
  | .rmc n k =>
    match aget s.catalog n with
    | none => (s, .rmcErr .missing)
    | some cs =>
      if k ≥ cs.length then (s, .rmcErr .bounds)
      else
        if (removeAt cs k).isEmpty then
          (publish (mapInc { s with catalog := aerase s.catalog n } fun i => i.reindex n []), .rmcDeleted)
        else
          (publish (mapInc { s with catalog := aset s.catalog n (removeAt cs k) } fun i => i.reindex n (removeAt cs k)),
            .rmcRemoved)
  | .rep n k c =>
    match aget s.catalog n with
    | none => (s, .repErr .missing)
    | some cs =>
      if k ≥ cs.length then (s, .repErr .bounds)
      else if !(clauseSafe c) then (s, .repErr .notSafe)
      else
        (publish (mapInc { s with catalog := aset s.catalog n (replaceAt cs k c) } fun i => i.reindex n (replaceAt cs k c)),
          .repOk)
  | .clr n =>
    match aget s.catalog n with
    | none => (s, .clrErr .missing)
    | some _ => (publish (mapInc { s with catalog := aset s.catalog n [] } fun i => i.reindex n []), .clrOk)
  | .drop n =>
    match aget s.catalog n with
    | none => (s, .dropErr .missing)
    | some _ => (publish (mapInc { s with catalog := aerase s.catalog n } fun i => i.reindex n []), .dropOk)
  | .dropp pre =>
    if (droppNames s pre).isEmpty then (s, .dropp [])
    else
      let s1 : St := { s with catalog := (droppNames s pre).foldl aerase s.catalog }
      (publish (mapInc s1 fun i => (droppNames s pre).foldl (fun i n => i.reindex n []) i), .dropp (droppNames s pre))
  | .drel r =>
    if (aget s.arity r).isNone && (aget s.facts r).isNone && (aget s.catalog r).isNone then (s, .drelErr .missing)
    else
      let s1 : St := { s with facts := aerase s.facts r, arity := aerase s.arity r, catalog := aerase s.catalog r }
      (publish (mapInc s1 fun i => (i.notify r).remove r), .drelOk)
  | .clrp pre =>
    if (clrpHit s pre).isEmpty then (s, .clrp [])
    else
      let s1 : St := { s with facts := clrpFacts s pre }
      (publish (mapInc s1 fun i => (akeys (clrpHit s pre)).foldl Inc.notify i), .clrp (clrpHit s pre))
  | .idx =>
    match s.inc with
    | none => ({ s with inc := some (enableInc s) }, .idxOk)
    | some i => if i.hasIndex then (s, .idxErr) else ({ s with inc := some { i with hasIndex := true } }, .idxOk)
  | .idxdrop =>
    match s.inc with
    | none => (s, .idxdropErr)
    | some i => if i.hasIndex then ({ s with inc := some { i with hasIndex := false } }, .idxdropOk) else (s, .idxdropErr)
  | .mat n ar =>
    match s.inc with
    | none => (s, .matOff)
    | some i => (publish { s with inc := some (i.setMat n (answer (fresh s) ⟨n, allVars ar⟩)) },
        .mat (answer (fresh s) ⟨n, allVars ar⟩))
  | .q a => (s, .q (answer (snapDb s) a) (answer (fresh s) a))
  | .m =>
    (s, .m (s.inc.map fun i => { mats := validMats i, b2d := i.b2d, compiled := i.compiled }))

def runFrom : St → List Step → St
  | s, [] => s
  | s, st :: l => runFrom (step s st).1 l

def run (h : List Step) : St := runFrom init h

def outsFrom : St → List Step → List Out
  | _, [] => []
  | s, st :: l => let r := step s st; r.2 :: outsFrom r.1 l

/-- same tuples, as sets. -/
def SetEq (a b : List Tup) : Prop := ∀ t, t ∈ a ↔ t ∈ b

def setEqb (a b : List Tup) : Bool := a.all (b.contains ·) && b.all (a.contains ·)

/-! ### decidable predicates on histories used by the theorems -/

def clausesNow (s : St) (n : Name) : List Clause := (aget s.catalog n).getD []

def factsDb (s : St) (r : Name) : List Tup := (aget s.facts r).getD []

/-- The API's own contract for one step, checked in the state the step is applied to: only a
    relation that currently has clauses is materialised, and with its complete current extension;
    a rule head carries no stored tuples; a replacement clause keeps the head. -/
def stepWellUsed (s : St) : Step → Bool
  | .mat n ar => !(clausesNow s n).isEmpty && setEqb (answer (fresh s) ⟨n, allVars ar⟩) (fresh s n)
  | .reg c => (factsDb s c.head.rel).isEmpty
  | .rep n _ c => c.head.rel == n && (factsDb s n).isEmpty
  | _ => true

def wellUsed : St → List Step → Bool
  | _, [] => true
  | s, st :: l => stepWellUsed s st && wellUsed (step s st).1 l

/-- every evaluation the state can be asked for reached its fix-point within the evaluator's fuel
    (all rules over the facts; the snapshot's prefix over its inputs). Always true: `conv_always`
    (Lemmas/IncrFuel.lean); the driver still asserts it on every visited state. -/
def convState (s : St) : Bool :=
  conv (allRules s.catalog) s.facts && conv s.snap.rules s.snap.inputs

end ILV.C18
