/-
  Canonical one-line renderings shared by the harness (`harness/src/u/prov.rs`) and the driver:
  proof trees, derived data, why-not explanations.

  tree   ::= fact <rel> <tuple> edb|derived
           | rule <rel> <tuple> <clause idx | -> <bindings | -> <n> <tree>*n
           | neg <rel> <tuple of the concrete pattern positions> <pattern>
           | trunc <rel> <tuple> <limit>
  pattern::= `()` | p,p,…     p ::= c (concrete) | v.<name> (unbound variable) | _ (wildcard)
  bindings ::= X=<value>;Y=<value>   sorted by name
  derived ::= <rel>=<tuple>;<tuple> …   (relations sorted by name, tuples in the engine's order)
-/
import ILV.Model.ProvSpec
namespace ILV.Prov
open ILV

def patternWire (bts : List BT) : String :=
  if bts.isEmpty then "()" else
  joinWith "," (bts.map (fun | .conc _ => "c" | .unb x => "v." ++ x | .anon => "_"))

def patternOfWire (s : String) (conc : Tuple) : Option (List BT) :=
  if s == "()" then some [] else
  let rec go : List String → Tuple → Option (List BT)
    | [], _ => some []
    | "c" :: ps, v :: vs => (go ps vs).map (BT.conc v :: ·)
    | "c" :: _, [] => none
    | "_" :: ps, vs => (go ps vs).map (BT.anon :: ·)
    | p :: ps, vs => if p.startsWith "v." then (go ps vs).map (BT.unb (p.drop 2).toString :: ·) else none
  go (s.splitOn ",") conc

/-- a hash map printed canonically: first entry per key (latest insertion), sorted by key. -/
def canonBindings (b : Bindings) : Bindings :=
  let keys := (b.map (·.1)).eraseDups
  let ks := sortBy (fun (x y : String) => decide (x ≤ y)) keys
  ks.filterMap (fun k => (b.lookup k).map (fun v => (k, v)))

def bindingsWire (b : Bindings) : String :=
  let c := canonBindings b
  if c.isEmpty then "-" else joinWith ";" (c.map (fun p => p.1 ++ "=" ++ p.2.toWire))

def bindingsOfWire (s : String) : Option Bindings :=
  if s == "-" then some [] else
  optMapM (fun (kv : String) => match kv.splitOn "=" with
    | [k, v] => (Value.ofWire v).map (fun v => (k, v))
    | _ => none) (s.splitOn ";")

def srcWire : Src → String | .edb => "edb" | .derived => "derived"

mutual
def Tree.toks : Tree → List String
  | .node (.fact s) p a _ => ["fact", p, Tuple.toWire a, srcWire s]
  | .node (.rule idx β) p a kids => ["rule", p, Tuple.toWire a, toString idx, bindingsWire β, toString kids.length] ++ Tree.toksList kids
  | .node (.neg pat) p a _ => ["neg", p, Tuple.toWire a, patternWire pat]
  | .node (.trunc l) p a _ => ["trunc", p, Tuple.toWire a, toString l]
def Tree.toksList : List Tree → List String
  | [] => []
  | k :: ks => k.toks ++ Tree.toksList ks
end

def Tree.toWire (t : Tree) : String := joinWith " " t.toks

/-- parse one tree from a token list (fuel ≥ number of tokens). -/
def parseTree : Nat → List String → Option (Tree × List String)
  | 0, _ => none
  | fuel + 1, toks =>
    let rec kidsLoop (f : Nat) : Nat → List String → Option (List Tree × List String)
      | 0, ts => some ([], ts)
      | n + 1, ts => match parseTree f ts with
        | some (k, ts') => match kidsLoop f n ts' with
          | some (ks, ts'') => some (k :: ks, ts'')
          | none => none
        | none => none
    match toks with
    | "fact" :: p :: a :: s :: rest =>
      match Tuple.ofWire a, (if s == "edb" then some Src.edb else if s == "derived" then some Src.derived else none) with
      | some a, some s => some (.node (.fact s) p a [], rest)
      | _, _ => none
    | "neg" :: p :: a :: pat :: rest =>
      match Tuple.ofWire a with
      | some a => match patternOfWire pat a with
        | some bts => some (.node (.neg bts) p a [], rest)
        | none => none
      | none => none
    | "trunc" :: p :: a :: l :: rest =>
      match Tuple.ofWire a, parseNat l with
      | some a, some l => some (.node (.trunc l) p a [], rest)
      | _, _ => none
    | "rule" :: p :: a :: idx :: bs :: n :: rest =>
      match Tuple.ofWire a, bindingsOfWire bs, parseNat n with
      | some a, some β, some n =>
        let idx := match parseNat idx with | some i => i | none => 1000000000
        match kidsLoop fuel n rest with
        | some (ks, rest') => some (.node (.rule idx β) p a ks, rest')
        | none => none
      | _, _, _ => none
    | _ => none

def Tree.ofWire (s : String) : Option Tree :=
  let toks := s.splitOn " "
  match parseTree (toks.length + 1) toks with
  | some (t, []) => some t
  | _ => none

/-! ### derived data -/

def relWire (p : String × List Tuple) : String := p.1 ++ "=" ++ joinWith ";" (p.2.map Tuple.toWire)

def dbWire (db : DB) : String := if db.isEmpty then "{}" else joinWith " " (db.map relWire)

def relOfWire (s : String) : Option (String × List Tuple) :=
  match s.splitOn "=" with
  | [r, ts] => (optMapM Tuple.ofWire (splitNonEmpty ts ";")).map (fun ts => (r, ts))
  | _ => none

def dbOfWire (s : String) : Option DB :=
  if s == "{}" then some [] else optMapM relOfWire (s.splitOn " ")

/-! ### why-not explanations
  expl   ::= norules | clause / clause / …        (`noclauses` when the list is empty)
  clause ::= <idx> <ruleIdx> <bindings> <fact>* <blocker | open>
  fact   ::= F:<rel>:<tuple>:<edb|derived>     (`:` never occurs in a relation name; tuple values do
             contain `:`, so the tuple is everything between the first and the last field)
  blocker::= head | atom:<i>:<rel>:<concrete tuple>:<pattern> | neg:<i>:<rel>:<tuple> | cmp:<i> | cmperr:<i>
-/

def blockerWire : Blocker → String
  | .headMismatch => "head"
  | .atomFailed i rel bts => s!"atom#{i}#{rel}#{Tuple.toWire (concPart bts)}#{patternWire bts}"
  | .negSucceeded i rel t => s!"neg#{i}#{rel}#{Tuple.toWire t}"
  | .cmpFailed i => s!"cmp#{i}"
  | .cmpError i => s!"cmperr#{i}"

def blockerOfWire (s : String) : Option Blocker :=
  match s.splitOn "#" with
  | ["head"] => some .headMismatch
  | ["atom", i, rel, t, pat] =>
    match parseNat i, Tuple.ofWire t with
    | some i, some t => (patternOfWire pat t).map (fun bts => .atomFailed i rel bts)
    | _, _ => none
  | ["neg", i, rel, t] =>
    match parseNat i, Tuple.ofWire t with
    | some i, some t => some (.negSucceeded i rel t)
    | _, _ => none
  | ["cmp", i] => (parseNat i).map .cmpFailed
  | ["cmperr", i] => (parseNat i).map .cmpError
  | _ => none

def factWire (f : String × Tuple × Src) : String := s!"F#{f.1}#{Tuple.toWire f.2.1}#{srcWire f.2.2}"

def factOfWire (s : String) : Option (String × Tuple × Src) :=
  match s.splitOn "#" with
  | ["F", rel, t, "edb"] => (Tuple.ofWire t).map (fun t => (rel, t, Src.edb))
  | ["F", rel, t, "derived"] => (Tuple.ofWire t).map (fun t => (rel, t, Src.derived))
  | _ => none

def clauseWire (c : ClauseExpl) : String :=
  joinWith " " ([toString c.idx, toString c.ruleIdx, bindingsWire c.bindings] ++ c.facts.map factWire ++
    [match c.blocker with | some b => blockerWire b | none => "open"])

def clauseOfWire (s : String) : Option ClauseExpl :=
  match s.splitOn " " with
  | idx :: ridx :: bs :: rest =>
    match parseNat idx, bindingsOfWire bs, rest.getLast? with
    | some idx, some β, some last =>
      let ridx := match parseNat ridx with | some i => i | none => 1000000000
      match optMapM factOfWire rest.dropLast with
      | some fs =>
        if last == "open" then some { idx := idx, ruleIdx := ridx, bindings := β, facts := fs, blocker := none }
        else (blockerOfWire last).map (fun b => { idx := idx, ruleIdx := ridx, bindings := β, facts := fs, blocker := some b })
      | none => none
    | _, _, _ => none
  | _ => none

def explWire : Option (List ClauseExpl) → String
  | none => "norules"
  | some [] => "noclauses"
  | some cs => joinWith " / " (cs.map clauseWire)

def explOfWire (s : String) : Option (Option (List ClauseExpl)) :=
  if s == "norules" then some none
  else if s == "noclauses" then some (some [])
  else (optMapM clauseOfWire (s.splitOn " / ")).map some

end ILV.Prov
