/-
  E2 (model part) — `IQLEngine::execute_tuples_profiled` (src/lib.rs:1532-1707) at head granularity.

  parse + safety check (lib.rs:600-630)  →  one IR tree per head relation, heads in
  first-appearance order (`build_ir`, lib.rs:781-867; `get_rule_heads`, lib.rs:1060)  →
  `detect_recursion_info` (lib.rs:1083: a head is recursive iff its own tree scans it)  →
  `topological_sort_ir_nodes` (lib.rs:1258-1341)  →  heads executed one at a time, each either
  single-pass (`CodeGenerator::execute`, code_generator:202) or as a self fix-point
  (`execute_recursive_fixpoint_tuples`, code_generator:314), results accumulated and *overriding*
  same-named inputs (`load_inputs_into_codegen`, lib.rs:1112)  →  the answer is the result of the
  last executed head.  `max_result_rows` truncates the last executed head (code_generator:258-266, 1203-1211);
  `num_workers > 1` hash-partitions all inputs of a non-recursive head without join/antijoin
  (`execute_with_config`, code_generator:1261-1316).

  Not in this model: the IR passes (join planning, SIP, sharing, boolean specialisation, magic
  sets, basic optimizer) — the correspondence runs the real engine with the five switches off.
  A clause is evaluated by `DL.evalRuleLk false` (the denotation of the tree `IRBuilder` emits).
-/
import ILV.Model.Datalog
namespace ILV.Engine
open ILV ILV.DL

structure Cfg where
  jp : Bool := false
  sip : Bool := false
  ss : Bool := false
  bs : Bool := false
  ms : Bool := false
  workers : Nat := 1
  limit : Nat := 0
  deriving Repr, DecidableEq, Inhabited

/-! ### one clause, as `IRBuilder::build_ir` + `Optimizer::optimize` evaluate it

  Deviations from the declarative reading that are part of the model because the code has them:

  * (repaired, fixes/C01-same_relation_wildcard_position.diff) wildcard columns are named
    `_ph_a<atom>_<rel>_<i>` (ir_builder:298): unique per atom, so a wildcard is an anonymous variable.
  * (repaired, fixes/C05-pushdown_right_past_join_key.diff of the `ir` branch: the pushed filter is
    re-indexed through the right side's key positions, so push-down no longer changes the meaning
    of a clause and is not part of the model any more; `pushPlan` below describes the *unrepaired*
    optimizer and is kept only for the class predicate `Drv.C01.pushdownShift`, still referenced by
    Drv/C06.) Formerly: **filter push-down into the right side of a join** (optimizer:337-404,
    non-recursive heads only because recursive heads run the unoptimized tree, lib.rs:1667):
    when every column of the (fused) comparison filters lies in the part of the join output
    contributed by the right scan, the filter is moved onto the right scan with its column
    indices shifted by `-left_cols` — although the right side's *key columns are not part of the
    join output*, so index `j` of the output part is the `j`-th **non-key** column of the scan,
    not column `j`. The filter then tests the wrong column.
-/

/-- schema names of a scan (`build_scan`): variables keep their name, a constant in body
    position `bi`, column `i` is `_const_a<bi>_c<i>` (unique). -/
def scanNames (bi : Nat) : Nat → List Term → List String
  | _, [] => []
  | i, .var x :: ts => x :: scanNames bi (i + 1) ts
  | i, .const _ :: ts => ("_const_a" ++ toString bi ++ "_c" ++ toString i) :: scanNames bi (i + 1) ts
  | i, .wild :: ts => ("_ph_?_" ++ toString bi ++ "_" ++ toString i) :: scanNames bi (i + 1) ts

def firstPos (x : String) : List String → Nat → Option Nat
  | [], _ => none
  | y :: ys, i => if x == y then some i else firstPos x ys (i + 1)

/-- positive atoms with their index in the body. -/
def posWithIdx : List Lit → Nat → List (Nat × Atom)
  | [], _ => []
  | .pos a :: ls, i => (i, a) :: posWithIdx ls (i + 1)
  | _ :: ls, i => posWithIdx ls (i + 1)

/-- `find_arithmetic_join_bridge` (ir_builder:627): with no shared name, an equality
    `V = arith` whose `V` is a column of the right scan and whose arithmetic only uses left
    columns adds a computed column `V` to the left side. -/
def bridgeVar (cs : List Cmp) (left right : List String) : Option String :=
  (cs.findSome? (fun c =>
    match c with
    | (.eq, .var x, .bin o l r) =>
      let vs := (Expr.bin o l r).vars
      if right.contains x && !vs.isEmpty && vs.all left.contains then some x else none
    | (.eq, .bin o l r, .var x) =>
      let vs := (Expr.bin o l r).vars
      if right.contains x && !vs.isEmpty && vs.all left.contains then some x else none
    | _ => none))

/-- key positions of the right scan: first position of every name shared with the left. -/
def rightKeys (left right : List String) : List Nat :=
  (dedupS (right.filter left.contains)).filterMap (fun x => firstPos x right 0)

def dropIdx (ks : List Nat) : List String → Nat → List String
  | [], _ => []
  | x :: xs, i => if ks.contains i then dropIdx ks xs (i + 1) else x :: dropIdx ks xs (i + 1)

/-- one level of the left-deep join: (left schema as the join sees it, bridged?, right names). -/
structure Level where
  leftCols : Nat
  bridged : Bool
  out : List String

/-- schemas of the left-deep join tree, innermost first. `levels[k]` describes the join that adds
    the `(k+1)`-th positive atom. -/
def joinLevels (cs : List Cmp) : List (Nat × Atom) → List String → List Level
  | [], _ => []
  | (bi, a) :: rest, left =>
    let right := scanNames bi 0 a.args
    let shared := right.any left.contains
    let (left', br) := if shared then (left, false) else
      match bridgeVar cs left right with
      | some x => (left ++ [x], true)
      | none => (left, false)
    let out := left' ++ dropIdx (rightKeys left' right) right 0
    { leftCols := left'.length, bridged := br, out := out } :: joinLevels cs rest out

/-- where the fused filters end up. `some (k, m)`: on the raw tuples of the `k`-th positive atom
    (0-based) with variable `x` read from raw column `m x`; `none`: evaluated with their proper
    meaning. `levels` innermost first; we walk from the outermost join inwards. -/
def pushTarget (fvars : List String) : List Level → Nat → Option (Nat × List (String × Nat))
  | [], _ => none
  | lv :: inner, k =>     -- `lv` adds positive atom number `k`; `inner` are the joins below it
    match optMapM (fun x => firstPos x lv.out 0) fvars with
    | none => none
    | some cols =>
      if cols.isEmpty then none
      else if cols.all (· < lv.leftCols) then
        (if lv.bridged then none else pushTarget fvars inner (k - 1))
      else if cols.all (· ≥ lv.leftCols) then
        some (k, (fvars.zip cols).map (fun xc => (xc.1, xc.2 - lv.leftCols)))
      else none

/-- the push-down plan of a rule whose comparison part builds to `fs` filters and no computed
    column (a `Compute` node between filters and join stops the push-down). -/
def pushPlan (r : Rule) (fs : List Cmp) : Option (Nat × List (String × Nat)) :=
  match posWithIdx r.body 0 with
  | [] => none
  | (bi, a) :: rest =>
    let lvls := joinLevels r.cmps rest (scanNames bi 0 a.args)
    if lvls.isEmpty || fs.isEmpty then none
    else pushTarget (dedupS (fs.flatMap Cmp.vars)) lvls.reverse lvls.length

def rawEnv (m : List (String × Nat)) (t : Tuple) : Env :=
  m.filterMap (fun xc => (t[xc.2]?).map (fun v => (xc.1, v)))

/-- positive atoms with a filter on the raw stored tuples of each. -/
def evalPosF (lk : String → List Tuple) : List (Atom × (Tuple → Bool)) → List Env → List Env
  | [], envs => envs
  | (a, f) :: as, envs =>
    evalPosF lk as (envs.flatMap (fun env => ((lk a.rel).filter f).filterMap (fun t => matchArgs a.args t env)))

def noFilter : Tuple → Bool := fun _ => true

def withFilters (atoms : List Atom) (plan : Option (Nat × List (String × Nat))) (fs : List Cmp) : List (Atom × (Tuple → Bool)) :=
  match plan with
  | some (k, m) =>
    (List.range atoms.length).zip atoms |>.map (fun ia =>
      if ia.1 == k then (ia.2, fun t => fs.all (Cmp.holds (rawEnv m t))) else (ia.2, noFilter))
  | none => atoms.map (fun a => (a, noFilter))

/-- the bag of body valuations as the engine computes it. `optimized`: the tree went through
    `Optimizer::optimize` (non-recursive heads). -/
def bodyEnvsM (_optimized : Bool) (lk : String → List Tuple) (r : Rule) : Option (List Env) :=
  match buildCmps r.posVars r.cmps with
  | none => none
  | some (cols, fs) =>
    if cols.any (fun xe => exprHasDivMod xe.2) then none else
    match optMapM (applyCols cols) (evalPos lk r.posAtoms [[]]) with
    | none => none
    | some envs => some (evalNegs lk r.negAtoms (envs.filter (fun env => fs.all (Cmp.holds env))))

def evalRuleM (optimized : Bool) (lk : String → List Tuple) (r : Rule) : Option (List Tuple) :=
  match bodyEnvsM optimized lk r with
  | some envs => headOf r envs
  | none => none

def evalRulesM (optimized : Bool) (lk : String → List Tuple) (rs : List Rule) : Option (List Tuple) :=
  evalRulesWith (evalRuleM optimized lk) rs

/-! ### static checks -/

/-- what `IRBuilder::build_ir` rejects (ir_builder:40-109, 380-446, 1562-1770). -/
def buildable (r : Rule) : Bool :=
  !r.posAtoms.isEmpty &&
  (match buildCmps r.posVars r.cmps with
   | none => false
   | some (cols, _) =>
     let bnd := cols.map (·.1) ++ r.posVars
     r.negAtoms.all (fun a => a.vars.any bnd.contains) &&
     (r.hargs.flatMap HTerm.vars).all bnd.contains) &&
  (!r.hasAgg || r.hargs.all (fun | .const _ => false | _ => true))

/-! ### order of execution -/

def selfRec (p : Program) (h : String) : Bool := (scansOf p h).contains h

/-- `deps[i]`: indices of the other heads whose relation head `i` scans. -/
def depIdx (p : Program) (hs : List String) (i : Nat) : List Nat :=
  (List.range hs.length).filter (fun j => j != i && (scansOf p (hs.getD i "")).contains (hs.getD j ""))

/-- Kahn's algorithm with a min-heap of ready nodes = repeatedly emit the smallest index that is
    not yet emitted and all of whose dependencies are. -/
def kahn (deps : List (List Nat)) (n : Nat) : Nat → List Nat → List Nat
  | 0, done => done
  | fuel + 1, done =>
    match (List.range n).find? (fun i => !done.contains i && (deps.getD i []).all done.contains) with
    | some i => kahn deps n fuel (done ++ [i])
    | none => done

def topoOrder (p : Program) : List Nat :=
  let hs := heads p
  let n := hs.length
  if n ≤ 1 then List.range n else
  let deps := (List.range n).map (depIdx p hs)
  let o := kahn deps n n []
  let o := o ++ (List.range n).filter (fun i => !o.contains i)   -- cycles: remaining in index order
  (o.filter (· != n - 1)) ++ [n - 1]                              -- "the last IR node stays last"

/-! ### one head -/

/-- inputs of one head's dataflow: accumulated results override stored relations by name. -/
def lkOf (edb acc : DB) (r : String) : List Tuple :=
  match acc.lookup r with
  | some ts => ts
  | none => edb.get r

def override (lk : String → List Tuple) (h : String) (ts : List Tuple) : String → List Tuple :=
  fun r => if r == h then ts else lk r

/-- least fix-point of the recursive clauses over the base clauses, the head bound to the iterate
    (`execute_recursive_dd_iterative_typed`, code_generator:1033). -/
def lfpLoop (lk : String → List Tuple) (h : String) (base : List Tuple) (recs : List Rule) : Nat → List Tuple → Option (List Tuple)
  | 0, _ => none
  | fuel + 1, x =>
    match evalRulesM false (override lk h x) recs with
    | none => none
    | some d =>
      let x' := unionT base d
      if sameSet x' x then some x else lfpLoop lk h base recs fuel x'

/-! #### recursive min/max heads: aggregation in the loop (code_generator:1039-1187, repaired by
  fixes/C07-recursive_minmax_head.diff: the recursive body is projected onto the head columns
  before it is concatenated with the base case, the in-loop `reduce` keys on the leading columns) -/

/-- column names of the rule body as `build_ir` lays them out: join output, then computed columns. -/
def bodySchema (r : Rule) : List String :=
  match posWithIdx r.body 0 with
  | [] => []
  | (bi, a) :: rest =>
    let first := scanNames bi 0 a.args
    let joined := ((joinLevels r.cmps rest first).getLast?.map (·.out)).getD first
    match buildCmps r.posVars r.cmps with
    | some (cols, _) => joined ++ cols.map (·.1)
    | none => joined

/-- `extract_minmax_aggregation` (code_generator:1003) on the tree of a clause: the top node is an
    `Aggregate` with exactly one aggregation, `min` or `max` — i.e. the head is plain variables
    followed by one `min<..>`/`max<..>` (an aggregate elsewhere in the head puts a `Map` on top).
    Result: (group-by positions in the body schema, aggregated position, is-min). -/
def aggSig (r : Rule) : Option (List Nat × Nat × Bool) :=
  match r.hargs.reverse with
  | .agg f x :: front =>
    let isMin? := match f with | .min => some true | .max => some false | _ => none
    let sch := bodySchema r
    match isMin?, optMapM (fun (t : HTerm) => match t with | .var y => firstPos y sch 0 | _ => none) front.reverse, firstPos x sch 0 with
    | some m, some gb, some c => some (gb, c, m)
    | _, _, _ => none
  | _ => none

/-- all recursive inputs have the same min/max signature. -/
def aggInLoop (recs : List Rule) : Option (Nat × Bool) :=
  match recs.map aggSig with
  | some s :: rest => if rest.all (· == some s) then some (s.1.length, s.2.2) else none
  | _ => none

/-- the recursive body projected onto the head columns: plain head terms, then the aggregated variable. -/
def projRows (r : Rule) (envs : List Env) : Option (List Tuple) :=
  headRows (r.hargs.map (fun | .agg _ x => .var x | t => t)) envs

def recRows (lk : String → List Tuple) : List Rule → Option (List Tuple)
  | [] => some []
  | r :: rs =>
    match bodyEnvsM false lk r, recRows lk rs with
    | some envs, some rest => (projRows r envs).map (· ++ rest)
    | _, _ => none

def betterV (isMin : Bool) (a b : Value) : Bool := if isMin then Value.cmp a b == .lt else Value.cmp a b == .gt

/-- the best tuple of a non-empty group by column `g`. -/
def bestOf (g : Nat) (isMin : Bool) : List Tuple → Option Tuple
  | [] => none
  | t :: ts => match bestOf g isMin ts with
    | some b => some (if betterV isMin (b.getD g .null) (t.getD g .null) then b else t)
    | none => some t

/-- the in-loop `reduce`: one tuple per key (leading `g` columns), minimal / maximal in column `g`. -/
def bestPerKey (g : Nat) (isMin : Bool) (ts : List Tuple) : List Tuple :=
  (dedupT (ts.map (·.take g))).filterMap (fun k => bestOf g isMin (ts.filter (fun t => t.take g == k)))

/-- The loop. `seen` accumulates every tuple that was in some iterate: the capture closure
    (`inspect`, code_generator:1203) pushes every record it is handed regardless of the sign of its
    diff, and a non-monotone loop *retracts* tuples (a key's earlier minimum) — those stay in the
    answer. -/
def lfpMinMax (lk : String → List Tuple) (h : String) (base : List Tuple) (recs : List Rule) (g : Nat) (isMin : Bool) :
    Nat → List Tuple → List Tuple → Option (List Tuple)
  | 0, _, _ => none
  | fuel + 1, x, seen =>
    match recRows (override lk h x) recs with
    | none => none
    | some d =>
      let x' := bestPerKey g isMin (dedupT (base ++ d))
      if sameSet x' x then some (unionT seen x) else lfpMinMax lk h base recs g isMin fuel x' (unionT seen x')

def lfpSelf (fuel : Nat) (lk : String → List Tuple) (h : String) (cs : List Rule) : Option (List Tuple) :=
  -- `detect_recursive_union_for_relation` (code_generator:2322) counts *scan occurrences* of the head
  -- over all clauses; only if that count is below the number of clauses are the clauses split into
  -- base and recursive ones. Otherwise ("all inputs reference the relation") the stored facts of the
  -- head are the base case and every clause is iterated (code_generator:344-359).
  let occ := (cs.flatMap (fun r => r.body.filterMap (fun l => l.atom?.map (·.rel)))).count h
  let split := occ < cs.length
  let base := cs.filter (fun r => !r.scans.contains h)
  let recs := if split then cs.filter (fun r => r.scans.contains h) else cs
  if cs.any (fun r => r.scans.contains h && r.hasAgg) then
    -- an aggregate in a recursive clause: only the min/max aggregation-in-loop form is modelled;
    -- any other aggregate inside a fix-point is outside this model (`none` → `err:fragment`)
    match aggInLoop recs, (if split then evalRulesM false lk base else some (dedupT (lk h))) with
    | some (g, isMin), some b => lfpMinMax lk h b recs g isMin fuel [] []
    | _, _ => none
  else
  match (if split then evalRulesM false lk base else some (dedupT (lk h))) with
  | none => none
  | some b => lfpLoop lk h b recs fuel []

inductive Outcome where
  | ok (answer : List Tuple) (acc : DB)
  | err (e : String)
  deriving Repr, Inhabited, DecidableEq

/-- hash partition `w` of `n` of every input relation (code_generator:1344). -/
def partLk (hash : Tuple → Nat) (n w : Nat) (lk : String → List Tuple) : String → List Tuple :=
  fun r => (lk r).filter (fun t => hash t % n == w)

/-- `contains_join` (code_generator:1319) on the tree of a head: a `Join` for every second scan of
    a clause, an `Antijoin` for every negated atom, and (repaired,
    fixes/C03-aggregate_under_partitioning.diff) an `Aggregate` all make the head single-worker. -/
def parSafe (cs : List Rule) : Bool := cs.all (fun r => r.posAtoms.length ≤ 1 && r.negAtoms.isEmpty && !r.hasAgg)

def unionAll : List (List Tuple) → List Tuple
  | [] => []
  | a :: as => unionT (dedupT a) (unionAll as)

def evalHead (cfg : Cfg) (hash : Tuple → Nat) (fuel : Nat) (p : Program) (lk : String → List Tuple) (h : String) : Option (List Tuple) :=
  let cs := clausesOf p h
  if selfRec p h then lfpSelf fuel lk h cs
  else if cfg.workers > 1 && parSafe cs then
    -- a worker whose run fails contributes nothing (`unwrap_or_default`, code_generator:1305).
    -- The merged `HashSet` has no specified order; the model lists it in the order of the
    -- whole-relation evaluation (members = exactly the union of the partition results).
    let parts := unionAll ((List.range cfg.workers).map (fun w => (evalRulesM true (partLk hash cfg.workers w lk) cs).getD []))
    let whole := (evalRulesM true lk cs).getD []
    some (whole.filter parts.contains ++ parts.filter (fun t => !whole.contains t))
  else evalRulesM true lk cs

/-- does the row limit apply to this head's execution? (not on the partitioned path: the
    temporary generators are created without it, code_generator:1298) -/
def limited (cfg : Cfg) (p : Program) (h : String) : Bool :=
  cfg.limit > 0 && (selfRec p h || !(cfg.workers > 1 && parSafe (clausesOf p h)))

def execLoop (cfg : Cfg) (hash : Tuple → Nat) (ord : String → List Tuple → List Tuple) (fuel : Nat) (p : Program) (edb : DB) :
    List String → DB → List Tuple → Outcome
  | [], acc, last => .ok last acc
  | h :: hs, acc, _ =>
    match evalHead cfg hash fuel p (lkOf edb acc) h with
    | none => .err "err:fragment"
    | some ts =>
      -- (repaired, fixes/C08-limit_truncates_intermediate_head.diff) `max_result_rows` is set on
      -- the generator of the last executed head only (lib.rs:1652)
      let ts := if hs.isEmpty && limited cfg p h then (ord h ts).take cfg.limit else ts
      execLoop cfg hash ord fuel p edb hs ((h, ts) :: acc) ts

def run (cfg : Cfg) (hash : Tuple → Nat) (ord : String → List Tuple → List Tuple) (fuel : Nat) (p : Program) (edb : DB) : Outcome :=
  if p.isEmpty then .err "err:empty"
  else if !p.all Rule.isSafe then .err "err:range"
  else if !p.all buildable then .err "err:build"
  else
    let hs := heads p
    execLoop cfg hash ord fuel p edb ((topoOrder p).map (fun i => hs.getD i "")) [] []

/-- the relation the caller asks for: the head of the last rule of the text
    ("Returns results from the LAST rule", lib.rs:1506). -/
def queryRel (p : Program) : String := (p.getLast?.map (·.hrel)).getD ""

/-- the relation the engine answers with: the last head in first-appearance order. -/
def answeredRel (p : Program) : String := ((heads p).getLast?).getD ""

def Outcome.toWire : Outcome → String
  | .ok a _ => relToWire a
  | .err e => e

/-- answer plus every accumulated relation (`execute_tuples_with_derived`), sorted by name. -/
def Outcome.toWireAll : Outcome → String
  | .ok a acc =>
    let names := sortBy (fun (x y : String) => !(y < x)) (dedupS (acc.map (·.1)))
    names.foldl (fun s n => s ++ "#" ++ n ++ "=" ++ relToWire (DB.get acc n)) (relToWire a)
  | .err e => e

end ILV.Engine
