/-
  E1 — model of `src/value/mod.rs`: `Value`, its `PartialEq`, `Ord`, `Hash`, and `Tuple`.
  Floats are kept as IEEE-754 bit patterns (f64: 64 bits, f32: 32 bits); the IEEE comparison
  is defined explicitly on the bit patterns, so nothing here depends on Lean's `Float`.
  Strings are UTF-8 byte lists (Rust's `str` order is byte-lexicographic).
-/
import ILV.Model.Util
namespace ILV

inductive Value where
  | i32 (n : Int)
  | i64 (n : Int)
  | f64 (bits : Nat)
  | str (s : List Nat)
  | bool (b : Bool)
  | null
  | vec (l : List Nat)      -- f32 bit patterns
  | vec8 (l : List Int)
  | ts (n : Int)
  deriving Repr, DecidableEq, Inhabited

abbrev Tuple := List Value

/-! ### IEEE-754 on bit patterns -/

def f64IsNaN (b : Nat) : Bool := (b / 2^52) % 2048 == 2047 && b % 2^52 != 0
def f32IsNaN (b : Nat) : Bool := (b / 2^23) % 256 == 255 && b % 2^23 != 0

/-- signed-magnitude key of a non-NaN double: `+0.0` and `-0.0` both map to `0`. -/
def f64Key (b : Nat) : Int := if (b / 2^63) % 2 == 1 then - ((b % 2^63 : Nat) : Int) else ((b % 2^63 : Nat) : Int)
def f32Key (b : Nat) : Int := if (b / 2^31) % 2 == 1 then - ((b % 2^31 : Nat) : Int) else ((b % 2^31 : Nat) : Int)

/-- `f64::partial_cmp`. -/
def f64PartialCmp (a b : Nat) : Option Ordering :=
  if f64IsNaN a || f64IsNaN b then none else some (compare (f64Key a) (f64Key b))

/-- IEEE `==` on f32 (what `Vec<f32> == Vec<f32>` uses element-wise). -/
def f32IeeeEq (a b : Nat) : Bool :=
  if f32IsNaN a || f32IsNaN b then false else f32Key a == f32Key b

/-- `f64::total_cmp` key: a monotone injection of bit patterns into `Int`. -/
def f64TotalKey (b : Nat) : Int :=
  if (b / 2^63) % 2 == 1 then - ((b % 2^63 : Nat) : Int) - 1 else ((b % 2^63 : Nat) : Int)

/-! ### `PartialEq for Value` (value/mod.rs:437) -/

def listAll2 {α} (p : α → α → Bool) : List α → List α → Bool
  | [], [] => true
  | a :: as, b :: bs => p a b && listAll2 p as bs
  | _, _ => false

def Value.eq : Value → Value → Bool
  | .i32 a, .i32 b => a == b
  | .i64 a, .i64 b => a == b
  | .f64 a, .f64 b => a == b                    -- `to_bits() == to_bits()`
  | .str a, .str b => a == b
  | .bool a, .bool b => a == b
  | .null, .null => true
  | .vec a, .vec b => a == b                    -- same length and `to_bits()` equal element-wise
  | .vec8 a, .vec8 b => a == b
  | .ts a, .ts b => a == b
  | _, _ => false

/-! ### `Ord for Value` (value/mod.rs:491) -/

/-- rank used by the cross-kind arms:
    Null < Bool < Int32 < Int64 < Float64 < Timestamp < String < Vector < VectorInt8 -/
def Value.rank : Value → Nat
  | .null => 0 | .bool _ => 1 | .i32 _ => 2 | .i64 _ => 3 | .f64 _ => 4
  | .ts _ => 5 | .str _ => 6 | .vec _ => 7 | .vec8 _ => 8

def lexCmp {α} (c : α → α → Ordering) : List α → List α → Ordering
  | [], [] => .eq
  | [], _ :: _ => .lt
  | _ :: _, [] => .gt
  | a :: as, b :: bs => match c a b with
    | .eq => lexCmp c as bs
    | o => o

/-- "compare lengths first, then element by element" (zip stops at the shorter, lengths equal here). -/
def lenThenLex {α} (c : α → α → Ordering) (a b : List α) : Ordering :=
  match compare a.length b.length with
  | .eq => lexCmp c a b
  | o => o

def Value.cmp : Value → Value → Ordering
  | .i32 a, .i32 b => compare a b
  | .i64 a, .i64 b => compare a b
  | .f64 a, .f64 b => compare (f64TotalKey a) (f64TotalKey b)   -- `f64::total_cmp`
  | .str a, .str b => lexCmp (fun (x y : Nat) => compare x y) a b
  | .bool a, .bool b => compare a b
  | .null, .null => .eq
  | .vec a, .vec b => lenThenLex (fun (x y : Nat) => compare x y) a b
  | .vec8 a, .vec8 b => lenThenLex (fun (x y : Int) => compare x y) a b
  | .ts a, .ts b => compare a b
  | a, b => compare a.rank b.rank

/-! ### `Hash for Value` (value/mod.rs:457): the sequence of words fed to the hasher.
    The hasher itself is a parameter; "equal values hash equally" is
    `eq a b → hashKey a = hashKey b`. Negative integers are written in two's complement. -/

def twos (bitsN : Nat) (n : Int) : Nat := (n % (2^bitsN : Nat)).toNat

def Value.hashKey : Value → List Nat
  | .i32 n => [0, twos 32 n]
  | .i64 n => [1, twos 64 n]
  | .f64 b => [2, b]
  | .str s => 3 :: (s ++ [255])                 -- `str::hash` = bytes then 0xff
  | .bool b => [4, if b then 1 else 0]
  | .null => [5]
  | .vec l => 6 :: l.length :: l
  | .vec8 l => 7 :: l.length :: l.map (twos 8)
  | .ts n => [8, twos 64 n]

/-! ### Tuples (`#[derive(PartialEq, Eq, Hash)]` on `Vec<Value>`, `Ord` lexicographic) -/

def Tuple.eq (a b : Tuple) : Bool := listAll2 Value.eq a b
def Tuple.cmp (a b : Tuple) : Ordering := lexCmp Value.cmp a b
def Tuple.hashKey (t : Tuple) : List Nat := t.length :: (t.map Value.hashKey).flatten

/-! ### line-protocol codec -/

def Value.toWire : Value → String
  | .i32 n => s!"i32:{n}"
  | .i64 n => s!"i64:{n}"
  | .f64 b => "f64:" ++ natToHexW 16 b
  | .str s => "s:" ++ bytesToHex s
  | .bool b => if b then "b:1" else "b:0"
  | .null => "null"
  | .vec l => "v:" ++ joinWith "/" (l.map (natToHexW 8))
  | .vec8 l => "v8:" ++ joinWith "/" (l.map (fun (i : Int) => toString i))
  | .ts n => s!"ts:{n}"

def Value.ofWire (s : String) : Option Value :=
  if s == "null" then some .null else
  match s.splitOn ":" with
  | ["i32", n] => (parseInt n).map .i32
  | ["i64", n] => (parseInt n).map .i64
  | ["ts", n] => (parseInt n).map .ts
  | ["f64", h] => (hexToNat h).map .f64
  | ["s", h] => (hexToBytes h).map .str
  | ["b", "1"] => some (.bool true)
  | ["b", "0"] => some (.bool false)
  | ["v", l] => (optMapM hexToNat (splitNonEmpty l "/")).map .vec
  | ["v8", l] => (optMapM parseInt (splitNonEmpty l "/")).map .vec8
  | _ => none

/-- tuples: values joined by `,`; the empty tuple is `()`. -/
def Tuple.toWire (t : Tuple) : String := if t.isEmpty then "()" else joinWith "," (t.map Value.toWire)
def Tuple.ofWire (s : String) : Option Tuple :=
  if s == "()" then some [] else optMapM Value.ofWire (s.splitOn ",")

def Ordering.toWire : Ordering → String
  | .lt => "lt" | .eq => "eq" | .gt => "gt"

end ILV
