/-
  E11 (part) — model of `src/bloom_filter.rs` and of `HashIndex` in `src/hash_index.rs`.

  * The two base hashes of a key (`BloomFilter::hash_pair`, bloom_filter.rs:296, SipHash via
    `DefaultHasher`) are a *parameter*: every bloom operation takes `(h1, h2)`, the hash index takes
    `h : Tuple → Nat × Nat`.  Nothing below assumes anything about them (not even `< 2^64`).
  * The bit array is the code's `Vec<u64>` (a list of words); bit `idx` lives in word `idx / 64`
    at offset `idx % 64`, exactly as in `insert`/`might_contain`.
  * `usize` = `u64` (64-bit target).  Arithmetic that the code performs with `wrapping_*` is
    written with explicit `% 2^64`; the remaining `usize` arithmetic cannot overflow for sizes
    whose bit vector can be allocated at all.
  * The float sizing of `BloomFilter::new` (bloom_filter.rs:97) is a parameter: `newFrom rawBits
    rawK` receives the two values the float expressions produce (`… .ceil() as usize`).
-/
import ILV.Model.Value
namespace ILV

def U64 : Nat := 2^64

/-- `usize::div_ceil`. -/
def divCeil (a b : Nat) : Nat := (a + (b - 1)) / b

/-- `Ord::clamp(lo, hi)`. -/
def clampN (x lo hi : Nat) : Nat := if x < lo then lo else if hi < x then hi else x

structure Bloom where
  bits : List Nat       -- `Vec<u64>`
  numBits : Nat
  numHashes : Nat
  count : Nat
  deriving Repr, DecidableEq, Inhabited

/-- `BloomFilter::with_params` (bloom_filter.rs:146). -/
def Bloom.withParams (numBits numHashes : Nat) : Bloom :=
  let w := divCeil (max numBits 64) 64
  { bits := List.replicate w 0, numBits := w * 64, numHashes := clampN numHashes 1 32, count := 0 }

/-- `BloomFilter::new` after its two float expressions (bloom_filter.rs:107-125):
    `rawBits = ceil(-n ln p / ln² 2) as usize`, `rawK = ceil(max(rawBits,64)/n · ln 2) as usize`. -/
def Bloom.newFrom (rawBits rawK : Nat) : Bloom :=
  let nb := max rawBits 64
  let w := divCeil nb 64
  { bits := List.replicate w 0, numBits := w * 64, numHashes := clampN rawK 1 16, count := 0 }

/-- the two `assert!`s of `BloomFilter::new`: `expected_elements > 0`, `0 < p < 1` (p as f64 bits). -/
def Bloom.newArgsOk (n : Nat) (pBits : Nat) : Bool :=
  decide (0 < n) && !f64IsNaN pBits && decide (0 < f64Key pBits) && decide (f64Key pBits < 0x3ff0000000000000)

/-- `get_bit_index` (bloom_filter.rs:313): `h1.wrapping_add((i as u64).wrapping_mul(h2)) % num_bits`. -/
def Bloom.bitIndex (b : Bloom) (h1 h2 i : Nat) : Nat :=
  ((h1 + (i * h2) % U64) % U64) % b.numBits

/-- `self.bits[idx / 64] |= 1u64 << (idx % 64)`. -/
def setBit (ws : List Nat) (idx : Nat) : List Nat :=
  ws.set (idx / 64) (ws.getD (idx / 64) 0 ||| (1 <<< (idx % 64)))

/-- `(self.bits[idx / 64] & (1u64 << (idx % 64))) != 0`. -/
def getBit (ws : List Nat) (idx : Nat) : Bool :=
  (ws.getD (idx / 64) 0 &&& (1 <<< (idx % 64))) != 0

/-- `BloomFilter::insert` (bloom_filter.rs:177). -/
def Bloom.insert (b : Bloom) (h1 h2 : Nat) : Bloom :=
  { b with
    bits := (List.range b.numHashes).foldl (fun ws i => setBit ws (b.bitIndex h1 h2 i)) b.bits
    count := b.count + 1 }

/-- `BloomFilter::might_contain` (bloom_filter.rs:213): the early-return loop is `all`. -/
def Bloom.mightContain (b : Bloom) (h1 h2 : Nat) : Bool :=
  (List.range b.numHashes).all (fun i => getBit b.bits (b.bitIndex h1 h2 i))

/-- `BloomFilter::clear` (bloom_filter.rs:271). -/
def Bloom.clear (b : Bloom) : Bloom :=
  { b with bits := List.replicate b.bits.length 0, count := 0 }

/-- a history of bloom operations: inserts and clears. -/
inductive BloomOp where
  | ins (h1 h2 : Nat)
  | clear
  deriving Repr, DecidableEq

def Bloom.apply (b : Bloom) : BloomOp → Bloom
  | .ins h1 h2 => b.insert h1 h2
  | .clear => b.clear

def Bloom.runOps (b : Bloom) (ops : List BloomOp) : Bloom := ops.foldl Bloom.apply b

/-- `(h1,h2)` was inserted since the last `clear`. -/
def insertedSinceClear (h1 h2 : Nat) : List BloomOp → Bool
  | [] => false
  | op :: ops =>
    -- decided from the end: look at the suffix first
    if insertedSinceClear h1 h2 ops then true
    else if ops.any (· == .clear) then false
    else op == .ins h1 h2

/-! ### `HashIndex` (hash_index.rs:95) -/

/-- `Tuple::project` (value/mod.rs:826): out-of-range indices are silently skipped. -/
def projectT (cols : List Nat) (t : Tuple) : Tuple := cols.filterMap (fun i => t[i]?)

/-- `HashMap<Tuple, Vec<Tuple>>` as an association list (iteration order is never observed;
    key equality is `Tuple`'s `PartialEq`). -/
abbrev TMap := List (Tuple × List Tuple)

def TMap.get : TMap → Tuple → Option (List Tuple)
  | [], _ => none
  | (k, v) :: m, key => if Tuple.eq k key then some v else TMap.get m key

/-- `entry(key).or_default().push(t)`; returns the map and the new length of the entry. -/
def TMap.push : TMap → Tuple → Tuple → TMap × Nat
  | [], key, t => ([(key, [t])], 1)
  | (k, v) :: m, key, t =>
    if Tuple.eq k key then ((k, v ++ [t]) :: m, v.length + 1)
    else let (m', n) := TMap.push m key t; ((k, v) :: m', n)

def TMap.setKey : TMap → Tuple → List Tuple → TMap
  | [], _, _ => []
  | (k, v) :: m, key, nv => if Tuple.eq k key then (k, nv) :: m else (k, v) :: TMap.setKey m key nv

def TMap.removeKey : TMap → Tuple → TMap
  | [], _ => []
  | (k, v) :: m, key => if Tuple.eq k key then m else (k, v) :: TMap.removeKey m key

/-- `tuples.iter().position(|t| t == tuple)` followed by `tuples.remove(pos)`. -/
def removeFirst (t : Tuple) : List Tuple → Option (List Tuple)
  | [] => none
  | x :: xs => if Tuple.eq x t then some xs else (removeFirst t xs).map (x :: ·)

structure HIndex where
  cols : List Nat                 -- `spec.key_columns`
  index : TMap
  bloom : Bloom
  numKeys : Nat                   -- `stats.num_keys`
  numTuples : Nat                 -- `stats.num_tuples`
  maxPerKey : Nat                 -- `stats.max_tuples_per_key`
  version : Nat
  deriving Repr, Inhabited

/-- `HashIndex::new` (hash_index.rs:133) given the bloom filter `BloomFilter::new(max(expected,100), 0.01)` built. -/
def HIndex.new (cols : List Nat) (bloom : Bloom) : HIndex :=
  { cols := cols, index := [], bloom := bloom, numKeys := 0, numTuples := 0, maxPerKey := 0, version := 0 }

/-- `HashIndex::insert` (hash_index.rs:198). -/
def HIndex.insert (h : Tuple → Nat × Nat) (ix : HIndex) (t : Tuple) : HIndex :=
  let key := projectT ix.cols t
  let bloom := ix.bloom.insert (h key).1 (h key).2
  let isNew := match TMap.get ix.index key with      -- `entry.is_empty()` right after `or_default()`
    | none => true
    | some v => v.isEmpty
  let (m, n) := TMap.push ix.index key t
  { ix with index := m, bloom := bloom,
            numTuples := ix.numTuples + 1,
            numKeys := if isNew then ix.numKeys + 1 else ix.numKeys,
            maxPerKey := max ix.maxPerKey n,
            version := ix.version + 1 }

/-- the loop of `build_from_tuples` (hash_index.rs:157). -/
def HIndex.buildLoop (h : Tuple → Nat × Nat) (cols : List Nat) :
    List Tuple → TMap × Bloom × Nat × Nat → TMap × Bloom × Nat × Nat
  | [], acc => acc
  | t :: ts, (m, b, mx, tot) =>
    let key := projectT cols t
    let b' := b.insert (h key).1 (h key).2
    let (m', n) := TMap.push m key t
    HIndex.buildLoop h cols ts (m', b', max mx n, tot + 1)

/-- `HashIndex::build_from_tuples` (hash_index.rs:151). -/
def HIndex.build (h : Tuple → Nat × Nat) (ix : HIndex) (ts : List Tuple) : HIndex :=
  let (m, b, mx, tot) := HIndex.buildLoop h ix.cols ts ([], ix.bloom.clear, 0, 0)
  { ix with index := m, bloom := b, numKeys := m.length, numTuples := tot, maxPerKey := mx,
            version := ix.version + 1 }

/-- `HashIndex::remove` (hash_index.rs:232). -/
def HIndex.remove (ix : HIndex) (t : Tuple) : HIndex × Bool :=
  let key := projectT ix.cols t
  match TMap.get ix.index key with
  | none => (ix, false)
  | some ts =>
    match removeFirst t ts with
    | none => (ix, false)
    | some ts' =>
      if ts'.isEmpty then
        ({ ix with index := TMap.removeKey ix.index key, numTuples := ix.numTuples - 1,
                   numKeys := ix.numKeys - 1, version := ix.version + 1 }, true)
      else
        ({ ix with index := TMap.setKey ix.index key ts', numTuples := ix.numTuples - 1,
                   version := ix.version + 1 }, true)

/-- `HashIndex::get` (hash_index.rs:292). -/
def HIndex.get (ix : HIndex) (key : Tuple) : Option (List Tuple) := TMap.get ix.index key

/-- `HashIndex::might_contain_key` (hash_index.rs:282). -/
def HIndex.mightContainKey (h : Tuple → Nat × Nat) (ix : HIndex) (key : Tuple) : Bool :=
  ix.bloom.mightContain (h key).1 (h key).2

/-- `HashIndex::get_with_bloom` (hash_index.rs:304). -/
def HIndex.getWithBloom (h : Tuple → Nat × Nat) (ix : HIndex) (key : Tuple) : Option (List Tuple) :=
  if !ix.mightContainKey h key then none else ix.get key

/-- `HashIndex::probe` (hash_index.rs:331): the tuples of `get_with_bloom`, flattened. -/
def HIndex.probe (h : Tuple → Nat × Nat) (ix : HIndex) (key : Tuple) : List Tuple :=
  (ix.getWithBloom h key).getD []

/-! ### operations and the abstract multiset machine (the Spec of the hash index) -/

inductive IxOp where
  | ins (t : Tuple)
  | rem (t : Tuple)
  | build (ts : List Tuple)
  | get (k : Tuple)
  | getB (k : Tuple)       -- get_with_bloom
  | mc (k : Tuple)         -- might_contain_key
  | probe (k : Tuple)
  | len
  deriving Repr, Inhabited

inductive IxOut where
  | unit
  | bool (b : Bool)
  | rows (r : Option (List Tuple))
  | nat (n : Nat)
  deriving Repr, DecidableEq, Inhabited

def HIndex.step (h : Tuple → Nat × Nat) (ix : HIndex) : IxOp → HIndex × IxOut
  | .ins t => (ix.insert h t, .unit)
  | .rem t => let (ix', b) := ix.remove t; (ix', .bool b)
  | .build ts => (ix.build h ts, .unit)
  | .get k => (ix, .rows (ix.get k))
  | .getB k => (ix, .rows (ix.getWithBloom h k))
  | .mc k => (ix, .bool (ix.mightContainKey h k))
  | .probe k => (ix, .rows (some (ix.probe h k)))
  | .len => (ix, .nat ix.numTuples)

def HIndex.run (h : Tuple → Nat × Nat) : HIndex → List IxOp → HIndex × List IxOut
  | ix, [] => (ix, [])
  | ix, op :: ops =>
    let (ix', o) := ix.step h op
    let (ix'', os) := HIndex.run h ix' ops
    (ix'', o :: os)

/-- Spec state: the stored tuples as a list read as a multiset (insert = add one occurrence,
    remove = delete one occurrence if present, rebuild = replace). -/
def specLookup (cols : List Nat) (st : List Tuple) (k : Tuple) : List Tuple :=
  st.filter (fun t => Tuple.eq (projectT cols t) k)

def optRows (l : List Tuple) : Option (List Tuple) := if l.isEmpty then none else some l

/-- Spec step. `mc` has no exact specification (false positives are allowed), so the Spec output for it
    is the lower bound: `true` is *required* iff the key has stored tuples. -/
def specStep (cols : List Nat) (st : List Tuple) : IxOp → List Tuple × IxOut
  | .ins t => (st ++ [t], .unit)
  | .rem t => match removeFirst t st with
    | some st' => (st', .bool true)
    | none => (st, .bool false)
  | .build ts => (ts, .unit)
  | .get k => (st, .rows (optRows (specLookup cols st k)))
  | .getB k => (st, .rows (optRows (specLookup cols st k)))
  | .mc k => (st, .bool (!(specLookup cols st k).isEmpty))
  | .probe k => (st, .rows (some (specLookup cols st k)))
  | .len => (st, .nat st.length)

/-- the Spec machine run over a history. -/
def specRun (cols : List Nat) : List Tuple → List IxOp → List IxOut
  | _, [] => []
  | st, op :: ops => let (st', o) := specStep cols st op; o :: specRun cols st' ops

end ILV
