/-
  E5/E6 — executable model of the storage engine's write path, its update log and recovery:

  * live state: `KnowledgeGraph::insert_in_memory` / `delete_in_memory`
    (src/storage_engine/mod.rs:2262 / :2343) — set semantics on `Vec<Tuple>`;
  * log: `StorageEngine::insert_tuples_into` / `delete_tuples_from` (mod.rs:419 / :572) persist one
    `+1` / `-1` update per *requested* tuple before the in-memory apply;
  * persist layer `FilePersist` (src/storage/persist/mod.rs): `append` :400 (WAL by durability mode,
    shard buffer, buffer-full flush, WAL-size `flush_all`), `flush` :581, `compact` :487, `ensure_shard`
    :560, `new` :128 (load shard metas, replay WAL, drain), WAL `remove_shard_entries` (wal.rs:275);
  * `consolidate` / `consolidate_to_current` / `to_tuples` (src/storage/persist/consolidate.rs:33/:73/:108)
    — the code's sort + merge-neighbours loop, not an idealised sum;
  * recovery `load_knowledge_graph_from_persist` (storage_engine/mod.rs:1722).

  One knowledge graph ("default"); shards are keyed by relation name. No crashes: a restart is
  "drop the engine, open a new one on the same directory". The two on-disk encodings are a parameter
  (`Codec`); the driver runs `realCodec` (ILV.Model.Batch).
-/
import ILV.Model.Batch
namespace ILV.Store
open ILV ILV.Batch

/-! ### association lists (HashMap<String, _>; iteration order is only used where the result does not depend on it) -/

def aget {β} : List (String × β) → String → Option β
  | [], _ => none
  | (k', v') :: m, k => if k' = k then some v' else aget m k

def aset {β} : List (String × β) → String → β → List (String × β)
  | [], k, v => [(k, v)]
  | (k', v') :: m, k, v => if k' = k then (k, v) :: m else (k', v') :: aset m k v

/-! ### configuration -/

inductive Mode where
  | immediate | batched | async
  deriving DecidableEq, Repr

structure Cfg where
  buffer : Nat := 10000        -- persist.buffer_size
  walMax : Nat := 0            -- persist.max_wal_size_bytes (0 = unlimited)
  mode : Mode := .immediate
  deriving Repr

structure Codec where
  wal : Update → Option Update
  batch : List Update → Except String (List Update)

def realCodec : Codec := { wal := walCodec, batch := batchCodec }
def idCodec : Codec := { wal := some, batch := .ok }

/-! ### consolidation (consolidate.rs) -/

def sameKey (byTime : Bool) (a b : Update) : Bool :=
  Tuple.eq a.data b.data && (!byTime || a.time == b.time)

/-- the `write_idx` loop: `cur` is `updates[write_idx]`; a neighbour with the same key is summed into
    it, a different one pushes it out (kept only if its diff is non-zero). -/
def mergeAdj (byTime : Bool) : Update → List Update → List Update
  | cur, [] => if cur.diff != 0 then [cur] else []
  | cur, u :: us =>
    if sameKey byTime cur u then mergeAdj byTime { cur with diff := cur.diff + u.diff } us
    else if cur.diff != 0 then cur :: mergeAdj byTime u us
    else mergeAdj byTime u us

def leData (a b : Update) : Bool := Tuple.cmp a.data b.data != .gt
def leDataTime (a b : Update) : Bool :=
  match Tuple.cmp a.data b.data with
  | .lt => true
  | .eq => a.time ≤ b.time
  | .gt => false

/-- `consolidate`: sort by (data, time), merge neighbours with equal (data, time). -/
def consolidate (l : List Update) : List Update :=
  match sortBy leDataTime l with
  | [] => []
  | u :: us => mergeAdj true u us

/-- `consolidate_to_current`: sort by data, merge neighbours with equal data. -/
def consolidateToCurrent (l : List Update) : List Update :=
  match sortBy leData l with
  | [] => []
  | u :: us => mergeAdj false u us

/-- `to_tuples`: data of the updates with positive diff. -/
def toTuples (l : List Update) : List Tuple := (l.filter (fun u => decide (u.diff > 0))).map (·.data)

/-! ### state -/

structure Shard where
  batches : List (List Update) := []       -- meta.batches (decoded contents), in memory
  buffer : List Update := []
  upper : Nat := 0
  diskBatches : List (List Update) := []   -- the batch list of the shard meta *file*
  diskUpper : Nat := 0
  deriving Repr, Inhabited

structure Engine where
  cfg : Cfg
  time : Nat := 1                                  -- StorageEngine.logical_time
  live : List (String × List Tuple) := []          -- engine.input_tuples
  arity : List (String × Nat) := []                -- metadata.relations[..].schema.len()
  shards : List (String × Shard) := []
  wal : List (String × Update) := []               -- lines of current.wal
  walBuf : List (String × Update) := []            -- lines still in the BufWriter (batched mode)
  dead : Bool := false                             -- `StorageEngine::new` failed
  deriving Repr

/-- engine state plus `some kind` when the call returned `Err`. -/
abbrev R := Engine × Option String

def upperOf (us : List Update) : Nat := us.foldl (fun m u => max m (u.time + 1)) 0

def setShard (e : Engine) (s : String) (sh : Shard) : Engine := { e with shards := aset e.shards s sh }

/-! ### WAL -/

/-- `read_all`: the lines that parse. -/
def walRead (c : Codec) (wal : List (String × Update)) : List (String × Update) :=
  wal.filterMap (fun p => (c.wal p.2).map (fun u => (p.1, u)))

/-- `remove_shard_entries`: rewrite the file with the parsable lines of the other shards. -/
def walRemove (c : Codec) (wal : List (String × Update)) (s : String) : List (String × Update) :=
  (walRead c wal).filter (fun p => p.1 != s)

def digits (n : Nat) : Nat := (toString n).length
def intDigits (i : Int) : Nat := (toString i).length

/-- byte length of the JSON of one value; exact for integers, booleans, null, timestamps and ASCII
    strings without escapes (the kinds used with a byte-sized WAL limit), a positive dummy otherwise. -/
def valueJsonLen : Value → Nat
  | .i32 n => 25 + intDigits n        -- {"type":"Int32","value":N}
  | .i64 n => 25 + intDigits n
  | .ts n => 29 + intDigits n         -- {"type":"Timestamp","value":N}
  | .bool b => 24 + (if b then 4 else 5)
  | .null => 28                       -- {"type":"Null","value":null}
  | .str s => 28 + s.length           -- {"type":"String","value":"…"}
  | _ => 40

/-- `<crc8>:{"shard":"default:<rel>","update":{"data":{"values":[…]},"time":T,"diff":D}}\n` -/
def lineBytes (p : String × Update) : Nat :=
  let vals := (p.2.data.map valueJsonLen).foldl (· + ·) 0 + (p.2.data.length - 1)
  9 + 18 + p.1.utf8ByteSize + 30 + vals + 10 + digits p.2.time + 8 + intDigits p.2.diff + 2 + 1

def walBytes (wal : List (String × Update)) : Nat := (wal.map lineBytes).foldl (· + ·) 0

/-! ### FilePersist -/

/-- the shard after its buffer went to batch file `b` (add_batch, clear, save_shard_meta). -/
def flushedShard (sh : Shard) (b : List Update) : Shard :=
  { batches := sh.batches ++ [b], buffer := [], upper := max sh.upper (upperOf sh.buffer),
    diskBatches := sh.batches ++ [b], diskUpper := max sh.upper (upperOf sh.buffer) }

/-- `flush` (persist/mod.rs:581). -/
def flush (c : Codec) (e : Engine) (s : String) : R :=
  match aget e.shards s with
  | none => (e, some "notfound")
  | some sh =>
    if sh.buffer.isEmpty then (e, none) else
    match c.batch sh.buffer with
    | .error k => (e, some k)                 -- nothing was changed yet
    | .ok b =>
      ({ e with shards := aset e.shards s (flushedShard sh b), wal := walRemove c e.wal s, walBuf := [] }, none)

def flushMany (c : Codec) : Engine → List String → R
  | e, [] => (e, none)
  | e, s :: ss =>
    match flush c e s with
    | (e', none) => flushMany c e' ss
    | r => r

def dirty (e : Engine) : List String := (e.shards.filter (fun p => !p.2.buffer.isEmpty)).map (·.1)

/-- WAL part of `append` (persist/mod.rs:406-421): (file, BufWriter) after writing the lines `ents`. -/
def walAppend (e : Engine) (ents : List (String × Update)) : List (String × Update) × List (String × Update) :=
  match e.cfg.mode with
  | .immediate => (e.wal ++ ents, e.walBuf)       -- append + flush + sync_all
  | .batched => (e.wal, e.walBuf ++ ents)         -- stays in the BufWriter
  | .async => (e.wal, e.walBuf)                   -- no WAL at all

/-- first half of `append` (persist/mod.rs:400-441): WAL by durability mode, then the shard buffer. -/
def appendCore (e : Engine) (s : String) (us : List Update) : Engine :=
  let w := walAppend e (us.map (fun u => (s, u)))
  let sh := (aget e.shards s).getD {}
  { e with wal := w.1, walBuf := w.2,
           shards := aset e.shards s { sh with buffer := sh.buffer ++ us, upper := max sh.upper (upperOf us) } }

/-- `append` (persist/mod.rs:400): buffer-full flush (:442-447), else WAL-size `flush_all` (:448-459). -/
def append (c : Codec) (e : Engine) (s : String) (us : List Update) : R :=
  if us.isEmpty then (e, none) else
  let e2 := appendCore e s us
  if ((aget e2.shards s).getD {}).buffer.length ≥ e.cfg.buffer then flush c e2 s
  else if e.cfg.walMax > 0 && walBytes e2.wal > e.cfg.walMax then flushMany c e2 (dirty e2)
  else (e2, none)

/-- `ensure_shard` (persist/mod.rs:560): creates the shard and writes its (empty) meta file. -/
def ensureShard (e : Engine) (s : String) : Engine :=
  match aget e.shards s with
  | some _ => e
  | none => setShard e s {}

/-- `compact(shard, 0)` (persist/mod.rs:487). -/
def compactShard (c : Codec) (e : Engine) (s : String) : R :=
  match flush c e s with
  | (e1, some k) => (e1, some k)
  | (e1, none) =>
    match aget e1.shards s with
    | none => (e1, some "notfound")
    | some sh =>
      let filtered := consolidate sh.batches.flatten        -- `time >= 0` filters nothing
      if filtered.isEmpty then
        (setShard e1 s { sh with batches := [], diskBatches := [], diskUpper := sh.upper }, none)
      else match c.batch filtered with
        | .error k => (e1, some k)                        -- the write comes first: nothing was changed
        | .ok b =>
          let up := max sh.upper (upperOf filtered)
          (setShard e1 s { sh with batches := [b], upper := up, diskBatches := [b], diskUpper := up }, none)

def compactMany (c : Codec) : Engine → List String → R
  | e, [] => (e, none)
  | e, s :: ss =>
    match compactShard c e s with
    | (e', none) => compactMany c e' ss
    | r => r

/-- `PersistWal::sync`: the BufWriter is flushed to the file. -/
def walSync (e : Engine) : Engine := { e with wal := e.wal ++ e.walBuf, walBuf := [] }

/-! ### StorageEngine -/

/-- the loop of `insert_in_memory` (mod.rs:2289): (vector, new_count, dup_count). -/
def insertLoop : List Tuple → Nat → Nat → List Tuple → List Tuple × Nat × Nat
  | ex, n, d, [] => (ex, n, d)
  | ex, n, d, t :: ts =>
    if ex.any (Tuple.eq t) then insertLoop ex n (d + 1) ts
    else insertLoop (ex ++ [t]) (n + 1) d ts

/-- `existing.retain(|t| !remove_set.contains(t))` (mod.rs:2375); `HashSet` membership is `==`
    because equal tuples hash equally (C31). -/
def deleteLive (ex rm : List Tuple) : List Tuple := ex.filter (fun t => !(rm.any (Tuple.eq t)))

def mkUpdates (ts : List Tuple) (time : Nat) (diff : Int) : List Update := ts.map (fun t => { data := t, time := time, diff := diff })

/-- "relation already exists with a different arity" (mod.rs:459). -/
def arityMismatch (e : Engine) (rel : String) (ar : Nat) : Bool :=
  match aget e.arity rel with
  | some a => a != ar
  | none => false

/-- `insert_tuples_into` (mod.rs:419): new state and `Ok((new_count, dup_count))` / `Err(kind)`. -/
def insertCore (c : Codec) (e : Engine) (rel : String) (ts : List Tuple) : Engine × Except String (Nat × Nat) :=
  match ts with
  | [] => (e, .ok (0, 0))
  | first :: _ =>
    let ar := first.length
    if !(ts.all (fun t => t.length == ar)) then (e, .error "arity-batch")
    else if arityMismatch e rel ar then (e, .error "arity-rel")
    else
      let time := e.time
      let e1 := ensureShard { e with time := time + 1 } rel
      match append c e1 rel (mkUpdates ts time 1) with
      | (e2, some k) => (e2, .error k)
      | (e2, none) =>
        let r := insertLoop ((aget e2.live rel).getD []) 0 0 ts
        ({ e2 with live := aset e2.live rel r.1, arity := aset e2.arity rel ar }, .ok (r.2.1, r.2.2))

/-- the tuples a delete request can concern: those of the relation's arity; none for an unknown relation. -/
def deletable (arity : List (String × Nat)) (rel : String) (ts : List Tuple) : List Tuple :=
  match aget arity rel with
  | some a => ts.filter (fun t => t.length == a)
  | none => []

/-- the body of `delete_tuples_from` after the arity filter: persist one `-1` per tuple, then apply. -/
def deleteCoreRaw (c : Codec) (e : Engine) (rel : String) (ts : List Tuple) : Engine × Except String Nat :=
  match ts with
  | [] => (e, .ok 0)
  | _ :: _ =>
    let time := e.time
    let e1 := ensureShard { e with time := time + 1 } rel
    match append c e1 rel (mkUpdates ts time (-1)) with
    | (e2, some k) => (e2, .error k)
    | (e2, none) =>
      match aget e2.live rel with
      | none => (e2, .ok 0)
      | some ex =>
        let l := deleteLive ex ts
        let n := ex.length - l.length
        if n > 0 then
          ({ e2 with live := aset e2.live rel l, arity := aset e2.arity rel ((aget e2.arity rel).getD 2) }, .ok n)
        else ({ e2 with live := aset e2.live rel l }, .ok n)

/-- `delete_tuples_from`: tuples of another arity (or of an unknown relation) are skipped before
    anything is persisted; `Ok(deleted_count)` / `Err(kind)`. -/
def deleteCore (c : Codec) (e : Engine) (rel : String) (ts : List Tuple) : Engine × Except String Nat :=
  deleteCoreRaw c e rel (deletable e.arity rel ts)

/-- the harness's rendering of the two results. -/
def renderIns : Except String (Nat × Nat) → String
  | .ok (n, d) => s!"+{n}/{d}"
  | .error k => "err:" ++ k
def renderDel : Except String Nat → String
  | .ok n => s!"-{n}"
  | .error k => "err:" ++ k

def insert (c : Codec) (e : Engine) (rel : String) (ts : List Tuple) : Engine × String :=
  ((insertCore c e rel ts).1, renderIns (insertCore c e rel ts).2)
def delete (c : Codec) (e : Engine) (rel : String) (ts : List Tuple) : Engine × String :=
  ((deleteCore c e rel ts).1, renderDel (deleteCore c e rel ts).2)

def shardNames (e : Engine) : List String := e.shards.map (·.1)

/-- `save_all` (mod.rs:879) / `save_knowledge_graph` (:795): flush every shard, then sync the WAL. -/
def saveAll (c : Codec) (e : Engine) : R :=
  match flushMany c e (shardNames e) with
  | (e1, none) => (walSync e1, none)
  | r => r

/-- `compact_all` (mod.rs:836). -/
def compactAll (c : Codec) (e : Engine) : R :=
  match compactMany c e (shardNames e) with
  | (e1, none) => (walSync e1, none)
  | r => r

/-- `compact_if_needed` (mod.rs:853): number of shards compacted. -/
def compactIf (c : Codec) (e : Engine) (threshold : Nat) : R × Nat :=
  if threshold == 0 then ((e, none), 0) else
  let names := (e.shards.filter (fun p => p.2.batches.length ≥ threshold)).map (·.1)
  match compactMany c e names with
  | (e1, none) => ((if names.isEmpty then e1 else walSync e1, none), names.length)
  | r => (r, 0)

/-- what recovery makes of one shard (`read(shard, 0)` ∘ `consolidate_to_current` ∘ `to_tuples`). -/
def readShard (sh : Shard) : List Update := sh.batches.flatten ++ sh.buffer
def recoverRel (sh : Shard) : List Tuple := toTuples (consolidateToCurrent (readShard sh))

def loadShard (sh : Shard) : Shard :=
  { batches := sh.diskBatches, buffer := [], upper := sh.diskUpper, diskBatches := sh.diskBatches, diskUpper := sh.diskUpper }

/-- `replay_wal` (persist/mod.rs:295). -/
def replay : List (String × Shard) → List (String × Update) → List (String × Shard)
  | m, [] => m
  | m, (s, u) :: es =>
    let sh := (aget m s).getD {}
    replay (aset m s { sh with buffer := sh.buffer ++ [u] }) es

def maxUpper (m : List (String × Shard)) : Nat := m.foldl (fun a p => max a p.2.upper) 0

/-- drop the engine, then `FilePersist::new` (persist/mod.rs:128): load the shard metas, replay the
    WAL into the buffers and, if anything was replayed, flush every dirty shard. -/
def reopenPersist (c : Codec) (e : Engine) : R :=
  let walFile := e.wal ++ e.walBuf                       -- dropping the BufWriter flushes it
  let entries := walRead c walFile
  let e1 : Engine := { cfg := e.cfg, shards := replay (e.shards.map (fun p => (p.1, loadShard p.2))) entries, wal := walFile }
  if entries.isEmpty then (e1, none) else flushMany c e1 (dirty e1)

/-- `load_all_knowledge_graphs` (storage_engine/mod.rs:1653): every shard is read, consolidated to the
    current state, and the positive tuples become the relation (non-empty relations only). -/
def shardArity (sh : Shard) : Option Nat :=
  match recoverRel sh with
  | t :: _ => some t.length                              -- "infer schema from first tuple"
  | [] => (readShard sh).head?.map (fun u => u.data.length)   -- emptied relation: arity of the logged tuples

def loadKgs (e : Engine) : Engine :=
  let rels := (e.shards.map (fun p => (p.1, recoverRel p.2))).filter (fun p => !p.2.isEmpty)
  { e with live := rels,
           arity := e.shards.filterMap (fun p => (shardArity p.2).map (fun a => (p.1, a))),
           time := maxUpper e.shards + 1 }

/-- drop the engine and run `StorageEngine::new` on the same directory. -/
def restart (c : Codec) (e : Engine) : R :=
  match reopenPersist c e with
  | (e2, some k) => ({ e2 with dead := true }, some k)
  | (e2, none) => (loadKgs e2, none)

/-! ### histories -/

inductive Op where
  | ins (rel : String) (ts : List Tuple)
  | del (rel : String) (ts : List Tuple)
  | save | savekg | compact
  | compactIf (n : Nat)
  | restart | shutdown
  | obs | files | q
  | bad
  deriving Repr, DecidableEq

/-- state transition of one operation (observations change nothing). -/
def step (c : Codec) (e : Engine) (o : Op) : Engine :=
  if e.dead then e else
  match o with
  | .ins r ts => (insert c e r ts).1
  | .del r ts => (delete c e r ts).1
  | .save | .savekg => (saveAll c e).1
  | .compact => (compactAll c e).1
  | .compactIf n => (compactIf c e n).1.1
  | .restart => (restart c e).1
  | .shutdown => (restart c (saveAll c e).1).1
  | .obs | .files | .q | .bad => e

def run (c : Codec) (cfg : Cfg) (h : List Op) : Engine := h.foldl (step c) { cfg := cfg }

/-- the live contents of a relation (absent = empty). -/
def liveOf (e : Engine) (r : String) : List Tuple := (aget e.live r).getD []

end ILV.Store
