/-
  `std::collections::hash_map::DefaultHasher::new()` = SipHash-1-3 with key (0, 0), over the byte
  stream `#[derive(Hash)] Tuple` / `impl Hash for Value` (value/mod.rs:460) produce:
  `Vec` length as `usize`, then per value the discriminant as `isize` and the payload.
  Only needed so that the *driver* can reproduce `partition_data_for_worker`
  (code_generator:1344) on the real partitioner; every theorem is stated for an arbitrary
  `hash : Tuple → Nat`. Integer-valued tuples only (other kinds hash to 0 here and are not generated).
-/
import ILV.Model.Value
namespace ILV.Sip

structure St where
  v0 : UInt64
  v1 : UInt64
  v2 : UInt64
  v3 : UInt64

def rotl (x : UInt64) (b : UInt64) : UInt64 := (x <<< b) ||| (x >>> (64 - b))

def round (s : St) : St :=
  let v0 := s.v0 + s.v1
  let v1 := rotl s.v1 13 ^^^ v0
  let v0 := rotl v0 32
  let v2 := s.v2 + s.v3
  let v3 := rotl s.v3 16 ^^^ v2
  let v0 := v0 + v3
  let v3 := rotl v3 21 ^^^ v0
  let v2 := v2 + v1
  let v1 := rotl v1 17 ^^^ v2
  let v2 := rotl v2 32
  { v0 := v0, v1 := v1, v2 := v2, v3 := v3 }

def init : St :=
  { v0 := 0x736f6d6570736575, v1 := 0x646f72616e646f6d, v2 := 0x6c7967656e657261, v3 := 0x7465646279746573 }

def absorb (s : St) (m : UInt64) : St :=
  let s := round { s with v3 := s.v3 ^^^ m }
  { s with v0 := s.v0 ^^^ m }

/-- hash of a stream of 8-byte little-endian words (total length = 8 · #words). -/
def hashWords (ws : List UInt64) : UInt64 :=
  let s := ws.foldl absorb init
  let b : UInt64 := (UInt64.ofNat ((8 * ws.length) % 256)) <<< 56
  let s := absorb s b
  let s := round (round (round { s with v2 := s.v2 ^^^ 0xff }))
  s.v0 ^^^ s.v1 ^^^ s.v2 ^^^ s.v3

def wordOfInt (n : Int) : UInt64 := UInt64.ofNat (n % (2 ^ 64 : Nat)).toNat

def valueWords : Value → Option (List UInt64)
  | .i64 n => some [1, wordOfInt n]
  | _ => none

def tupleWords (t : Tuple) : Option (List UInt64) :=
  (optMapM valueWords t).map (fun ws => UInt64.ofNat t.length :: ws.flatten)

/-- the real partitioner's hash of a tuple of `Int64`s. -/
def hashTuple (t : Tuple) : Nat :=
  match tupleWords t with
  | some ws => (hashWords ws).toNat
  | none => 0

end ILV.Sip
