/-
  Model of `src/temporal_ops.rs` on `Int` (an `i64` is an `Int` in `[-2^63, 2^63)`), with the
  code's saturating arithmetic.  The two decay functions go through the float parameter.
-/
import ILV.Model.FloatOps
namespace ILV.Temporal
open ILV

def i64Min : Int := -(2 ^ 63 : Int)
def i64Max : Int := (2 ^ 63 : Int) - 1
def InI64 (x : Int) : Prop := i64Min ≤ x ∧ x ≤ i64Max

/-- `i64::saturating_add` / `saturating_sub` results for in-range operands. -/
def sat (x : Int) : Int := if x < i64Min then i64Min else if x > i64Max then i64Max else x

def timeDiff (t1 t2 : Int) : Int := sat (t1 - t2)              -- temporal_ops.rs:29
def timeAdd (ts d : Int) : Int := sat (ts + d)                 -- :42
def timeSub (ts d : Int) : Int := sat (ts - d)                 -- :55
def timeBefore (t1 t2 : Int) : Bool := t1 < t2                 -- :139
def timeAfter (t1 t2 : Int) : Bool := t1 > t2                  -- :145
def timeBetween (ts s e : Int) : Bool := ts ≥ s && ts ≤ e      -- :159
def withinLast (ts now d : Int) : Bool :=                      -- :173
  let age := sat (now - ts); age ≥ 0 && age ≤ d
def intervalsOverlap (s1 e1 s2 e2 : Int) : Bool := s1 ≤ e2 && s2 ≤ e1   -- :191
def intervalContains (s1 e1 s2 e2 : Int) : Bool := s1 ≤ s2 && e2 ≤ e1   -- :204
def intervalDuration (s e : Int) : Int := sat (e - s)          -- :217
def pointInInterval (ts s e : Int) : Bool := ts ≥ s && ts ≤ e  -- :230

/-- outcome of `time_decay` (:91): the constant branches exactly, the `powf` branch as a parameter. -/
inductive Decay (α : Type) where
  | one | zero | pow (halfLives : α)

variable (F : FloatOps)

def timeDecay (ts now hl : Int) : Decay F.F64 :=
  if hl ≤ 0 then (if ts ≥ now then .one else .zero)
  else
    let age := sat (now - ts)
    if age ≤ 0 then .one else .pow (F.div64 (F.ofInt64 age) (F.ofInt64 hl))

/-- `time_decay_linear` (:122). -/
def timeDecayLinear (ts now maxAge : Int) : F.F64 :=
  if maxAge ≤ 0 then (if ts ≥ now then F.one64 else F.zero64)
  else
    let age := sat (now - ts)
    if age ≤ 0 then F.one64
    else F.max64 (F.sub64 F.one64 (F.div64 (F.ofInt64 age) (F.ofInt64 maxAge))) F.zero64

end ILV.Temporal
