/-
  C18 — the materialisation state machine WITH the minimal repair proposed in notes/C18.md, as a model.
  Not a mirror of /repo (nothing in /repo is changed): it exists so that the repair can be exercised on
  the same generated histories before anybody writes the Rust patch (driver op `c18.fixcheck`).

  Differences from `ILV.C18.step`:
   (1) invalidation walks `base_to_derived` transitively from the updated relation through ALL
       dependents (materialised or not) and invalidates the valid ones among them;
   (2) every catalogue change of a name (register / remove clause / replace / clear / drop / drop by
       prefix / drop relation) drops that name's materialisation, re-registers the name with the union of
       the dependencies of ALL its remaining clauses, and invalidates its dependents;
   (3) `drop_relation` notifies the dropped relation's dependents;
   (4) `enable_incremental` registers every rule of the catalogue;
   (5) there is no auto-materialisation.
-/
import ILV.Model.Incr
namespace ILV.C18.Fixed
open ILV.C18

/-- all names reachable from `start` through `base_to_derived` edges (work-list with fuel). -/
def reach (i : Inc) : Nat → List Name → List Name → List Name
  | 0, _, acc => acc
  | _, [], acc => acc
  | k + 1, r :: todo, acc =>
    let next := dedupNames (((aget i.b2d r).getD []).filter fun d => !(acc.contains d))
    reach i k (todo ++ next) (acc ++ next)

def fuelOf (i : Inc) : Nat := (i.b2d.map fun p => p.2.length + 1).foldl (· + ·) 1

def notify (i : Inc) (base : Name) : Inc :=
  let inv := reach i (fuelOf i) [base] []
  { i with mats := i.mats.map fun p => if p.1 ∈ inv then (p.1, { p.2 with valid := false }) else p }

def allDeps (cls : List Clause) (n : Name) : List Name :=
  dedupNames ((cls.flatMap bodyRels).filter (· ≠ n))

/-- after the clauses of `n` changed to `cls`: forget its materialisation and edges, re-register, cascade. -/
def reindex (i : Inc) (n : Name) (cls : List Clause) : Inc :=
  let i1 := i.remove n
  let i2 := if cls.isEmpty then i1 else i1.register n (allDeps cls n)
  notify i2 n

def enable (s : St) : Inc :=
  s.catalog.foldl (fun i p => if p.2.isEmpty then i else i.register p.1 (allDeps p.2 p.1)) { hasIndex := true }

def step (s : St) : Step → St × Out
  | .ins r ts =>
    if ts.isEmpty then (s, .ins 0 0)
    else match insRefused s r ts with
      | some k => (s, .insErr k)
      | none =>
        let ar := (ts.head?.map (·.length)).getD 0
        let old := (aget s.facts r).getD []
        let merged := addNew old ts
        let newCount := merged.length - old.length
        let s1 : St := { s with facts := aset s.facts r merged, arity := aset s.arity r ar }
        (if newCount > 0 then publish (mapInc s1 (notify · r)) else s, .ins newCount (ts.length - newCount))
  | .del r ts =>
    match aget s.facts r with
    | none => (s, .del 0)
    | some old =>
      let kept := old.filter fun t => !(ts.contains t)
      let n := old.length - kept.length
      if n > 0 then (publish (mapInc { s with facts := aset s.facts r kept } (notify · r)), .del n)
      else (s, .del 0)
  | .reg c =>
    match regRefused s c with
    | some k => (s, .regErr k)
    | none =>
      let n := c.head.rel
      let cls := regCls s c
      let s1 : St := { s with catalog := aset s.catalog n cls }
      (publish (mapInc s1 fun i => reindex i n cls),
        if (aget s.catalog n).isSome then .regAdded cls.length else .regCreated)
  | .rmc n k =>
    match aget s.catalog n with
    | none => (s, .rmcErr .missing)
    | some cs =>
      if k ≥ cs.length then (s, .rmcErr .bounds)
      else
        let cs' := removeAt cs k
        if cs'.isEmpty then
          (publish (mapInc { s with catalog := aerase s.catalog n } fun i => reindex i n []), .rmcDeleted)
        else (publish (mapInc { s with catalog := aset s.catalog n cs' } fun i => reindex i n cs'), .rmcRemoved)
  | .rep n k c =>
    match aget s.catalog n with
    | none => (s, .repErr .missing)
    | some cs =>
      if k ≥ cs.length then (s, .repErr .bounds)
      else
        let cs' := replaceAt cs k c
        (publish (mapInc { s with catalog := aset s.catalog n cs' } fun i => reindex i n cs'), .repOk)
  | .clr n =>
    match aget s.catalog n with
    | none => (s, .clrErr .missing)
    | some _ => (publish (mapInc { s with catalog := aset s.catalog n [] } fun i => reindex i n []), .clrOk)
  | .drop n =>
    match aget s.catalog n with
    | none => (s, .dropErr .missing)
    | some _ => (publish (mapInc { s with catalog := aerase s.catalog n } fun i => reindex i n []), .dropOk)
  | .dropp pre =>
    let names := sortNames ((akeys s.catalog).filter fun k => pre.isPrefixOf k)
    if names.isEmpty then (s, .dropp [])
    else
      let s1 : St := { s with catalog := s.catalog.filter fun p => !(pre.isPrefixOf p.1) }
      (publish (mapInc s1 fun i => names.foldl (fun i n => reindex i n []) i), .dropp names)
  | .drel r =>
    if (aget s.arity r).isNone && (aget s.facts r).isNone && (aget s.catalog r).isNone then (s, .drelErr .missing)
    else
      let s1 : St := { s with facts := aerase s.facts r, arity := aerase s.arity r, catalog := aerase s.catalog r }
      (publish (mapInc s1 fun i => reindex i r []), .drelOk)
  | .clrp pre =>
    if (clrpHit s pre).isEmpty then (s, .clrp [])
    else
      let s1 : St := { s with facts := clrpFacts s pre }
      (publish (mapInc s1 fun i => (akeys (clrpHit s pre)).foldl notify i), .clrp (clrpHit s pre))
  | .idx =>
    match s.inc with
    | none => ({ s with inc := some (enable s) }, .idxOk)
    | some i => if i.hasIndex then (s, .idxErr) else ({ s with inc := some { i with hasIndex := true } }, .idxOk)
  | .idxdrop =>
    match s.inc with
    | none => (s, .idxdropErr)
    | some i => if i.hasIndex then ({ s with inc := some { i with hasIndex := false } }, .idxdropOk) else (s, .idxdropErr)
  | .mat n ar =>
    let ts := answer (fresh s) ⟨n, allVars ar⟩
    match s.inc with
    | none => (s, .matOff)
    | some i => (publish { s with inc := some (i.setMat n ts) }, .mat ts)
  | .q a => (s, .q (answer (snapDb s) a) (answer (fresh s) a))
  | .m => (s, .m (s.inc.map fun i => { mats := validMats i, b2d := i.b2d, compiled := i.compiled }))

/-- first query of a history (run from `s`) at which the repaired machine's snapshot answer differs
    from the fresh answer; `none` = invisible throughout. Steps violating the API contract stop the scan. -/
def firstVisible : St → List Step → Nat → Option Nat
  | _, [], _ => none
  | s, st :: l, k =>
    if !(stepWellUsed s st) then none
    else
      match st with
      | .q a =>
        if setEqb (answer (snapDb s) a) (answer (fresh s) a) then firstVisible (step s st).1 l (k + 1) else some k
      | _ => firstVisible (step s st).1 l (k + 1)

end ILV.C18.Fixed
