/-
  E3 — model of `src/ir/mod.rs` (`IRNode`, `Predicate`, `IRExpression`, `AggregateFunction`) and of
  what `src/code_generator/mod.rs` computes for each node (`generate_collection_tuples`, 1371 ff.).

  Denotation: `eval db t : List Tuple` is the *bag* of rows the Differential-Dataflow collection of
  `t` holds under the counting diff type (`isize`): the multiplicity of a row is its number of
  occurrences in the list; the list order carries no meaning. `CodeGenerator::execute` finishes with
  `distinct_core` (code_generator/mod.rs:256), i.e. returns `dedup (eval db t)`.

  Column conventions mirrored (they are the definition here):
    Map          row.project(proj)            — `Tuple::project` silently drops out-of-range indices (value/mod.rs:826)
    Filter       rows satisfying `predicate_to_tuple_fn` (1639 ff.)
    Join         no keys on both sides: left ++ right (cartesian, 2018-2032);
                 otherwise key = project, output = left ++ right.excluding_indices(right_keys) (2050-2058)
    Antijoin     left rows whose key projection is not among the key projections of the right rows (2085-2116)
    Distinct     one copy of each row; Union: concatenation; Compute: append evaluated expressions one by one (2738-2765)
    Aggregate    `reduce` per distinct `project(group_by)` key, rows of a group sorted by `Ord for Tuple`
                 and repeated by multiplicity (2442-2716); output = key ++ aggregate values
    FlatMap      project, then optional filter on the *projected* row (1466-1494)
    JoinFlatMap  keys as Join, row = (left ++ right).project(proj) (all right columns), optional filter (1496-1561)
    HnswScan     empty collection (1453-1464)
-/
import ILV.Model.F64
namespace ILV.IR
open ILV

/-! ### syntax -/

inductive CmpOp where
  | eq | ne | lt | le | gt | ge
  deriving DecidableEq, Repr, Inhabited

inductive AOp where
  | add | sub | mul | div | mod
  deriving DecidableEq, Repr, Inhabited

/-- `ast::ArithExpr` (ast/mod.rs:445) -/
inductive AExpr where
  | var (name : String)
  | const (v : Int)
  | fconst (bits : Nat)
  | bin (op : AOp) (l r : AExpr)
  deriving DecidableEq, Repr, Inhabited

abbrev VarMap := List (String × Nat)

/-- `ir::Predicate` (ir/mod.rs:659). The 30 `Column…` variants are grouped by operand kind:
    `cc op` = `Column{Eq,Ne,Gt,Lt,Ge,Le}Const`, `cs` = `…Str`, `cb` = `Column{Eq,Ne}Bool`,
    `cf` = `…Float`, `kk` = `Columns{Eq,Ne,Lt,Gt,Le,Ge}`. -/
inductive Pred where
  | cc (op : CmpOp) (col : Nat) (v : Int)
  | cs (op : CmpOp) (col : Nat) (s : List Nat)
  | cb (op : CmpOp) (col : Nat) (b : Bool)
  | cf (op : CmpOp) (col : Nat) (bits : Nat)
  | kk (op : CmpOp) (l r : Nat)
  | ca (col : Nat) (op : CmpOp) (e : AExpr) (vm : VarMap)
  | ac (e : AExpr) (op : CmpOp) (v : Int) (vm : VarMap)
  | and (p q : Pred)
  | or (p q : Pred)
  | tt
  | ff
  deriving DecidableEq, Repr, Inhabited

mutual
/-- `ir::IRExpression` (ir/mod.rs:219); builtin functions are opaque names. -/
inductive Expr where
  | col (i : Nat)
  | int (v : Int)
  | flt (bits : Nat)
  | str (s : List Nat)
  | bool (b : Bool)
  | vec (l : List Nat)
  | fn (name : String) (args : ExprList)
  | arith (op : AOp) (l r : Expr)
inductive ExprList where
  | nil
  | cons (e : Expr) (es : ExprList)
end

/-- `ir::AggregateFunction` (ir/mod.rs:9) -/
inductive Agg where
  | count | countDistinct | sum | min | max | avg
  | topK (k orderCol : Nat) (out : List Nat) (desc : Bool)
  | topKThreshold (k orderCol : Nat) (out : List Nat) (thr : Nat) (desc : Bool)
  | withinRadius (distCol : Nat) (out : List Nat) (maxDist : Nat)
  deriving DecidableEq, Repr, Inhabited

def Agg.isRanking : Agg → Bool
  | .topK .. | .topKThreshold .. | .withinRadius .. => true
  | _ => false

mutual
/-- `ir::IRNode` (ir/mod.rs:260), all 12 kinds. -/
inductive Node where
  | scan (rel : String) (schema : List String)
  | map (input : Node) (proj : List Nat) (schema : List String)
  | filter (input : Node) (p : Pred)
  | join (l r : Node) (lk rk : List Nat) (schema : List String)
  | distinct (input : Node)
  | union (inputs : NodeList)
  | aggregate (input : Node) (groupBy : List Nat) (aggs : List (Agg × Nat)) (schema : List String)
  | antijoin (l r : Node) (lk rk : List Nat) (schema : List String)
  | compute (input : Node) (exprs : List (String × Expr))
  | hnsw (index : String) (query : Expr) (k : Nat) (ef : Option Nat) (schema : List String)
  | flatMap (input : Node) (proj : List Nat) (fp : Option Pred) (schema : List String)
  | joinFlatMap (l r : Node) (lk rk : List Nat) (proj : List Nat) (fp : Option Pred) (schema : List String)
inductive NodeList where
  | nil
  | cons (t : Node) (ts : NodeList)
end

deriving instance DecidableEq for Expr, ExprList
deriving instance DecidableEq for Node, NodeList

instance : Inhabited Node := ⟨.union .nil⟩
instance : Inhabited Expr := ⟨.int 0⟩

def NodeList.toList : NodeList → List Node
  | .nil => []
  | .cons t ts => t :: ts.toList
def NodeList.ofList : List Node → NodeList
  | [] => .nil
  | t :: ts => .cons t (NodeList.ofList ts)
def NodeList.isEmpty : NodeList → Bool
  | .nil => true
  | _ => false

/-! ### `IRNode::output_schema` (ir/mod.rs:425) -/

mutual
def schema : Node → List String
  | .scan _ s => s
  | .map _ _ s => s
  | .filter i _ => schema i
  | .join _ _ _ _ s => s
  | .distinct i => schema i
  | .union is => schemaFirst is
  | .aggregate _ _ _ s => s
  | .antijoin _ _ _ _ s => s
  | .compute i es => schema i ++ es.map (·.1)
  | .hnsw _ _ _ _ s => s
  | .flatMap _ _ _ s => s
  | .joinFlatMap _ _ _ _ _ _ s => s
def schemaFirst : NodeList → List String
  | .nil => []
  | .cons t _ => schema t
end

def width (t : Node) : Nat := (schema t).length

/-! ### values as the code generator coerces them (value/mod.rs:251-379) -/

def asI64 : Value → Option Int
  | .i32 n => some n | .i64 n => some n | .ts n => some n | _ => none
def asF64 : Value → Option Nat
  | .f64 b => some b | .i32 n => some (F64.ofInt n) | .i64 n => some (F64.ofInt n) | _ => none
def asStr : Value → Option (List Nat)
  | .str s => some s | _ => none
def asBool : Value → Option Bool
  | .bool b => some b | _ => none
def toI64 : Value → Int
  | .i32 n => n | .i64 n => n
  | .f64 b => if F64.isFinite b then F64.toI64 b else 0
  | .bool b => if b then 1 else 0
  | .ts n => n
  | _ => 0
def toF64 : Value → Nat
  | .i32 n => F64.ofInt n | .i64 n => F64.ofInt n | .f64 b => b
  | .bool true => F64.one
  | .ts n => F64.ofInt n
  | _ => 0

def isIntKind : Value → Bool
  | .i32 _ | .i64 _ => true
  | _ => false

def satI64 (n : Int) : Int :=
  if n < -(2^63 : Int) then -(2^63 : Int) else if n > 2^63 - 1 then 2^63 - 1 else n

/-! ### tuples -/

def project (t : Tuple) (idx : List Nat) : Tuple := idx.filterMap (fun i => t[i]?)

def excludingAux (ex : List Nat) : Nat → Tuple → Tuple
  | _, [] => []
  | i, v :: vs => if ex.contains i then excludingAux ex (i + 1) vs else v :: excludingAux ex (i + 1) vs
/-- `Tuple::excluding_indices` (value/mod.rs:838) -/
def excluding (t : Tuple) (ex : List Nat) : Tuple := excludingAux ex 0 t

/-! ### predicates (`predicate_to_tuple_fn`, code_generator/mod.rs:1639-1962) -/

def cmpInt (op : CmpOp) (a b : Int) : Bool :=
  match op with
  | .eq => a == b | .ne => a != b | .lt => a < b | .le => a ≤ b | .gt => a > b | .ge => a ≥ b

/-- float comparison against a constant: `==`/`!=` use the 1e-10 tolerance, the rest are IEEE. -/
def cmpFloatTol (op : CmpOp) (f c : Nat) : Bool :=
  match op with
  | .eq => F64.nearEq f c | .ne => F64.farNe f c
  | .lt => F64.lt f c | .le => F64.le f c | .gt => F64.gt f c | .ge => F64.ge f c

def cmpFloatIeee (op : CmpOp) (a b : Nat) : Bool :=
  match op with
  | .eq => F64.eqIeee a b | .ne => !F64.eqIeee a b
  | .lt => F64.lt a b | .le => F64.le a b | .gt => F64.gt a b | .ge => F64.ge a b

def cmpBytes (op : CmpOp) (a b : List Nat) : Bool :=
  let o := lexCmp (fun (x y : Nat) => compare x y) a b
  match op with
  | .eq => o == .eq | .ne => o != .eq | .lt => o == .lt | .le => o != .gt | .gt => o == .gt | .ge => o != .lt

/-- `eval_arith_runtime` (1965-1991); `none` = "could not evaluate" (unbound / non-integer / division by zero).
    i64 overflow is not modelled (the debug build panics, release wraps); generators keep operands small. -/
def AExpr.eval (get : Nat → Option Value) (vm : VarMap) : AExpr → Option Int
  | .const v => some v
  | .fconst b => some (F64.toI64 b)
  | .var n => match vm.lookup n with
    | some c => match get c with
      | some v => asI64 v
      | none => none
    | none => none
  | .bin op l r => match AExpr.eval get vm l, AExpr.eval get vm r with
    | some a, some b => match op with
      | .add => some (a + b)
      | .sub => some (a - b)
      | .mul => some (a * b)
      | .div => if b != 0 then some (Int.tdiv a b) else none
      | .mod => if b != 0 then some (Int.tmod a b) else none
    | _, _ => none

/-- evaluation against a column getter (`tuple.get(i)`), so that "depends only on the referenced
    columns" is a statement about `get`. -/
def Pred.evalG (get : Nat → Option Value) : Pred → Bool
  | .cc op c v => match get c with
    | some x => match asI64 x with
      | some i => cmpInt op i v
      | none => match asF64 x with
        | some f => cmpFloatTol op f (F64.ofInt v)
        | none => op == .ne
    | none => op == .ne
  | .cs op c s => match get c with
    | some x => match asStr x with
      | some y => cmpBytes op y s
      | none => op == .ne
    | none => op == .ne
  | .cb op c b => match get c with
    | some x => match asBool x with
      | some y => (match op with | .eq => y == b | .ne => y != b | _ => false)
      | none => op == .ne
    | none => op == .ne
  | .cf op c bits => match get c with
    | some x => match asF64 x with
      | some f => cmpFloatTol op f bits
      | none => op == .ne
    | none => op == .ne
  | .kk op l r =>
    match op with
    | .eq => get l == get r
    | .ne => get l != get r
    | _ => match get l, get r with
      | some a, some b => match asI64 a, asI64 b with
        | some x, some y => cmpInt op x y
        | _, _ => match asF64 a, asF64 b with
          | some x, some y => cmpFloatIeee op x y
          | _, _ => false
      | _, _ => false
  | .ca c op e vm => match AExpr.eval get vm e with
    | none => false
    | some a => match get c with
      | none => false
      | some x => match asI64 x with
        | some i => cmpInt op i a
        | none => match asF64 x with
          | some f => cmpFloatTol op f (F64.ofInt a)
          | none => false
  | .ac e op v vm => match AExpr.eval get vm e with
    | none => false
    | some a => cmpInt op a v
  | .and p q => Pred.evalG get p && Pred.evalG get q
  | .or p q => Pred.evalG get p || Pred.evalG get q
  | .tt => true
  | .ff => false

def Pred.eval (p : Pred) (t : Tuple) : Bool := p.evalG (fun i => t[i]?)

/-- `Optimizer::get_predicate_columns` (optimizer/mod.rs:477) -/
def Pred.cols : Pred → List Nat
  | .cc _ c _ | .cs _ c _ | .cb _ c _ | .cf _ c _ => [c]
  | .kk _ l r => [l, r]
  | .ca c _ _ vm => c :: vm.map (·.2)
  | .ac _ _ _ vm => vm.map (·.2)
  | .and p q | .or p q => p.cols ++ q.cols
  | .tt | .ff => []

/-- column renumbering (the shape of `adjust_predicate_columns`, optimizer/mod.rs:525) -/
def Pred.mapCols (f : Nat → Nat) : Pred → Pred
  | .cc op c v => .cc op (f c) v
  | .cs op c s => .cs op (f c) s
  | .cb op c b => .cb op (f c) b
  | .cf op c b => .cf op (f c) b
  | .kk op l r => .kk op (f l) (f r)
  | .ca c op e vm => .ca (f c) op e (vm.map (fun (n, i) => (n, f i)))
  | .ac e op v vm => .ac e op v (vm.map (fun (n, i) => (n, f i)))
  | .and p q => .and (p.mapCols f) (q.mapCols f)
  | .or p q => .or (p.mapCols f) (q.mapCols f)
  | .tt => .tt
  | .ff => .ff

def fpOk (fp : Option Pred) (t : Tuple) : Bool :=
  match fp with
  | none => true
  | some p => p.eval t

/-! ### computed columns (`evaluate_expression`, `evaluate_arithmetic`; 2769-2785, 3510-3547) -/

def evalArith (op : AOp) (a b : Value) : Value :=
  let l := toF64 a
  let r := toF64 b
  if (op == .div || op == .mod) && F64.isZero r then .null else
  let res := match op with
    | .add => F64.add l r | .sub => F64.sub l r | .mul => F64.mul l r
    | .div => F64.div l r | .mod => F64.fmod l r
  if isIntKind a && isIntKind b && op != .div then
    (if F64.isFinite res then .i64 (F64.toI64 res) else .null)
  else .f64 res

/-- builtin function calls are outside this model: they evaluate to `Null` and `Node.supported`
    is false for trees containing them. -/
def Expr.eval (t : Tuple) : Expr → Value
  | .col i => (t[i]?).getD .null
  | .int v => .i64 v
  | .flt b => .f64 b
  | .str s => .str s
  | .bool b => .bool b
  | .vec l => .vec l
  | .fn _ _ => .null
  | .arith op l r => evalArith op (Expr.eval t l) (Expr.eval t r)

def computeRow : List (String × Expr) → Tuple → Tuple
  | [], t => t
  | (_, e) :: es, t => computeRow es (t ++ [e.eval t])

/-! ### bags -/

def dedup : List Tuple → List Tuple
  | [] => []
  | x :: xs => if x ∈ xs then dedup xs else x :: dedup xs

def joinRow (lk rk : List Nat) (l r : Tuple) : Option Tuple :=
  if lk.isEmpty && rk.isEmpty then some (l ++ r)
  else if project l lk == project r rk then some (l ++ excluding r rk) else none

def joinRows (L R : List Tuple) (lk rk : List Nat) : List Tuple :=
  L.flatMap (fun l => R.filterMap (fun r => joinRow lk rk l r))

def antiRows (L R : List Tuple) (lk rk : List Nat) : List Tuple :=
  L.filter (fun l => !((R.map (fun r => project r rk)).contains (project l lk)))

def flatMapRow (proj : List Nat) (fp : Option Pred) (t : Tuple) : Option Tuple :=
  let q := project t proj
  if fpOk fp q then some q else none

def jfmRow (lk rk proj : List Nat) (fp : Option Pred) (l r : Tuple) : Option Tuple :=
  if project l lk == project r rk then flatMapRow proj fp (l ++ r) else none

def jfmRows (L R : List Tuple) (lk rk proj : List Nat) (fp : Option Pred) : List Tuple :=
  L.flatMap (fun l => R.filterMap (fun r => jfmRow lk rk proj fp l r))

/-! ### aggregates (2646-2715). `g` is the group's rows sorted by `Ord for Tuple`, with repetitions. -/

def tupleLe (a b : Tuple) : Bool := Tuple.cmp a b != .gt

def valMin : List Value → Option Value
  | [] => none
  | x :: xs => match valMin xs with
    | none => some x
    | some m => if Value.cmp x m != .gt then some x else some m   -- `Iterator::min` keeps the first minimum
def valMax : List Value → Option Value
  | [] => none
  | x :: xs => match valMax xs with
    | none => some x
    | some m => if Value.cmp x m == .gt then some x else some m          -- `Iterator::max` keeps the last maximum

def dedupVals : List Value → List Value
  | [] => []
  | x :: xs => if x ∈ xs then dedupVals xs else x :: dedupVals xs

def aggVal (g : List Tuple) : Agg × Nat → Value
  | (.count, _) => .i64 g.length
  | (.countDistinct, c) => .i64 (dedupVals (g.filterMap (fun t => t[c]?))).length
  | (.sum, c) => .i64 (satI64 (g.foldl (fun acc t => acc + (match t[c]? with | some v => toI64 v | none => 0)) 0))   -- i128 accumulation, clamped once
  | (.min, c) => (valMin (g.filterMap (fun t => t[c]?))).getD .null
  | (.max, c) => (valMax (g.filterMap (fun t => t[c]?))).getD .null
  | (.avg, c) =>
    -- `Iterator::sum::<f64>()` folds from -0.0; `tuples.len() as f64`
    .f64 (F64.div (g.foldl (fun acc t => F64.add acc (match t[c]? with | some v => toF64 v | none => 0)) (F64.neg 0))
                  (F64.ofInt g.length))
  | (_, _) => .null   -- ranking aggregates: not modelled (`Node.supported` is false)

def aggRows (rows : List Tuple) (gb : List Nat) (aggs : List (Agg × Nat)) : List Tuple :=
  (dedup (rows.map (fun t => project t gb))).map (fun k =>
    let g := sortBy tupleLe (rows.filter (fun t => project t gb == k))
    k ++ aggs.map (aggVal g))

/-! ### the denotation -/

abbrev Db := List (String × List Tuple)

def Db.get (db : Db) (rel : String) : List Tuple := (db.lookup rel).getD []

mutual
def eval (db : Db) : Node → List Tuple
  | .scan rel _ => db.get rel
  | .map i proj _ => (eval db i).map (fun t => project t proj)
  | .filter i p => (eval db i).filter (fun t => p.eval t)
  | .join l r lk rk _ => joinRows (eval db l) (eval db r) lk rk
  | .distinct i => dedup (eval db i)
  | .union is => evalList db is
  | .aggregate i gb aggs _ => aggRows (eval db i) gb aggs
  | .antijoin l r lk rk _ => antiRows (eval db l) (eval db r) lk rk
  | .compute i es => (eval db i).map (computeRow es)
  | .hnsw _ _ _ _ _ => []
  | .flatMap i proj fp _ => (eval db i).filterMap (flatMapRow proj fp)
  | .joinFlatMap l r lk rk proj fp _ => jfmRows (eval db l) (eval db r) lk rk proj fp
def evalList (db : Db) : NodeList → List Tuple
  | .nil => []
  | .cons t ts => eval db t ++ evalList db ts
end

/-- what `CodeGenerator::execute` returns (as a set). -/
def answer (db : Db) (t : Node) : List Tuple := dedup (eval db t)

/-! ### which trees the executable model covers (builtin calls and ranking aggregates are not modelled) -/

def Expr.supported : Expr → Bool
  | .fn _ _ => false
  | .arith _ l r => l.supported && r.supported
  | _ => true

mutual
def Node.supported : Node → Bool
  | .scan _ _ => true
  | .map i _ _ => i.supported
  | .filter i _ => i.supported
  | .join l r _ _ _ => l.supported && r.supported
  | .distinct i => i.supported
  | .union is => NodeList.supported is
  | .aggregate i _ aggs _ => i.supported && aggs.all (fun a => !a.1.isRanking)
  | .antijoin l r _ _ _ => l.supported && r.supported
  | .compute i es => i.supported && es.all (fun e => e.2.supported)
  | .hnsw _ q _ _ _ => q.supported
  | .flatMap i _ _ _ => i.supported
  | .joinFlatMap l r _ _ _ _ _ => l.supported && r.supported
def NodeList.supported : NodeList → Bool
  | .nil => true
  | .cons t ts => t.supported && NodeList.supported ts
end

end ILV.IR
