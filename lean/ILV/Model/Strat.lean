/-
  C34 — model of the stratification check and of the places where it is (not) called.

  Anchors (inputlayer):
    src/recursion.rs   `build_extended_dependency_graph` (:163)  signed edges head → body relation
                       `DependencyGraph::to_simple_graph` (:94), `find_sccs` (:236, Tarjan),
                       `has_negative_edge_in_scc` (:110), `stratify_with_negation` (:406),
                       `stratify` (:550: NotStratifiable ⇒ silent fallback `basic_stratify`)
    src/rule_catalog.rs `validate_rule` (:52), `validate_rules_stratification` (:116),
                       `RuleCatalog::register_rule` (:437), `register` (:487, no check), `drop` (:518),
                       `drop_by_prefix` (:530), `clear_rules` (:553), `replace_rule` (:565, validated),
                       `remove_rule_clause` (:591), `RuleDefinition::add_rule` (:338, dedup)
    src/ast/mod.rs     `Rule::positive_body_variables` (:1103), `Rule::is_safe` (:1071)
    src/lib.rs         `IQLEngine::parse` (:600: safety only, then `recursion::stratify`)
    src/protocol/handler.rs  `QueryJob::execute`: `PersistentRule` → `register_rule_in`;
                       `SessionRule` → `validate_rule` + `validate_session_rule_compatibility` only;
                       `execute_program`: session rules stored after `validate_rule` only;
                       before a query runs: `validate_rules_stratification` on snapshot rules ++ session /
                       request rules; then snapshot rule prefix ++ session/request rules ++ query rule → engine.

  The code decides "some negative edge has both ends in one SCC of the all-edges graph" with Tarjan's
  algorithm over hash maps (iteration order unspecified).  The model decides the same thing through
  *mutual reachability* computed by a Warshall closure; `ILV.Props.C34.scc_eq_mutual_reach` and
  `check_iff_neg_cycle` relate it to paths, and the correspondence run compares both the decision
  and the SCC partition returned by the real `find_sccs` with the model's classes.
-/
import ILV.Model.Util
namespace ILV.Strat

/-! ### signed dependency graphs -/

/-- `src` depends on `dst`; `neg` = through a negated body atom (`DependencyType::Negative`). -/
structure Edge where
  src : Nat
  dst : Nat
  neg : Bool
  deriving DecidableEq, Repr, Inhabited

abbrev Graph := List Edge

def pairsOf (g : Graph) : List (Nat × Nat) := (g.map fun e => (e.src, e.dst)).eraseDups
def nodesOf (g : Graph) : List Nat := (g.flatMap fun e => [e.src, e.dst]).eraseDups

/-- append the elements of the second list that are not yet present (keeps the closure duplicate-free). -/
def addNew (R : List (Nat × Nat)) : List (Nat × Nat) → List (Nat × Nat)
  | [] => R
  | x :: xs => if R.contains x then addNew R xs else addNew (R ++ [x]) xs

/-- all `(a, b)` with `(a, n) ∈ R` and `(n, b) ∈ R`. -/
def compose (n : Nat) (R : List (Nat × Nat)) : List (Nat × Nat) :=
  (R.filter fun p => p.2 == n).flatMap fun p => (R.filter fun q => q.1 == n).map fun q => (p.1, q.2)

/-- Warshall: after processing `ns`, `(a, b)` is present iff there is a walk `a → … → b` of length ≥ 1
    whose intermediate nodes all lie in `ns`. -/
def closeVia : List Nat → List (Nat × Nat) → List (Nat × Nat)
  | [], R => R
  | n :: ns, R => let R' := closeVia ns R; addNew R' (compose n R')

/-- transitive closure (walks of length ≥ 1) of the all-edges graph (`to_simple_graph`). -/
def tc (g : Graph) : List (Nat × Nat) := closeVia (nodesOf g) (pairsOf g)

def reachB (T : List (Nat × Nat)) (a b : Nat) : Bool := a == b || T.contains (a, b)

/-- "in the same strongly connected component" = mutually reachable. -/
def sameScc (T : List (Nat × Nat)) (a b : Nat) : Bool := reachB T a b && reachB T b a

/-- The decision of `validate_rules_stratification` / `stratify_with_negation`:
    `true` = NOT stratifiable = some negative edge has both ends in one SCC. -/
def rejects (g : Graph) : Bool :=
  let T := tc g
  g.any fun e => e.neg && sameScc T e.src e.dst

/-- canonical SCC partition over the given nodes: classes listed by smallest member, members ascending. -/
def partitionAux (T : List (Nat × Nat)) : Nat → List Nat → List (List Nat)
  | 0, _ => []
  | _, [] => []
  | fuel + 1, a :: rest =>
    let cls := a :: rest.filter (sameScc T a)
    cls :: partitionAux T fuel (rest.filter fun b => !sameScc T a b)

def sccPartition (g : Graph) (extraNodes : List Nat) : List (List Nat) :=
  let ns := sortBy (fun a b => decide (a ≤ b)) ((nodesOf g ++ extraNodes).eraseDups)
  partitionAux (tc g) ns.length ns

/-! ### rule syntax (the fragment the generator uses) -/

inductive Arg where
  | var (n : Nat)
  | const (k : Int)
  | wild
  deriving DecidableEq, Repr, Inhabited

structure Atom where
  pred : Nat
  args : List Arg
  deriving DecidableEq, Repr, Inhabited

inductive CmpOp where | eq | lt | ne
  deriving DecidableEq, Repr, Inhabited

inductive Lit where
  | pos (a : Atom)
  | neg (a : Atom)
  | cmp (op : CmpOp) (l r : Arg)
  deriving DecidableEq, Repr, Inhabited

structure Rule where
  head : Atom
  body : List Lit
  deriving DecidableEq, Repr, Inhabited

def Arg.vars : Arg → List Nat
  | .var n => [n]
  | _ => []

/-- `Atom::variables` — `_` (`Term::Placeholder`) and constants contribute nothing. -/
def Atom.vars (a : Atom) : List Nat := a.args.flatMap Arg.vars

def subsetB (xs ys : List Nat) : Bool := xs.all ys.contains

/-- one sweep of the `while changed` loop of `positive_body_variables` over the body. -/
def eqSweep : List Lit → List Nat → List Nat
  | [], vs => vs
  | .cmp .eq (.var v) (.const _) :: ls, vs => eqSweep ls (if vs.contains v then vs else v :: vs)
  | .cmp .eq (.const _) (.var v) :: ls, vs => eqSweep ls (if vs.contains v then vs else v :: vs)
  | .cmp .eq (.var a) (.var b) :: ls, vs =>
    let vs1 := if vs.contains a && !vs.contains b then b :: vs else vs
    let vs2 := if vs1.contains b && !vs1.contains a then a :: vs1 else vs1
    eqSweep ls vs2
  | _ :: ls, vs => eqSweep ls vs

def iter {α} (f : α → α) : Nat → α → α
  | 0, x => x
  | n + 1, x => iter f n (f x)

/-- `Rule::positive_body_variables`: variables of positive atoms, closed under `V = const`, `V = W`. -/
def Rule.posVars (r : Rule) : List Nat :=
  let base := r.body.flatMap fun l => match l with | .pos a => a.vars | _ => []
  iter (eqSweep r.body) (r.body.length + 1) base

def Lit.negAtom? : Lit → Option Atom
  | .neg a => some a
  | _ => none

/-- error classes, as the harness canonicalises the messages. -/
inductive Err where
  | selfneg | unsafeHead | unsafeNeg | unstrat | arity | nf | oob | parse | unsafeEngine
  deriving DecidableEq, Repr, Inhabited

def Err.wire : Err → String
  | .selfneg => "err:selfneg" | .unsafeHead => "err:unsafe_head" | .unsafeNeg => "err:unsafe_neg"
  | .unstrat => "err:unstrat" | .arity => "err:arity" | .nf => "err:nf" | .oob => "err:oob"
  | .parse => "err:parse" | .unsafeEngine => "err:unsafe_engine"

/-- `validate_rule` (rule_catalog.rs:52): self-negation, head safety, range restriction — in that order. -/
def validateRule (r : Rule) : Option Err :=
  if r.body.any (fun l => match l with | .neg a => a.pred == r.head.pred | _ => false) then some .selfneg
  else
    let pv := r.posVars
    if !subsetB r.head.vars pv then some .unsafeHead
    else if r.body.any (fun l => match l with | .neg a => !subsetB a.vars pv | _ => false) then some .unsafeNeg
    else none

/-- `Rule::is_safe` (what `IQLEngine::parse` checks — and all it checks). -/
def Rule.isSafe (r : Rule) : Bool :=
  let pv := r.posVars
  subsetB r.head.vars pv && r.body.all (fun l => match l with | .neg a => subsetB a.vars pv | _ => true)

/-- `build_extended_dependency_graph` for one rule. -/
def edgesOf (r : Rule) : Graph :=
  r.body.filterMap fun l => match l with
    | .pos a => some ⟨r.head.pred, a.pred, false⟩
    | .neg a => some ⟨r.head.pred, a.pred, true⟩
    | .cmp _ _ _ => none

def graphOf (rs : List Rule) : Graph := rs.flatMap edgesOf

/-- `validate_rules_stratification`: `true` = rejected. -/
def stratRejects (rs : List Rule) : Bool := rejects (graphOf rs)

/-- the engine's own gate (`IQLEngine::parse`): safety only; an unstratifiable program is evaluated
    with `basic_stratify`. -/
def engineAccepts (rs : List Rule) : Bool := rs.all Rule.isSafe

/-! ### the persistent catalog (`RuleCatalog`) -/

/-- name (= head predicate) ↦ clauses; a cleared rule keeps its name with no clauses. -/
abbrev Catalog := List (Nat × List Rule)

def catRules (c : Catalog) : List Rule := c.flatMap (·.2)

def catGet (c : Catalog) (n : Nat) : Option (List Rule) := (c.find? (·.1 == n)).map (·.2)

def catSet (c : Catalog) (n : Nat) (rs : List Rule) : Catalog :=
  if c.any (·.1 == n) then c.map (fun e => if e.1 == n then (n, rs) else e) else c ++ [(n, rs)]

def catDel (c : Catalog) (n : Nat) : Catalog := c.filter (·.1 != n)

inductive Out where
  | ok | none | eval | err (e : Err)
  deriving DecidableEq, Repr, Inhabited

def Out.wire : Out → String
  | .ok => "ok" | .none => "none" | .eval => "eval" | .err e => e.wire

/-- `RuleCatalog::register_rule`: validate_rule, stratification of catalog ∪ {r}, arity, dedup-add. -/
def register (c : Catalog) (r : Rule) : Catalog × Out :=
  match validateRule r with
  | some e => (c, .err e)
  | none =>
    if stratRejects (catRules c ++ [r]) then (c, .err .unstrat)
    else
      let n := r.head.pred
      match catGet c n with
      | some rs =>
        match rs.head? with
        | some f =>
          if f.head.args.length != r.head.args.length then (c, .err .arity)
          else (catSet c n (if rs.contains r then rs else rs ++ [r]), .ok)
        | none => (catSet c n [r], .ok)
      | none => (catSet c n [r], .ok)

def dropRule (c : Catalog) (n : Nat) : Catalog × Out :=
  if c.any (·.1 == n) then (catDel c n, .ok) else (c, .err .nf)

/-- `.rule drop prefix p<digits>`: names are `p<k>`; matches when the decimal text of `k` starts with `digits`. -/
def prefixMatches (digits : String) (k : Nat) : Bool := (toString k).startsWith digits

def dropPrefix (c : Catalog) (digits : String) : Catalog × Out :=
  if c.any (fun e => prefixMatches digits e.1) then (c.filter (fun e => !prefixMatches digits e.1), .ok) else (c, .none)

def clearRule (c : Catalog) (n : Nat) : Catalog × Out :=
  if c.any (·.1 == n) then (catSet c n [], .ok) else (c, .err .nf)

/-- `.rule remove <name> <idx>` — index is 1-based in the syntax; 0 is a parse error of the statement. -/
def removeClause (c : Catalog) (n idx1 : Nat) : Catalog × Out :=
  if idx1 == 0 then (c, .err .parse)
  else match catGet c n with
    | none => (c, .err .nf)
    | some rs =>
      let i := idx1 - 1
      if i ≥ rs.length then (c, .err .oob)
      else
        let rs' := rs.eraseIdx i
        (if rs'.isEmpty then catDel c n else catSet c n rs', .ok)

/-- `StorageEngine::replace_rule_in` → `RuleCatalog::replace_rule` (0-based index): name and index, then
    `validate_rule` on the new clause, then stratification of the catalog with the clause substituted. -/
def replaceClause (c : Catalog) (n i : Nat) (r : Rule) : Catalog × Out :=
  match catGet c n with
  | none => (c, .err .nf)
  | some rs =>
    if i ≥ rs.length then (c, .err .oob)
    else match validateRule r with
      | some e => (c, .err e)
      | none =>
        let c' := catSet c n (rs.set i r)
        if stratRejects (catRules c') then (c, .err .unstrat) else (c', .ok)

/-! ### requests against one handler -/

structure St where
  cat : Catalog := []
  sess : List Rule := []
  deriving Repr, Inhabited

inductive Op where
  | persist (r : Rule)            -- `+rule` through `Handler::execute_program`
  | registerApi (r : Rule)        -- `StorageEngine::register_rule_in`
  | replace (n i : Nat) (r : Rule) -- `StorageEngine::replace_rule_in`
  | drop (n : Nat)
  | dropPrefix (digits : String)
  | clear (n : Nat)
  | remove (n idx1 : Nat)
  | sessRule (r : Rule)           -- rule sent on a session connection
  | sessClear
  | querySess (n : Nat)           -- `?p(X)` on the session connection
  | queryPlain (n : Nat)          -- `?p(X)` without session
  | queryLocal (n : Nat) (rs : List Rule) -- request-local rules + `?p(X)` in one program
  | restart
  deriving Repr, Inhabited

/-- arity / aggregate compatibility among session rules (`validate_session_rule_compatibility`);
    only the arity part can fire in this fragment. -/
def sessCompat (existing : List Rule) (r : Rule) : Bool :=
  existing.all fun e => e.head.pred != r.head.pred || e.head.args.length == r.head.args.length

/-- accepting request-local rules one statement at a time (`QueryJob::execute`, `SessionRule` arm). -/
def acceptLocals : List Rule → List Rule → Except Err (List Rule)
  | acc, [] => .ok acc
  | acc, r :: rs =>
    match validateRule r with
    | some e => .error e
    | none => if sessCompat acc r then acceptLocals (acc ++ [r]) rs else .error .arity

/-- a query request: the handler first checks stratification of everything in force (persistent rules of
    the snapshot ++ session / request rules; `QueryJob::execute`, `query_program_with_session`), then the
    engine applies its own gate, safety. -/
def runQuery (rs : List Rule) : Out :=
  if stratRejects rs then .err .unstrat
  else if engineAccepts rs then .eval else .err .unsafeEngine

/-- the rule set in force for a query request (none for other requests). -/
def inForce (s : St) : Op → Option (List Rule)
  | .querySess _ => some (catRules s.cat ++ s.sess)
  | .queryPlain _ => some (catRules s.cat)
  | .queryLocal _ rs => some (catRules s.cat ++ rs)
  | _ => none

/-- the session / request-local part of the rules in force. -/
def nonPersistent (s : St) : Op → List Rule
  | .querySess _ => s.sess
  | .queryLocal _ rs => rs
  | _ => []

def step (s : St) : Op → St × Out
  | .persist r | .registerApi r => let (c, o) := register s.cat r; ({ s with cat := c }, o)
  | .replace n i r => let (c, o) := replaceClause s.cat n i r; ({ s with cat := c }, o)
  | .drop n => let (c, o) := dropRule s.cat n; ({ s with cat := c }, o)
  | .dropPrefix d => let (c, o) := dropPrefix s.cat d; ({ s with cat := c }, o)
  | .clear n => let (c, o) := clearRule s.cat n; ({ s with cat := c }, o)
  | .remove n i => let (c, o) := removeClause s.cat n i; ({ s with cat := c }, o)
  | .sessRule r =>
    match validateRule r with
    | some e => (s, .err e)
    | none => if sessCompat s.sess r then ({ s with sess := s.sess ++ [r] }, .ok) else (s, .err .arity)
  | .sessClear => ({ s with sess := [] }, .ok)
  | .querySess _ => (s, runQuery (catRules s.cat ++ s.sess))
  | .queryPlain _ => (s, runQuery (catRules s.cat))
  | .queryLocal _ rs =>
    match acceptLocals [] rs with
    | .error e => (s, .err e)
    | .ok acc => (s, runQuery (catRules s.cat ++ acc))
  | .restart => ({ s with sess := [] }, .ok)

def run : St → List Op → St × List Out
  | s, [] => (s, [])
  | s, op :: ops =>
    let (s1, o) := step s op
    let (s2, os) := run s1 ops
    (s2, o :: os)

def runSt (s : St) (ops : List Op) : St := (run s ops).1

/-- a query that was *evaluated* although the rules in force are not stratifiable. -/
def badEval (s : St) (op : Op) : Bool :=
  match inForce s op with
  | some rs => (step s op).2 == .eval && stratRejects rs
  | none => false

end ILV.Strat
