/-
  Floating point as a *parameter*: the operations of Rust's `f32`/`f64` that `src/vector_ops.rs`,
  `src/temporal_ops.rs` and `src/hnsw_index.rs` use, as the fields of a structure.
  Nothing is assumed here.  The laws the theorems need are stated as a separate structure
  (`FloatLaws`, hypotheses of the theorems, never axioms).  The driver instantiates `FloatOps`
  with Lean's native `Float32`/`Float` (IEEE-754 binary32/binary64, the same hardware operations
  Rust compiles to); the correspondence run compares every primitive with Rust's (`c26.law`).
-/
namespace ILV

structure FloatOps where
  F32 : Type
  F64 : Type
  ofBits32 : Nat → F32
  bits32 : F32 → Nat
  ofBits64 : Nat → F64
  bits64 : F64 → Nat
  add32 : F32 → F32 → F32
  sub32 : F32 → F32 → F32
  mul32 : F32 → F32 → F32
  div32 : F32 → F32 → F32
  abs32 : F32 → F32
  round32 : F32 → F32          -- `f32::round` (half away from zero)
  sqrt32 : F32 → F32
  lt32 : F32 → F32 → Bool      -- IEEE `<`
  eq32 : F32 → F32 → Bool      -- IEEE `==`
  isNaN32 : F32 → Bool
  isFin32 : F32 → Bool
  toI8 : F32 → Int             -- `as i8` (saturating, NaN ↦ 0)
  ofInt32 : Int → F32          -- `f32::from(i8)` / small literals
  to64 : F32 → F64             -- `f64::from`
  to32 : F64 → F32             -- `as f32`
  add64 : F64 → F64 → F64
  sub64 : F64 → F64 → F64
  mul64 : F64 → F64 → F64
  div64 : F64 → F64 → F64
  abs64 : F64 → F64
  neg64 : F64 → F64
  sqrt64 : F64 → F64
  lt64 : F64 → F64 → Bool
  eq64 : F64 → F64 → Bool
  isNaN64 : F64 → Bool
  ofInt64 : Int → F64          -- `as f64` of an i64 / u32

namespace FloatOps
variable (F : FloatOps)

def zero32 : F.F32 := F.ofBits32 0
def negZero32 : F.F32 := F.ofBits32 0x80000000
def inf32 : F.F32 := F.ofBits32 0x7f800000
def negInf32 : F.F32 := F.ofBits32 0xff800000
def zero64 : F.F64 := F.ofBits64 0
def negZero64 : F.F64 := F.ofBits64 0x8000000000000000
def one64 : F.F64 := F.ofBits64 0x3ff0000000000000
def negOne64 : F.F64 := F.ofBits64 0xbff0000000000000
def two64 : F.F64 := F.ofBits64 0x4000000000000000
def inf64 : F.F64 := F.ofBits64 0x7ff0000000000000

/-- `0 ≤ x` in the IEEE sense (false for NaN, true for both zeros and `+∞`). -/
def ge0_32 (x : F.F32) : Bool := !(F.isNaN32 x) && !(F.lt32 x F.zero32)
def ge0_64 (x : F.F64) : Bool := !(F.isNaN64 x) && !(F.lt64 x F.zero64)
/-- `x ≤ y` in the IEEE sense. -/
def le64 (x y : F.F64) : Bool := !(F.isNaN64 x) && !(F.isNaN64 y) && !(F.lt64 y x)

/-- `f32::clamp` / `f64::clamp` (core: `if self < min {min} else if self > max {max} else self`). -/
def clamp32 (x lo hi : F.F32) : F.F32 := if F.lt32 x lo then lo else if F.lt32 hi x then hi else x
def clamp64 (x lo hi : F.F64) : F.F64 := if F.lt64 x lo then lo else if F.lt64 hi x then hi else x

/-- `f32::min` / `f32::max`: a NaN operand is ignored. -/
def min32 (a b : F.F32) : F.F32 := if F.isNaN32 a then b else if F.isNaN32 b then a else if F.lt32 b a then b else a
def max32 (a b : F.F32) : F.F32 := if F.isNaN32 a then b else if F.isNaN32 b then a else if F.lt32 a b then b else a
def max64 (a b : F.F64) : F.F64 := if F.isNaN64 a then b else if F.isNaN64 b then a else if F.lt64 a b then b else a

end FloatOps

/-- The laws of IEEE-754 round-to-nearest arithmetic that the theorems of C26 use.  Each is a
    bit-level fact about Rust's `f32`/`f64` for the stated operands; each is sampled on the real
    arithmetic by the `c26.law` correspondence. -/
structure FloatLaws (F : FloatOps) : Prop where
  /-- `x*y` and `y*x` have the same bits when neither operand is a NaN. -/
  mul32_comm : ∀ x y, F.isNaN32 x = false → F.isNaN32 y = false → F.mul32 x y = F.mul32 y x
  mul64_comm : ∀ x y, F.isNaN64 x = false → F.isNaN64 y = false → F.mul64 x y = F.mul64 y x
  /-- `(x-y)²` and `(y-x)²` have the same bits. -/
  sqdiff_symm : ∀ x y, F.isNaN32 x = false → F.isNaN32 y = false →
    F.mul32 (F.sub32 x y) (F.sub32 x y) = F.mul32 (F.sub32 y x) (F.sub32 y x)
  /-- `|x-y|` and `|y-x|` (widened) have the same bits. -/
  absdiff_symm : ∀ x y, F.isNaN32 x = false → F.isNaN32 y = false →
    F.abs64 (F.to64 (F.sub32 x y)) = F.abs64 (F.to64 (F.sub32 y x))
  /-- the difference of two finite numbers is not a NaN. -/
  sub_fin : ∀ x y, F.isFin32 x = true → F.isFin32 y = true → F.isNaN32 (F.sub32 x y) = false
  fin_notNaN : ∀ x, F.isFin32 x = true → F.isNaN32 x = false
  /-- squares of non-NaN numbers, sums of non-negatives, widening, `sqrt`, `abs` stay `≥ 0`. -/
  sq_ge0 : ∀ x, F.isNaN32 x = false → F.ge0_32 (F.mul32 x x) = true
  add32_ge0 : ∀ x y, F.ge0_32 x = true → F.ge0_32 y = true → F.ge0_32 (F.add32 x y) = true
  add64_ge0 : ∀ x y, F.ge0_64 x = true → F.ge0_64 y = true → F.ge0_64 (F.add64 x y) = true
  to64_ge0 : ∀ x, F.ge0_32 x = true → F.ge0_64 (F.to64 x) = true
  to64_notNaN : ∀ x, F.isNaN32 x = false → F.isNaN64 (F.to64 x) = false
  sqrt_ge0 : ∀ x, F.ge0_64 x = true → F.ge0_64 (F.sqrt64 x) = true
  abs_ge0 : ∀ x, F.isNaN64 x = false → F.ge0_64 (F.abs64 x) = true
  zero32_ge0 : F.ge0_32 F.zero32 = true
  negZero32_ge0 : F.ge0_32 F.negZero32 = true
  negZero64_ge0 : F.ge0_64 F.negZero64 = true
  zero64_ge0 : F.ge0_64 F.zero64 = true
  inf64_ge0 : F.ge0_64 F.inf64 = true
  /-- exact zero facts (round-to-nearest: `x-x = +0`, `(+0)² = +0`, `-0 + +0 = +0`, …). -/
  sub_self : ∀ x, F.isFin32 x = true → F.sub32 x x = F.zero32
  mul_zero_zero : F.mul32 F.zero32 F.zero32 = F.zero32
  add_negZero_zero : F.add32 F.negZero32 F.zero32 = F.zero32
  add_zero_zero : F.add32 F.zero32 F.zero32 = F.zero32
  to64_zero : F.to64 F.zero32 = F.zero64
  to64_negZero : F.to64 F.negZero32 = F.negZero64
  sqrt_zero : F.sqrt64 F.zero64 = F.zero64
  sqrt_negZero : F.sqrt64 F.negZero64 = F.negZero64
  abs_zero : F.abs64 F.zero64 = F.zero64
  add64_negZero_zero : F.add64 F.negZero64 F.zero64 = F.zero64
  add64_zero_zero : F.add64 F.zero64 F.zero64 = F.zero64
  /-- `1 - c ∈ [0,2]` for `c ∈ [-1,1]`; `1 - NaN` is a NaN. -/
  one_sub_range : ∀ c, F.isNaN64 c = false → F.lt64 c F.negOne64 = false → F.lt64 F.one64 c = false →
    F.le64 F.zero64 (F.sub64 F.one64 c) = true ∧ F.le64 (F.sub64 F.one64 c) F.two64 = true
  one_sub_nan : ∀ c, F.isNaN64 c = true → F.isNaN64 (F.sub64 F.one64 c) = true
  lt64_irrefl_consts : F.lt64 F.one64 F.negOne64 = false ∧ F.lt64 F.negOne64 F.negOne64 = false ∧
    F.lt64 F.one64 F.one64 = false ∧ F.isNaN64 F.one64 = false ∧ F.isNaN64 F.negOne64 = false
  lt64_nan : ∀ x y, F.isNaN64 x = true → F.lt64 x y = false ∧ F.lt64 y x = false
  le64_zero_zero : F.le64 F.zero64 F.zero64 = true
  le64_zero_two : F.le64 F.zero64 F.two64 = true

end ILV
