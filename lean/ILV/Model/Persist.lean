/-
  E6 — model of the DD-native persist layer (src/storage/persist/mod.rs, wal.rs, batch.rs, consolidate.rs) and of
  the storage-engine paths that drive it (src/storage_engine/mod.rs: insert_tuples_into, delete_tuples_from,
  drop_relation_in, save_knowledge_graph, compact_all, StorageEngine::new → load_all_knowledge_graphs), written as
  sequences of labelled file-system steps over `ILV.FS`, in the code's order.  A shard is named `<kg>:<relation>`
  (byte string); its metadata file is `shards/<metaFile shard>` with the file-name function of persist/mod.rs:857
  modelled explicitly.  Durability mode `Immediate`, `max_wal_size_bytes = 0`.

  A *step* is one `fs_point` bracket of the real code (`Lbl`) together with its effect on the abstract disk.
  Only `persist.*` and `wal.*` brackets are steps; mkdirs and directory fsyncs are `nop`s of the strict FS model.
  Tuples are opaque ids; `Update.time` is the engine's logical time (kept because `consolidate` merges per
  (data, time) and thereby decides whether a compacted batch file is written at all).
-/
import ILV.Model.FS
namespace ILV.Persist
open ILV.FS

abbrev Name := List Nat

structure Update where
  t : Nat
  time : Nat
  diff : Int
  deriving DecidableEq, Repr

/-- `BatchRef` (batch.rs:103): the path is `batches/<id>.parquet`. -/
structure BatchRef where
  id : Nat
  upper : Nat
  len : Nat
  deriving DecidableEq, Repr

/-- `ShardMeta` (batch.rs:125); `since` is 0 on every path modelled here. -/
structure ShardMeta where
  name : Name
  batches : List BatchRef := []
  upper : Nat := 0
  deriving DecidableEq, Repr

inductive Rec where
  | wal (s : Name) (u : Update)      -- one `<crc>:<json>\n` line of wal/current.wal
  | batch (us : List Update)         -- a parquet batch file (one document)
  | smeta (m : ShardMeta)            -- shards/<name>.json (one document)
  deriving DecidableEq, Repr

/-- `sanitize_name` (persist/mod.rs:857): `:` and `/` become `_`. -/
def sanitize (s : Name) : Name := s.map (fun c => if c = 58 ∨ c = 47 then 95 else c)

/-- file name of a shard's metadata: `format!("{}.json", sanitize_name(name))` — the suffix is appended, nothing of
    the name is cut off (names may contain dots). -/
def metaFile (shard : Name) : Name := sanitize shard ++ [46, 106, 115, 111, 110]

inductive Path where
  | wal | walNew
  | batch (id : Nat) | batchTmp (id : Nat)
  | smeta (file : Name)         -- shards/<file>           (file = metaFile shard)
  | metaTmp (file : Name)       -- shards/<file>.tmp
  deriving DecidableEq, Repr

abbrev Disk := Files Path Rec

/-- the counted `fs_point` brackets (`persist.*`, `wal.*`), in the spelling of /repo. -/
inductive Lbl where
  | persistNewMkdir | walNewMkdir
  | orphansUnlinkBatch | orphansUnlinkTmp | orphansDirsync
  | metaTmpwrite | metaFsync | metaRename
  | batchTmpwrite | batchFsync | batchRename
  | compactUnlinkOld | compactDirsync
  | deleteUnlinkBatch | deleteDirsyncBatches | deleteUnlinkMeta | deleteDirsyncShards
  | walOpen | walAppendWrite | walAppendFsync | walSyncWrite | walSyncFsync
  | walRewriteUnlink | walRewriteTmpwrite | walRewriteFsync | walRewriteRename
  | walArchivesUnlinkNew
  deriving DecidableEq, Repr

abbrev Step := Lbl × Op Path Rec

/-- `ShardState` (mod.rs:113). -/
structure Shard where
  md : ShardMeta
  buffer : List Update := []
  deriving DecidableEq, Repr

/-- in-memory state: `FilePersist` (shards, next_batch_id, whether the WAL writer is open) and the parts of
    `StorageEngine` / `KnowledgeGraph` that decide acknowledgements (logical clock, known relations). -/
structure Mem where
  shards : List (Name × Shard) := []
  nextBatch : Nat := 1
  walOpen : Bool := false
  clock : Nat := 1
  known : List Name := []
  deriving DecidableEq, Repr

structure World where
  mem : Mem := {}
  disk : Disk := []
  trace : List Step := []      -- steps of the operation in progress
  failed : Bool := false       -- the operation returned `Err`
  deriving Repr

def emit (w : World) (l : Lbl) (op : Op Path Rec) : World :=
  { w with disk := apply w.disk op, trace := w.trace ++ [(l, op)] }

/-! ### association-list helpers for `shards` -/

def sGet (l : List (Name × Shard)) (k : Name) : Option Shard :=
  match l with
  | [] => none
  | (q, v) :: rest => if q = k then some v else sGet rest k

def sSet (l : List (Name × Shard)) (k : Name) (v : Shard) : List (Name × Shard) :=
  match l with
  | [] => [(k, v)]
  | (q, w) :: rest => if q = k then (k, v) :: rest else (q, w) :: sSet rest k v

def sDel (l : List (Name × Shard)) (k : Name) : List (Name × Shard) :=
  match l with
  | [] => []
  | (q, v) :: rest => if q = k then sDel rest k else (q, v) :: sDel rest k

def setShard (w : World) (k : Name) (v : Shard) : World := { w with mem := { w.mem with shards := sSet w.mem.shards k v } }

/-! ### WAL reader (`PersistWal::read_all`, wal.rs:158-236) -/

/-- convention of the tuple pool: tuple `t` carries a string with a multi-byte UTF-8 character iff `t % 4 = 1`
    (only such records can be torn inside a character). -/
def multibyte (t : Nat) : Bool := t % 4 == 1

/-- Lines are `<crc32>:<json>`.  A complete record yields its entry.  A fragment without newline glues the next
    record onto its own line, which then fails the CRC check and is skipped (`garb`); a fragment that ends inside a
    multi-byte character makes `BufRead::lines` return `InvalidData` and the whole read fails (`none`);
    a record that only lacks its newline is still a valid last line. -/
def walParse (garb : Bool) : List (Item Rec) → Option (List (Name × Update))
  | [] => some []
  | .whole (.wal s u) :: rest =>
    if garb then walParse false rest
    else match walParse false rest with
      | some l => some ((s, u) :: l)
      | none => none
  | .whole _ :: rest => walParse false rest                -- not a WAL line: skipped as corrupt
  | .torn .midchar (.wal _ u) :: rest => if multibyte u.t then none else walParse true rest
  | .torn .midchar _ :: rest => walParse true rest
  | .torn .nonl (.wal s u) :: [] => if garb then some [] else some [(s, u)]
  | .torn .clean _ :: rest => walParse garb rest
  | .torn _ _ :: rest => walParse true rest

def readAll (d : Disk) : Option (List (Name × Update)) :=
  match get d .wal with
  | none => some []
  | some f => walParse false f.items

/-- a document file (batch, shard meta) parses iff it holds exactly one complete record. -/
def readDoc (d : Disk) (p : Path) : Option Rec :=
  match get d p with
  | some f => match f.items with
    | [.whole r] => some r
    | _ => none
  | none => none

def readBatch (d : Disk) (id : Nat) : Option (List Update) :=
  match readDoc d (.batch id) with
  | some (.batch us) => some us
  | _ => none

/-! ### persist layer -/

/-- `save_shard_meta` (mod.rs:320-351): write `<name>.json.tmp`, fsync it, rename over `<name>.json`. -/
def saveShardMeta (w : World) (m : ShardMeta) : World :=
  let w := emit w .metaTmpwrite (.write (.metaTmp (metaFile m.name)) [.smeta m])
  let w := emit w .metaFsync (.fsync (.metaTmp (metaFile m.name)))
  emit w .metaRename (.rename (.metaTmp (metaFile m.name)) (.smeta (metaFile m.name)))

def maxTimeP1 (us : List Update) : Nat := us.foldl (fun a u => max a (u.time + 1)) 0

/-- `write_batch` + `write_updates_parquet` (mod.rs:361-372, 696-774): temp file, fsync, rename; an empty update
    list consumes a batch id but writes nothing. -/
def writeBatch (w : World) (us : List Update) : Nat × World :=
  let id := w.mem.nextBatch
  let w := { w with mem := { w.mem with nextBatch := id + 1 } }
  if us = [] then (id, w) else
  let w := emit w .batchTmpwrite (.write (.batchTmp id) [.batch us])
  let w := emit w .batchFsync (.fsync (.batchTmp id))
  (id, emit w .batchRename (.rename (.batchTmp id) (.batch id)))

/-- `ShardMeta::add_batch` (batch.rs:161). -/
def addBatch (m : ShardMeta) (b : BatchRef) : ShardMeta :=
  { m with batches := m.batches ++ [b], upper := max m.upper b.upper }

/-- `PersistWal::remove_shard_entries` (wal.rs:270-317): re-read the WAL, close the writer, keep the other shards'
    entries: none left ⇒ unlink `current.wal`; otherwise write `current.wal.new`, fsync, rename. -/
def removeShardEntries (w : World) (s : Name) : World :=
  match readAll w.disk with
  | none => { w with failed := true }
  | some entries =>
    let w := { w with mem := { w.mem with walOpen := false } }
    let surviving := entries.filter (fun e => e.1 ≠ s)
    if surviving = [] then
      if (get w.disk .wal).isSome then emit w .walRewriteUnlink (.unlink .wal) else w
    else
      let w := emit w .walRewriteTmpwrite (.write .walNew (surviving.map (fun e => .wal e.1 e.2)))
      let w := emit w .walRewriteFsync (.fsync .walNew)
      emit w .walRewriteRename (.rename .walNew .wal)

/-- `FilePersist::flush` (mod.rs:581-620): batch file, then shard metadata, then drop the shard's WAL entries. -/
def flush (w : World) (s : Name) : World :=
  match sGet w.mem.shards s with
  | none => { w with failed := true }
  | some sh =>
    if sh.buffer = [] then w else
    let (id, w) := writeBatch w sh.buffer
    let m := addBatch sh.md { id := id, upper := maxTimeP1 sh.buffer, len := sh.buffer.length }
    let w := setShard w s { md := m, buffer := [] }
    let w := saveShardMeta w m
    removeShardEntries w s

/-- `ensure_shard` (mod.rs:560-574). -/
def ensureShard (w : World) (s : Name) : World :=
  match sGet w.mem.shards s with
  | some _ => w
  | none =>
    let m : ShardMeta := { name := s }
    let w := saveShardMeta w m
    setShard w s { md := m }

/-- `FilePersist::append` (mod.rs:400-462), Immediate mode: all lines in one buffered `write`, then `sync_all`;
    then the in-memory buffer; flush when it reaches `buffer_size`. -/
def append (bufferSize : Nat) (w : World) (s : Name) (us : List Update) : World :=
  if us = [] then w else
  let w := if w.mem.walOpen then w
           else { (emit w .walOpen (.append .wal [])) with mem := { w.mem with walOpen := true } }
  let w := emit w .walAppendWrite (.append .wal (us.map (fun u => .wal s u)))
  let w := emit w .walAppendFsync (.fsync .wal)
  let sh := (sGet w.mem.shards s).getD { md := { name := s } }
  let sh := { md := { sh.md with upper := max sh.md.upper (maxTimeP1 us) }, buffer := sh.buffer ++ us }
  let w := setShard w s sh
  if sh.buffer.length ≥ bufferSize then flush w s else w

/-- `consolidate` (consolidate.rs:32-68): sum diffs per (data, time), drop zeros. -/
def addUpd (acc : List Update) (u : Update) : List Update :=
  match acc with
  | [] => [u]
  | a :: rest => if a.t = u.t ∧ a.time = u.time then { a with diff := a.diff + u.diff } :: rest else a :: addUpd rest u

def consolidate (us : List Update) : List Update := (us.foldl addUpd []).filter (fun u => u.diff ≠ 0)

def readBatches (d : Disk) : List BatchRef → Option (List Update)
  | [] => some []
  | b :: rest =>
    match readBatch d b.id, readBatches d rest with
    | some us, some more => some (us ++ more)
    | _, _ => none

def unlinkAll (w : World) (l : Lbl) : List BatchRef → World
  | [] => w
  | b :: rest => unlinkAll (emit w l (.unlink (.batch b.id))) l rest

/-- `FilePersist::compact(shard, 0)` (mod.rs:487-545): new batch file, then (in memory) the old references are
    drained, then metadata, then the old files are unlinked — the FS order is unchanged by `fix: compact drains
    meta.batches only after the new batch has been written` (that repair concerns the write-error path). -/
def compact (w : World) (s : Name) : World :=
  let w := flush w s
  if w.failed then w else
  match sGet w.mem.shards s with
  | none => { w with failed := true }
  | some sh =>
    match readBatches w.disk sh.md.batches with
    | none => { w with failed := true }
    | some all =>
      let filtered := consolidate all
      let old := sh.md.batches
      let m0 : ShardMeta := { sh.md with batches := [] }
      let (m, w) :=
        if filtered = [] then (m0, w) else
          let (id, w) := writeBatch w filtered
          (addBatch m0 { id := id, upper := maxTimeP1 filtered, len := filtered.length }, w)
      let w := setShard w s { md := m, buffer := [] }
      let w := saveShardMeta w m
      let w := unlinkAll w .compactUnlinkOld old
      if old = [] then w else emit w .compactDirsync (.nop 0)

/-- `PersistWal::sync` through `FilePersist::sync`. -/
def syncWal (w : World) : World :=
  if w.mem.walOpen then emit (emit w .walSyncWrite (.nop 0)) .walSyncFsync (.fsync .wal) else w

def unlinkExisting (w : World) : List BatchRef → World × Bool
  | [] => (w, false)
  | b :: rest =>
    if (get w.disk (.batch b.id)).isSome then
      let (w', _) := unlinkExisting (emit w .deleteUnlinkBatch (.unlink (.batch b.id))) rest
      (w', true)
    else unlinkExisting w rest

/-- `FilePersist::delete_shard` (mod.rs:622-665): batch files, then the shard's WAL entries, then the metadata file. -/
def deleteShard (w : World) (s : Name) : World :=
  let removed := sGet w.mem.shards s
  let w := { w with mem := { w.mem with shards := sDel w.mem.shards s } }
  let w := match removed with
    | none => w
    | some sh =>
      let (w, any) := unlinkExisting w sh.md.batches
      if any then emit w .deleteDirsyncBatches (.nop 0) else w
  let w := removeShardEntries w s
  if w.failed then w else
  if (get w.disk (.smeta (metaFile s))).isSome then
    emit (emit w .deleteUnlinkMeta (.unlink (.smeta (metaFile s)))) .deleteDirsyncShards (.nop 0)
  else w

/-! ### storage-engine operations -/

inductive EOp where
  | ins (r : Name) (ts : List Nat)      -- insert_tuples_into (`r` = shard name `<kg>:<relation>`)
  | del (r : Name) (ts : List Nat)      -- delete_tuples_from
  | dropRel (r : Name)                  -- drop_relation_in
  /-- `save_knowledge_graph(kg)`: flush every shard `kg:*`.  The loop runs over a `HashMap`; `ord` is the iteration
      order (shards listed first, in that order; the remaining ones after them) — a schedule parameter the theorems
      quantify over. -/
  | flushAll (kg : Name) (ord : List Name)
  | compactAll (ord : List Name)        -- compact_all, same convention
  deriving DecidableEq, Repr

def flushList (w : World) : List Name → World
  | [] => w
  | s :: rest => let w := flush w s; if w.failed then w else flushList w rest

def compactList (w : World) : List Name → World
  | [] => w
  | s :: rest => let w := compact w s; if w.failed then w else compactList w rest

def addKnown (l : List Name) (r : Name) : List Name := if r ∈ l then l else l ++ [r]

/-- iteration order of a `HashMap` loop given the schedule `ord`. -/
def orderBy (ord names : List Name) : List Name :=
  (ord.eraseDups.filter (fun n => decide (n ∈ names))) ++ names.filter (fun n => decide (n ∉ ord))

/-- the shards whose metadata was renamed into place, in order (what an observer of `shards/` sees). -/
def metaOrder (trace : List Step) : List Name :=
  trace.filterMap (fun st => match st.2 with
    | .write (.metaTmp _) [.smeta m] => some m.name
    | _ => none)

/-- one engine operation from a running engine; `trace` holds its steps, `failed` its acknowledgement. -/
def runOp (bufferSize : Nat) (w : World) (o : EOp) : World :=
  let w := { w with trace := [], failed := false }
  match o with
  | .ins r ts =>
    if ts = [] then w else
    let time := w.mem.clock
    let w := { w with mem := { w.mem with clock := time + 1 } }
    let w := ensureShard w r
    let w := append bufferSize w r (ts.map (fun t => { t := t, time := time, diff := 1 }))
    if w.failed then w else { w with mem := { w.mem with known := addKnown w.mem.known r } }
  | .del r ts =>
    if ts = [] then w else
    -- delete_tuples_from (after `fix: … skips tuples of another arity, and any tuple of an unknown relation`): a
    -- relation without a metadata entry holds nothing; the request is acknowledged `Ok(0)` before a logical time is
    -- taken and before anything is persisted
    if r ∉ w.mem.known then w else
    let time := w.mem.clock
    let w := { w with mem := { w.mem with clock := time + 1 } }
    let w := ensureShard w r
    append bufferSize w r (ts.map (fun t => { t := t, time := time, diff := -1 }))
  | .dropRel r =>
    if r ∉ w.mem.known then { w with failed := true } else
    let w := { w with mem := { w.mem with known := w.mem.known.filter (· ≠ r) } }
    let w := deleteShard w r
    { w with failed := false }      -- `let _ = self.persist.delete_shard(..)`
  | .flushAll kg ord =>
    let w := flushList w (orderBy ord ((w.mem.shards.map (·.1)).filter (fun n => (kg ++ [58]).isPrefixOf n)))
    if w.failed then w else syncWal w
  | .compactAll ord =>
    let w := compactList w (orderBy ord (w.mem.shards.map (·.1)))
    if w.failed then w else syncWal w

/-! ### recovery: `FilePersist::new` + `load_all_knowledge_graphs` -/

def metaPaths (d : Disk) : List Name := d.filterMap (fun e => match e.1 with | .smeta s => some s | _ => none)

/-- `load_shards` (mod.rs:175-245): every `shards/*.json` must parse; references to missing batch files are dropped
    (in memory only); `next_batch_id` is raised above every referenced id. -/
def loadShards (d : Disk) : List Name → Option (List (Name × Shard) × Nat)
  | [] => some ([], 1)
  | f :: rest =>
    match readDoc d (.smeta f), loadShards d rest with
    | some (.smeta m), some (l, nb) =>
      let nb' := m.batches.foldl (fun a b => max a (b.id + 1)) nb
      let valid := m.batches.filter (fun b => (get d (.batch b.id)).isSome)
      -- `shards.insert(meta.name, …)`: a `HashMap` insert, keyed by the name stored in the document
      some (sSet l m.name { md := { m with batches := valid }, buffer := [] }, nb')
    | _, _ => none

def referenced (shards : List (Name × Shard)) (id : Nat) : Bool :=
  shards.any (fun e => e.2.md.batches.any (fun b => b.id = id))

/-- `cleanup_orphaned_batches` (mod.rs:250-292). -/
def cleanupOrphans (w : World) : List Path → World × Bool
  | [] => (w, false)
  | .batch id :: rest =>
    if referenced w.mem.shards id then cleanupOrphans w rest
    else let (w', _) := cleanupOrphans (emit w .orphansUnlinkBatch (.unlink (.batch id))) rest; (w', true)
  | .batchTmp id :: rest =>
    let (w', _) := cleanupOrphans (emit w .orphansUnlinkTmp (.unlink (.batchTmp id))) rest; (w', true)
  | _ :: rest => cleanupOrphans w rest

/-- `replay_wal` (mod.rs:295-313): push every entry to its shard's buffer (creating the shard state if needed). -/
def replay (shards : List (Name × Shard)) : List (Name × Update) → List (Name × Shard)
  | [] => shards
  | (s, u) :: rest =>
    let sh := (sGet shards s).getD { md := { name := s } }
    replay (sSet shards s { sh with buffer := sh.buffer ++ [u] }) rest

def dirty (shards : List (Name × Shard)) : List Name := (shards.filter (fun e => e.2.buffer ≠ [])).map (·.1)

/-- `consolidate_to_current` + `to_tuples`: tuples with positive total multiplicity. -/
def sumOf (us : List Update) (t : Nat) : Int := (us.filter (·.t = t)).foldl (fun a u => a + u.diff) 0

def insertNat (n : Nat) : List Nat → List Nat
  | [] => [n]
  | m :: ms => if n < m then n :: m :: ms else if n = m then m :: ms else m :: insertNat n ms

def positive (us : List Update) : List Nat :=
  ((us.map (·.t)).foldr insertNat []).filter (fun t => sumOf us t > 0)

/-- `FilePersist::read(shard, 0)`: referenced batch files, then the buffer. -/
def readShard (d : Disk) (sh : Shard) : Option (List Update) :=
  match readBatches d sh.md.batches with
  | some us => some (us ++ sh.buffer)
  | none => none

def loadRelations (d : Disk) : List (Name × Shard) → Option (List (Name × List Nat))
  | [] => some []
  | (s, sh) :: rest =>
    match readShard d sh, loadRelations d rest with
    | some us, some l => some ((s, positive us) :: l)
    | _, _ => none

/-- the world right after `load_shards` (the two mkdirs are `nop`s of the strict FS model) -/
def loadWorld (d : Disk) (shards : List (Name × Shard)) (nb : Nat) : World :=
  { mem := { shards := shards, nextBatch := nb }, disk := d,
    trace := [(.persistNewMkdir, .nop 0), (.walNewMkdir, .nop 0)] }

/-- `cleanup_orphaned_batches` incl. the directory fsync when something was removed -/
def afterCleanup (w : World) (ps : List Path) : World :=
  let r := cleanupOrphans w ps
  if r.2 then emit r.1 .orphansDirsync (.nop 0) else r.1

/-- recovery stage 1 — `FilePersist::new` up to and including `cleanup_orphaned_batches`: directories,
    `load_shards`, orphan cleanup. -/
def stageLoad (d : Disk) : Option World :=
  match loadShards d (metaPaths d) with
  | none => none
  | some (shards, nb) => some (afterCleanup (loadWorld d shards nb) (paths d))

/-- recovery stage 2 — `replay_wal` and the drain flush of every shard that got entries (`ord`: iteration order). -/
def stageReplay (w : World) (ord : List Name) : Option World :=
  match readAll w.disk with
  | none => none
  | some entries =>
    let w := { w with mem := { w.mem with shards := replay w.mem.shards entries } }
    let w := if entries = [] then w else flushList w (orderBy ord (dirty w.mem.shards))
    if w.failed then none else some w

/-- recovery stage 3 — `cleanup_archives`, then `load_all_knowledge_graphs`: every shard is read back, the known
    relations and the logical clock are rebuilt. -/
def stageFinish (w : World) : Option World :=
  let w := if (get w.disk .walNew).isSome then emit w .walArchivesUnlinkNew (.unlink .walNew) else w
  match loadRelations w.disk w.mem.shards with
  | none => none
  | some rels =>
    -- a relation is known to the knowledge graph (metadata entry, with its arity) iff its shard logged any update:
    -- emptied relations keep an entry with 0 tuples (load_knowledge_graph_from_persist, `logged_arity`)
    let known := w.mem.shards.filterMap (fun e => match readShard w.disk e.2 with
      | some us => if us = [] then none else some e.1
      | none => none)
    let maxUpper := w.mem.shards.foldl (fun a e => max a e.2.md.upper) 0
    some { w with mem := { w.mem with known := known, clock := maxUpper + 1 } }

/-- `StorageEngine::new` on a disk image: `none` = the engine does not open.  The steps are in `trace`. -/
def openEngine (d : Disk) (ord : List Name := []) : Option World :=
  match stageLoad d with
  | none => none
  | some w =>
    match stageReplay w ord with
    | none => none
    | some w => stageFinish w

/-- what the reopened engine serves: non-empty relations with their tuples, sorted by relation name. -/
def insertRel (e : Name × List Nat) : List (Name × List Nat) → List (Name × List Nat)
  | [] => [e]
  | f :: fs => if e.1 ≤ f.1 then e :: f :: fs else f :: insertRel e fs

def visible (w : World) : List (Name × List Nat) :=
  match loadRelations w.disk w.mem.shards with
  | some rels => (rels.filter (fun e => e.2 ≠ [])).foldr insertRel []
  | none => []

/-! ### histories with crashes -/

inductive HItem where
  | op (o : EOp)
  /-- crash while `o` is in flight, after its `j`-th step (`j ≥ 1`); `cut`: how the data written by that step is torn -/
  | opCrash (o : EOp) (j : Nat) (cut : Option Cut)
  | restart                                   -- crash between operations
  /-- the reopen that follows a crash itself crashes after its `j`-th step -/
  | openCrash (j : Nat) (cut : Option Cut) (ord : List Name)
  deriving Repr

def opPath : Op Path Rec → Option Path
  | .write p _ => some p
  | .append p _ => some p
  | _ => none

/-- the disk image of a crash after the first `j` steps of `trace`, started from `d0`. -/
def imageAt (d0 : Disk) (trace : List Step) (j : Nat) (cut : Option Cut) : Disk :=
  let done := (trace.take j).map (·.2)
  let d := applyAll d0 done
  let cuts : Path → Option Cut :=
    match cut, (trace[j - 1]?).bind (fun s => opPath s.2) with
    | some c, some p => if j ≥ 1 ∧ j ≤ trace.length then cutAt p c else noCut
    | _, _ => noCut
  crash d cuts

/-- the observable shard order of a multi-shard loop (empty for single-shard operations). -/
def loopOrder (o : EOp) (trace : List Step) : List Name :=
  match o with
  | .flushAll _ _ => metaOrder trace
  | .compactAll _ => metaOrder trace
  | _ => []

inductive Sys where
  | up (w : World)
  | down (d : Disk)

inductive Out where
  | ack (ok : Bool) (steps : List Lbl) (ord : List Name)  -- `ord`: observed shard order of a flush-all / compact-all
  | crashed (ord : List Name)                            -- the item ended in a crash (nothing is acknowledged)
  | opened (vis : List (Name × List Nat)) (steps : List Lbl)
  | openFailed
  deriving DecidableEq, Repr

/-- bring the system up (reopen after a crash); `none` if the engine does not open. -/
def bringUp : Sys → List Out × Option World
  | .up w => ([], some w)
  | .down d =>
    match openEngine d with
    | none => ([.openFailed], none)
    | some w => ([.opened (visible w) (w.trace.map (·.1))], some w)

def runItems (bufferSize : Nat) (sys : Sys) : List HItem → List Out
  | [] => (bringUp sys).1
  | .openCrash j cut ord :: rest =>
    match sys with
    | .down d =>
      match openEngine d ord with
      | none => [.openFailed]
      | some w => .crashed (metaOrder w.trace) :: runItems bufferSize (.down (imageAt d w.trace j cut)) rest
    | .up w => .crashed [] :: runItems bufferSize (.down (crash w.disk noCut)) rest     -- not after a crash: plain restart
  | it :: rest =>
    match bringUp sys with
    | (outs, none) => outs
    | (outs, some w) =>
      match it with
      | .op o =>
        let w' := runOp bufferSize w o
        outs ++ .ack (!w'.failed) (w'.trace.map (·.1)) (loopOrder o w'.trace) :: runItems bufferSize (.up w') rest
      | .opCrash o j cut =>
        let w' := runOp bufferSize w o
        outs ++ .crashed (loopOrder o w'.trace) :: runItems bufferSize (.down (imageAt w.disk w'.trace j cut)) rest
      | .restart => outs ++ .crashed [] :: runItems bufferSize (.down (crash w.disk noCut)) rest
      | .openCrash _ _ _ => outs      -- unreachable (handled above)

/-- a history always ends with a crash and a reopen, so that the durable state is observed. -/
def run (bufferSize : Nat) (h : List HItem) : List Out := runItems bufferSize (.up {}) (h ++ [.restart])

end ILV.Persist
