/-
  Model of the HNSW index wrapper `src/hnsw_index.rs` (the `Index` trait of `src/index_manager.rs`).
  State = (vectors, tombstones, inner graph contents, dimension, config).  The approximate search of
  `hnsw_rs` is the parameter `ann`; everything the wrapper does around it is modelled as written,
  after the repair `fix: hnsw index never returns tombstoned ids …` (search filters tombstones and
  over-fetches by their number; insert / insert_batch clear the tombstone; batches and rebuilds are
  validated before anything is stored).
-/
import ILV.Model.FloatOps
import ILV.Model.VecOps
namespace ILV.Hnsw
open ILV

inductive Metric where
  | cosine | euclidean | dot | manhattan
  deriving DecidableEq, Repr

structure Cfg where
  m : Nat
  efc : Nat
  efs : Nat
  metric : Metric
  deriving DecidableEq, Repr

/-- error classes of `insert` / `insert_batch` (the messages of hnsw_index.rs:275/285/297). -/
inductive Err where
  | empty | zeroNorm | dim
  deriving DecidableEq, Repr

/-- `format!("{:?}", metric).to_lowercase()` (hnsw_index.rs:489). -/
def metricName : Metric → String
  | .cosine => "cosine" | .euclidean => "euclidean" | .dot => "dotproduct" | .manhattan => "manhattan"

/-- the `match` of `load` (hnsw_index.rs:526). -/
def parseMetric : String → Option Metric
  | "euclidean" => some .euclidean
  | "cosine" => some .cosine
  | "dotproduct" => some .dot
  | "dot_product" => some .dot
  | "manhattan" => some .manhattan
  | _ => none

def needsNorm : Metric → Bool
  | .cosine => true | .dot => true | _ => false

section
variable (F : FloatOps)

structure Index where
  vectors : List (Nat × List F.F32) := []
  tombs : List Nat := []                                 -- `HashSet<TupleId>`, kept duplicate-free
  inner : Option (List (Nat × List F.F32)) := none       -- what the last `rebuild_hnsw` put in the graph
  dim : Nat := 0
  cfg : Cfg

def tiny32 : F.F32 := F.ofBits32 0x2edbe6ff   -- 1e-10f32
def one32 : F.F32 := F.ofBits32 0x3f800000
def two32 : F.F32 := F.ofBits32 0x40000000

/-- `vec.iter().map(|x| x*x).sum::<f32>().sqrt()` (hnsw_index.rs:189, 283). -/
def norm32 (v : List F.F32) : F.F32 := F.sqrt32 (VecOps.sumSq F v F.negZero32)

/-- hnsw_index.rs:188 `normalize_vector`. -/
def normalizeVec (v : List F.F32) : List F.F32 :=
  let n := norm32 F v
  if F.lt32 (tiny32 F) n then v.map (fun x => F.div32 x n) else v

/-- hnsw_index.rs:198 `prepare_vector`. -/
def prepare (m : Metric) (v : List F.F32) : List F.F32 := if needsNorm m then normalizeVec F v else v

variable {F}

def isTomb (s : Index F) (id : Nat) : Bool := s.tombs.contains id

/-- the entries a rebuild keeps: stored and not tombstoned. -/
def active (s : Index F) : List (Nat × List F.F32) := s.vectors.filter (fun p => !isTomb s p.1)

/-- hnsw_index.rs:71 `rebuild_hnsw`. -/
def rebuildHnsw (s : Index F) : Index F :=
  match active s with
  | [] => { s with inner := none }
  | (id0, v0) :: rest => { s with inner := some ((id0, v0) :: rest), dim := v0.length }

/-- `vectors[pos] = (id, prepared)` for the first position holding `id`. -/
def replaceFirst : List (Nat × List F.F32) → Nat → List F.F32 → List (Nat × List F.F32)
  | [], _, _ => []
  | p :: r, id, v => if p.1 == id then (id, v) :: r else p :: replaceFirst r id v

def upsert (vs : List (Nat × List F.F32)) (id : Nat) (v : List F.F32) : List (Nat × List F.F32) :=
  if vs.any (fun p => p.1 == id) then replaceFirst vs id v else vs ++ [(id, v)]

/-- `norm <= 1e-10` (false for a NaN norm). -/
def normTooSmall (v : List F.F32) : Bool :=
  let n := norm32 F v
  F.lt32 n (tiny32 F) || F.eq32 n (tiny32 F)

/-- `validate_vector` (hnsw_index.rs): empty / zero-norm (cosine, dot) / dimension checks against
    the dimension `dim` (0 = not yet determined); returns the dimension to use from here on. -/
def validate (m : Metric) (v : List F.F32) (dim : Nat) : Except Err Nat :=
  if v.isEmpty then .error .empty
  else if needsNorm m && normTooSmall v then .error .zeroNorm
  else if dim != 0 && dim != v.length then .error .dim
  else .ok v.length

/-- validation of a whole list, threading the dimension (the loops of `insert_batch` / `rebuild`). -/
def validateAll (m : Metric) : List (Nat × List F.F32) → Nat → Except Err Nat
  | [], d => .ok d
  | (_, v) :: rest, d => match validate m v d with
    | .error e => .error e
    | .ok d' => validateAll m rest d'

/-- `store_vector`: upsert the prepared vector and revive the identifier if it was tombstoned. -/
def storeVec (s : Index F) (id : Nat) (v : List F.F32) : Index F :=
  { s with vectors := upsert s.vectors id (prepare F s.cfg.metric v), tombs := s.tombs.filter (fun t => t != id) }

/-- `insert`: validate, store, rebuild the graph. -/
def insert (s : Index F) (id : Nat) (v : List F.F32) : Index F × Option Err :=
  match validate s.cfg.metric v s.dim with
  | .error e => (s, some e)
  | .ok d => (rebuildHnsw (storeVec { s with dim := d } id v), none)

def storeAll (s : Index F) (es : List (Nat × List F.F32)) : Index F := es.foldl (fun s e => storeVec s e.1 e.2) s

/-- `insert_batch`: every entry is validated before any is stored; a rejected batch leaves the
    index untouched; one graph rebuild at the end. -/
def insertBatch (s : Index F) (es : List (Nat × List F.F32)) : Index F × Option Err :=
  match validateAll s.cfg.metric es s.dim with
  | .error e => (s, some e)
  | .ok d => (rebuildHnsw (storeAll { s with dim := d } es), none)

/-- `rebuild`: same validation as insert (before anything is replaced), then replace everything. -/
def rebuild (s : Index F) (vs : List (Nat × List F.F32)) : Index F × Option Err :=
  match validateAll s.cfg.metric vs 0 with
  | .error e => (s, some e)
  | .ok _ =>
    match vs with
    | [] => ({ s with tombs := [], inner := none, dim := 0, vectors := [] }, none)
    | (_, v0) :: _ =>
      (rebuildHnsw { s with tombs := [], inner := none, dim := v0.length,
                            vectors := vs.map (fun p => (p.1, prepare F s.cfg.metric p.2)) }, none)

/-- `tombstone_ratio() > 0.3` (hnsw_index.rs:377, 391): `t/v > 0.3` in f64 is `10·t > 3·v` for the
    sizes that occur (`fl(t/v)` is monotone and `fl(3/10)` is the constant `0.3`). -/
def ratioAbove (s : Index F) : Bool := !s.vectors.isEmpty && 10 * s.tombs.length > 3 * s.vectors.length

/-- `self.tombstones.write().insert(id)` (hnsw_index.rs:374). -/
def tombstone (s : Index F) (id : Nat) : Index F :=
  { s with tombs := if s.tombs.contains id then s.tombs else s.tombs ++ [id] }

/-- hnsw_index.rs:373 `delete`: tombstone, and compact when more than 30 % are tombstoned. -/
def delete (s : Index F) (id : Nat) : Index F :=
  if ratioAbove (tombstone s id) then (rebuild (tombstone s id) (active (tombstone s id))).1 else tombstone s id

/-! ### search -/

/-- what `DistL2.eval` computes (anndists 0.1.5 `scalar_l2_f32`): `sqrt(Σ (a-b)²)` in f32. -/
def l2 (a b : List F.F32) : F.F32 := F.sqrt32 (VecOps.sumSqDiff F a b F.negZero32)

/-- hnsw_index.rs:157 `transform_distance`. -/
def transform (m : Metric) (d : F.F32) : F.F64 :=
  match m with
  | .euclidean => F.to64 d
  | .cosine => F.to64 (F.div32 (F.mul32 d d) (two32 F))
  | .dot => F.neg64 (F.to64 (F.sub32 (one32 F) (F.div32 (F.mul32 d d) (two32 F))))
  | .manhattan => F.to64 d

def manhAcc64 : List F.F32 → List F.F32 → F.F64 → F.F64
  | x :: xs, y :: ys, acc => manhAcc64 xs ys (F.add64 acc (F.abs64 (F.sub64 (F.to64 x) (F.to64 y))))
  | _, _, acc => acc

/-- hnsw_index.rs:180 `manhattan_distance` (subtraction in f64, unlike vector_ops). -/
def manh64 (a b : List F.F32) : F.F64 := manhAcc64 a b F.negZero64

/-- stable insertion sort by a strict "less" on a key (`sort_by(partial_cmp.unwrap_or(Equal))` for
    NaN-free keys). -/
def insertBy {α β} (lt : β → β → Bool) (key : α → β) (x : α) : List α → List α
  | [] => [x]
  | y :: ys => if lt (key y) (key x) then y :: insertBy lt key x ys else x :: y :: ys

def sortBy {α β} (lt : β → β → Bool) (key : α → β) (l : List α) : List α := l.foldr (insertBy lt key) []

/-- the part of `search` after `hnsw.search` returned `raw` (hnsw_index.rs:226-269). -/
def searchRaw (s : Index F) (q : List F.F32) (k : Nat) (raw : List (Nat × F.F32)) : List (Nat × F.F64) :=
  match s.inner with
  | none => []
  | some stored =>
    let pq := prepare F s.cfg.metric q
    let res : List (Nat × F.F64) :=
      if s.cfg.metric == .manhattan then
        raw.filterMap (fun r => match stored[r.1]? with
          | none => none
          | some (id, _) =>
            if isTomb s id then none else
            match s.vectors.find? (fun p => p.1 == id) with
            | some (_, sv) => some (id, manh64 pq sv)
            | none => none)
      else
        raw.filterMap (fun r => match stored[r.1]? with
          | none => none
          | some (id, _) => if isTomb s id then none else some (id, transform s.cfg.metric r.2))
    (sortBy F.lt64 (·.2) res).take k

/-- the parameters handed to `hnsw.search`: (stored points, prepared query, knbn, ef). -/
def searchK (s : Index F) (k : Nat) : Nat := (if s.cfg.metric == .manhattan then k * 4 else k) + s.tombs.length
def searchEf (s : Index F) (ef : Option Nat) : Nat := ef.getD s.cfg.efs + s.tombs.length

/-- hnsw_index.rs:207 `search` over the parameter `ann` (= `Hnsw::search`). -/
def search (ann : List (List F.F32) → List F.F32 → Nat → Nat → List (Nat × F.F32))
    (s : Index F) (q : List F.F32) (k : Nat) (ef : Option Nat) : List (Nat × F.F64) :=
  match s.inner with
  | none => []
  | some stored => searchRaw s q k (ann (stored.map (·.2)) (prepare F s.cfg.metric q) (searchK s k) (searchEf s ef))

/-- exact nearest neighbours (brute force): the reference instance of `ann`. -/
def annExact (stored : List (List F.F32)) (q : List F.F32) (knbn _ef : Nat) : List (Nat × F.F32) :=
  (sortBy F.lt32 (·.2) ((List.range stored.length).zip (stored.map (fun v => l2 v q)))).take knbn

def nodupNat : List Nat → Bool
  | [] => true
  | x :: xs => !(xs.contains x) && nodupNat xs

def sortedBy {α} (lt : α → α → Bool) : List α → Bool
  | a :: b :: r => !(lt b a) && sortedBy lt (b :: r)
  | _ => true

/-- the contract assumed of one `ann` call (checked on every observed call): distinct valid
    indices, each with its L2 distance (same bits), in non-decreasing order, at most `knbn`; and when
    all stored points fit in the search breadth, `min knbn n` results none of which is farther than
    a point left out. -/
def annOk (stored : List (List F.F32)) (q : List F.F32) (knbn ef : Nat) (r : List (Nat × F.F32)) : Bool :=
  nodupNat (r.map (·.1)) &&
  r.all (fun p => match stored[p.1]? with
    | some v => F.bits32 (l2 v q) == F.bits32 p.2
    | none => false) &&
  decide (r.length ≤ knbn) &&
  sortedBy F.lt32 (r.map (·.2)) &&
  (!(decide (stored.length ≤ ef)) ||
    (r.length == min knbn stored.length &&
     ((List.range stored.length).zip stored).all (fun iv =>
        (r.map (·.1)).contains iv.1 || r.all (fun p => !(F.lt32 (l2 iv.2 q) p.2)))))

/-- `ann` honours the contract on every call. -/
def AnnContract (ann : List (List F.F32) → List F.F32 → Nat → Nat → List (Nat × F.F32)) : Prop :=
  ∀ stored q knbn ef, annOk stored q knbn ef (ann stored q knbn ef) = true

/-! ### persistence (hnsw_index.rs:482 save / 518 load) -/

/-- `PersistedHnswIndex`; the JSON text codec is outside the model (serde_json round trip of
    finite `f32`s and integers is assumed the identity, checked by the correspondence). -/
structure Persisted (F : FloatOps) where
  m : Nat
  efc : Nat
  efs : Nat
  metric : String
  dim : Nat
  vectors : List (Nat × List F.F32)
  tombs : List Nat

def save (s : Index F) : Persisted F :=
  { m := s.cfg.m, efc := s.cfg.efc, efs := s.cfg.efs, metric := metricName s.cfg.metric,
    dim := s.dim, vectors := s.vectors, tombs := s.tombs }

def load (p : Persisted F) : Option (Index F) :=
  match parseMetric p.metric with
  | none => none
  | some m => some (rebuildHnsw { vectors := p.vectors, tombs := p.tombs, inner := none, dim := p.dim,
                                  cfg := { m := p.m, efc := p.efc, efs := p.efs, metric := m } })

/-! ### histories -/

inductive Op (F : FloatOps) where
  | insert (id : Nat) (v : List F.F32)
  | insertBatch (es : List (Nat × List F.F32))
  | delete (id : Nat)
  | rebuild (vs : List (Nat × List F.F32))
  | saveLoad

def applyOp (s : Index F) : Op F → Index F
  | .insert id v => (insert s id v).1
  | .insertBatch es => (insertBatch s es).1
  | .delete id => delete s id
  | .rebuild vs => (rebuild s vs).1
  | .saveLoad => (load (save s)).getD s

def runOps (s : Index F) (ops : List (Op F)) : Index F := ops.foldl applyOp s

/-- live content: identifier ↦ latest stored vector, tombstoned identifiers removed. -/
def liveOf (s : Index F) (id : Nat) : Option (List F.F32) :=
  if isTomb s id then none else (s.vectors.find? (fun p => p.1 == id)).map (·.2)

end
end ILV.Hnsw
