/-
  Spec of C06 in the property's own vocabulary, as an executable oracle over the Datalog syntax of
  ILV.Model.Datalog: it never mentions IR trees, joins or the code generator.
-/
import ILV.Model.Datalog
import ILV.Model.F64
namespace ILV.AggSpec
open ILV ILV.DL

/-! ### Spec oracle (DESIGN §5 C06): groups = distinct bindings of the plain head variables over the
    satisfying valuations of the body; `Vals g` = the aggregated variable over the valuations of the
    group, one per combination of stored tuples (each wildcard occurrence is its own variable);
    every head term in its head position; exactly one row per group. -/

def clampI64 (n : Int) : Int := if n > i64Max then i64Max else if n < i64Min then i64Min else n

def specAggVal (f : AggF) (vals : List Value) : Option Value :=
  match f with
  | .count => some (.i64 vals.length)
  | .countDistinct => some (.i64 (dedupV vals).length)
  | .sum => (optMapM Value.asInt? vals).map (fun ns => .i64 (clampI64 (ns.foldl (· + ·) 0)))
  | .min => minV vals
  | .max => maxV vals
  | .avg =>
    match optMapM Value.asInt? vals with
    | some ns => if ns.isEmpty then none else some (.f64 (F64.div (F64.ofInt (ns.foldl (· + ·) 0)) (F64.ofInt ns.length)))
    | none => none

def specRows (hargs : List HTerm) (envs : List Env) : Option (List Tuple) :=
  let keys := dedupT (keysOf hargs envs)
  optMapM (fun k =>
    let grp := envs.filter (fun env => groupKey hargs env == some k)
    match grp with
    | [] => none
    | rep :: _ =>
      optMapM (fun (h : HTerm) =>
        match h with
        | .agg f x => specAggVal f (grp.filterMap (fun env => env.lookup x))
        | h => h.plain rep) hargs) keys

def specAnswer (db : DB) (r : Rule) : Option (List Tuple) := specRows r.hargs (bodyEnvs db.get r)


/-- every stored relation is a set -/
def dbIsSet (db : DB) : Bool := db.all (fun rt => (dedupT rt.2).length == rt.2.length)

end ILV.AggSpec
