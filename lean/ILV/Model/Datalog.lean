/-
  E2 — Datalog core shared by C01–C08 (and reusable by C18/C21–C23/C34).

  * syntax: terms, head terms (incl. aggregates), literals (positive / negated atoms, comparisons
    with integer arithmetic; an equality whose variable side is still unbound is an assignment),
    rules, programs as *lists* (order matters to the engine model, not to the Spec);
  * a one-line wire encoding of rules and facts with a parser (the harness produces it from the
    AST of the real parser, `inputlayer::parse_program`; Lean never parses IQL text);
  * clause evaluation `evalRule` (valuations by nested loops — the relational-algebra denotation
    of what `IRBuilder::build_ir` emits for one rule: scans+filters, joins on shared variable
    names, computed columns, comparison filters, antijoins, projection / aggregation);
  * the Spec oracle `pmEval`: stratified naive iteration, stratum by stratum, with a final
    whole-program fix-point check.

  Import-free except ILV.Model.*; everything is total (fuel where needed).
-/
import ILV.Model.Value
namespace ILV.DL

/-! ## Syntax -/

inductive Term where
  | var (x : String)
  | const (v : Value)
  | wild
  deriving Repr, DecidableEq, Inhabited

inductive AggF where
  | count | countDistinct | sum | min | max | avg
  deriving Repr, DecidableEq, Inhabited

inductive HTerm where
  | var (x : String)
  | const (v : Value)
  | agg (f : AggF) (x : String)
  deriving Repr, DecidableEq, Inhabited

inductive AOp where
  | add | sub | mul | div | mod
  deriving Repr, DecidableEq, Inhabited

/-- `ast::Term` restricted to what a comparison side can be: variable, integer constant,
    `Term::Arithmetic(ArithExpr)`. -/
inductive Expr where
  | var (x : String)
  | const (n : Int)
  | bin (op : AOp) (l r : Expr)
  deriving Repr, DecidableEq, Inhabited

inductive CmpOp where
  | eq | ne | lt | le | gt | ge
  deriving Repr, DecidableEq, Inhabited

structure Atom where
  rel : String
  args : List Term
  deriving Repr, DecidableEq, Inhabited

inductive Lit where
  | pos (a : Atom)
  | neg (a : Atom)
  | cmp (op : CmpOp) (l r : Expr)
  deriving Repr, DecidableEq, Inhabited

structure Rule where
  hrel : String
  hargs : List HTerm
  body : List Lit
  deriving Repr, DecidableEq, Inhabited

abbrev Program := List Rule

/-- A database: association list, first binding wins (so `(r, ts) :: db` overrides `r`,
    which is what `HashMap::insert` does in `load_inputs_into_codegen`, lib.rs:1112-1145). -/
abbrev DB := List (String × List Tuple)

def DB.get (db : DB) (r : String) : List Tuple := (db.lookup r).getD []

/-! ## Small list utilities (kept local so that proofs see plain structural definitions) -/

def dedupT : List Tuple → List Tuple
  | [] => []
  | t :: ts => if ts.contains t then dedupT ts else t :: dedupT ts

def unionT (a b : List Tuple) : List Tuple := a ++ b.filter (fun t => !a.contains t)

def subsetT (a b : List Tuple) : Bool := a.all (fun t => b.contains t)

def sameSet (a b : List Tuple) : Bool := subsetT a b && subsetT b a

def dedupS : List String → List String
  | [] => []
  | s :: ss => if ss.contains s then dedupS ss else s :: dedupS ss

/-- keep the first occurrence (first-appearance order, `get_rule_heads`, lib.rs:1060). -/
def firstOcc : List String → List String → List String
  | [], _ => []
  | s :: ss, seen => if seen.contains s then firstOcc ss seen else s :: firstOcc ss (s :: seen)

/-! ## Static structure of rules -/

def Lit.atom? : Lit → Option Atom
  | .pos a => some a | .neg a => some a | .cmp .. => none

def Rule.posAtoms (r : Rule) : List Atom := r.body.filterMap (fun | .pos a => some a | _ => none)
def Rule.negAtoms (r : Rule) : List Atom := r.body.filterMap (fun | .neg a => some a | _ => none)
def Rule.cmps (r : Rule) : List (CmpOp × Expr × Expr) :=
  r.body.filterMap (fun | .cmp o l rr => some (o, l, rr) | _ => none)

/-- relations scanned by the rule's IR (`collect_scan_relations`, lib.rs:1343: positive scans and
    the right sides of antijoins), without duplicates. -/
def Rule.scans (r : Rule) : List String := dedupS (r.body.filterMap (fun l => l.atom?.map (·.rel)))

def Rule.hasAgg (r : Rule) : Bool := r.hargs.any (fun | .agg .. => true | _ => false)

def heads (p : Program) : List String := firstOcc (p.map (·.hrel)) []

def clausesOf (p : Program) (h : String) : List Rule := p.filter (fun r => r.hrel == h)

def scansOf (p : Program) (h : String) : List String := dedupS ((clausesOf p h).flatMap (·.scans))

def Expr.vars : Expr → List String
  | .var x => [x]
  | .const _ => []
  | .bin _ l r => l.vars ++ r.vars

/-! ## Clause evaluation -/

def iter {α} (f : α → α) : Nat → α → α
  | 0, a => a
  | n + 1, a => iter f n (f a)


abbrev Env := List (String × Value)

/-- unify the argument list of an atom with a stored tuple under an environment.
    Arity mismatch = no match. -/
def matchArgs : List Term → List Value → Env → Option Env
  | [], [], env => some env
  | .var x :: as, v :: vs, env =>
    match env.lookup x with
    | some w => if w == v then matchArgs as vs env else none
    | none => matchArgs as vs ((x, v) :: env)
  | .const c :: as, v :: vs, env => if c == v then matchArgs as vs env else none
  | .wild :: as, _ :: vs, env => matchArgs as vs env
  | _, _, _ => none

/-- all extensions of the environments by the positive atoms, in body order (bag semantics:
    one result per combination of stored tuples, as the join tree of `build_ir` produces). -/
def evalPos (lk : String → List Tuple) : List Atom → List Env → List Env
  | [], envs => envs
  | a :: as, envs =>
    evalPos lk as (envs.flatMap (fun env => (lk a.rel).filterMap (fun t => matchArgs a.args t env)))

/-- integer arithmetic with the code's partiality (`eval_arith_runtime`, code_generator:1965:
    division / modulo by zero ⇒ no value; truncated division like Rust's `/` and `%`). -/
def aop : AOp → Int → Int → Option Int
  | .add, a, b => some (a + b)
  | .sub, a, b => some (a - b)
  | .mul, a, b => some (a * b)
  | .div, a, b => if b == 0 then none else some (Int.tdiv a b)
  | .mod, a, b => if b == 0 then none else some (Int.tmod a b)

def Value.asInt? : Value → Option Int
  | .i64 n => some n
  | .i32 n => some n
  | _ => none

def Expr.evalInt (env : Env) : Expr → Option Int
  | .var x => (env.lookup x).bind Value.asInt?
  | .const n => some n
  | .bin op l r =>
    match l.evalInt env, r.evalInt env with
    | some a, some b => aop op a b
    | _, _ => none

/-- value of a comparison side: a variable keeps its stored value (so non-integers compare by
    `Value.cmp`), constants and arithmetic are `Int64`. -/
def Expr.evalVal (env : Env) : Expr → Option Value
  | .var x => env.lookup x
  | e => (e.evalInt env).map Value.i64

def cmpHolds (op : CmpOp) (a b : Value) : Bool :=
  match op with
  | .eq => a == b
  | .ne => a != b
  | .lt => Value.cmp a b == .lt
  | .le => Value.cmp a b != .gt
  | .gt => Value.cmp a b == .gt
  | .ge => Value.cmp a b != .lt

def Expr.isVar : Expr → Option String
  | .var x => some x | _ => none

def bound (env : Env) (x : String) : Bool := (env.lookup x).isSome

abbrev Cmp := CmpOp × Expr × Expr

def Cmp.vars (c : Cmp) : List String := c.2.1.vars ++ c.2.2.vars

/-- does the comparison hold under a (sufficiently defined) environment? An arithmetic side
    without a value (division by zero, non-integer operand) makes the literal false. -/
def Cmp.holds (env : Env) (c : Cmp) : Bool :=
  match c.2.1.evalVal env, c.2.2.evalVal env with
  | some a, some b => cmpHolds c.1 a b
  | _, _ => false

/-! ### Spec reading of comparison literals
    All comparison literals are constraints on the valuation. An equality one of whose sides is
    a plain variable not yet bound *defines* that variable (this is how a safe rule binds
    variables outside positive atoms); definitions are propagated to a fix-point in any order,
    then every literal is checked. -/

def defines (bnd : List String) : Cmp → Option (String × Expr)
  | (.eq, .var x, e) =>
    if !bnd.contains x && e.vars.all bnd.contains then some (x, e)
    else match e with
      | .var y => if bnd.contains x && !bnd.contains y then some (y, .var x) else none
      | _ => none
  | (.eq, e, .var y) => if !bnd.contains y && e.vars.all bnd.contains then some (y, e) else none
  | _ => none

/-- one propagation round over the literals, extending the environment. -/
def bindRound (cs : List Cmp) (env : Env) : Env :=
  cs.foldl (fun env c =>
    match defines (env.map (·.1)) c with
    | some (x, e) => match e.evalVal env with
      | some v => (x, v) :: env
      | none => env
    | none => env) env

/-- valuations in which some literal still has an unbound variable are not solutions (for a
    safe rule this only happens when the defining arithmetic has no value). -/
def specCmps (cs : List Cmp) (envs : List Env) : List Env :=
  ((envs.map (iter (bindRound cs) cs.length)).filter
    (fun env => cs.all (fun c => c.vars.all (bound env)))).filter (fun env => cs.all (Cmp.holds env))

/-! ### What `IRBuilder` does with comparison literals (ir_builder:487-866)
    Pass 1 (`build_computed_columns`): in body order, over the progressively extended schema,
    an equality `V = arith` / `arith = V` with `V` not in the schema becomes a computed column,
    `V1 = V2` with exactly one side in the schema an alias column, `V = const` with `V` not in
    the schema a constant column.
    Pass 2 (`build_comparison_filters`): every comparison becomes a filter *unless*
    `is_computed_column_assignment_in_schema` says it was an assignment — and that test looks at
    the schema **before** pass 1 (`pre`), so an equality whose variable was bound by pass 1
    (not by a scan) is skipped: it was neither computed nor is it filtered. -/

inductive P1 where
  | err                       -- "Variable … not found in schema for arithmetic"
  | skip
  | col (x : String) (e : Expr)

def pass1Of (bnd : List String) : Cmp → P1
  | (.eq, .var x, .bin o l r) =>
    if bnd.contains x then .skip else if (Expr.bin o l r).vars.all bnd.contains then .col x (.bin o l r) else .err
  | (.eq, .bin o l r, .var x) =>
    if bnd.contains x then .skip else if (Expr.bin o l r).vars.all bnd.contains then .col x (.bin o l r) else .err
  | (.eq, .var x, .var y) =>
    if !bnd.contains x && bnd.contains y then .col x (.var y)
    else if bnd.contains x && !bnd.contains y then .col y (.var x) else .skip
  | (.eq, .var x, .const n) => if bnd.contains x then .skip else .col x (.const n)
  | (.eq, .const n, .var x) => if bnd.contains x then .skip else .col x (.const n)
  | _ => .skip

/-- the computed columns of pass 1, or `none` on a build error. -/
def pass1 : List Cmp → List String → Option (List (String × Expr))
  | [], _ => some []
  | c :: cs, bnd =>
    match pass1Of bnd c with
    | .err => none
    | .skip => pass1 cs bnd
    | .col x e => (pass1 cs (x :: bnd)).map ((x, e) :: ·)

/-- pass 2's skip test, on the schema before pass 1. -/
def skippedInPass2 (pre : List String) : Cmp → Bool
  | (.eq, .var x, .bin ..) => !pre.contains x
  | (.eq, .bin .., .var x) => !pre.contains x
  | (.eq, .var x, .var y) => !(pre.contains x && pre.contains y)
  | (.eq, .var x, .const _) => !pre.contains x
  | (.eq, .const _, .var x) => !pre.contains x
  | _ => false

/-- can `comparison_to_predicate` build the filter over the full schema? -/
def filterBuildable (bnd : List String) (c : Cmp) : Bool :=
  c.vars.all bnd.contains &&
  (match c.2.1, c.2.2 with
   | .bin .., .bin .. => false
   | _, _ => true)

def exprHasDivMod : Expr → Bool
  | .bin .div _ _ => true
  | .bin .mod _ _ => true
  | .bin _ l r => exprHasDivMod l || exprHasDivMod r
  | _ => false

/-- static outcome of building the comparison part of a rule over the scan schema `pre`:
    the computed columns and the literals that become filters. -/
def buildCmps (pre : List String) (cs : List Cmp) : Option (List (String × Expr) × List Cmp) :=
  match pass1 cs pre with
  | none => none
  | some cols =>
    let bnd := cols.map (·.1) ++ pre
    let fs := cs.filter (fun c => !skippedInPass2 pre c)
    if fs.all (filterBuildable bnd) then some (cols, fs) else none

def applyCols (cols : List (String × Expr)) (env : Env) : Option Env :=
  cols.foldl (fun acc xe =>
    match acc with
    | none => none
    | some env => (xe.2.evalVal env).map (fun v => (xe.1, v) :: env)) (some env)

/-- negated atom: no stored tuple matches under the environment. -/
def negHolds (lk : String → List Tuple) (a : Atom) (env : Env) : Bool :=
  (lk a.rel).all (fun t => (matchArgs a.args t env).isNone)

def evalNegs (lk : String → List Tuple) (negs : List Atom) (envs : List Env) : List Env :=
  envs.filter (fun env => negs.all (fun a => negHolds lk a env))

def Rule.posVars (r : Rule) : List String := dedupS (r.posAtoms.flatMap (fun a => a.args.filterMap (fun | .var x => some x | _ => none)))

/-- the bag of satisfying valuations of a rule body (Spec reading). -/
def bodyEnvs (lk : String → List Tuple) (r : Rule) : List Env :=
  evalNegs lk r.negAtoms (specCmps r.cmps (evalPos lk r.posAtoms [[]]))

def HTerm.plain (env : Env) : HTerm → Option Value
  | .var x => env.lookup x
  | .const v => some v
  | .agg .. => none

/-- group key = the non-aggregate head terms in head order (`build_aggregation`, ir_builder:1562). -/
def HTerm.isPlain : HTerm → Bool
  | .agg .. => false
  | _ => true

def groupKey (hargs : List HTerm) (env : Env) : Option Tuple :=
  optMapM (HTerm.plain env) (hargs.filter HTerm.isPlain)

def aggArgs (hargs : List HTerm) : List (AggF × String) :=
  hargs.filterMap (fun | .agg f x => some (f, x) | _ => none)

def minV : List Value → Option Value
  | [] => none
  | v :: vs => match minV vs with
    | some m => some (if Value.cmp v m == .gt then m else v)
    | none => some v

def maxV : List Value → Option Value
  | [] => none
  | v :: vs => match maxV vs with
    | some m => some (if Value.cmp v m == .lt then m else v)
    | none => some v

def dedupV : List Value → List Value
  | [] => []
  | v :: vs => if vs.contains v then dedupV vs else v :: dedupV vs

def i64Min : Int := -(2^63)
def i64Max : Int := 2^63 - 1
def satAdd (a b : Int) : Int := let s := a + b; if s > i64Max then i64Max else if s < i64Min then i64Min else s

/-- one aggregate over the multiset of values of the aggregated variable
    (`generate_aggregate_tuples`, code_generator:2646-2705). `avg` produces a float and is outside
    the modelled fragment (`none`). -/
def aggVal (f : AggF) (vals : List Value) : Option Value :=
  match f with
  | .count => some (.i64 vals.length)
  | .countDistinct => some (.i64 (dedupV vals).length)
  | .sum => some (.i64 (satAdd (vals.foldl (fun s v => s + (Value.asInt? v).getD 0) 0) 0))   -- exact total, clamped once (i128 accumulation)
  | .min => minV vals
  | .max => maxV vals
  | .avg => none

def keysOf (hargs : List HTerm) : List Env → List Tuple
  | [] => []
  | env :: envs => match groupKey hargs env with
    | some k => k :: keysOf hargs envs
    | none => keysOf hargs envs

/-- an aggregate rule: one output row per distinct group key: key columns, then the aggregate
    values (so an aggregate that is not last in the head is *moved* last — code_generator:2709). -/
def aggRows (hargs : List HTerm) (envs : List Env) : Option (List Tuple) :=
  let keys := dedupT (keysOf hargs envs)
  optMapM (fun k =>
    let grp := envs.filter (fun env => groupKey hargs env == some k)
    match optMapM (fun (fx : AggF × String) => aggVal fx.1 (grp.filterMap (fun env => env.lookup fx.2))) (aggArgs hargs) with
    | some avs => some (k ++ avs)
    | none => none) keys

def headRows (hargs : List HTerm) (envs : List Env) : Option (List Tuple) :=
  optMapM (fun env => optMapM (HTerm.plain env) hargs) envs

/-- Spec reading of an aggregate head: one row per distinct binding of the plain head terms, every
    head term — plain or aggregate — *in its head position*. -/
def aggRowsSpec (hargs : List HTerm) (envs : List Env) : Option (List Tuple) :=
  let keys := dedupT (keysOf hargs envs)
  optMapM (fun k =>
    let grp := envs.filter (fun env => groupKey hargs env == some k)
    match grp with
    | [] => none
    | rep :: _ =>
      optMapM (fun (h : HTerm) =>
        match h with
        | .agg f x => aggVal f (grp.filterMap (fun env => env.lookup x))
        | h => h.plain rep) hargs) keys

def headOfSpec (r : Rule) (envs : List Env) : Option (List Tuple) :=
  if r.hasAgg then aggRowsSpec r.hargs envs else headRows r.hargs envs

/-- head tuples from a bag of body valuations, as the engine emits them (`none` = outside the evaluable
    fragment: a head variable without value, `avg`). Since the repair of `build_aggregation` (a `Map` restoring the
    head order on top of the `Aggregate` node) this is the Spec reading; `aggRows` above describes the
    unrepaired plan (keys first, aggregates last) and is kept for reference only. -/
def headOf (r : Rule) (envs : List Env) : Option (List Tuple) := headOfSpec r envs

/-- The tuples one rule derives from a database (given as a lookup function): Spec reading. -/
def evalRuleLk (lk : String → List Tuple) (r : Rule) : Option (List Tuple) := headOfSpec r (bodyEnvs lk r)

def evalRule (db : DB) (r : Rule) : Option (List Tuple) := evalRuleLk db.get r

/-- union of the results of a list of rules (duplicates removed). -/
def evalRulesWith (ev : Rule → Option (List Tuple)) : List Rule → Option (List Tuple)
  | [] => some []
  | r :: rs => match ev r, evalRulesWith ev rs with
    | some a, some b => some (unionT (dedupT a) b)
    | _, _ => none

def evalRules (lk : String → List Tuple) (rs : List Rule) : Option (List Tuple) := evalRulesWith (evalRuleLk lk) rs

/-! ## Safety (what `IQLEngine::parse` checks, lib.rs:604 / ast `Rule::is_safe`) -/

def Atom.vars (a : Atom) : List String := a.args.filterMap (fun | .var x => some x | _ => none)

/-- one round of `positive_body_variables`' binding propagation through equalities. -/
def safeStep (cs : List (CmpOp × Expr × Expr)) (vs : List String) : List String :=
  cs.foldl (fun acc c =>
    match c with
    | (.eq, .var x, .var y) =>
      let acc := if acc.contains x && !acc.contains y then y :: acc else acc
      if acc.contains y && !acc.contains x then x :: acc else acc
    | (.eq, .var x, _) => if acc.contains x then acc else x :: acc
    | (.eq, _, .var y) => if acc.contains y then acc else y :: acc
    | _ => acc) vs

def Rule.safeVars (r : Rule) : List String :=
  iter (safeStep r.cmps) (r.cmps.length + 1) (r.posAtoms.flatMap Atom.vars)

def HTerm.vars : HTerm → List String
  | .var x => [x] | .agg _ x => [x] | .const _ => []

def Rule.isSafe (r : Rule) : Bool :=
  let sv := r.safeVars
  (r.hargs.flatMap HTerm.vars).all sv.contains && (r.negAtoms.flatMap Atom.vars).all sv.contains

/-! ## Spec oracle: stratified least model by naive iteration -/

/-- relations a head depends on negatively (through `!` or through an aggregate rule). -/
def Rule.strictDeps (r : Rule) : List String :=
  if r.hasAgg then r.scans else dedupS (r.negAtoms.map (·.rel))

def Rule.weakDeps (r : Rule) : List String := dedupS (r.posAtoms.map (·.rel))

abbrev Ranks := List (String × Nat)
def Ranks.get (rk : Ranks) (s : String) : Nat := (rk.lookup s).getD 0

def rankStep (p : Program) (rk : Ranks) : Ranks :=
  (heads p).map (fun h =>
    let cs := clausesOf p h
    let need := cs.foldl (fun m r =>
      let m := r.weakDeps.foldl (fun m d => max m (Ranks.get rk d)) m
      r.strictDeps.foldl (fun m d => max m (Ranks.get rk d + 1)) m) 0
    (h, need))

/-- least rank function with `pos ⇒ ≤`, `neg/agg ⇒ <`, if one exists with ranks ≤ #heads. -/
def ranksOk (p : Program) (rk : Ranks) : Bool :=
  p.all (fun r =>
    r.weakDeps.all (fun d => Ranks.get rk d ≤ Ranks.get rk r.hrel) &&
    r.strictDeps.all (fun d => Ranks.get rk d < Ranks.get rk r.hrel))

def stratify (p : Program) : Option Ranks :=
  let n := (heads p).length
  let rk := iter (rankStep p) (n + 1) ((heads p).map (fun h => (h, 0)))
  -- the computed ranks are accepted only if they are a fix-point, bounded, and *are* a stratification
  if rankStep p rk == rk && rk.all (fun hr => hr.2 ≤ n) && ranksOk p rk then some rk else none

def DB.set (db : DB) (r : String) (ts : List Tuple) : DB := (r, ts) :: db

/-- one naive round of the rules of one stratum: every head gets `old ∪ derived`. -/
def roundStratum (hs : List String) (p : Program) (db : DB) : Option DB :=
  match optMapM (fun h => (evalRules db.get (clausesOf p h)).map (fun ts => (h, unionT (db.get h) ts))) hs with
  | some upd => some (upd ++ db)
  | none => none

def sizeOn (hs : List String) (db : DB) : Nat := hs.foldl (fun n h => n + (db.get h).length) 0

/-- iterate a stratum until nothing is added; `none` = fuel exhausted or rule not evaluable. -/
def lfpStratum (hs : List String) (p : Program) : Nat → DB → Option DB
  | 0, _ => none
  | fuel + 1, db =>
    match roundStratum hs p db with
    | none => none
    | some db' => if sizeOn hs db' == sizeOn hs db then some db else lfpStratum hs p fuel db'

def evalStrata (p : Program) (rk : Ranks) (fuel : Nat) : List Nat → DB → Option DB
  | [], db => some db
  | k :: ks, db =>
    match lfpStratum ((heads p).filter (fun h => Ranks.get rk h == k)) p fuel db with
    | some db' => evalStrata p rk fuel ks db'
    | none => none

/-- whole-program supported-model check: every head is exactly its base facts plus what its rules
    derive from the database itself. -/
def isFix (p : Program) (edb db : DB) : Bool :=
  (heads p).all (fun h =>
    match evalRules db.get (clausesOf p h) with
    | some ts => sameSet (db.get h) (unionT (dedupT (edb.get h)) ts)
    | none => false)

/-- the heads' contents of `db` laid over the stored relations `edb`. -/
def overlay (hs : List String) (db edb : DB) : DB := hs.map (fun h => (h, db.get h)) ++ edb

/-- The Spec oracle. `some M`: `M` is the stratified least model (its head relations were reached
    as the limit of the stratum-wise naive iteration from `edb`, every other relation is as
    stored, and `M` passes the whole-program check `isFix`). -/
def pmEval (fuel : Nat) (p : Program) (edb : DB) : Option DB :=
  match stratify p with
  | none => none
  | some rk =>
    let start : DB := (heads p).map (fun h => (h, dedupT (edb.get h))) ++ edb
    match evalStrata p rk fuel (List.range ((heads p).length + 1)) start with
    | some db =>
      let m := overlay (heads p) db edb
      if isFix p edb m then some m else none
    | none => none

/-! ## Wire encoding

  rule  := atomH `<=` lit (`&` lit)*      (empty body: `atomH<=`)
  atomH := rel `(` hterm (`,` hterm)* `)`
  hterm := `$`var | `#`value | `@`agg`$`var
  lit   := rel`(`term,…`)` | `!`rel`(`…`)` | `?`op`~`expr`~`expr
  term  := `$`var | `#`value | `_`
  expr  := prefix form, tokens separated by `.`: `$`var | `#`int | add|sub|mul|div|mod `.` expr `.` expr
  fact  := `+`rel`(`value,…`)`
  values are `Value.toWire`.
-/

def AggF.toWire : AggF → String
  | .count => "count" | .countDistinct => "count_distinct" | .sum => "sum"
  | .min => "min" | .max => "max" | .avg => "avg"

def AggF.ofWire : String → Option AggF
  | "count" => some .count | "count_distinct" => some .countDistinct | "sum" => some .sum
  | "min" => some .min | "max" => some .max | "avg" => some .avg | _ => none

def AOp.ofWire : String → Option AOp
  | "add" => some .add | "sub" => some .sub | "mul" => some .mul
  | "div" => some .div | "mod" => some .mod | _ => none

def CmpOp.ofWire : String → Option CmpOp
  | "eq" => some .eq | "ne" => some .ne | "lt" => some .lt
  | "le" => some .le | "gt" => some .gt | "ge" => some .ge | _ => none

def dropFirst (s : String) : String := String.ofList (s.toList.drop 1)

def Term.ofWire (s : String) : Option Term :=
  if s == "_" then some .wild
  else match s.toList with
    | '$' :: cs => some (.var (String.ofList cs))
    | '#' :: cs => (Value.ofWire (String.ofList cs)).map .const
    | _ => none

def HTerm.ofWire (s : String) : Option HTerm :=
  match s.toList with
  | '$' :: cs => some (.var (String.ofList cs))
  | '#' :: cs => (Value.ofWire (String.ofList cs)).map .const
  | '@' :: cs =>
    match (String.ofList cs).splitOn "$" with
    | [f, x] => (AggF.ofWire f).map (fun f => .agg f x)
    | _ => none
  | _ => none

/-- split `rel(a,b,c)` into `rel` and the argument strings. -/
def splitAtom (s : String) : Option (String × List String) :=
  match s.splitOn "(" with
  | [rel, rest] =>
    if rest.endsWith ")" && !rel.isEmpty then
      let inner := String.ofList (rest.toList.take (rest.length - 1))
      some (rel, if inner.isEmpty then [] else inner.splitOn ",")
    else none
  | _ => none

def Atom.ofWire (s : String) : Option Atom :=
  match splitAtom s with
  | some (rel, as) => (optMapM Term.ofWire as).map (fun ts => { rel := rel, args := ts })
  | none => none

/-- prefix expression over a token list; returns the rest. -/
def parseExpr : Nat → List String → Option (Expr × List String)
  | 0, _ => none
  | _, [] => none
  | fuel + 1, t :: ts =>
    match t.toList with
    | '$' :: cs => some (.var (String.ofList cs), ts)
    | '#' :: cs => (String.ofList cs).toInt?.map (fun n => (.const n, ts))
    | _ =>
      match AOp.ofWire t with
      | none => none
      | some op =>
        match parseExpr fuel ts with
        | none => none
        | some (l, ts1) =>
          match parseExpr fuel ts1 with
          | none => none
          | some (r, ts2) => some (.bin op l r, ts2)

def Expr.ofWire (s : String) : Option Expr :=
  let toks := s.splitOn "."
  match parseExpr (toks.length + 1) toks with
  | some (e, []) => some e
  | _ => none

def Lit.ofWire (s : String) : Option Lit :=
  match s.toList with
  | '!' :: cs => (Atom.ofWire (String.ofList cs)).map .neg
  | '?' :: cs =>
    match (String.ofList cs).splitOn "~" with
    | [o, l, r] =>
      match CmpOp.ofWire o, Expr.ofWire l, Expr.ofWire r with
      | some o, some l, some r => some (.cmp o l r)
      | _, _, _ => none
    | _ => none
  | _ => (Atom.ofWire s).map .pos

def Rule.ofWire (s : String) : Option Rule :=
  match s.splitOn "<=" with
  | [h, b] =>
    match splitAtom h with
    | some (rel, as) =>
      match optMapM HTerm.ofWire as, optMapM Lit.ofWire (if b.isEmpty then [] else b.splitOn "&") with
      | some hs, some ls => some { hrel := rel, hargs := hs, body := ls }
      | _, _ => none
    | none => none
  | _ => none

def factOfWire (s : String) : Option (String × Tuple) :=
  match s.toList with
  | '+' :: cs =>
    match splitAtom (String.ofList cs) with
    | some (rel, as) => (optMapM Value.ofWire as).map (fun vs => (rel, vs))
    | none => none
  | _ => none

/-- add a fact at the end of its relation (relations in first-appearance order). -/
def DB.addFact : DB → String → Tuple → DB
  | [], r, t => [(r, [t])]
  | (r', ts) :: db, r, t => if r' == r then (r', ts ++ [t]) :: db else (r', ts) :: DB.addFact db r t

/-- items of a request (`+fact` or rule, the separators `;` already removed) → (edb, program). -/
def parseItems : List String → DB → Program → Option (DB × Program)
  | [], db, p => some (db, p.reverse)
  | s :: ss, db, p =>
    if s.startsWith "+" then
      match factOfWire s with
      | some (r, t) => parseItems ss (db.addFact r t) p
      | none => none
    else
      match Rule.ofWire s with
      | some r => parseItems ss db (r :: p)
      | none => none

/-- canonical rendering of a relation: wire forms sorted as strings, joined by `;`; `{}` if empty
    (mirror of `rel_to_wire` in harness/src/common.rs). -/
def relToWire (ts : List Tuple) : String :=
  let ws := sortBy (fun (a b : String) => !(b < a)) (ts.map Tuple.toWire)
  if ws.isEmpty then "{}" else joinWith ";" ws

end ILV.DL
