/-
  Model of the distance / norm / quantisation functions of `src/vector_ops.rs`, over the float
  parameter `FloatOps`.  Each definition follows the loop structure of the Rust function: one
  accumulation order, the same initial accumulator (`Iterator::sum` of floats starts at `-0.0`,
  explicit `let mut x = 0.0` loops start at `+0.0`), the same early returns.
-/
import ILV.Model.FloatOps
namespace ILV.VecOps
open ILV

variable (F : FloatOps)

/-- `a.iter().zip(b).map(|(x,y)| {let d = x-y; d*d}).sum::<f32>()` (vector_ops.rs:92-99). -/
def sumSqDiff : List F.F32 → List F.F32 → F.F32 → F.F32
  | x :: xs, y :: ys, acc => sumSqDiff xs ys (F.add32 acc (F.mul32 (F.sub32 x y) (F.sub32 x y)))
  | _, _, acc => acc

/-- vector_ops.rs:87 `euclidean_distance`. -/
def euclid (a b : List F.F32) : F.F64 :=
  if a.length != b.length then F.inf64 else F.sqrt64 (F.to64 (sumSqDiff F a b F.negZero32))

/-- vector_ops.rs:109 `euclidean_distance_squared`. -/
def euclidSq (a b : List F.F32) : F.F64 :=
  if a.length != b.length then F.inf64 else F.to64 (sumSqDiff F a b F.negZero32)

/-- the single pass of `cosine_distance` (vector_ops.rs:149-153): (dot, ‖a‖², ‖b‖²). -/
def cosAcc : List F.F32 → List F.F32 → F.F32 × F.F32 × F.F32 → F.F32 × F.F32 × F.F32
  | x :: xs, y :: ys, (d, na, nb) =>
      cosAcc xs ys (F.add32 d (F.mul32 x y), F.add32 na (F.mul32 x x), F.add32 nb (F.mul32 y y))
  | _, _, acc => acc

/-- vector_ops.rs:155-164. -/
def cosFinish (d na nb : F.F32) : F.F64 :=
  let normA := F.sqrt64 (F.to64 na)
  let normB := F.sqrt64 (F.to64 nb)
  if F.eq64 normA F.zero64 || F.eq64 normB F.zero64 then F.zero64
  else F.sub64 F.one64 (F.clamp64 (F.div64 (F.to64 d) (F.mul64 normA normB)) F.negOne64 F.one64)

/-- vector_ops.rs:139 `cosine_distance`. -/
def cosine (a b : List F.F32) : F.F64 :=
  if a.length != b.length then F.inf64
  else match cosAcc F a b (F.zero32, F.zero32, F.zero32) with
    | (d, na, nb) => cosFinish F d na nb

def dotAcc : List F.F32 → List F.F32 → F.F64 → F.F64
  | x :: xs, y :: ys, acc => dotAcc xs ys (F.add64 acc (F.mul64 (F.to64 x) (F.to64 y)))
  | _, _, acc => acc

/-- vector_ops.rs:175 `dot_product` (`0.0` on a length mismatch). -/
def dot (a b : List F.F32) : F.F64 :=
  if a.length != b.length then F.zero64 else dotAcc F a b F.negZero64

def manhAcc : List F.F32 → List F.F32 → F.F64 → F.F64
  | x :: xs, y :: ys, acc => manhAcc xs ys (F.add64 acc (F.abs64 (F.to64 (F.sub32 x y))))
  | _, _, acc => acc

/-- vector_ops.rs:194 `manhattan_distance`. -/
def manhattan (a b : List F.F32) : F.F64 :=
  if a.length != b.length then F.inf64 else manhAcc F a b F.negZero64

/-- result of the `_checked` variants (vector_ops.rs:277-376). -/
inductive Checked (α : Type) where
  | ok (x : α)
  | dim (expected got : Nat)

def checked (f : List F.F32 → List F.F32 → F.F64) (a b : List F.F32) : Checked F.F64 :=
  if a.isEmpty && b.isEmpty then .ok F.zero64
  else if a.length != b.length then .dim a.length b.length
  else .ok (f a b)

def sumSq : List F.F32 → F.F32 → F.F32
  | x :: xs, acc => sumSq xs (F.add32 acc (F.mul32 x x))
  | [], acc => acc

/-- vector_ops.rs:381 `vector_norm`. -/
def norm (v : List F.F32) : F.F64 := F.sqrt64 (F.to64 (sumSq F v F.negZero32))

/-- vector_ops.rs:390 `normalize`. -/
def normalize (v : List F.F32) : List F.F32 :=
  let n := norm F v
  if F.eq64 n F.zero64 then v.map (fun _ => F.zero32)
  else let n32 := F.to32 n; v.map (fun x => F.div32 x n32)

/-! ### int8 quantisation (vector_ops.rs:450-549) -/

def c127 : F.F32 := F.ofInt32 127
def c128 : F.F32 := F.ofInt32 128
def c255 : F.F32 := F.ofInt32 255

/-- vector_ops.rs:450 `quantize_vector_linear`. -/
def quantLinear (v : List F.F32) : List Int :=
  if v.isEmpty then [] else
  let mn := v.foldl F.min32 F.inf32
  let mx := v.foldl F.max32 F.negInf32
  let range := F.sub32 mx mn
  if F.eq32 range F.zero32 then v.map (fun _ => 0)
  else v.map (fun x =>
    let normalized := F.div32 (F.sub32 x mn) range
    let scaled := F.sub32 (F.mul32 normalized (c255 F)) (c128 F)
    F.toI8 (F.clamp32 (F.round32 scaled) (F.ofInt32 (-128)) (c127 F)))

/-- `v.iter().map(|x| x.abs()).fold(0.0f32, f32::max)`. -/
def maxAbs (v : List F.F32) : F.F32 := (v.map F.abs32).foldl F.max32 F.zero32

/-- vector_ops.rs:487 `quantize_vector_symmetric`. -/
def quantSym (v : List F.F32) : List Int :=
  if v.isEmpty then [] else
  let m := maxAbs F v
  if F.eq32 m F.zero32 then v.map (fun _ => 0)
  else
    let scale := F.div32 (c127 F) m
    v.map (fun x => F.toI8 (F.clamp32 (F.round32 (F.mul32 x scale)) (F.ofInt32 (-127)) (c127 F)))

/-- vector_ops.rs:535 `dequantize_vector`. -/
def dequant (q : List Int) : List F.F32 := q.map F.ofInt32
/-- vector_ops.rs:547 `dequantize_vector_with_scale`. -/
def dequantScale (q : List Int) (s : F.F32) : List F.F32 := q.map (fun x => F.mul32 (F.ofInt32 x) s)

/-! ### int8 distances (vector_ops.rs:562-679): integer accumulation, one float conversion -/

def zipInt (f : Int → Int → Int) : List Int → List Int → Int
  | x :: xs, y :: ys => f x y + zipInt f xs ys
  | _, _ => 0

def euclidI8 (a b : List Int) : F.F64 :=
  if a.length != b.length then F.inf64 else F.sqrt64 (F.ofInt64 (zipInt (fun x y => (x - y) * (x - y)) a b))

def cosineI8 (a b : List Int) : F.F64 :=
  if a.length != b.length then F.inf64 else
  let d := zipInt (fun x y => x * y) a b
  let na := zipInt (fun x _ => x * x) a b
  let nb := zipInt (fun _ y => y * y) a b
  if na == 0 || nb == 0 then F.one64
  else F.sub64 F.one64 (F.clamp64 (F.div64 (F.ofInt64 d) (F.mul64 (F.sqrt64 (F.ofInt64 na)) (F.sqrt64 (F.ofInt64 nb)))) F.negOne64 F.one64)

def dotI8 (a b : List Int) : F.F64 :=
  if a.length != b.length then F.zero64 else F.ofInt64 (zipInt (fun x y => x * y) a b)

def manhattanI8 (a b : List Int) : F.F64 :=
  if a.length != b.length then F.inf64 else F.ofInt64 (zipInt (fun x y => ((x - y).natAbs : Int)) a b)

end ILV.VecOps
