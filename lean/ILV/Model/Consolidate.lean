/-
  Model of `src/storage/persist/consolidate.rs`: `consolidate_to_current` and `consolidate`.
  `slice::sort_by` is a stable sort; for a total order its result is the unique stable sorted
  permutation, which is what stable insertion sort computes. `diff` is an unbounded `Int`
  (the code uses i64; sums of ±1 updates never approach the bounds).
-/
import ILV.Model.Value
namespace ILV

structure Upd where
  data : Tuple
  time : Nat
  diff : Int
  deriving Repr, DecidableEq

/-- stable insertion of `x` (an element that came *earlier* in the input) into a sorted list. -/
def insertLe {α} (le : α → α → Bool) (x : α) : List α → List α
  | [] => [x]
  | y :: ys => if le x y then x :: y :: ys else y :: insertLe le x ys

def stableSort {α} (le : α → α → Bool) (l : List α) : List α := l.foldr (insertLe le) []

/-- the write-index loop (consolidate.rs:44-66): `cur` is `updates[write_idx]`. -/
def mergeRun (same : Upd → Upd → Bool) : Upd → List Upd → List Upd
  | cur, [] => if cur.diff != 0 then [cur] else []
  | cur, u :: us =>
    if same cur u then mergeRun same { cur with diff := cur.diff + u.diff } us
    else (if cur.diff != 0 then [cur] else []) ++ mergeRun same u us

def leData (a b : Upd) : Bool := Tuple.cmp a.data b.data != .gt
def sameData (a b : Upd) : Bool := Tuple.eq a.data b.data

/-- `consolidate_to_current` (consolidate.rs:73). -/
def consolidateToCurrent (l : List Upd) : List Upd :=
  match stableSort leData l with
  | [] => []
  | u :: us => mergeRun sameData u us

def cmpDataTime (a b : Upd) : Ordering :=
  match Tuple.cmp a.data b.data with
  | .eq => compare a.time b.time
  | o => o
def leDataTime (a b : Upd) : Bool := cmpDataTime a b != .gt
def sameDataTime (a b : Upd) : Bool := Tuple.eq a.data b.data && a.time == b.time

/-- `consolidate` (consolidate.rs:32). -/
def consolidate (l : List Upd) : List Upd :=
  match stableSort leDataTime l with
  | [] => []
  | u :: us => mergeRun sameDataTime u us

/-- `to_tuples`: tuples with positive multiplicity. -/
def toTuples (l : List Upd) : List Tuple := (l.filter (fun u => u.diff > 0)).map (·.data)

def Upd.toWire (u : Upd) : String := s!"{Tuple.toWire u.data}@{u.time}@{u.diff}"
def Upd.ofWire (s : String) : Option Upd :=
  match s.splitOn "@" with
  | [d, t, k] => match Tuple.ofWire d, parseNat t, parseInt k with
    | some d, some t, some k => some ⟨d, t, k⟩
    | _, _, _ => none
  | _ => none

end ILV

namespace ILV
/-- Spec vocabulary: the net multiplicity of tuple `t` in an update list. -/
def sumFor (t : Tuple) : List Upd → Int
  | [] => 0
  | u :: us => (if u.data = t then u.diff else 0) + sumFor t us

/-- executable Spec oracle for "`out` is the consolidation of `inp`" (ignoring times). -/
def consolidatedOk (inp out : List Upd) : Bool :=
  (inp.all fun u => sumFor u.data out == sumFor u.data inp) &&
  (out.all fun u => u.diff != 0 && sumFor u.data out == u.diff && (inp.any fun v => v.data == u.data))
/-- same, keyed on (data, time) — the Spec of `consolidate`. -/
def sumForDT (t : Tuple) (tm : Nat) : List Upd → Int
  | [] => 0
  | u :: us => (if u.data = t ∧ u.time = tm then u.diff else 0) + sumForDT t tm us

def consolidatedOkDT (inp out : List Upd) : Bool :=
  (inp.all fun u => sumForDT u.data u.time out == sumForDT u.data u.time inp) &&
  (out.all fun u => u.diff != 0 && sumForDT u.data u.time out == u.diff &&
    (inp.any fun v => v.data == u.data && v.time == u.time))
end ILV
