/-
  Spec layer of C21–C23: what a derivation is, the verified proof-tree checker `valid`, the
  why-not blocker checker `blockerHolds`, and an executable stratified evaluator `pmEval`
  (the oracle for "is this tuple in the perfect model" on the small generated programs).

  Truth of values: two values denote the same datum when `valuesEqual` says so (integers compare
  numerically across the two widths, floats by IEEE `==`, everything else structurally).
-/
import ILV.Model.Prov
namespace ILV.Prov
open ILV

def tupleLooseEq : Tuple → Tuple → Bool
  | [], [] => true
  | a :: as, b :: bs => valuesEqual a b && tupleLooseEq as bs
  | _, _ => false

/-- membership up to `valuesEqual`. -/
def memL (t : Tuple) (ts : List Tuple) : Bool := ts.any (tupleLooseEq t)

/-- all facts of a relation that are true in the world `(base, M)`: stored ones and derived ones. -/
def world (base M : DB) (rel : String) : List Tuple := base.get rel ++ M.get rel

/-- a body/head argument is satisfied by a value under (total enough) bindings. -/
def argMatches (β : Bindings) : Term → Value → Bool
  | .var x, v => match β.lookup x with
    | some e => valuesEqual e v
    | none => false
  | .wild, _ => true
  | t, v => match termToValue t with
    | some e => valuesEqual e v
    | none => false

def argsMatch (β : Bindings) : List Term → Tuple → Bool
  | [], [] => true
  | t :: ts, v :: vs => argMatches β t v && argsMatch β ts vs
  | _, _ => false

/-- a head is instantiated to `t` by `β`: like a body atom, but `_` is not allowed in a head. -/
def headMatches (β : Bindings) (args : List Term) (t : Tuple) : Bool :=
  args.all (fun a => a != .wild) && argsMatch β args t

/-- the negated atom `a` is blocked by the fact `t` under `β`: `t` matches the pattern, the
    variables not bound by `β` being existential (consistently for repeated occurrences). -/
def negBlockedBy (β : Bindings) (a : Atom) (t : Tuple) : Bool := (matchTuple (substituteAtom a β) t).isSome

/-- satisfaction of a rule body under `β`: positive atoms against `P` (what is derivable so far),
    negated atoms against the whole world `W`, comparisons evaluated. -/
def SatBody (P : String → Tuple → Prop) (W : String → List Tuple) (β : Bindings) : List Lit → Prop
  | [] => True
  | .pos a :: ls => (∃ t, P a.rel t ∧ argsMatch β a.args t = true) ∧ SatBody P W β ls
  | .neg a :: ls => (∀ t ∈ W a.rel, negBlockedBy β a t = false) ∧ SatBody P W β ls
  | .cmp l op r :: ls => evalCmp l op r β = some true ∧ SatBody P W β ls
  | .other :: _ => False

/-- `DerivN n rel t`: `rel(t)` has a derivation of height ≤ n from the stored facts, negation being
    judged against the world `(base, M)`. -/
def DerivN (prog : Program) (base M : DB) : Nat → String → Tuple → Prop
  | 0, rel, t => memL t (base.get rel) = true
  | n + 1, rel, t => DerivN prog base M n rel t ∨
      ∃ r ∈ prog, r.head.rel = rel ∧ ∃ β, headMatches β r.head.args t = true ∧
        SatBody (DerivN prog base M n) (world base M) β r.body

def Derivable (prog : Program) (base M : DB) (rel : String) (t : Tuple) : Prop :=
  ∃ n, DerivN prog base M n rel t

/-- `M` contains only derivable facts. -/
def MSound (prog : Program) (base M : DB) : Prop :=
  ∀ rel t, memL t (M.get rel) = true → Derivable prog base M rel t

/-- `M` is the (perfect) model: exactly the derivable facts that are not stored facts need not be
    separated — `world` is what is true. -/
def MComplete (prog : Program) (base M : DB) : Prop :=
  ∀ rel t, Derivable prog base M rel t → memL t (world base M rel) = true

/-! ### the proof-tree checker -/

def Tree.isNeg : Tree → Bool
  | .node (.neg _) _ _ _ => true
  | _ => false

/-- literals that own a child in a rule node (comparisons do not). -/
def Lit.needsChild : Lit → Bool
  | .cmp _ _ _ => false
  | _ => true

/-- every comparison of the body evaluates to true under `β`. -/
def cmpsHold (β : Bindings) : List Lit → Bool
  | [] => true
  | .cmp l op r :: ls => evalCmp l op r β == some true && cmpsHold β ls
  | _ :: ls => cmpsHold β ls

mutual
/-- `valid prog base M tree`: the tree is a correct derivation of its conclusion.
    * fact/edb leaf: a stored fact;
    * fact/derived leaf: *unexplained*, accepted iff the conclusion is in the world (true but not
      justified — counted against C22, not C21);
    * truncated leaf: an explicit "not explained further" marker, not a derivation step — accepted
      here (C21 constrains rule steps, fact leaves and negation leaves), counted against C22; the
      soundness theorem concludes derivability only for trees without truncated nodes;
    * rule node: names clause `idx`, its bindings instantiate the head to the conclusion, the
      children are, in body order, a valid proof of an instance of each positive atom and a
      negation leaf for each negated atom whose pattern has no matching fact in the world, and
      every comparison holds;
    * a negation node is not a derivation by itself. -/
def valid (prog : Program) (base M : DB) : Tree → Bool
  | .node (.fact .edb) pred args kids => memL args (base.get pred) && kids.isEmpty
  | .node (.fact .derived) pred args kids => memL args (world base M pred) && kids.isEmpty
  | .node (.trunc _) _ _ kids => kids.isEmpty
  | .node (.neg _) _ _ _ => false
  | .node (.rule idx β) pred args kids =>
    match prog[idx]? with
    | none => false
    | some r => r.head.rel == pred && headMatches β r.head.args args && cmpsHold β r.body &&
        validKids prog base M β (r.body.filter Lit.needsChild) kids
/-- children against the child-owning literals of the body, left to right. -/
def validKids (prog : Program) (base M : DB) (β : Bindings) : List Lit → List Tree → Bool
  | [], [] => true
  | .pos a :: ls, k :: ks =>
    (k.pred == a.rel && argsMatch β a.args k.args && valid prog base M k) &&
    validKids prog base M β ls ks
  | .neg a :: ls, k :: ks =>
    (match k.kind with
     | .neg pat =>
        k.pred == a.rel && pat == substituteAtom a β &&
        k.args == concPart (substituteAtom a β) &&
        (world base M a.rel).all (fun t => !negBlockedBy β a t)
     | _ => false) &&
    validKids prog base M β ls ks
  | _, _ => false
end

/-! ### measures on trees (C22) -/

mutual
def Tree.hasTrunc : Tree → Bool
  | .node (.trunc _) _ _ _ => true
  | .node _ _ _ kids => Tree.hasTruncList kids
def Tree.hasTruncList : List Tree → Bool
  | [] => false
  | k :: ks => k.hasTrunc || Tree.hasTruncList ks
end

mutual
def Tree.depth : Tree → Nat
  | .node _ _ _ kids => 1 + Tree.depthList kids
def Tree.depthList : List Tree → Nat
  | [] => 0
  | k :: ks => max k.depth (Tree.depthList ks)
end

mutual
/-- no truncated node and no `fact/derived` leaf anywhere: every step is justified. -/
def Tree.complete : Tree → Bool
  | .node (.trunc _) _ _ _ => false
  | .node (.fact .derived) _ _ _ => false
  | .node _ _ _ kids => Tree.completeList kids
def Tree.completeList : List Tree → Bool
  | [] => true
  | k :: ks => k.complete && Tree.completeList ks
end

/-! ### executable evaluator (oracle) -/

/-- Spec-side value of a head constant: the engine stores integers as `Int64`. -/
def specConst : Term → Option Value
  | .int n => some (.i64 n)
  | t => termToValue t

def specHeadTuple (β : Bindings) : List Term → Option Tuple
  | [] => some []
  | .var x :: ts => match β.lookup x, specHeadTuple β ts with
    | some v, some vs => some (v :: vs)
    | _, _ => none
  | t :: ts => match specConst t, specHeadTuple β ts with
    | some v, some vs => some (v :: vs)
    | _, _ => none

/-- all extensions of `β` that satisfy one literal; positive atoms against `P`, negated ones against `W`. -/
def evalLit (P W : String → List Tuple) (l : Lit) (β : Bindings) : List Bindings :=
  match l with
  | .pos a => (P a.rel).filterMap (fun t => (matchTuple (substituteAtom a β) t).map (· ++ β))
  | .neg a => if (W a.rel).all (fun t => !negBlockedBy β a t) then [β] else []
  | .cmp x op y => if evalCmp x op y β == some true then [β] else []
  | .other => []

def evalBody (P W : String → List Tuple) : List Lit → List Bindings → List Bindings
  | [], bs => bs
  | l :: ls, bs => evalBody P W ls (bs.flatMap (evalLit P W l))

def insertL (t : Tuple) (ts : List Tuple) : List Tuple := if memL t ts then ts else ts ++ [t]

/-- one application of every rule of `rules`: new head facts are added to `cur`. -/
def applyRules (base : DB) (W : String → List Tuple) : List Rule → DB → DB → DB
  | [], _, acc => acc
  | r :: rs, cur, acc =>
    let P := fun rel => world base cur rel
    let heads := (evalBody P W r.body [[]]).filterMap (fun β => specHeadTuple β r.head.args)
    let acc' := heads.foldl (fun (a : DB) t =>
      if memL t (world base a r.head.rel) then a
      else if a.has r.head.rel then a.map (fun p => if p.1 == r.head.rel then (p.1, p.2 ++ [t]) else p)
      else a ++ [(r.head.rel, [t])]) acc
    applyRules base W rs cur acc'

def dbSize (db : DB) : Nat := (db.map (fun p => p.2.length)).foldl (· + ·) 0

/-- least fix-point of `rules` over `base ∪ M0` with negation judged against `W` (fuel-bounded). -/
def lfpRules (base : DB) (W : String → List Tuple) (rules : List Rule) : Nat → DB → DB × Bool
  | 0, m => (m, false)
  | fuel + 1, m =>
    let m' := applyRules base W rules m m
    if dbSize m' == dbSize m then (m, true) else lfpRules base W rules fuel m'

def relsOf (prog : Program) : List String :=
  (prog.flatMap (fun r => r.head.rel :: r.body.filterMap (fun | .pos a => some a.rel | .neg a => some a.rel | _ => none))).eraseDups

/-- stratum numbers by relaxation: `rank head ≥ rank pos`, `rank head > rank neg`. -/
def relaxRanks (prog : Program) (rk : List (String × Nat)) : List (String × Nat) :=
  prog.foldl (fun rk r =>
    let get := fun (x : String) => (rk.lookup x).getD 0
    let need := r.body.foldl (fun m l => match l with
      | .pos a => max m (get a.rel)
      | .neg a => max m (get a.rel + 1)
      | _ => m) (get r.head.rel)
    rk.map (fun p => if p.1 == r.head.rel then (p.1, need) else p)) rk

def ranksFix (prog : Program) : Nat → List (String × Nat) → Option (List (String × Nat))
  | 0, _ => none
  | fuel + 1, rk =>
    let rk' := relaxRanks prog rk
    if rk' == rk then some rk else ranksFix prog fuel rk'

/-- stratification, `none` when the program has recursion through negation. -/
def ranks (prog : Program) : Option (List (String × Nat)) :=
  let rels := relsOf prog
  match ranksFix prog (rels.length * rels.length + 2) (rels.map (fun r => (r, 0))) with
  | some rk => if rk.all (fun p => p.2 ≤ rels.length) then some rk else none
  | none => none

def evalStrata (prog : Program) (base : DB) (rk : List (String × Nat)) (fuel : Nat) : List Nat → DB → Option DB
  | [], m => some m
  | k :: ks, m =>
    let rules := prog.filter (fun r => (rk.lookup r.head.rel).getD 0 == k)
    let r := lfpRules base (world base m) rules fuel m
    if r.2 then evalStrata prog base rk fuel ks r.1 else none

/-- the derived part of the perfect model (`none`: unstratified or fuel exhausted). -/
def pmEval (prog : Program) (base : DB) (fuel : Nat := 200) : Option DB :=
  match ranks prog with
  | none => none
  | some rk =>
    let maxk := rk.foldl (fun m p => max m p.2) 0
    evalStrata prog base rk fuel (List.range (maxk + 1)) []

/-- least height of a derivation of `rel(t)` (depth in the sense of `Tree.depth`, a stored fact has
    depth 1), by staged evaluation with negation against the finished model `M`. -/
def stageDepth (prog : Program) (base M : DB) (rel : String) (t : Tuple) : Nat → Nat → DB → Option Nat
  | 0, _, _ => none
  | fuel + 1, n, cur =>
    if memL t (world base cur rel) then some (n + 1) else
    let cur' := applyRules base (world base M) prog cur cur
    if dbSize cur' == dbSize cur then none else stageDepth prog base M rel t fuel (n + 1) cur'

def refDepth (prog : Program) (base M : DB) (rel : String) (t : Tuple) : Option Nat :=
  stageDepth prog base M rel t 200 0 []

/-! ### why-not explanations (C23) -/

/-- does a reported blocker genuinely hold, in the world `(base, M)`, for clause `r` under the
    bindings `β` the explanation reports? -/
def blockerHolds (base M : DB) (r : Rule) (target : Tuple) (β : Bindings) : Blocker → Bool
  | .headMismatch => (unifyHead target r.head).isNone
  | .atomFailed i rel _ =>
    match r.body[i]? with
    | some (.pos a) => a.rel == rel && (world base M rel).all (fun t => !negBlockedBy β a t)
    | _ => false
  | .negSucceeded i rel t =>
    match r.body[i]? with
    | some (.neg a) => a.rel == rel && (world base M rel).contains t && negBlockedBy β a t
    | _ => false
  | .cmpFailed i =>
    match r.body[i]? with
    | some (.cmp x op y) => evalCmp x op y β == some false
    | _ => false
  | .cmpError i =>
    match r.body[i]? with
    | some (.cmp x op y) => evalCmp x op y β == none
    | _ => false

def varsOf (args : List Term) : List String := args.filterMap (fun | .var x => some x | _ => none)

/-- safe negation: every variable of a negated atom occurs in the head or in an earlier positive atom. -/
def safeNegAux : List Lit → List String → Bool
  | [], _ => true
  | .pos a :: ls, bound => safeNegAux ls (varsOf a.args ++ bound)
  | .neg a :: ls, bound => (varsOf a.args).all (fun x => bound.contains x) && safeNegAux ls bound
  | _ :: ls, bound => safeNegAux ls bound

def Rule.terms (r : Rule) : List Term :=
  r.head.args ++ r.body.flatMap (fun | .pos a => a.args | .neg a => a.args | .cmp l _ r => [l, r] | .other => [])

def goodV (v : Value) : Bool := valuesEqual v v
def goodDB (db : DB) : Bool := db.all (fun p => p.2.all (fun t => t.all goodV))
def Term.good (t : Term) : Bool := match termToValue t with | some v => goodV v | none => true

/-- well-formedness for `C21` (the whole stratified fragment, negation over derived relations and
    repeated variables included), as a decidable predicate: supported terms only; no `_` in heads; safe
    negation (a negated atom's variables occur in the head or in an earlier positive atom); a positive
    atom over a relation with rules has the arity of that relation's heads; no NaN constant; no variable
    spelled `_placeholder_…`. -/
def c21Fragment (prog : Program) : Bool :=
  prog.all (fun r =>
    r.supported && r.head.args.all (fun a => a != .wild) && safeNegAux r.body (varsOf r.head.args) &&
    r.terms.all Term.good && (varsOf r.terms).all (fun x => !isPlaceholderName x) &&
    r.body.all (fun
      | .pos a => prog.all (fun r' => r'.head.rel != a.rel || r'.head.args.length == a.args.length)
      | _ => true))

/-- the derived data has tuples only for relations that have rules. -/
def derivedOnlyHeads (prog : Program) (M : DB) : Bool :=
  M.all (fun p => prog.any (fun r => r.head.rel == p.1) || p.2.isEmpty)

/-- does the relation have at least one rule? (`ProofContext::is_derived`) -/
def hasRulesFor (p : Program) (rel : String) : Bool := p.any (fun r => r.head.rel == rel)

def headVars (r : Rule) : List String := r.head.args.filterMap (fun | .var x => some x | _ => none)

/-- every variable of every *positive* body atom occurs in the head: once the head is unified with the
    target no positive atom has a choice to make. -/
def Rule.noChoice (r : Rule) : Bool :=
  r.body.all (fun | .pos a => a.args.all (fun | .var x => (headVars r).contains x | _ => true) | _ => true)

/-- every body atom (positive or negated) is over a relation without rules; no unsupported literal. -/
def Rule.baseOnly (p : Program) (r : Rule) : Bool :=
  r.body.all (fun | .pos a => !hasRulesFor p a.rel | .neg a => !hasRulesFor p a.rel | .cmp _ _ _ => true | .other => false)

/-- no head variable is spelled like the internal `_placeholder_<n>` names. -/
def Rule.plainVars (r : Rule) : Bool := (headVars r).all (fun x => !isPlaceholderName x)

/-- can clause `r` derive `target` in the world `(base, M)`? -/
def clauseFires (base M : DB) (r : Rule) (target : Tuple) : Bool :=
  match unifyHead target r.head with
  | none => false
  | some β0 => !(evalBody (world base M) (world base M) r.body [β0]).isEmpty

/-- C23's Spec on one explanation: if some clause of the relation derives the tuple, not every
    clause may be reported blocked; otherwise every clause must carry a blocker that holds. -/
def truthful (prog : Program) (base M : DB) (rel : String) (target : Tuple) (expl : List ClauseExpl) : Bool :=
  let clauses := prog.filter (fun r => r.head.rel == rel)
  if clauses.any (fun r => clauseFires base M r target) then expl.any (fun c => c.blocker.isNone)
  else expl.length == clauses.length &&
    (clauses.zip expl).all (fun p => match p.2.blocker with
      | none => false
      | some b => blockerHolds base M p.1 target p.2.bindings b)

/-- canonical stored values: what the engine stores and derives — integers are `Int64`, no floats
    (`valuesEqual` is then plain equality). -/
def canonV : Value → Bool
  | .i32 _ => false
  | .f64 _ => false
  | _ => true
def canonDB (db : DB) : Bool := db.all (fun p => p.2.all (fun t => t.all canonV))

def rankOf (rk : List (String × Nat)) (rel : String) : Nat := (rk.lookup rel).getD 0

/-- the fragment of `C22_partial`: positive bodies only (no negation, no comparison), supported terms,
    non-recursive with the given rank table (every body relation ranks strictly below the head),
    relations with rules store no facts, only they have derived tuples, canonical data, at least one
    proof per tuple allowed. -/
def c22Fragment (prog : Program) (base M : DB) (rk : List (String × Nat)) : Bool :=
  prog.all (fun r =>
    r.supported && (base.get r.head.rel).isEmpty &&
    r.body.all (fun
      | .pos a => decide (rankOf rk a.rel < rankOf rk r.head.rel)
      | _ => false)) &&
  derivedOnlyHeads prog M && canonDB base && canonDB M

/-- every derived tuple is supported by a clause instance over the world `(base, M)` (one step of the
    immediate-consequence operator, run by the reference evaluator): true of the perfect model. -/
def supportedModel (prog : Program) (base M : DB) : Bool :=
  M.all (fun p => p.2.all (fun t =>
    (prog.filter (fun r => r.head.rel == p.1)).any (fun r =>
      match unifyHead t r.head with
      | none => false
      | some β0 => !(evalBody (world base M) (world base M) r.body [β0]).isEmpty)))

end ILV.Prov
