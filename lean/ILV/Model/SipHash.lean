/-
  SipHash-1-3 with key (0,0) of one little-endian `u64` — what
  `let mut h = DefaultHasher::new(); seed.hash(&mut h); h.finish()` computes on the pinned
  toolchain (`random_f32_from_seed`, src/vector_ops.rs:891).  `DefaultHasher`'s algorithm is not
  part of Rust's stability promise: the models take the hash as a parameter `hash : Nat → Nat`;
  this file is the instance the driver uses, and the correspondence run checks it against the
  real bucket values.
-/
namespace ILV.SipHash

def M : Nat := 2 ^ 64
def rotl (x k : Nat) : Nat := ((x <<< k) ||| (x >>> (64 - k))) % M

structure St where
  v0 : Nat
  v1 : Nat
  v2 : Nat
  v3 : Nat

def round (s : St) : St :=
  let v0 := (s.v0 + s.v1) % M
  let v1 := rotl s.v1 13
  let v1 := v1 ^^^ v0
  let v0 := rotl v0 32
  let v2 := (s.v2 + s.v3) % M
  let v3 := rotl s.v3 16
  let v3 := v3 ^^^ v2
  let v0 := (v0 + v3) % M
  let v3 := rotl v3 21
  let v3 := v3 ^^^ v0
  let v2 := (v2 + v1) % M
  let v1 := rotl v1 17
  let v1 := v1 ^^^ v2
  let v2 := rotl v2 32
  { v0, v1, v2, v3 }

/-- hash of the 8 bytes of `x` (one full message word, then the length word `8 << 56`). -/
def hashU64 (x : Nat) : Nat :=
  let m := x % M
  let s : St := { v0 := 0x736f6d6570736575, v1 := 0x646f72616e646f6d, v2 := 0x6c7967656e657261, v3 := 0x7465646279746573 }
  let s := { s with v3 := s.v3 ^^^ m }
  let s := round s
  let s := { s with v0 := s.v0 ^^^ m }
  let b := 8 <<< 56
  let s := { s with v3 := s.v3 ^^^ b }
  let s := round s
  let s := { s with v0 := s.v0 ^^^ b }
  let s := { s with v2 := s.v2 ^^^ 0xff }
  let s := round (round (round s))
  s.v0 ^^^ s.v1 ^^^ s.v2 ^^^ s.v3

end ILV.SipHash
