/-
  Well-formedness of IR trees relative to a database (decidable):
  declared schema widths equal the row arities the operator produces, every column index used for
  projection / keys / grouping is in range, union branches have one width, every `Scan`'s rows have
  the scan's arity, ranking aggregates are excluded, and the tree is *clean*: it contains no
  `Filter(_, False)` and no empty `Union` (both make `output_schema()` misreport widths after
  `eliminate_always_false_filters`, optimizer/mod.rs:908).  This is what `IRBuilder` produces except
  for compile-time-false comparisons.
-/
import ILV.Model.IROpt
namespace ILV.IR

def allLt (l : List Nat) (n : Nat) : Bool := l.all (fun i => i < n)

/-- number of positions `i, i+1, …, i+n-1` not in `ex` (= arity of `excluding` on an `n`-tuple) -/
def keptCount (ex : List Nat) : Nat → Nat → Nat
  | _, 0 => 0
  | i, n + 1 => (if ex.contains i then 0 else 1) + keptCount ex (i + 1) n

def nodupNat : List Nat → Bool
  | [] => true
  | x :: xs => !xs.contains x && nodupNat xs

def joinWidth (wl wr : Nat) (lk rk : List Nat) : Nat :=
  if lk.isEmpty && rk.isEmpty then wl + wr else wl + keptCount rk 0 wr

mutual
def wf (db : Db) : Node → Bool
  | .scan rel s => (db.get rel).all (fun row => row.length == s.length)
  | .map i proj s => wf db i && allLt proj (width i) && s.length == proj.length
  | .filter i p => wf db i && p != .ff
  | .join l r lk rk s =>
    wf db l && wf db r && allLt lk (width l) && allLt rk (width r) && s.length == joinWidth (width l) (width r) lk rk
      && lk.length == rk.length && nodupNat rk
  | .distinct i => wf db i
  | .union is => !is.isEmpty && wfL db is && sameWidth (schemaFirst is).length is
  | .aggregate i gb aggs s =>
    wf db i && allLt gb (width i) && s.length == gb.length + aggs.length && aggs.all (fun a => !a.1.isRanking)
  | .antijoin l r lk rk s => wf db l && wf db r && allLt lk (width l) && allLt rk (width r) && s.length == width l
  | .compute i _ => wf db i
  | .hnsw _ _ _ _ _ => true
  | .flatMap i proj _ s => wf db i && allLt proj (width i) && s.length == proj.length
  | .joinFlatMap l r lk rk proj _ s =>
    wf db l && wf db r && allLt lk (width l) && allLt rk (width r) && allLt proj (width l + width r) && s.length == proj.length
def wfL (db : Db) : NodeList → Bool
  | .nil => true
  | .cons t ts => wf db t && wfL db ts
def sameWidth (w : Nat) : NodeList → Bool
  | .nil => true
  | .cons t ts => width t == w && sameWidth w ts
end

end ILV.IR

namespace ILV.IR

mutual
/-- no `Aggregate` anywhere in the tree -/
def aggFree : Node → Bool
  | .aggregate .. => false
  | .scan .. => true
  | .hnsw .. => true
  | .map i _ _ => aggFree i
  | .filter i _ => aggFree i
  | .join l r _ _ _ => aggFree l && aggFree r
  | .distinct i => aggFree i
  | .union is => aggFreeL is
  | .antijoin l r _ _ _ => aggFree l && aggFree r
  | .compute i _ => aggFree i
  | .flatMap i _ _ _ => aggFree i
  | .joinFlatMap l r _ _ _ _ _ => aggFree l && aggFree r
def aggFreeL : NodeList → Bool
  | .nil => true
  | .cons t ts => aggFree t && aggFreeL ts
end

/-- equality as sets -/
def SetEq (a b : List Tuple) : Prop := ∀ x, x ∈ a ↔ x ∈ b

end ILV.IR

namespace ILV.IR

/-- join trees over (filtered) scans: what `IRBuilder` puts below an `Aggregate` in the C06 fragment -/
def isSetPlan : Node → Bool
  | .scan _ _ => true
  | .filter i _ => isSetPlan i
  | .join l r _ _ _ => isSetPlan l && isSetPlan r
  | _ => false

/-- every stored relation is a set -/
def DbSet (db : Db) : Prop := ∀ rel, (db.get rel).Nodup

end ILV.IR
