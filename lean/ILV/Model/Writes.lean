/-
  E10 (write statements) — model of the data statements of `Handler::query_program`
  (src/protocol/handler.rs): `Statement::Insert` :2600, `Statement::Delete` :2723 (single tuple, bulk,
  conditional :2793), `Statement::Update` :2971. Each of them ends in
  `StorageEngine::insert_tuples_into` / `delete_tuples_from`, modelled by ILV.Model.Store.

  Conditional delete and update first run a query over the current snapshot
  (`execute_query_with_rules_tuples_on`); its answer is a *parameter* (`Answer`) of the model — the
  engine is C01's subject. The driver instantiates it with the reference evaluator `refAnswer` below
  (conjunctive bodies with safe negation and comparisons over the stored values), whose rows come
  sorted by `Tuple.cmp`, which is the order the engine returns them in (checked by the `ord` items).
-/
import ILV.Model.Store
namespace ILV.Writes
open ILV ILV.Store

inductive Tm where
  | var (n : String)
  | const (v : Int)          -- `Term::Constant` → `Value::Int64`
  | wild                     -- `Term::Placeholder`
  deriving DecidableEq, Repr

inductive CmpOp where
  | eq | ne | lt | le | gt | ge
  deriving DecidableEq, Repr

inductive Lit where
  | pos (rel : String) (args : List Tm)
  | neg (rel : String) (args : List Tm)
  | cmp (op : CmpOp) (l r : Tm)
  deriving Repr

abbrev Target := String × List Tm

/-! ### reference evaluator (stands for the engine's answer) -/

abbrev Binding := List (String × Value)

def bget (b : Binding) (v : String) : Option Value :=
  match b with
  | [] => none
  | (k, x) :: rest => if k = v then some x else bget rest v

/-- unify an argument list with a tuple under a binding. -/
def matchArgs : List Tm → Tuple → Binding → Option Binding
  | [], [], b => some b
  | .wild :: as, _ :: vs, b => matchArgs as vs b
  | .const c :: as, v :: vs, b => if v = Value.i64 c then matchArgs as vs b else none
  | .var x :: as, v :: vs, b =>
    match bget b x with
    | some w => if w = v then matchArgs as vs b else none
    | none => matchArgs as vs (b ++ [(x, v)])
  | _, _, _ => none

def tmValue (b : Binding) : Tm → Option Value
  | .var x => bget b x
  | .const c => some (.i64 c)
  | .wild => none

def cmpHolds (op : CmpOp) (a b : Value) : Bool :=
  match op with
  | .eq => Value.cmp a b == .eq
  | .ne => Value.cmp a b != .eq
  | .lt => Value.cmp a b == .lt
  | .le => Value.cmp a b != .gt
  | .gt => Value.cmp a b == .gt
  | .ge => Value.cmp a b != .lt

/-- one literal applied to a set of partial bindings; `none` = the rule is unsafe (unbound variable in
    a comparison or a negated atom), which the engine rejects. -/
def evalLit (db : String → List Tuple) (l : Lit) (bs : List Binding) : Option (List Binding) :=
  match l with
  | .pos rel args => some ((bs.map (fun b => (db rel).filterMap (fun t => matchArgs args t b))).flatten)
  | .neg rel args =>
    if bs.all (fun b => args.all (fun a => match a with | .var x => (bget b x).isSome | _ => true)) then
      some (bs.filter (fun b => !((db rel).any (fun t => (matchArgs args t b).isSome))))
    else none
  | .cmp op l r =>
    if bs.all (fun b => (tmValue b l).isSome && (tmValue b r).isSome) then
      some (bs.filter (fun b => match tmValue b l, tmValue b r with
        | some x, some y => cmpHolds op x y
        | _, _ => false))
    else none

def evalBody (db : String → List Tuple) : List Lit → List Binding → Option (List Binding)
  | [], bs => some bs
  | l :: ls, bs => match evalLit db l bs with
    | some bs' => evalBody db ls bs'
    | none => none

def leTuple (a b : Tuple) : Bool := Tuple.cmp a b != .gt

/-- the rows of `q(vars) <- body`: distinct, ascending. `none` = the engine returns an error. -/
def refAnswer (db : String → List Tuple) (vars : List String) (body : List Lit) : Option (List Tuple) :=
  match evalBody db body [[]] with
  | none => none
  | some bs =>
    match optMapM (fun b => optMapM (bget b) vars) bs with
    | none => none
    | some rows => some (sortBy leTuple (dedupBy (fun a b => decide (a = b)) rows))

/-! ### the statements -/

/-- the query answer used by conditional delete / update, as a function of the live database. -/
abbrev Answer := (String → List Tuple) → List String → List Lit → Option (List Tuple)

def addVars (acc : List String) : List Tm → List String
  | [] => acc
  | .var x :: as => addVars (if acc.contains x then acc else acc ++ [x]) as
  | _ :: as => addVars acc as

def rowBinding : List String → Tuple → Binding
  | v :: vs, x :: xs => (v, x) :: rowBinding vs xs
  | _, _ => []

/-- conditional delete (:2850-2886): a variable takes its binding, a constant is an `Int64`,
    anything else (the wildcard) makes the row invalid. -/
def instHead (b : Binding) (args : List Tm) : Option Tuple := optMapM (tmValue b) args

inductive Msg where
  | inserted (n : Nat)
  | deleted (n : Nat)
  | condDeleted (n : Nat)
  | updated (d i : Nat)
  | err (kind : String)
  deriving Repr, DecidableEq

def errKind (k : String) : String := if k.startsWith "arity" then "arity" else "other"

/-- a run of single-tuple deletes (`delete_tuples_from(.., vec![t])?` in a loop). -/
def deleteSeq (c : Codec) : Engine → String → List Tuple → Nat → Engine × Except String Nat
  | e, _, [], acc => (e, .ok acc)
  | e, rel, t :: ts, acc =>
    match deleteCore c e rel [t] with
    | (e', .ok n) => deleteSeq c e' rel ts (acc + n)
    | (e', .error k) => (e', .error k)

def dbOf (e : Engine) : String → List Tuple := liveOf e

/-- one binding of an update (:3026-3066): every delete target, then every insert target. -/
def updTargets (c : Codec) (del : Bool) (b : Binding) : Engine → List Target → Nat → Engine × Except String Nat
  | e, [], acc => (e, .ok acc)
  | e, (rel, args) :: ts, acc =>
    match instHead b args with
    | none => updTargets c del b e ts acc
    | some t =>
      if del then
        match deleteCore c e rel [t] with
        | (e', .ok n) => updTargets c del b e' ts (acc + n)
        | (e', .error k) => (e', .error k)
      else
        match insertCore c e rel [t] with
        | (e', .ok (n, _)) => updTargets c del b e' ts (acc + n)
        | (e', .error k) => (e', .error k)

def updRows (c : Codec) (vars : List String) (dels inss : List Target) :
    Engine → List Tuple → Nat → Nat → Engine × Except String (Nat × Nat)
  | e, [], d, i => (e, .ok (d, i))
  | e, row :: rows, d, i =>
    let b := rowBinding vars row
    match updTargets c true b e dels d with
    | (e1, .error k) => (e1, .error k)
    | (e1, .ok d') =>
      match updTargets c false b e1 inss i with
      | (e2, .error k) => (e2, .error k)
      | (e2, .ok i') => updRows c vars dels inss e2 rows d' i'

/-! ### an update as a sequence of primitive single-tuple deletes / inserts -/

inductive Prim where
  | del (rel : String) (t : Tuple)
  | ins (rel : String) (t : Tuple)
  deriving DecidableEq, Repr

def targetPrims (del : Bool) (b : Binding) (ts : List Target) : List Prim :=
  ts.filterMap (fun t => (instHead b t.2).map (fun x => if del then Prim.del t.1 x else Prim.ins t.1 x))

/-- one binding: its delete tuples, then its insert tuples. -/
def rowPrims (vars : List String) (dels inss : List Target) (row : Tuple) : List Prim :=
  targetPrims true (rowBinding vars row) dels ++ targetPrims false (rowBinding vars row) inss

def updPrims (vars : List String) (dels inss : List Target) (rows : List Tuple) : List Prim :=
  (rows.map (rowPrims vars dels inss)).flatten

/-- some tuple inserted for a binding is a delete tuple of a *later* binding. -/
def laterDelete (vars : List String) (dels inss : List Target) : List Tuple → Bool
  | [] => false
  | row :: rows =>
    (targetPrims false (rowBinding vars row) inss).any (fun p => match p with
      | .ins rel t => (updPrims vars dels inss rows).contains (.del rel t)
      | .del _ _ => false) || laterDelete vars dels inss rows

inductive WOp where
  | ins (rel : String) (ts : List Tuple)
  | del (rel : String) (t : Tuple)
  | delb (rel : String) (ts : List Tuple)
  | delc (rel : String) (head : List Tm) (body : List Lit)
  | upd (dels inss : List Target) (body : List Lit)
  | obs
  | ord (vars : List String) (body : List Lit)
  | bad
  deriving Repr

def updVars (dels inss : List Target) : List String :=
  let v1 := dels.foldl (fun acc t => addVars acc t.2) []
  inss.foldl (fun acc t => addVars acc t.2) v1

/-- one write statement; observations are handled by the driver. -/
def exec (c : Codec) (ans : Answer) (e : Engine) : WOp → Engine × Msg
  | .ins rel ts =>
    match insertCore c e rel (ts.filter (fun t => !t.isEmpty)) with
    | (e', .ok (n, _)) => (e', .inserted n)
    | (e', .error k) => (e', .err (errKind k))
  | .del rel t =>
    if t.isEmpty then (e, .err "nomsg") else
    match deleteCore c e rel [t] with
    | (e', .ok n) => (e', .deleted n)
    | (e', .error k) => (e', .err (errKind k))
  | .delb rel ts =>
    match deleteSeq c e rel ts 0 with
    | (e', .ok n) => (e', .deleted n)
    | (e', .error k) => (e', .err (errKind k))
  | .delc rel head body =>
    let vars := addVars [] head
    match ans (dbOf e) vars (.pos rel head :: body) with
    | none => (e, .err "other")
    | some rows =>
      let ts := (rows.filterMap (fun row => instHead (rowBinding vars row) head)).filter (fun t => !t.isEmpty)
      match deleteSeq c e rel ts 0 with
      | (e', .ok n) => (e', .condDeleted n)
      | (e', .error k) => (e', .err (errKind k))
  | .upd dels inss body =>
    let vars := updVars dels inss
    match ans (dbOf e) vars body with
    | none => (e, .err "other")
    | some rows =>
      match updRows c vars dels inss e rows 0 0 with
      | (e', .ok (d, i)) => (e', .updated d i)
      | (e', .error k) => (e', .err (errKind k))
  | _ => (e, .err "nomsg")

def Msg.toTok : Msg → String
  | .inserted n => s!"I{n}"
  | .deleted n => s!"D{n}"
  | .condDeleted n => s!"C{n}"
  | .updated d i => s!"U{d}/{i}"
  | .err k => "err:" ++ k

end ILV.Writes
