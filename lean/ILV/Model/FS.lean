/-
  E6 core — abstract file system with explicit crash semantics, shared by C16 (catalog files)
  and C13 (persist layer).  Generic in the path type `π` and the record type `ρ`.

  A file is a sequence of *items*.  An item is a complete record, or the torn fragment of a
  record (fragments are only ever produced by `crash`).  Every file remembers which of its items
  are known to be on stable storage (`synced`) and which were written since the last `fsync`
  (`unsynced`).

  POSIX contract assumed (DESIGN §2, *strict* model): `rename` / `unlink` / create+truncate are
  atomic and durable in program order; data written by `write(2)` is durable only after `fsync`
  of the file; at a crash any prefix of the unsynced data of each file may have reached the disk,
  cut at any byte (`Cut`: number of whole records kept + kind of the trailing fragment).
-/
namespace ILV.FS

/-- kind of the trailing fragment left by a torn write.
  `clean`: cut exactly at a record boundary; `part`: somewhere inside the record (at a character
  boundary, at least one byte present and at least two missing); `nonl`: everything but the last byte
  of the record (for a line-structured file: the line without its newline); `midchar`: inside a
  multi-byte UTF-8 character of the record. -/
inductive Frag where
  | clean | part | nonl | midchar
  deriving DecidableEq, Repr, Inhabited

inductive Item (ρ : Type) where
  | whole (r : ρ)
  | torn (fr : Frag) (r : ρ)
  deriving DecidableEq, Repr

structure File (ρ : Type) where
  synced : List (Item ρ) := []
  unsynced : List (Item ρ) := []
  deriving DecidableEq, Repr

def File.items {ρ} (f : File ρ) : List (Item ρ) := f.synced ++ f.unsynced

abbrev Files (π ρ : Type) := List (π × File ρ)

section
variable {π ρ : Type} [DecidableEq π]

def get (fs : Files π ρ) (p : π) : Option (File ρ) :=
  match fs with
  | [] => none
  | (q, f) :: rest => if q = p then some f else get rest p

def del (fs : Files π ρ) (p : π) : Files π ρ :=
  match fs with
  | [] => []
  | (q, f) :: rest => if q = p then del rest p else (q, f) :: del rest p

def put (fs : Files π ρ) (p : π) (f : File ρ) : Files π ρ := (p, f) :: del fs p

def paths (fs : Files π ρ) : List π := fs.map (·.1)

/-- the file-system mutations the anchored code performs. -/
inductive Op (π ρ : Type) where
  | write (p : π) (recs : List ρ)     -- create/truncate + write, no fsync (`fs::write`, `File::create` + write)
  | append (p : π) (recs : List ρ)    -- `O_APPEND` write (creates the file if missing)
  | fsync (p : π)
  | rename (a b : π)
  | unlink (p : π)
  | nop (label : Nat)                 -- mkdir / directory fsync: no effect in the strict model
  deriving Repr

def apply (fs : Files π ρ) : Op π ρ → Files π ρ
  | .write p rs => put fs p { synced := [], unsynced := rs.map .whole }
  | .append p rs =>
    match get fs p with
    | some f => put fs p { f with unsynced := f.unsynced ++ rs.map .whole }
    | none => put fs p { synced := [], unsynced := rs.map .whole }
  | .fsync p =>
    match get fs p with
    | some f => put fs p { synced := f.items, unsynced := [] }
    | none => fs
  | .rename a b =>
    match get fs a with
    | some f => put (del fs a) b f
    | none => fs
  | .unlink p => del fs p
  | .nop _ => fs

def applyAll (fs : Files π ρ) (ops : List (Op π ρ)) : Files π ρ := ops.foldl apply fs

/-- how much of a file's unsynced data survives a crash. -/
structure Cut where
  keep : Nat
  frag : Frag
  deriving DecidableEq, Repr

def cutItems (us : List (Item ρ)) (c : Cut) : List (Item ρ) :=
  match c.frag, us.drop c.keep with
  | .clean, _ => us.take c.keep
  | fr, (.whole r) :: _ => us.take c.keep ++ [.torn fr r]
  | _, _ => us.take c.keep

def crashFile (f : File ρ) (c : Option Cut) : File ρ :=
  { synced := f.synced ++ (match c with
      | none => f.unsynced
      | some c => cutItems f.unsynced c),
    unsynced := [] }

/-- the disk image after a crash: per file, the synced items plus the chosen prefix of the
  unsynced ones (`cuts p = none`: everything written so far reached the disk). -/
def crash (fs : Files π ρ) (cuts : π → Option Cut) : Files π ρ :=
  match fs with
  | [] => []
  | (p, f) :: rest => (p, crashFile f (cuts p)) :: crash rest cuts

def noCut : π → Option Cut := fun _ => none
def cutAt (p : π) (c : Cut) : π → Option Cut := fun q => if q = p then some c else none

end
end ILV.FS
