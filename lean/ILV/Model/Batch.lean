/-
  E5 (codec part) — what a tuple looks like after it went through the two on-disk encodings of the
  persist layer:

  * the WAL line (`storage/persist/wal.rs:92 append_inner`, JSON via `value/mod.rs:605 Serialize for
    Value` / `:655 Deserialize`), read back by `wal.rs:156 read_all` which *skips* lines that fail to parse;
  * the batch file (`storage/persist/mod.rs:696 write_updates_parquet`): column types are inferred from
    the **first** update (`mod.rs:670 infer_schema_from_updates`, `value/mod.rs:227 data_type`), every
    column is built by `value/arrow_convert.rs:114 build_column_array` (`as_*` accessor, `None` on a kind
    mismatch), and read back by `arrow_convert.rs:265 extract_value_from_array`.

  Trusted parameters (exercised by the correspondence run, not modelled further): arrow/parquet write
  and read back a *homogeneous* column unchanged (bit-exact for floats); `serde_json` prints and
  re-parses finite floats, integers and strings unchanged and prints non-finite floats as `null`.
-/
import ILV.Model.Value
namespace ILV.Batch
open ILV

/-- `value::DataType` as produced by `Value::data_type` (vectors carry their actual length). -/
inductive DType where
  | i32 | i64 | f64 | str | bool | null | ts
  | vec (dim : Nat)
  | vec8 (dim : Nat)
  deriving DecidableEq, Repr

/-- `Value::data_type` (value/mod.rs:227). -/
def dataType : Value → DType
  | .i32 _ => .i32 | .i64 _ => .i64 | .f64 _ => .f64 | .str _ => .str | .bool _ => .bool
  | .null => .null | .ts _ => .ts | .vec l => .vec l.length | .vec8 l => .vec8 l.length

/-- `infer_schema_from_updates`: the kinds of the first tuple. -/
def inferSchema (first : Tuple) : List DType := first.map dataType

/-! ### integer → double (`as f64`, round to nearest, ties to even) on bit patterns -/

def natLog2 (n : Nat) : Nat := Nat.log2 n

/-- bits of `(m as f64)` for a magnitude `0 < m ≤ 2^63`. -/
def magToF64Bits (m : Nat) : Nat :=
  let e := natLog2 m
  if e ≤ 52 then (e + 1023) * 2^52 + (m * 2^(52 - e) - 2^52)
  else
    let sh := e - 52
    let q := m / 2^sh
    let r := m % 2^sh
    let half := 2^(sh - 1)
    let q' := if r > half || (r == half && q % 2 == 1) then q + 1 else q
    if q' == 2^53 then (e + 1 + 1023) * 2^52 else (e + 1023) * 2^52 + (q' - 2^52)

def intToF64Bits (n : Int) : Nat :=
  if n == 0 then 0
  else if n < 0 then 2^63 + magToF64Bits n.natAbs
  else magToF64Bits n.natAbs

def inI32 (n : Int) : Bool := decide (-(2^31 : Int) ≤ n) && decide (n < (2^31 : Int))

/-! ### one cell of a scalar column: `as_*` on write, `extract_value_from_array` on read -/

/-- value read back from a column of type `ty` for a written value `v`
    (`Value.null` when the accessor returned `None`). Vector columns are handled column-wise below. -/
def coerceScalar : DType → Value → Value
  | .i32, .i32 n => .i32 n
  | .i32, .i64 n => if inI32 n then .i32 n else .null      -- `as_i32`: `try_into().ok()`
  | .i64, .i32 n => .i64 n                                   -- `as_i64`
  | .i64, .i64 n => .i64 n
  | .i64, .ts n => .i64 n
  | .f64, .f64 b => .f64 b                                   -- `as_f64`
  | .f64, .i32 n => .f64 (intToF64Bits n)
  | .f64, .i64 n => .f64 (intToF64Bits n)
  | .str, .str s => .str s
  | .bool, .bool b => .bool b
  | .ts, .ts n => .ts n           -- arrow `Timestamp(Millisecond)` column, read back as `Timestamp`
  | .ts, .i64 n => .ts n          -- `as_timestamp` accepts Int64
  | _, _ => .null

def chunks {α} (dim : Nat) : Nat → List α → List (List α)
  | 0, _ => []
  | n + 1, l => l.take dim :: chunks dim n (l.drop dim)

/-- a `Vector { dim: Some(dim) }` column (`arrow_convert.rs:163`): the vectors are concatenated, a
    non-vector cell is padded with `dim` zeros, the `FixedSizeListArray` has `⌊total / dim⌋` rows (no
    remainder check, arrow-array `fixed_size_list_array.rs:155`; `0` rows when `dim = 0`), and
    `RecordBatch::try_new` rejects the batch when that differs from the row count. -/
def vecCells (dim : Nat) : Value → List Nat
  | .vec l => l
  | _ => List.replicate dim 0
def vec8Cells (dim : Nat) : Value → List Int
  | .vec8 l => l
  | _ => List.replicate dim 0

def vecColumn (dim : Nat) (col : List Value) : Option (List Value) :=
  -- dimension 0 uses the variable-length `LargeList` encoding: vectors of any length are kept, a
  -- non-vector cell becomes the empty vector (offset unchanged, no validity buffer)
  if dim == 0 then some (col.map (fun v => Value.vec (vecCells 0 v))) else
  let flat : List Nat := (col.map (vecCells dim)).flatten
  let len := if dim == 0 then 0 else flat.length / dim
  if len == col.length then some ((chunks dim len flat).map Value.vec) else none

def vec8Column (dim : Nat) (col : List Value) : Option (List Value) :=
  if dim == 0 then some (col.map (fun v => Value.vec8 (vec8Cells 0 v))) else
  let flat : List Int := (col.map (vec8Cells dim)).flatten
  let len := if dim == 0 then 0 else flat.length / dim
  if len == col.length then some ((chunks dim len flat).map Value.vec8) else none

/-- one column, written and read back; `none` = the batch cannot be written (`Arrow` error). -/
def column (ty : DType) (col : List Value) : Option (List Value) :=
  match ty with
  | .null => some (col.map (fun _ => Value.null))   -- `NullArray`: every cell reads back as `Null`
  | .vec d => vecColumn d col
  | .vec8 d => vec8Column d col
  | t => some (col.map (coerceScalar t))

/-- an update of the (data, time, diff) log (`storage/persist/batch.rs:17`). -/
structure Update where
  data : Tuple
  time : Nat
  diff : Int
  deriving DecidableEq, Repr, Inhabited

def colAt (i : Nat) (rows : List Tuple) : List Value := rows.map (fun r => r.getD i Value.null)

/-- all columns of the batch, written and read back (`tuples_to_record_batch` / `record_batch_to_tuples`). -/
def columnsBack : Nat → List DType → List Tuple → Option (List (List Value))
  | _, [], _ => some []
  | i, ty :: tys, rows =>
    match column ty (colAt i rows), columnsBack (i + 1) tys rows with
    | some c, some cs => some (c :: cs)
    | _, _ => none

def rowsOf : Nat → Nat → List (List Value) → List Tuple
  | 0, _, _ => []
  | n + 1, j, cols => cols.map (fun c => c.getD j Value.null) :: rowsOf n (j + 1) cols

/-- error kinds of a failed batch write, as the harness names them. -/
def errArity : String := "arrow-arity"
def errArrow : String := "arrow"

/-- the tuples of a batch after `write_updates_parquet` ∘ `read_updates_parquet`.
    * empty buffer: nothing is written (`mod.rs:697`);
    * a tuple whose arity differs from the first one: `SchemaMismatch` (`arrow_convert.rs:55`);
    * zero columns: the row count is stated explicitly, the rows come back as empty tuples;
    * otherwise column by column. -/
def tuplesBack (rows : List Tuple) : Except String (List Tuple) :=
  match rows with
  | [] => .ok []
  | first :: _ =>
    let schema := inferSchema first
    if !(rows.all (fun r => r.length == schema.length)) then .error errArity
    else match columnsBack 0 schema rows with
      | none => .error errArrow
      | some cols => .ok (rowsOf rows.length 0 cols)

def rezip : List Update → List Tuple → List Update
  | u :: us, t :: ts => { u with data := t } :: rezip us ts
  | _, _ => []

/-- batch-file round trip of a buffer (time and diff columns are plain `UInt64`/`Int64` arrays). -/
def batchCodec (us : List Update) : Except String (List Update) :=
  match tuplesBack (us.map (·.data)) with
  | .ok ts => .ok (rezip us ts)
  | .error e => .error e

/-! ### WAL line -/

def f64Finite (b : Nat) : Bool := (b / 2^52) % 2048 != 2047
def f32Finite (b : Nat) : Bool := (b / 2^23) % 256 != 255

/-- does the JSON form of the value parse back (`serde_json` writes NaN/±inf as `null`, which is not
    a number; the whole WAL line is then skipped by `read_all`). -/
def jsonSafe : Value → Bool
  | .f64 b => f64Finite b
  | .vec l => l.all f32Finite
  | _ => true

/-- what `read_all` returns for the line written for `u`: the same update, or nothing. -/
def walCodec (u : Update) : Option Update := if u.data.all jsonSafe then some u else none

end ILV.Batch
