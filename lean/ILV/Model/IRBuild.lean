/-
  Model of `IRBuilder::build_ir` (ir_builder/mod.rs:40) for the fragment C06 is about:
  positive atoms with variables / integer constants / wildcards / repeated variables,
  comparisons between bound variables and integer constants, and a head of variables and
  aggregates (`build_aggregation`, 1562) or of variables only (`build_projection`, 1275).
  Anything else (negation, assignments, arithmetic, head constants) is outside: `none`.
  Join keys are listed in left-column order (the code iterates a `HashSet`; the harness sorts the
  key pairs of the real tree the same way before comparing).
-/
import ILV.Model.Datalog
import ILV.Model.IROpt
namespace ILV.IRBuild
open ILV ILV.IR

/-- `build_scan` schema names (288-330) -/
def scanNames (rel : String) (bi : Nat) : Nat → List DL.Term → List String
  | _, [] => []
  | i, t :: ts =>
    (match t with
     | .var x => x
     | .const _ => s!"_const_a{bi}_c{i}"
     | .wild => s!"_ph_a{bi}_{rel}_{i}") :: scanNames rel bi (i + 1) ts

/-- constant filters in column order (195-223); only integer constants are in the fragment -/
def constFilters : Nat → List DL.Term → Option (List Pred)
  | _, [] => some []
  | i, t :: ts =>
    match constFilters (i + 1) ts with
    | none => none
    | some rest =>
      match t with
      | .const (.i64 n) => some (Pred.cc .eq i n :: rest)
      | .const _ => none
      | _ => some rest

def firstIdx (x : String) : List String → Nat → Option Nat
  | [], _ => none
  | y :: ys, i => if x == y then some i else firstIdx x ys (i + 1)

/-- equality filters for repeated variables: `ColumnsEq(first, i)` (225-240) -/
def repFilters (args : List DL.Term) : List Pred :=
  let rec go (seen : List (Nat × String)) (i : Nat) : List DL.Term → List Pred
    | [] => []
    | .var x :: ts =>
      (match seen.find? (fun p => p.2 == x) with
       | some (f, _) => [Pred.kk .eq f i]
       | none => []) ++ go (seen ++ [(i, x)]) (i + 1) ts
    | _ :: ts => go seen (i + 1) ts
  go [] 0 args

def wrapFilters (t : Node) : List Pred → Node
  | [] => t
  | p :: ps => wrapFilters (.filter t p) ps

def buildScan (bi : Nat) (a : DL.Atom) : Option Node :=
  match constFilters 0 a.args with
  | none => none
  | some cf => some (wrapFilters (.scan a.rel (scanNames a.rel bi 0 a.args)) (cf ++ repFilters a.args))

/-- `build_join` (333-364): keys = shared names at their first positions -/
def joinKeys (ls rs : List String) : List (Nat × Nat) :=
  let rec go (i : Nat) (seen : List String) : List String → List (Nat × Nat)
    | [] => []
    | n :: ns =>
      (if seen.contains n then [] else
        match firstIdx n rs 0 with
        | some j => [(i, j)]
        | none => []) ++ go (i + 1) (n :: seen) ns
  go 0 [] ls

def buildJoin (l r : Node) : Node :=
  let ls := schema l
  let rs := schema r
  let ks := joinKeys ls rs
  let rk := ks.map (·.2)
  .join l r (ks.map (·.1)) rk (ls ++ ((rs.zipIdx.filter (fun (p : String × Nat) => !rk.contains p.2)).map (·.1)))

/-- positive atoms with their body index -/
def posAtoms : Nat → List DL.Lit → List (Nat × DL.Atom)
  | _, [] => []
  | i, .pos a :: ls => (i, a) :: posAtoms (i + 1) ls
  | i, _ :: ls => posAtoms (i + 1) ls

def buildJoins : Node → List (Nat × DL.Atom) → Option Node
  | cur, [] => some cur
  | cur, (bi, a) :: rest =>
    match buildScan bi a with
    | none => none
    | some s => buildJoins (buildJoin cur s) rest

def cmpOf : DL.CmpOp → CmpOp
  | .eq => .eq | .ne => .ne | .lt => .lt | .le => .le | .gt => .gt | .ge => .ge
/-- `5 < X` becomes `X > 5` (comparison_to_predicate, constant on the left) -/
def cmpSwap : DL.CmpOp → CmpOp
  | .eq => .eq | .ne => .ne | .lt => .gt | .le => .ge | .gt => .lt | .ge => .le

def cmpPred (sch : List String) : DL.CmpOp × DL.Expr × DL.Expr → Option Pred
  | (op, .var x, .var y) => match firstIdx x sch 0, firstIdx y sch 0 with
    | some i, some j => some (.kk (cmpOf op) i j)
    | _, _ => none
  | (op, .var x, .const n) => (firstIdx x sch 0).map (fun i => .cc (cmpOf op) i n)
  | (op, .const n, .var x) => (firstIdx x sch 0).map (fun i => .cc (cmpSwap op) i n)
  | _ => none

def aggName : DL.AggF → String
  | .count => "count" | .countDistinct => "count_distinct" | .sum => "sum" | .min => "min" | .max => "max" | .avg => "avg"
def aggOf : DL.AggF → Agg
  | .count => .count | .countDistinct => .countDistinct | .sum => .sum | .min => .min | .max => .max | .avg => .avg

/-- position of every head term in the rows the `Aggregate` node emits (keys first, then aggregates) -/
def headSlots : List DL.HTerm → Nat → Nat → Nat → List Nat
  | [], _, _, _ => []
  | .var _ :: hs, nk, ki, ai => ki :: headSlots hs nk (ki + 1) ai
  | .agg _ _ :: hs, nk, ki, ai => (nk + ai) :: headSlots hs nk ki (ai + 1)
  | .const _ :: hs, nk, ki, ai => headSlots hs nk ki ai

def headName : DL.HTerm → Option String
  | .var x => some x
  | .agg f x => some (aggName f ++ "_" ++ x)
  | .const _ => none

/-- `build_aggregation` (1562): group-by = head variables in head order, aggregates in head order; the
    `Aggregate` node emits group columns then aggregate columns, and when that is not the head order a
    `Map` restoring the head order is put on top (the `Aggregate`'s schema then lists the emitted order). -/
def isAggH : DL.HTerm → Bool
  | .agg .. => true
  | _ => false
def isConstH : DL.HTerm → Bool
  | .const _ => true
  | _ => false
def varOfH : DL.HTerm → Option String
  | .var x => some x
  | _ => none
def aggOfH : DL.HTerm → Option (DL.AggF × String)
  | .agg f x => some (f, x)
  | _ => none

def buildHead (input : Node) (hargs : List DL.HTerm) : Option Node :=
  let sch := schema input
  if hargs.any isAggH then
    let gb := hargs.filterMap varOfH
    let ag := hargs.filterMap aggOfH
    if hargs.any isConstH then none else
    match optMapM (fun x => firstIdx x sch 0) gb, optMapM (fun (fx : DL.AggF × String) => (firstIdx fx.2 sch 0).map (fun c => (aggOf fx.1, c))) ag with
    | some g, some a =>
      let headSchema := hargs.filterMap headName
      let proj := headSlots hargs gb.length 0 0
      if proj == List.range proj.length then some (.aggregate input g a headSchema)
      else
        let emitted := gb ++ ag.map (fun fx => aggName fx.1 ++ "_" ++ fx.2)
        some (.map (.aggregate input g a emitted) proj headSchema)
    | _, _ => none
  else
    match optMapM (fun (h : DL.HTerm) => match h with | .var x => (firstIdx x sch 0).map (fun i => (i, x)) | _ => none) hargs with
    | some ps => some (.map input (ps.map (·.1)) (ps.map (·.2)))
    | none => none

def isNegLit : DL.Lit → Bool
  | .neg _ => true
  | _ => false

def buildRule (r : DL.Rule) : Option Node :=
  if r.body.any isNegLit then none else
  match posAtoms 0 r.body with
  | [] => none
  | (bi, a) :: rest =>
    match buildScan bi a with
    | none => none
    | some s0 =>
      match buildJoins s0 rest with
      | none => none
      | some j =>
        let sch := schema j
        match optMapM (cmpPred sch) r.cmps with
        | none => none
        | some ps => buildHead (wrapFilters j ps) r.hargs

end ILV.IRBuild
