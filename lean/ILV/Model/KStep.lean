/-
  E7 (KG lifecycle part) — model of knowledge-graph create / drop / insert / delete / save / restart
  in `StorageEngine` (src/storage_engine/mod.rs) over the persist layer's *naming*
  (src/storage/persist/mod.rs), as a step system.

  Names are `List Char`, one `Char` per UTF-8 *byte* of the Rust string (all functions below act on
  ASCII bytes only; byte order is Rust's `String` order; `len()` is the byte length). The name functions of the code:
    shardName kg rel = kg ++ ":" ++ rel                         mod.rs:478 / 589
    sanitize s       = s with ':' and '/' replaced by '_'       persist/mod.rs:857  (file = shards/<sanitize>.json)
    kgOf shard       = shard.split(':').next()                  mod.rs:1659          (start-up KG discovery)
  and the prefix test `shard.starts_with(kg ++ ":")` used by load / save / drop (mod.rs:1733, 806, 283).

  Steps (scheduling points = entry of each call + the `se.*` yield points listed in harness c17.rs):
    create  : ⟨validate (':' rejected); tombstone check⟩ ; ⟨DashMap entry: exists → Err | insert⟩ ;
              ⟨metadata_save_lock; collect names⟩ ; ⟨write knowledge_graphs.json; unlock⟩
    drop    : ⟨default/exists checks; dropping_kgs.write(): tombstone⟩ ; ⟨remove from map⟩ ; ⟨lock; collect names⟩ ; ⟨write json; unlock⟩ ;
              ⟨delete every shard with the prefix⟩ ; ⟨remove dir; dropping_kgs.write(): untombstone⟩
    insert  : ⟨KG lookup (view/arity checks)⟩ ; ⟨dropping_kgs.read() guard; tombstone check; KG still in the map?; time⟩ ;
              ⟨ensure_shard; append; release guard⟩ ; ⟨KG lookup; write lock; apply⟩
    delete  : the same without the first step
  `dropping_kgs` is an RwLock: a thread parked between its 2nd and 3rd insert/delete step holds the
  read guard, so the two tombstone steps of `drop` are blocked meanwhile.
  Persist state is reduced to what matters for names: per shard the updates in batches and in the
  buffer; `files` = the shard metadata files keyed by *file name* (batch contents inline: a batch file
  no metadata file refers to is deleted at start-up, persist/mod.rs:250); `wal`.
  Buffer size is the default 10000: no automatic flush.
-/
import ILV.Model.Util
namespace ILV.KStep

abbrev Name := List Char
abbrev Tup := Nat
abbrev Tid := Nat
abbrev Upd := Tup × Int

def shardName (kg rel : Name) : Name := kg ++ [':'] ++ rel
def sanitize (s : Name) : Name := s.map (fun c => if c = ':' ∨ c = '/' then '_' else c)
/-- the metadata file of a shard (persist/mod.rs:322-323 `save_shard_meta`, :658 `delete_shard`):
    `format!("{}.json", sanitize_name(name))` — the suffix is *appended*, nothing of the name is cut off;
    the temporary file of the atomic write is `….json.tmp` -/
def metaFile (shard : Name) : Name := sanitize shard ++ ".json".toList
def metaTmp (shard : Name) : Name := sanitize shard ++ ".json.tmp".toList
def shardFile (kg rel : Name) : Name := metaFile (shardName kg rel)
def kgOf (shard : Name) : Name := shard.takeWhile (fun c => c != ':')
def hasPrefix (kg shard : Name) : Bool := (kg ++ [':']).isPrefixOf shard
def relOf (kg shard : Name) : Name := shard.drop (kg.length + 1)

def defaultKg : Name := "default".toList

def hasDotDot : Name → Bool
  | '.' :: '.' :: _ => true
  | _ :: r => hasDotDot r
  | [] => false

/-- `create_knowledge_graph` name validation (mod.rs:169-186) -/
def validName (n : Name) : Bool :=
  !n.isEmpty && !n.contains '/' && !n.contains '\\' && !n.contains (Char.ofNat 0) && !n.contains ':' &&
  !hasDotDot n && n != ['.'] && n.length ≤ 128     -- byte length (MAX_KG_NAME_BYTES)

inductive Op where
  | create (kg : Name)
  | drop (kg : Name)
  | ins (kg rel : Name) (t : Tup)
  | del (kg rel : Name) (t : Tup)
  | save (kg : Name)
  | saveAll                          -- StorageEngine::save_all: flush every shard, sync the WAL, save the KG list
  | restart                          -- clean shutdown + start-up; only in sequential histories
  deriving Repr, DecidableEq, Inhabited

inductive Out where
  | ok | insd (new dup : Nat) | deld (n : Nat) | nf | ex | inv | drp | dd
  deriving Repr, DecidableEq, Inhabited

inductive Pc where
  | start
  | c1 | c2 | c3 (names : List Name)            -- create: after_dropping_check, after_insert, save_meta.before_write
  | d1 | d2 | d3 (names : List Name) | d4 | d5   -- drop: after_tombstone, after_remove, before_write, after_prepare, after_shards
  | i1 | i2 | i3                                  -- insert: after_checks, after_time (guard held), after_persist
  | e2 | e3                                       -- delete: after_time (guard held), after_persist
  deriving Repr, DecidableEq, Inhabited

structure Thread where
  todo : List Op := []
  pc : Pc := .start
  done : List (Op × Out) := []
  deriving Repr, DecidableEq, Inhabited

abbrev Rels := List (Name × List Tup)

structure ShardMem where
  batches : List Upd := []
  buffer : List Upd := []
  deriving Repr, DecidableEq, Inhabited

/-- `PersistConfig::durability_mode`: `append` writes the WAL and fsyncs (immediate), writes into the WAL's
    `BufWriter` only (batched; reaches the file at `sync`, at a rewrite, or when the writer is dropped), or
    skips the WAL (async)                                                   persist/mod.rs:406-421 -/
inductive Dur where
  | immediate | batched | async
  deriving Repr, DecidableEq, Inhabited

structure State where
  mode : Dur := .immediate
  walBuf : List (Name × Upd) := []                     -- entries still in the WAL BufWriter (batched mode)
  bufDiscarded : Bool := false                         -- ghost: a WAL rewrite threw away buffered entries of *other* shards
  kgs : List (Name × Rels) := []                       -- DashMap<String, KnowledgeGraph> (live relations)
  tomb : List Name := []                               -- dropping_kgs
  metaFile : List Name := []                           -- metadata/knowledge_graphs.json
  mem : List (Name × ShardMem) := []                   -- FilePersist.shards
  files : List (Name × Name × List Upd) := []          -- shards/<file>.json ↦ (shard name, batch contents)
  wal : List (Name × Upd) := []
  persistedForMissing : Bool := false                  -- ghost: an append ran for a KG that is not in the map
  staleMetaWrite : Bool := false                       -- ghost: knowledge_graphs.json written from an outdated name list
  metaLock : Option Tid := none                        -- holder of `metadata_save_lock` (collect + write of the json)
  n : Nat := 0
  threads : Tid → Thread := fun _ => {}

/-! ### association-list helpers -/
def lookup {β} (k : Name) : List (Name × β) → Option β
  | [] => none
  | (a, b) :: r => if a = k then some b else lookup k r
def erase {β} (k : Name) (l : List (Name × β)) : List (Name × β) := l.filter (fun e => e.1 != k)
def put {β} (k : Name) (v : β) : List (Name × β) → List (Name × β)
  | [] => [(k, v)]
  | (a, b) :: r => if a = k then (a, v) :: r else (a, b) :: put k v r

def setThread (ts : Tid → Thread) (t : Tid) (v : Thread) : Tid → Thread := fun x => if x = t then v else ts x
def Thread.finish (th : Thread) (out : Out) : Thread :=
  match th.todo with
  | [] => th
  | op :: rest => { todo := rest, pc := .start, done := th.done ++ [(op, out)] }

/-! ### persist layer -/
/-- `ensure_shard` (persist/mod.rs:560): writes an *empty* metadata file if the shard is not in the map -/
def ensureShard (st : State) (s : Name) : State :=
  match lookup s st.mem with
  | some _ => st
  | none => { st with mem := st.mem ++ [(s, {})], files := put (metaFile s) (s, []) st.files }

def appendUpd (st : State) (s : Name) (u : Upd) : State :=
  let sh := (lookup s st.mem).getD {}
  let mem' := put s { sh with buffer := sh.buffer ++ [u] } st.mem
  match st.mode with
  | .immediate => { st with wal := st.wal ++ [(s, u)], mem := mem' }
  | .batched => { st with walBuf := st.walBuf ++ [(s, u)], mem := mem' }
  | .async => { st with mem := mem' }

/-- `PersistWal::remove_shard_entries` (wal.rs:266): the surviving entries are computed from what is *in the
    file*; the writer is closed (its buffer is flushed into the old file) and the file is replaced by the
    survivors — so whatever was still buffered, of any shard, is gone from the WAL -/
def walRewrite (st : State) (s : Name) : State :=
  { st with wal := st.wal.filter (fun e => e.1 != s), walBuf := [],
            bufDiscarded := st.bufDiscarded || st.walBuf.any (fun e => e.1 != s) }

/-- `PersistWal::sync` / dropping the writer: the buffer reaches the file -/
def walSync (st : State) : State := { st with wal := st.wal ++ st.walBuf, walBuf := [] }

/-- `flush` (persist/mod.rs:581) -/
def flushShard (st : State) (s : Name) : State :=
  match lookup s st.mem with
  | none => st
  | some sh =>
    if sh.buffer.isEmpty then st else
    let b := sh.batches ++ sh.buffer
    walRewrite { st with mem := put s { batches := b, buffer := [] } st.mem,
                         files := put (metaFile s) (s, b) st.files } s

/-- `delete_shard` (persist/mod.rs:622): map entry, batch files, WAL entries, and the metadata *file* -/
def deleteShard (st : State) (s : Name) : State :=
  walRewrite { st with mem := erase s st.mem, files := erase (metaFile s) st.files } s

/-! ### in-memory relations -/
def insRel (rels : Rels) (rel : Name) (t : Tup) : Rels × Out :=
  let cur := (lookup rel rels).getD []
  if cur.contains t then (put rel cur rels, .insd 0 1) else (put rel (cur ++ [t]) rels, .insd 1 0)
def delRel (rels : Rels) (rel : Name) (t : Tup) : Rels × Out :=
  match lookup rel rels with
  | none => (rels, .deld 0)
  | some cur => let c := cur.filter (· != t); (put rel c rels, .deld (cur.length - c.length))

/-- does some thread hold the `dropping_kgs` read guard across a scheduling point? -/
def guardHeld (st : State) : Bool := (List.range st.n).any (fun t => (st.threads t).pc == .i2 || (st.threads t).pc == .e2)

inductive Res where
  | ok (st : State)
  | blocked
  | skip
  deriving Inhabited

def names (st : State) : List Name := st.kgs.map (·.1)

/-! ### restart: `FilePersist::new` + `StorageEngine::new` on the same directory -/
def dedupNames : List Name → List Name
  | [] => []
  | a :: r => if r.contains a then dedupNames r else a :: dedupNames r

def positive (us : List Upd) : List Tup :=
  let keys := dedupNames' (us.map (·.1))
  keys.filter (fun k => decide (((us.filter (fun u => u.1 == k)).map (·.2)).sum > 0))
where dedupNames' : List Tup → List Tup
  | [] => []
  | a :: r => if r.contains a then dedupNames' r else a :: dedupNames' r

def restartCore (st : State) : State :=
  -- load_shards: one map entry per metadata file, named by the name *inside* the file
  let mem0 : List (Name × ShardMem) := st.files.map (fun f => (f.2.1, { batches := f.2.2, buffer := [] }))
  let s1 : State := { mode := st.mode, bufDiscarded := st.bufDiscarded,
                      kgs := [], tomb := [], metaFile := st.metaFile, mem := mem0, files := st.files, wal := st.wal,
                      persistedForMissing := st.persistedForMissing, staleMetaWrite := st.staleMetaWrite, n := st.n, threads := st.threads }
  -- replay_wal into buffers, then drain: flush every dirty shard (order of first appearance in the WAL)
  let s2 := st.wal.foldl (fun s e => let sh := (lookup e.1 s.mem).getD {}; { s with mem := put e.1 { sh with buffer := sh.buffer ++ [e.2] } s.mem }) s1
  let s3 := (dedupNames (st.wal.map (·.1))).foldl flushShard s2
  -- load_all_knowledge_graphs: names from shard names and from the metadata file
  let kgNames := dedupNames ((s3.mem.map (fun m => kgOf m.1)) ++ st.metaFile)
  let kgs : List (Name × Rels) := kgNames.map (fun k =>
    let rels : Rels := (s3.mem.filter (fun (m : Name × ShardMem) => hasPrefix k m.1)).filterMap (fun (m : Name × ShardMem) =>
      let ts := positive (m.2.batches ++ m.2.buffer)
      -- a relation whose shard logged anything stays known (possibly empty) after the restart (mod.rs: logged_arity)
      if ts.isEmpty && (m.2.batches ++ m.2.buffer).isEmpty then none else some (relOf k m.1, ts))
    (k, rels))
  -- default KG created (and the metadata file rewritten) only if missing
  if (lookup defaultKg kgs).isSome then { s3 with kgs := kgs }
  else { s3 with kgs := kgs ++ [(defaultKg, [])], metaFile := kgNames ++ [defaultKg] }

/-- clean shutdown (the WAL writer is dropped: its buffer reaches the file) followed by start-up -/
def restart (st : State) : State := restartCore (walSync st)

/-! ### the step function -/
def step (st : State) (t : Tid) : Res :=
  if t ≥ st.n then .skip else
  let th := st.threads t
  let fin := fun (s : State) (o : Out) => Res.ok { s with threads := setThread s.threads t (th.finish o) }
  let go := fun (s : State) (pc : Pc) => Res.ok { s with threads := setThread s.threads t { th with pc := pc } }
  match th.todo with
  | [] => .skip
  | op :: _ =>
    match op, th.pc with
    -- create
    | .create kg, .start =>
      if !validName kg then fin st .inv
      else if st.tomb.contains kg then fin st .drp
      else go st .c1
    | .create kg, .c1 =>
      if (lookup kg st.kgs).isSome then fin st .ex else go { st with kgs := st.kgs ++ [(kg, [])] } .c2
    | .create _, .c2 => if st.metaLock.isSome then .blocked else go { st with metaLock := some t } (.c3 (names st))
    | .create _, .c3 ns => fin { st with metaFile := ns, metaLock := none, staleMetaWrite := st.staleMetaWrite || ns != names st } .ok
    -- drop
    | .drop kg, .start =>
      if kg = defaultKg then fin st .dd
      else if (lookup kg st.kgs).isNone then fin st .nf
      else if guardHeld st then .blocked
      else go { st with tomb := st.tomb ++ [kg] } .d1
    | .drop kg, .d1 => go { st with kgs := erase kg st.kgs } .d2
    | .drop _, .d2 => if st.metaLock.isSome then .blocked else go { st with metaLock := some t } (.d3 (names st))
    | .drop _, .d3 ns => go { st with metaFile := ns, metaLock := none, staleMetaWrite := st.staleMetaWrite || ns != names st } .d4
    | .drop kg, .d4 => go (((st.mem.map (·.1)).filter (hasPrefix kg)).foldl deleteShard st) .d5
    | .drop kg, .d5 => if guardHeld st then .blocked else fin { st with tomb := st.tomb.filter (· != kg) } .ok
    -- insert
    | .ins kg _ _, .start => if (lookup kg st.kgs).isNone then fin st .nf else go st .i1
    | .ins kg _ _, .i1 =>
      if st.tomb.contains kg then fin st .nf
      else if (lookup kg st.kgs).isNone then fin st .nf          -- re-check under the guard (mod.rs:512)
      else go st .i2
    | .ins kg rel x, .i2 =>
      let s := shardName kg rel
      go { appendUpd (ensureShard st s) s (x, 1) with persistedForMissing := st.persistedForMissing || (lookup kg st.kgs).isNone } .i3
    | .ins kg rel x, .i3 =>
      match lookup kg st.kgs with
      | none => fin st .nf
      | some rels => let (r', o) := insRel rels rel x; fin { st with kgs := put kg r' st.kgs } o
    -- delete
    | .del kg rel _, .start =>
      if st.tomb.contains kg then fin st .nf
      else match lookup kg st.kgs with
        | none => fin st .nf                                     -- existence check under the guard (mod.rs:643)
        | some rels =>
          if (lookup rel rels).isNone then fin st (.deld 0)      -- unknown relation: filtered out, nothing persisted (mod.rs:651-660)
          else go st .e2
    | .del kg rel x, .e2 =>
      let s := shardName kg rel
      go { appendUpd (ensureShard st s) s (x, -1) with persistedForMissing := st.persistedForMissing || (lookup kg st.kgs).isNone } .e3
    | .del kg rel x, .e3 =>
      match lookup kg st.kgs with
      | none => fin st .nf
      | some rels => let (r', o) := delRel rels rel x; fin { st with kgs := put kg r' st.kgs } o
    -- save / restart (single step; used in sequential histories)
    | .save kg, _ =>
      if (lookup kg st.kgs).isNone then fin st .nf
      else fin (walSync (((st.mem.map (·.1)).filter (hasPrefix kg)).foldl flushShard st)) .ok      -- flush the KG's shards; persist.sync()
    | .saveAll, _ =>
      let s1 := walSync ((st.mem.map (·.1)).foldl flushShard st)
      fin { s1 with metaFile := names s1 } .ok
    | .restart, _ => fin (restart st) .ok
    | _, _ => .skip

def lastState : State → List Tid → State
  | st, [] => st
  | st, t :: ts =>
    match step st t with
    | .ok st' => lastState st' ts
    | .skip => lastState st ts
    | .blocked => st

/-- index of the first blocked entry, if any -/
def blockedAt : State → List Tid → Nat → Option Nat
  | _, [], _ => none
  | st, t :: ts, k =>
    match step st t with
    | .ok st' => blockedAt st' ts (k + 1)
    | .skip => blockedAt st ts (k + 1)
    | .blocked => some k

def Thread.finished (th : Thread) : Bool := th.todo.isEmpty

def holdsLock (pc : Pc) : Bool :=
  match pc with
  | .i2 => true | .e2 => true | .c3 _ => true | .d3 _ => true
  | _ => false

/-- completion order of the harness: the lowest thread parked inside a critical section (tombstone
    read guard, metadata mutex) first, else the lowest unfinished thread -/
def nextToRun (st : State) : Option Tid :=
  match (List.range st.n).find? (fun t => holdsLock (st.threads t).pc) with
  | some t => some t
  | none => (List.range st.n).find? (fun (t : Nat) => !(st.threads t).finished)

def completeSched : Nat → State → List Tid
  | 0, _ => []
  | fuel + 1, st =>
    match nextToRun st with
    | none => []
    | some t => match step st t with
      | .ok st' => t :: completeSched fuel st'
      | _ => []

/-- first start of the engine on an empty directory: the default KG is created -/
def fresh : State := { kgs := [(defaultKg, [])], metaFile := [defaultKg] }

def initMode (mode : Dur) (progs : List (List Op)) : State :=
  { fresh with mode := mode, n := progs.length, threads := fun t => { todo := progs.getD t [] } }

def init (progs : List (List Op)) : State :=
  { fresh with n := progs.length, threads := fun t => { todo := progs.getD t [] } }

/-- sequential history: one thread, every operation run to completion -/
def runSeq (ops : List Op) : State :=
  let st := init [ops]
  lastState st (List.replicate (6 * ops.length + 1) 0)

end ILV.KStep
