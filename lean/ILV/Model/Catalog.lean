/-
  C16 model — rule catalog (src/rule_catalog.rs) and schema catalog (src/schema/catalog.rs) of one
  knowledge graph, their `save`/`load` discipline and the loaders' failure behaviour in
  src/storage_engine/mod.rs, over the abstract file system `ILV.FS`.

  * `RuleCatalog::save` (rule_catalog.rs:781, after the `fix:` commit): `create_dir_all(parent)`; write
    `catalog.json.tmp`; `sync_all` it; rename it over `catalog.json`; fsync the directory
    (the discipline of `save_shard_meta`).
  * `SchemaCatalog::save` (schema/catalog.rs:299): the same discipline on `<kg>/schema.json(.tmp)`.
  * `RuleCatalog::new`/`load` (412-428, 768-778): missing file ⇒ empty; unparsable ⇒ `Err`.
    `load_knowledge_graph_from_persist` (storage_engine/mod.rs:1764) propagates the error ⇒
    `StorageEngine::new` fails.
  * schema loader (storage_engine/mod.rs:1768-1778): unparsable ⇒ warning + **empty** catalog.
  Clauses and schemas are opaque tokens (`id`) plus the attributes the catalog code inspects
  (head arity; whether `validate_rule` / `validate_schema` rejects it).  Names are byte lists.
  The JSON codec is a parameter with the contract "a document parses iff it is complete":
  a file parses to `d` iff its content is exactly the one complete record `d` (serde_json rejects the
  empty string and every proper prefix of a pretty-printed object).
-/
import ILV.Model.FS
namespace ILV.Cat
open ILV.FS

abbrev Name := List Nat

structure Clause where
  id : Nat
  arity : Nat
  bad : Bool          -- rejected by `validate_rule` (self-negation, unsafe head variable)
  unstrat : Bool := false   -- negates its own head: `validate_rules_stratification` rejects any program containing it
  deriving DecidableEq, Repr

structure Schema where
  id : Nat
  bad : Bool          -- rejected by `validate_schema` (duplicate / empty column names)
  deriving DecidableEq, Repr

/-- `HashMap<String, RuleDefinition>`: association list with unique keys (insertion order). -/
abbrev RuleCat := List (Name × List Clause)
abbrev SchemaCat := List (Name × Schema)

def aGet {α} (l : List (Name × α)) (k : Name) : Option α :=
  match l with
  | [] => none
  | (q, v) :: rest => if q = k then some v else aGet rest k

def aDel {α} (l : List (Name × α)) (k : Name) : List (Name × α) :=
  match l with
  | [] => []
  | (q, v) :: rest => if q = k then aDel rest k else (q, v) :: aDel rest k

/-- `HashMap::insert`: overwrite in place or add. -/
def aSet {α} (l : List (Name × α)) (k : Name) (v : α) : List (Name × α) :=
  match l with
  | [] => [(k, v)]
  | (q, w) :: rest => if q = k then (k, v) :: rest else (q, w) :: aSet rest k v

/-- in-memory catalogs of a `KnowledgeGraph`: the rule catalog and the schema catalog, which is the pair
    (`persistent`, `session`) of schema/catalog.rs:38-44 — `schemas` is the persistent map (the only part `save`
    writes), `session` the memory-only map that shadows it in `get` / `remove`. -/
structure Mem where
  rules : RuleCat := []
  schemas : SchemaCat := []
  session : SchemaCat := []
  deriving DecidableEq, Repr

inductive Doc where
  | rules (c : RuleCat)
  | schemas (s : SchemaCat)
  deriving DecidableEq, Repr

inductive Path where
  | ruleCat      -- <kg>/rules/catalog.json
  | schemaCat    -- <kg>/schema.json
  | ruleTmp      -- <kg>/rules/catalog.json.tmp
  | schemaTmp    -- <kg>/schema.json.tmp
  deriving DecidableEq, Repr

abbrev Disk := Files Path Doc

/-- catalog operations reachable through `StorageEngine::*_in`. -/
inductive COp where
  | reg (n : Name) (c : Clause)                 -- register_rule_in
  | drop (n : Name)                             -- drop_rule_in
  | dropPrefix (p : Name)                       -- drop_rules_by_prefix_in
  | clear (n : Name)                            -- clear_rule_in
  | replace (n : Name) (i : Nat) (c : Clause)   -- replace_rule_in
  | rmClause (n : Name) (i : Nat)               -- remove_rule_clause_in
  | sreg (r : Name) (s : Schema)                -- register_schema_in
  | supd (r : Name) (s : Schema)                -- register_or_update_schema_in
  | srem (r : Name)                             -- remove_schema_in
  | ssupd (r : Name) (s : Schema)               -- register_or_update_session_schema_in (memory only)
  | ssreg (r : Name) (s : Schema)               -- KnowledgeGraph::register_session_schema (memory only)
  | sclear                                      -- KnowledgeGraph::clear_session_schemas
  | dropRel (n : Name)                          -- drop_relation_in
  deriving DecidableEq, Repr

/-- acknowledgement returned to the caller. -/
inductive Ack where
  | ok | err
  | okNames (l : List Name)   -- drop_rules_by_prefix: names dropped (sorted)
  | okBool (b : Bool)         -- remove_rule_clause: was the whole rule deleted / remove_schema: was there one
  deriving DecidableEq, Repr

-- labels of the `nop` FS steps
def lblRuleMkdir : Nat := 0
def lblSchemaMkdir : Nat := 1
def lblRuleDirsync : Nat := 4
def lblSchemaDirsync : Nat := 5

/-- `RuleCatalog::save` (dirty): mkdir, write the temp file, fsync it, rename it over catalog.json, fsync the
    directory. -/
def saveRules (c : RuleCat) : List (Op Path Doc) :=
  [.nop lblRuleMkdir, .write .ruleTmp [.rules c], .fsync .ruleTmp, .rename .ruleTmp .ruleCat, .nop lblRuleDirsync]
/-- `SchemaCatalog::save`. -/
def saveSchemas (s : SchemaCat) : List (Op Path Doc) :=
  [.nop lblSchemaMkdir, .write .schemaTmp [.schemas s], .fsync .schemaTmp, .rename .schemaTmp .schemaCat,
   .nop lblSchemaDirsync]

def insertSorted (n : Name) : List Name → List Name
  | [] => [n]
  | m :: ms => if n ≤ m then n :: m :: ms else m :: insertSorted n ms
def sortNames (l : List Name) : List Name := l.foldr insertSorted []

def setIdx {α} : List α → Nat → α → List α
  | [], _, _ => []
  | _ :: xs, 0, v => v :: xs
  | x :: xs, i + 1, v => x :: setIdx xs i v

/-- one catalog operation: acknowledgement, new in-memory catalogs, FS mutations in program order. -/
def step (m : Mem) : COp → Ack × Mem × List (Op Path Doc)
  -- RuleCatalog::register_rule (rule_catalog.rs:437-484): validate, arity check against the first
  -- existing clause, `add_rule` (skip exact duplicates), `dirty = true; save()`.
  | .reg n c =>
    if c.bad then (.err, m, []) else
    -- full stratification check over every stored clause (rule_catalog.rs:445-452); `replace_rule` does not
    -- validate, so an unstratifiable clause can already be in the catalog
    if m.rules.any (fun e => e.2.any (·.unstrat)) then (.err, m, []) else
    match aGet m.rules n with
    | some cls =>
      match cls.head? with
      | some f =>
        if f.arity ≠ c.arity then (.err, m, []) else
        let r := aSet m.rules n (if c ∈ cls then cls else cls ++ [c])
        (.ok, { m with rules := r }, saveRules r)
      | none =>
        let r := aSet m.rules n [c]
        (.ok, { m with rules := r }, saveRules r)
    | none =>
      let r := aSet m.rules n [c]
      (.ok, { m with rules := r }, saveRules r)
  -- RuleCatalog::drop (518-526)
  | .drop n =>
    match aGet m.rules n with
    | none => (.err, m, [])
    | some _ => let r := aDel m.rules n; (.ok, { m with rules := r }, saveRules r)
  -- RuleCatalog::drop_by_prefix (530-549): saves only if something was dropped
  | .dropPrefix p =>
    if p = [] then (.err, m, []) else
    let hit := (m.rules.map (·.1)).filter (fun k => p.isPrefixOf k)
    let r := m.rules.filter (fun e => !(p.isPrefixOf e.1))
    (.okNames (sortNames hit), { m with rules := r }, if hit = [] then [] else saveRules r)
  -- RuleCatalog::clear_rules (553-562): the definition stays, with no clauses
  | .clear n =>
    match aGet m.rules n with
    | none => (.err, m, [])
    | some _ => let r := aSet m.rules n []; (.ok, { m with rules := r }, saveRules r)
  -- RuleCatalog::replace_rule (565-587): no validation of the new clause
  | .replace n i c =>
    match aGet m.rules n with
    | none => (.err, m, [])
    | some cls =>
      if i ≥ cls.length then (.err, m, []) else
      let r := aSet m.rules n (setIdx cls i c)
      (.ok, { m with rules := r }, saveRules r)
  -- RuleCatalog::remove_rule_clause (591-617)
  | .rmClause n i =>
    match aGet m.rules n with
    | none => (.err, m, [])
    | some cls =>
      if i ≥ cls.length then (.err, m, []) else
      let cls' := cls.eraseIdx i
      let r := if cls' = [] then aDel m.rules n else aSet m.rules n cls'
      (.okBool (cls' = []), { m with rules := r }, saveRules r)
  -- KnowledgeGraph::register_schema (storage_engine/mod.rs:2869) → SchemaCatalog::register_persistent
  | .sreg r s =>
    if s.bad then (.err, m, []) else
    match aGet m.schemas r with
    | some _ => (.err, m, [])
    | none => let sc := aSet m.schemas r s; (.ok, { m with schemas := sc }, saveSchemas sc)
  -- KnowledgeGraph::register_or_update_schema (2880)
  | .supd r s =>
    if s.bad then (.err, m, []) else
    let sc := aSet m.schemas r s; (.ok, { m with schemas := sc }, saveSchemas sc)
  -- KnowledgeGraph::remove_schema → SchemaCatalog::remove (schema/catalog.rs:140): a session schema shadows the
  -- persistent one — only the session entry is removed then (the persistent one stays, in memory and on disk);
  -- the catalog is saved whenever something was removed.
  | .srem r =>
    match aGet m.session r with
    | some _ => (.okBool true, { m with session := aDel m.session r }, saveSchemas m.schemas)
    | none =>
      match aGet m.schemas r with
      | none => (.okBool false, m, [])
      | some _ => let sc := aDel m.schemas r; (.okBool true, { m with schemas := sc }, saveSchemas sc)
  -- register_or_update_session / register_session / clear_session: memory only, nothing is written
  | .ssupd r s =>
    if s.bad then (.err, m, []) else (.ok, { m with session := aSet m.session r s }, [])
  | .ssreg r s =>
    if s.bad then (.err, m, []) else
    match aGet m.session r with
    | some _ => (.err, m, [])
    | none => (.ok, { m with session := aSet m.session r s }, [])
  | .sclear => (.ok, { m with session := [] }, [])
  -- KnowledgeGraph::drop_relation (after the `fix:` commit): `schema_catalog.remove` (session first, else
  -- persistent) and, when something was removed, the schema catalog is saved; then the rule is dropped through
  -- `RuleCatalog::drop` (which saves).
  | .dropRel n =>
    let hasSchema := (aGet m.session n).isSome || (aGet m.schemas n).isSome
    match aGet m.rules n with
    | none =>
      if !hasSchema then (.err, m, []) else
      let m1 : Mem := if (aGet m.session n).isSome then { m with session := aDel m.session n }
                      else { m with schemas := aDel m.schemas n }
      (.ok, m1, saveSchemas m1.schemas)
    | some _ =>
      let r := aDel m.rules n
      if !hasSchema then (.ok, { m with rules := r }, saveRules r) else
      let m1 : Mem := if (aGet m.session n).isSome then { m with session := aDel m.session n }
                      else { m with schemas := aDel m.schemas n }
      (.ok, { m1 with rules := r }, saveSchemas m1.schemas ++ saveRules r)

/-- the JSON codec contract: a file parses iff it holds exactly one complete document. -/
def parseDoc (f : File Doc) : Option Doc :=
  match f.items with
  | [.whole d] => some d
  | _ => none

/-- `RuleCatalog::new`: `none` = `Err` (⇒ `StorageEngine::new` fails). -/
def loadRules (d : Disk) : Option RuleCat :=
  match get d .ruleCat with
  | none => some []
  | some f =>
    match parseDoc f with
    | some (.rules c) => some c
    | _ => none

/-- schema loader of `load_knowledge_graph_from_persist`: failure ⇒ empty catalog. -/
def loadSchemas (d : Disk) : SchemaCat :=
  match get d .schemaCat with
  | none => []
  | some f =>
    match parseDoc f with
    | some (.schemas s) => s
    | _ => []

/-- what `StorageEngine::new` reconstructs from a disk image; `none` = the engine does not open. -/
def recover (d : Disk) : Option Mem :=
  match loadRules d with
  | none => none
  | some r => some { rules := r, schemas := loadSchemas d, session := [] }

structure St where
  mem : Mem := {}
  disk : Disk := []
  deriving Repr

/-- a cut function over the (finite) set of paths, as an association list. -/
def cutsOf (l : List (Path × Cut)) : Path → Option Cut := fun p =>
  match l.find? (fun e => e.1 = p) with
  | some e => some e.2
  | none => none

/-- history items. -/
inductive HItem where
  | op (o : COp)
  /-- crash while `o` is in flight, after its `j`-th FS step (if `o` performs fewer steps the crash falls right
      after `o`); `cuts`: how the unsynced data of every file is torn (any file, any cut). -/
  | opCrash (o : COp) (j : Nat) (cuts : List (Path × Cut))
  /-- crash between operations, unsynced data torn according to `cuts`. -/
  | restart (cuts : List (Path × Cut))
  deriving Repr

inductive Out where
  | ack (a : Ack) (steps : List Nat)                    -- FS-step kinds performed (0/1 mkdir, 2/3 write)
  | reboot (old new : Mem) (got : Option Mem)          -- live catalogs before / after the in-flight op; recovered
  deriving DecidableEq, Repr

/-- FS-step kinds for the label tie: 0/1 mkdir, 2/3 temp write, 6/7 fsync, 8/9 rename, 4/5 directory fsync
    (even = rule catalog, odd = schema catalog). -/
def stepKind : Op Path Doc → Nat
  | .nop l => l
  | .write .ruleTmp _ => 2
  | .write .schemaTmp _ => 3
  | .fsync .ruleTmp => 6
  | .fsync .schemaTmp => 7
  | .rename .ruleTmp _ => 8
  | .rename .schemaTmp _ => 9
  | _ => 99

def rebootFrom (old new : Mem) (image : Disk) : Out × Option St :=
  let r? := recover image
  (.reboot old new r?, r?.map (fun m => { mem := m, disk := image }))

def runItem (st : St) : HItem → Out × Option St
  | .op o =>
    let (a, m', ops) := step st.mem o
    (.ack a (ops.map stepKind), some { mem := m', disk := applyAll st.disk ops })
  | .opCrash o j cuts =>
    let (_, m', ops) := step st.mem o
    rebootFrom st.mem m' (crash (applyAll st.disk (ops.take j)) (cutsOf cuts))
  | .restart cuts => rebootFrom st.mem st.mem (crash st.disk (cutsOf cuts))

/-- run a history; stops at the first reboot that fails to open. -/
def run (st : St) : List HItem → List Out
  | [] => []
  | it :: rest =>
    match runItem st it with
    | (o, some st') => o :: run st' rest
    | (o, none) => [o]

/-- the reference semantics of the operations alone (no disk, no restarts): what has been acknowledged. -/
def specRun (m : Mem) : List COp → Mem
  | [] => m
  | o :: rest => specRun (step m o).2.1 rest

/-- the reference semantics of a crash-between-operations history: operations act on memory; a restart keeps the
    acknowledged rules and persistent schemas and forgets the session schemas. -/
def specRunH (m : Mem) : List HItem → Mem
  | [] => m
  | .op o :: rest => specRunH (step m o).2.1 rest
  | _ :: rest => specRunH { m with session := [] } rest

/-- final state of a history (`none`: some reopen failed). -/
def finalSt (st : St) : List HItem → Option St
  | [] => some st
  | it :: rest =>
    match (runItem st it).2 with
    | some st' => finalSt st' rest
    | none => none

end ILV.Cat
