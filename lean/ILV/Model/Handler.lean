/-
  E10 — model of `Handler::execute_program` (src/protocol/handler.rs:4248-4624),
  `Handler::query_program_with_session` (3899-3928, fast path + single-query slow path) and
  `QueryJob::execute` (2458-3850): which gates see what, what is executed line by line, in which
  order, against which current KG, and what that does to the stored state.

  Modelled here:   the decision procedure and the state changes of the statement forms listed in `Eff`.
  Passed in:       `P : String → Option Stmt` — the real grammar's classification (kind + the payload the
                   model interprets) of a comment-stripped, trimmed text (`Text.stmtKey`). Theorems are ∀ P.
  From T-gen:      `globalOk`, `kgOk` (ILV.Gen.C28).
  Not modelled:    statement forms `Eff.unsupported` (conditional/bulk delete, update, `.why`, `.rule drop`,
                   user/api-key mutation, …): the model reports `unsupported`, generators avoid them.
-/
import ILV.Model.Value
import ILV.Model.Text
import ILV.Gen.C28
namespace ILV.Handler
open ILV ILV.Text ILV.Gen.C28

/-! ### statements as the real parser describes them -/

inductive Eff where
  | none                                         -- effect determined by the kind alone
  | unsupported
  | insert (rel : String) (ts : List Tuple)
  | delete (rel : String) (t : Tuple)
  | fact (rel : String) (t : Tuple)
  | factBad (rel : String)                       -- a fact whose arguments contain a variable / placeholder
  | srule (head : String)
  | prule (head : String)
  | query (rel : String) (arity : Nat)
  | dropName (n : String)
  | schema (rel : String) (persistent : Bool)
  | name (n : String)                            -- kgCreate / kgUse / kgDrop / relDrop / clearPrefix
  | aclList (kg : Option String)
  | aclGrant (kg user role : String)
  | aclRevoke (kg user : String)
  deriving DecidableEq, Repr

structure Stmt where
  kind : StmtKind
  eff : Eff
  deriving DecidableEq, Repr

abbrev Parser := String → Option Stmt

/-- `statement::parse_statement` = grammar ∘ `strip_inline_comment` ∘ `trim`, `Err` on empty -/
def parseStatement (P : Parser) (s : List Char) : Option Stmt :=
  let k := stmtKey s
  if k.isEmpty then none else P (String.ofList k)

/-! ### stored state -/

def INTERNAL : String := "_internal"

structure Kg where
  name : String
  rels : List (String × List Tuple)    -- `input_tuples`: an entry survives being emptied
  rules : List String
  schemas : List String
  deriving DecidableEq, Repr

structure Sess where
  user : String
  kg : String
  facts : List (String × Tuple)
  rules : List String
  closed : Bool
  deriving DecidableEq, Repr

structure World where
  kgs : List Kg
  sess : List Sess
  deriving DecidableEq, Repr

def findKg (w : World) (n : String) : Option Kg := w.kgs.find? (·.name == n)
def hasKg (w : World) (n : String) : Bool := w.kgs.any (·.name == n)
def updKg (w : World) (n : String) (f : Kg → Kg) : World :=
  { w with kgs := w.kgs.map fun k => if k.name == n then f k else k }
def relOf (k : Kg) (r : String) : List Tuple := (k.rels.lookup r).getD []
def setRel (k : Kg) (r : String) (ts : List Tuple) : Kg :=
  if k.rels.any (·.1 == r) then { k with rels := k.rels.map fun e => if e.1 == r then (r, ts) else e }
  else { k with rels := k.rels ++ [(r, ts)] }
def findSess (w : World) (u : String) : Option Sess := w.sess.find? (·.user == u)
def updSess (w : World) (u : String) (f : Sess → Sess) : World :=
  { w with sess := w.sess.map fun s => if s.user == u then f s else s }

def insertNew (old : List Tuple) : List Tuple → List Tuple × Nat
  | [] => (old, 0)
  | t :: ts => if old.contains t then insertNew old ts else
      let (r, n) := insertNew (old ++ [t]) ts
      (r, n + 1)

def lower (s : String) : String := String.ofList (s.toList.map Char.toLower)

def strOf : Value → Option String
  | .str bs => some (String.ofList (bs.map fun b => Char.ofNat b))   -- ASCII names only in generated data
  | _ => none

def strVal (s : String) : Value := .str (s.toList.map (·.toNat))

def roleOfString (s : String) : Option Role :=
  match lower s with
  | "admin" => some .admin | "editor" => some .editor | "viewer" => some .viewer | _ => none

def kgRoleOfString (s : String) : Option KgRole :=
  match lower s with
  | "owner" => some .owner | "editor" => some .editor | "viewer" => some .viewer | _ => none

/-- `refresh_user_role` (handler.rs:1882): first `users(name, _, role)` row of `_internal` -/
def refreshRole (w : World) (user : String) : Option Role :=
  match findKg w INTERNAL with
  | none => none
  | some k =>
    match (relOf k "users").find? fun t =>
        match t with
        | a :: _ :: c :: _ => (strOf a).isSome && (strOf c).isSome && strOf a == some user
        | _ => false with
    | some (_ :: _ :: c :: _) => (strOf c).bind roleOfString
    | _ => none

/-- `get_kg_role_for_user` (handler.rs:1700): admins are owners; else first `kg_acls(kg, user, role)` row -/
def kgRoleFor (w : World) (kg user : String) (role : Role) : Option KgRole :=
  if role == .admin then some .owner else
  match findKg w INTERNAL with
  | none => none
  | some k =>
    match (relOf k "kg_acls").find? fun t =>
        match t with
        | a :: b :: c :: _ => (strOf a).isSome && (strOf b).isSome && (strOf c).isSome && strOf a == some kg && strOf b == some user
        | _ => false with
    | some (_ :: _ :: c :: _) => (strOf c).bind kgRoleOfString
    | _ => none

def aclMatches (kg user : String) (t : Tuple) : Bool :=
  match t with
  | a :: b :: _ :: _ => (strOf a).isSome && (strOf b).isSome && strOf a == some kg && strOf b == some user
  | _ => false

/-! ### `QueryJob::execute` -/

structure Event where
  stmt : Stmt
  kg : String          -- the current KG when the statement ran
  deriving DecidableEq, Repr

inductive Res where
  | err (c : String)
  | msgs (ms : List String) (sw : Option String)
  | rows (rs : List Tuple)
  deriving DecidableEq, Repr

structure Out where
  w : World
  res : Res
  trace : List Event
  deriving DecidableEq, Repr

structure QState where
  w : World
  kg : String
  msgs : List String
  query : Option (List Char)        -- `query_to_execute` (raw statement text)
  switched : Option String
  sfacts : List (String × Tuple)
  srules : List String
  deriving DecidableEq, Repr

inductive Step where
  | cont (s : QState)
  | abort (s : QState) (err : String)
  deriving DecidableEq, Repr

def QState.say (s : QState) (ms : List String) : QState := { s with msgs := s.msgs ++ ms }

/-- messages of the meta commands whose handler arm only pushes fixed text (handler.rs:3180-3630) -/
def fixedMsg : StmtKind → Option String
  | .kgList => some "kgs" | .relList => some "rellist" | .ruleList => some "rulelist"
  | .status => some "status" | .compact => some "compacted"
  | .sessionList | .sessionClear | .sessionDrop | .sessionDropName => some "needws"
  | .userList | .userCreate | .userDrop | .userPassword | .userRole
  | .apiKeyCreate | .apiKeyList | .apiKeyRevoke => some "needadmin"
  | .kgAclList | .kgAclGrant | .kgAclRevoke => some "needowner"
  | .help | .quit | .load => some "clientonly"
  | .ruleEdit => some "noedit" | .indexList => some "noindex" | .typeDecl => some "type"
  | _ => none

/-- one arm of the big `match stmt` (handler.rs:2557-3632), for the current KG `s.kg` -/
def applyStmt (s : QState) (text : List Char) (st : Stmt) : Step :=
  let kgv := (findKg s.w s.kg).getD ⟨s.kg, [], [], []⟩
  match st.kind, st.eff with
  | .schemaDecl, .schema rel _ =>
    .cont ({ s with w := updKg s.w s.kg fun k => if k.schemas.contains rel then k else { k with schemas := k.schemas ++ [rel] } }.say [s!"schema:{rel}"])
  | .insert, .insert rel ts =>
    if kgv.rules.contains rel then .abort s "unsupported:insert-into-view" else
    let (r, n) := insertNew (relOf kgv rel) ts
    .cont ({ s with w := updKg s.w s.kg fun k => setRel k rel r }.say [s!"ins:{n}:{rel}"])
  | .fact, .fact rel t => .cont ({ s with sfacts := s.sfacts ++ [(rel, t)] }.say ["sfact"])
  | .fact, .factBad _ => .cont (s.say ["badterm"])                 -- `term_to_value` fails: message, `continue` (2709-2713)
  | .delete, .delete rel t =>
    let old := relOf kgv rel
    let n := if old.contains t then 1 else 0
    .cont ({ s with w := if kgv.rels.any (·.1 == rel) then updKg s.w s.kg fun k => setRel k rel (old.filter (· != t)) else s.w }.say [s!"del:{n}:{rel}"])
  | .persistentRule, .prule h =>
    .cont ({ s with w := updKg s.w s.kg fun k => if k.rules.contains h then k else { k with rules := k.rules ++ [h] } }.say [s!"rule:{h}"])
  | .sessionRule, .srule h =>
    if startsWith "__".toList (h.toList.dropWhile (· == '~')) then .abort s "reserved"
    else .cont ({ s with srules := s.srules ++ [h] }.say ["srule"])
  | .query, _ => .cont { s with query := some text }
  | .deleteRelationOrRule, .dropName n =>
    if kgv.rules.contains n then .cont ({ s with w := updKg s.w s.kg fun k => { k with rules := k.rules.filter (· != n) } }.say [s!"ruledrop:{n}"])
    else .cont (s.say [s!"notrule:{n}"])
  | .kgShow, _ => .cont (s.say [s!"cur:{s.kg}"])
  | .kgCreate, .name n =>
    if hasKg s.w n then .cont (s.say ["createfail"])
    else .cont ({ s with w := { s.w with kgs := s.w.kgs ++ [(⟨n, [], [], []⟩ : Kg)] }, kg := n, switched := some n }.say [s!"created:{n}", s!"switched:{n}"])
  | .kgUse, .name n =>
    if hasKg s.w n then .cont ({ s with kg := n, switched := some n }.say [s!"switched:{n}"])
    else .cont (s.say [s!"kgnotfound:{n}"])
  | .kgDrop, .name n =>
    if n == s.kg then .cont (s.say ["dropcurrent"])
    else if n == "default" || !hasKg s.w n then .cont (s.say ["dropfail"])
    else .cont ({ s with w := { s.w with kgs := s.w.kgs.filter (·.name != n) } }.say [s!"dropped:{n}"])
  | .relDrop, .name n =>
    if kgv.rels.any (·.1 == n) || kgv.rules.contains n || kgv.schemas.contains n then
      .cont ({ s with w := updKg s.w s.kg fun k => { k with rels := k.rels.filter (·.1 != n), rules := k.rules.filter (· != n), schemas := k.schemas.filter (· != n) } }.say [s!"reldrop:{n}"])
    else .cont (s.say ["error"])
  | .clearPrefix, .name p =>
    let hit := kgv.rels.filter fun e => startsWith p.toList e.1.toList && !e.2.isEmpty
    if hit.isEmpty then .cont (s.say ["clear0"])
    else
      let total := (hit.map (·.2.length)).foldl (· + ·) 0
      .cont ({ s with w := updKg s.w s.kg fun k => { k with rels := k.rels.map fun (e : String × List Tuple) => if startsWith p.toList e.1.toList then (e.1, []) else e } }.say [s!"cleared:{total}:{hit.length}"])
  | k, e =>
    match fixedMsg k, e with
    | some _, .unsupported => .abort s s!"unsupported:{k.name}"
    | some m, _ => .cont (s.say [m])
    | none, _ => .abort s s!"unsupported:{k.name}"

/-- phase 2 loop (handler.rs:2545-3640) with its accumulator `current_stmt`, which is cleared at the
    end of every iteration (3638). `tr` records, for every statement that is run, the statement and the
    current KG at that moment. -/
def phase2 (P : Parser) : QState → List Event → List Char → List (List Char) → Step × List Event
  | s, tr, _, [] => (.cont s, tr)
  | s, tr, acc, line :: rest =>
    let acc := acc ++ line ++ [' ']
    let stmtText := trim acc
    if stmtText.isEmpty then phase2 P s tr [] rest else
    match parseStatement P stmtText with
    | some st =>
      match applyStmt s stmtText st with
      | .cont s' => phase2 P s' (tr ++ [⟨st, s.kg⟩]) [] rest
      | .abort s' e => (.abort s' e, tr ++ [⟨st, s.kg⟩])
    | none => phase2 P { s with query := some stmtText } tr [] rest

/-- Spec-level reading of a validated program (C30 "statements take effect in program order"):
    the statements of the logical lines, applied one after the other to the running state. -/
def specRun (P : Parser) : QState → List Event → List (List Char) → Step × List Event
  | s, tr, [] => (.cont s, tr)
  | s, tr, l :: ls =>
    match parseStatement P l with
    | some st =>
      match applyStmt s l st with
      | .cont s' => specRun P s' (tr ++ [⟨st, s.kg⟩]) ls
      | .abort s' e => (.abort s' e, tr ++ [⟨st, s.kg⟩])
    | none => specRun P { s with query := some l } tr ls

def dedup (l : List Tuple) : List Tuple := l.foldl (fun acc t => if acc.contains t then acc else acc ++ [t]) []

/-- answer of a plain scan query `?rel(X1..Xn)` over stored + request/session facts -/
def scanRows (w : World) (kg rel : String) (extra : List (String × Tuple)) : List Tuple :=
  dedup (((findKg w kg).map (relOf · rel)).getD [] ++ (extra.filter (·.1 == rel)).map (·.2))

/-- tail of `QueryJob::execute` (handler.rs:3652-3849) -/
def finish (P : Parser) (s : QState) (tr : List Event) : Out :=
  if !s.msgs.isEmpty && s.query.isNone then ⟨s.w, .msgs s.msgs s.switched, tr⟩
  else match s.query with
    | none => ⟨s.w, .err "queryfail", tr⟩                      -- nothing to run: the whole text goes to the engine
    | some q =>
      if stripInlineComment q != q then ⟨s.w, .err "queryparse", tr⟩   -- `transform_query_shorthand` sees the comment
      else match parseStatement P q with
        | some ⟨.query, .query rel _⟩ => ⟨s.w, .rows (scanRows s.w s.kg rel s.sfacts), tr⟩
        | _ => ⟨s.w, .err "unsupported:query-form", tr⟩

/-- `QueryJob::execute` (handler.rs:2458): target KG, pre-processing, phase 1, phase 2, tail -/
def queryProgram (P : Parser) (w : World) (kgArg : Option String) (text : List Char) : Out :=
  let kg := kgArg.getD "default"
  if !hasKg w kg then ⟨w, .err "nokg", []⟩ else
  let lines := logicalLines text
  if lines.any (fun l => (parseStatement P l).isNone) then ⟨w, .err "parse", []⟩ else
  match phase2 P ⟨w, kg, [], none, none, [], []⟩ [] [] lines with
  | (.abort s e, tr) => ⟨s.w, .err e, tr⟩
  | (.cont s, tr) => finish P s tr

/-! ### `execute_program` -/

structure Req where
  user : Option String      -- `auth`; `none` = authentication disabled for this call
  useSess : Bool
  kgArg : Option String
  text : List Char
  deriving DecidableEq, Repr

/-- `target_kg` of the per-KG gate (handler.rs:4333-4356) -/
def targetKg (st : Stmt) (cur : Option String) : Option String :=
  match st.kind, st.eff with
  | .kgDrop, .name n | .kgUse, .name n => some n
  | .kgAclGrant, .aclGrant kg _ _ | .kgAclRevoke, .aclRevoke kg _ => some kg
  | .kgAclList, .aclList o => o
  | .kgCreate, _ | .kgList, _ | .kgShow, _ | .help, _ | .quit, _ | .status, _ => none
  | _, _ => cur

def kgDenyClass (r : KgRole) (k : StmtKind) : String :=
  match r with
  | .viewer => "denied-kgviewer"
  | _ => if k == .kgDrop || k == .kgAclGrant || k == .kgAclRevoke then "denied-kgowner" else "denied-kgadmin"

/-- global role gate (handler.rs:4286-4291): only when an identity is present and the whole text parses -/
def gateGlobal (role : Option (String × Role)) (whole : Option Stmt) : Option String :=
  match role, whole with
  | some (_, r), some st => if globalOk r st.kind then none else some "denied-global"
  | _, _ => none

/-- `.kg use/drop/create _internal` -/
def namesInternal (st : Stmt) : Bool :=
  match st.kind, st.eff with
  | .kgUse, .name n | .kgDrop, .name n | .kgCreate, .name n => n == INTERNAL
  | _, _ => false

/-- `_internal` guards (4293-4326): the current KG for non-admins; the named KG of the whole-text parse for everyone -/
def gateInternal (role : Option (String × Role)) (whole : Option Stmt) (curKg : Option String) : Option String :=
  if (match role with | some (_, r) => r != Role.admin && curKg == some INTERNAL | none => false) then some "denied-internal"
  else if (match whole with | some st => namesInternal st | none => false) then some "denied-internal"
  else none

/-- per-KG gate (4328-4369): non-admin identity, whole text parses, and there is a target KG -/
def gateKg (w : World) (role : Option (String × Role)) (whole : Option Stmt) (curKg : Option String) : Option String :=
  match role, whole with
  | some (u, r), some st =>
    if r == Role.admin then none else
    match targetKg st curKg with
    | none => none
    | some kg =>
      match kgRoleFor w kg u r with
      | none => some "denied-noacl"
      | some kr => if kgOk kr st.kind then none else some (kgDenyClass kr st.kind)
  | _, _ => none

/-- the three gates in the order of the code; `none` = passed -/
def gates (w : World) (role : Option (String × Role)) (whole : Option Stmt) (curKg : Option String) : Option String :=
  match gateGlobal role whole with
  | some e => some e
  | none =>
    match gateInternal role whole curKg with
    | some e => some e
    | none => gateKg w role whole curKg

def aclGrant (w : World) (kg user role : String) : World :=
  updKg w INTERNAL fun k => setRel k "kg_acls" (((relOf k "kg_acls").filter fun t => !aclMatches kg user t) ++ [[strVal kg, strVal user, strVal (lower role)]])

def isDroppedMsg (m : String) : Bool :=
  startsWith "dropped:".toList m.toList || startsWith "ruledrop:".toList m.toList || startsWith "reldrop:".toList m.toList

def isErrorMsg (m : String) : Bool :=
  m == "dropcurrent" || m == "createfail" || m == "dropfail" || startsWith "kgnotfound:".toList m.toList

def errOfMsg (m : String) : String := if startsWith "kgnotfound:".toList m.toList then "kgnotfound" else m

/-- `query_program_with_session` (handler.rs:3899): closed session → plain; clean → fast path on the
    *session's* KG; dirty → single plain scan query over stored + session facts -/
def queryWithSession (P : Parser) (w : World) (user : String) (text : List Char) : Out :=
  match findSess w user with
  | none => queryProgram P w none text
  | some se =>
    if se.closed then queryProgram P w none text
    else if se.facts.isEmpty && se.rules.isEmpty then queryProgram P w (some se.kg) text
    else
      -- slow path (3930-3996): `transform_query_shorthand(strip_comments(text))`. The statement is read
      -- here from the single logical line; it coincides with `trim (strip_comments text)` whenever
      -- that has no newline (checked by the correspondence run on every case, not proved).
      let pre := trim (stripComments text)
      if !hasKg w se.kg then ⟨w, .err "nokg", []⟩
      else if pre.contains '\n' then ⟨w, .err "queryparse", []⟩   -- `transform_query_shorthand` on a multi-line text
      else match logicalLines text with
        | [l] =>
          if stripInlineComment l != l then ⟨w, .err "queryparse", []⟩
          else (match parseStatement P l with
            | some ⟨.query, .query rel n⟩ => ⟨w, .rows (scanRows w se.kg rel se.facts), [⟨⟨.query, .query rel n⟩, se.kg⟩]⟩
            | _ => ⟨w, .err "unsupported:slow-path-text", []⟩)
        | _ => ⟨w, .err "unsupported:slow-path-text", []⟩

def startsWithChar (c : Char) : List Char → Bool
  | [] => false
  | d :: _ => d == c

/-- what `execute_program` does with the result of the query path (handler.rs:4579-4623): session
    re-binding, owner ACL for a created KG, cleanup after a drop, error-message conversion -/
def postCore (role : Option (String × Role)) (whole : Option Stmt) (sraw : Option Sess) (r : Out) : World × Res :=
  match r.res with
  | .err e => (r.w, .err e)
  | res =>
    let sw : Option String := match res with | .msgs _ s => s | _ => none
    let msgs : List String := match res with | .msgs m _ => m | _ => []
    -- session re-binding (4580): `switch_kg` also clears the session's ephemeral state
    if (match sw, sraw, role with
        | some n, some _, some (_, ro) => n == INTERNAL && ro != Role.admin
        | _, _, _ => false) then (r.w, .err "denied-internal") else      -- never bind a non-admin session to the system KG
    match (match sw, sraw with
           | some n, some se => if se.closed then none else some (updSess r.w se.user fun s => { s with kg := n, facts := [], rules := [] })
           | _, _ => some r.w) with
    | none => (r.w, .err "sessiongone")
    | some w1 =>
    -- owner ACL for the creator (4586-4594)
    let w2 := match role, whole with
      | some (u, ro), some ⟨.kgCreate, .name n⟩ => if ro != Role.admin && sw == some n && hasKg w1 INTERNAL && hasKg w1 n then aclGrant w1 n u "owner" else w1
      | _, _ => w1
    -- cleanup after a drop (4598-4609)
    let w3 := match whole with
      | some ⟨.kgDrop, .name n⟩ =>
        if msgs.any isDroppedMsg then
          let wa := { w2 with sess := w2.sess.map fun s => if s.kg == n then { s with closed := true } else s }
          updKg wa INTERNAL fun k => if (relOf k "kg_acls").any (fun t => (t.head?.bind strOf) == some n) then setRel k "kg_acls" ((relOf k "kg_acls").filter fun t => (t.head?.bind strOf) != some n) else k
        else w2
      | _ => w2
    -- single error-like message → Err (4614-4621)
    match msgs with
    | [m] => if isErrorMsg m then (w3, .err (errOfMsg m)) else (w3, res)
    | _ => (w3, res)

/-- `postCore` never touches the trace -/
def postProcess (_w : World) (role : Option (String × Role)) (whole : Option Stmt) (sraw : Option Sess) (r : Out) : Out :=
  ⟨(postCore role whole sraw r).1, (postCore role whole sraw r).2, r.trace⟩

/-- the identity `execute_program` works with (handler.rs:4270-4284): outer `none` = the user no longer
    exists; `some none` = no `auth` supplied -/
def identityOf (w : World) (user : Option String) : Option (Option (String × Role)) :=
  match user with
  | none => some none
  | some u => (refreshRole w u).map fun r => some (u, r)

/-- `current_kg` of the gates (handler.rs:4295-4300): the explicit KG, else the live session's KG -/
def currentKg (kgArg : Option String) (sraw : Option Sess) : Option String :=
  match kgArg with
  | some k => some k
  | none => (sraw.filter (!·.closed)).map (·.kg)

/-- the session id a request supplies (possibly of a vanished session) -/
def sessOf (w : World) (rq : Req) : Option Sess := if rq.useSess then rq.user.bind (findSess w) else none

/-- session interception of a single session rule / fact (handler.rs:4481-4536); `none` = not intercepted -/
def sessionIntercept (w : World) (sraw : Option Sess) (whole : Option Stmt) (curKg : Option String) : Option Out :=
  match sraw, whole with
  | some se, some ⟨.sessionRule, .srule h⟩ =>
    if startsWith "__".toList (h.toList.dropWhile (· == '~')) then some ⟨w, .err "reserved", []⟩
    else if se.closed then some ⟨w, .err "sessiongone", []⟩
    else some ⟨updSess w se.user fun s => { s with rules := s.rules ++ [h] }, .msgs ["srule"] none, [⟨⟨.sessionRule, .srule h⟩, curKg.getD "default"⟩]⟩
  | some se, some ⟨.fact, .fact rel t⟩ =>
    if se.closed then some ⟨w, .err "sessiongone", []⟩
    else if !hasKg w se.kg then some ⟨w, .err "nokg", []⟩   -- schema check against the session's KG (fb35658): the KG must exist
    else some ⟨updSess w se.user fun s => if s.facts.contains (rel, t) then s else { s with facts := s.facts ++ [(rel, t)] },   -- set per relation (session.rs:187)
               .msgs ["sfact"] none, [⟨⟨.fact, .fact rel t⟩, curKg.getD "default"⟩]⟩
  | some _, some ⟨.fact, .factBad _⟩ => some ⟨w, .err "badterm", []⟩   -- `term_to_value(term)?` (4523) precedes the session access
  | some _, some ⟨.sessionRule, _⟩ => some ⟨w, .err "unsupported:session-rule-form", []⟩
  | some _, some ⟨.fact, _⟩ => some ⟨w, .err "unsupported:fact-form", []⟩
  | _, _ => none

/-- effective KG (handler.rs:4539-4545); outer `none` = a supplied but vanished session id -/
def effectiveKg (kgArg : Option String) (sraw : Option Sess) : Option (Option String) :=
  match kgArg, sraw with
  | some k, _ => some (some k)
  | none, some se => if se.closed then none else some (some se.kg)
  | none, none => some none

/-- the query path (handler.rs:4538-4623): `?…` with a session id goes to `query_program_with_session`,
    everything else to `query_program` on the effective KG; then `postProcess` -/
def queryPath (P : Parser) (w : World) (rq : Req) (role : Option (String × Role)) (whole : Option Stmt)
    (sraw : Option Sess) : Out :=
  match effectiveKg rq.kgArg sraw with
  | none => ⟨w, .err "sessiongone", []⟩
  | some effKg =>
    let r : Out := match startsWithChar '?' (trim rq.text), sraw with
      | true, some se => queryWithSession P w se.user rq.text
      | _, _ => queryProgram P w effKg rq.text
    postProcess w role whole sraw r

/-- everything after the fast path (handler.rs:4478-4623) -/
def execRest (P : Parser) (w : World) (rq : Req) (role : Option (String × Role)) (whole : Option Stmt)
    (sraw : Option Sess) (curKg : Option String) : Out :=
  match sessionIntercept w sraw whole curKg with
  | some o => o
  | none => queryPath P w rq role whole sraw

/-! ### authorization of every logical line (`Handler::authorize_program`) -/

/-- what the pre-pass knows while it walks the lines: the running KG and the set of existing KGs -/
structure Sim where
  kg : Option String
  existing : List String
  deriving DecidableEq, Repr

/-- follow the executor's KG switches (`.kg use` of an existing KG, `.kg create` of a new one) and
    its drops -/
def simStep (sim : Sim) (st : Stmt) : Sim :=
  match st.kind, st.eff with
  | .kgUse, .name n => if sim.existing.contains n then { sim with kg := some n } else sim
  | .kgCreate, .name n => if sim.existing.contains n then sim else ⟨some n, sim.existing ++ [n]⟩
  | .kgDrop, .name n => if sim.kg != some n && n != "default" then { sim with existing := sim.existing.filter (· != n) } else sim
  | _, _ => sim

/-- the loop of `authorize_program`: the three gates on every line that parses, with the running KG;
    `some e` = the request is refused -/
def authorizeLines (P : Parser) (w : World) (role : Option (String × Role)) : Sim → List (List Char) → Option String
  | _, [] => none
  | sim, l :: ls =>
    match parseStatement P l with
    | none => authorizeLines P w role sim ls          -- phase 1 of the executor rejects the whole program
    | some st =>
      match gates w role (some st) sim.kg with
      | some e => some e
      | none => authorizeLines P w role (simStep sim st) ls

def authorizeProgram (P : Parser) (w : World) (role : Option (String × Role)) (startKg : Option String)
    (lines : List (List Char)) : Option String :=
  match gateInternal role none startKg with
  | some e => some e
  | none => authorizeLines P w role ⟨startKg, w.kgs.map (·.name)⟩ lines

/-- the KG the program starts executing on: `?…` with a session id → the session's KG; else the explicit
    KG, else the live session's KG; else the storage default -/
def startKgOf (rq : Req) (sraw : Option Sess) : String :=
  let sessKg := (sraw.filter (!·.closed)).map (·.kg)
  ((if startsWithChar '?' (trim rq.text) && sraw.isSome then sessKg else (rq.kgArg <|> sessKg)).getD "default")

/-- the only statement of a one-statement program -/
def singleStmt (P : Parser) (text : List Char) : Option Stmt :=
  match logicalLines text with
  | [l] => parseStatement P l
  | _ => none

/-- fast path: session / user / ACL meta commands handled without `query_program`; `none` = not handled -/
def fastPath (w : World) (sraw : Option Sess) (single : Option Stmt) (cur : String) : Option Out :=
  let ev (st : Stmt) : List Event := [⟨st, cur⟩]
  match single with
  | some ⟨.sessionClear, e⟩ =>
    (match sraw with
     | none => some ⟨w, .err "nosession", []⟩
     | some se =>
       if se.closed then some ⟨w, .err "sessiongone", []⟩ else
       some ⟨updSess w se.user fun s => { s with facts := [], rules := [] },
        .msgs [s!"sclear:{se.facts.length}:{se.rules.length}"] none, ev ⟨.sessionClear, e⟩⟩)
  | some ⟨.userList, e⟩ =>
    (match findKg w INTERNAL with
     | none => some ⟨w, .err "unsupported:no-internal", []⟩
     | some k => some ⟨w, .rows ((relOf k "users").filterMap fun t => match t with | a :: _ :: c :: _ => some [a, c] | _ => none), ev ⟨.userList, e⟩⟩)
  | some ⟨.kgAclList, e⟩ => some ⟨w, .msgs ["acllist"] none, ev ⟨.kgAclList, e⟩⟩
  | some ⟨.kgAclGrant, .aclGrant kg user r⟩ =>
    if (kgRoleOfString r).isNone then some ⟨w, .err "unsupported:bad-role", []⟩
    else if !hasKg w kg then some ⟨w, .err "kgnotfound", []⟩
    else if !hasKg w INTERNAL then some ⟨w, .err "unsupported:no-internal", []⟩
    else some ⟨aclGrant w kg user r, .msgs ["granted"] none, ev ⟨.kgAclGrant, .aclGrant kg user r⟩⟩
  | some ⟨.kgAclRevoke, .aclRevoke kg user⟩ =>
    (match findKg w INTERNAL with
     | none => some ⟨w, .err "unsupported:no-internal", []⟩
     | some k =>
       if (relOf k "kg_acls").any (aclMatches kg user) then
         some ⟨updKg w INTERNAL fun k => setRel k "kg_acls" ((relOf k "kg_acls").filter fun t => !aclMatches kg user t), .msgs ["revoked"] none, ev ⟨.kgAclRevoke, .aclRevoke kg user⟩⟩
       else some ⟨w, .err "noacl", []⟩)
  | some ⟨k, _⟩ =>
    if (k == .sessionList || k == .sessionDrop || k == .sessionDropName) && sraw.isNone then some ⟨w, .err "nosession", []⟩   -- `ok_or("No active session")`
    else if k == .sessionList || k == .sessionDrop || k == .sessionDropName || k == .userCreate || k == .userDrop || k == .userPassword
       || k == .userRole || k == .apiKeyCreate || k == .apiKeyList || k == .apiKeyRevoke || k == .kgAclGrant || k == .kgAclRevoke then
      some ⟨w, .err s!"unsupported:fast-path-{k.name}", []⟩
    else none
  | none => none

/-- `Handler::execute_program` (after the repair): identity refresh; authorization of every logical
    line with the running KG, before anything runs; then — for one-statement programs only — the fast
    path and the session interception; else the query path. -/
def execProgram (P : Parser) (w : World) (rq : Req) : Out :=
  match identityOf w rq.user with
  | none => ⟨w, .err "denied-nouser", []⟩
  | some role =>
  let sraw : Option Sess := sessOf w rq
  let start := startKgOf rq sraw
  match authorizeProgram P w role (some start) (logicalLines rq.text) with
  | some e => ⟨w, .err e, []⟩
  | none =>
  let single := singleStmt P rq.text
  match fastPath w sraw single start with
  | some o => o
  | none => execRest P w rq role single sraw (some start)

end ILV.Handler
