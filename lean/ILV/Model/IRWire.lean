/-
  Line-protocol codec for IR trees: a prefix token stream (tokens separated by single spaces).
  The harness prints real `IRNode` values in this form by a wildcard-free `match`
  (harness/src/u/irw.rs); this file is the Lean reader/printer of the same grammar.

  node  ::= S rel names | M idxs names node | F pred node | J idxs idxs names node node | D node
          | U n node^n | A idxs aggs names node | X idxs idxs names node node
          | C n (name expr)^n node | H index expr k ef names
          | FM idxs optp names node | JF idxs idxs idxs optp names node node
  pred  ::= cc op col int | cs op col hex | cb op col 0|1 | cf op col hex16 | kk op l r
          | ca col op aexpr vm | ac aexpr op int vm | and pred pred | or pred pred | T | Z
  optp  ::= N | P pred
  aexpr ::= v name | n int | f hex | b aop aexpr aexpr
  expr  ::= col i | i int | fl hex | s hex | bo 0|1 | vl hexes | fn name n expr^n | ar aop expr expr
  lists: `-` for empty, else comma separated; vm = name:col,…; aggs = fn:col,… .
-/
import ILV.Model.IROpt
namespace ILV.IR
open ILV

/-! ### printing -/

def natsW (l : List Nat) : String := if l.isEmpty then "-" else joinWith "," (l.map toString)
def namesW (l : List String) : String := if l.isEmpty then "-" else joinWith "," l
def hexW (l : List Nat) : String := if l.isEmpty then "-" else bytesToHex l

def CmpOp.w : CmpOp → String
  | .eq => "eq" | .ne => "ne" | .lt => "lt" | .le => "le" | .gt => "gt" | .ge => "ge"
def AOp.w : AOp → String
  | .add => "add" | .sub => "sub" | .mul => "mul" | .div => "div" | .mod => "mod"

def vmW (vm : VarMap) : String :=
  if vm.isEmpty then "-" else joinWith "," (vm.map (fun (n, c) => n ++ ":" ++ toString c))

def AExpr.toks : AExpr → List String
  | .var n => ["v", n]
  | .const v => ["n", toString v]
  | .fconst b => ["f", natToHexW 16 b]
  | .bin op l r => ["b", op.w] ++ l.toks ++ r.toks

def Pred.toks : Pred → List String
  | .cc op c v => ["cc", op.w, toString c, toString v]
  | .cs op c s => ["cs", op.w, toString c, hexW s]
  | .cb op c b => ["cb", op.w, toString c, if b then "1" else "0"]
  | .cf op c b => ["cf", op.w, toString c, natToHexW 16 b]
  | .kk op l r => ["kk", op.w, toString l, toString r]
  | .ca c op e vm => ["ca", toString c, op.w] ++ e.toks ++ [vmW vm]
  | .ac e op v vm => ["ac"] ++ e.toks ++ [op.w, toString v, vmW vm]
  | .and p q => ["and"] ++ p.toks ++ q.toks
  | .or p q => ["or"] ++ p.toks ++ q.toks
  | .tt => ["T"]
  | .ff => ["Z"]

def optPredToks : Option Pred → List String
  | none => ["N"]
  | some p => "P" :: p.toks

mutual
def Expr.toks : Expr → List String
  | .col i => ["col", toString i]
  | .int v => ["i", toString v]
  | .flt b => ["fl", natToHexW 16 b]
  | .str s => ["s", hexW s]
  | .bool b => ["bo", if b then "1" else "0"]
  | .vec l => ["vl", if l.isEmpty then "-" else joinWith "/" (l.map (natToHexW 8))]
  | .fn name args => ["fn", name, toString (ExprList.len args)] ++ ExprList.toks args
  | .arith op l r => ["ar", op.w] ++ l.toks ++ r.toks
def ExprList.toks : ExprList → List String
  | .nil => []
  | .cons e es => e.toks ++ ExprList.toks es
def ExprList.len : ExprList → Nat
  | .nil => 0
  | .cons _ es => ExprList.len es + 1
end

def Agg.w : Agg → String
  | .count => "count" | .countDistinct => "cd" | .sum => "sum" | .min => "min" | .max => "max" | .avg => "avg"
  | .topK k oc out d => joinWith "/" ["topk", toString k, toString oc, joinWith "+" (out.map toString), if d then "1" else "0"]
  | .topKThreshold k oc out thr d =>
    joinWith "/" ["topkt", toString k, toString oc, joinWith "+" (out.map toString), natToHexW 16 thr, if d then "1" else "0"]
  | .withinRadius dc out m => joinWith "/" ["wr", toString dc, joinWith "+" (out.map toString), natToHexW 16 m]

def aggsW (l : List (Agg × Nat)) : String :=
  if l.isEmpty then "-" else joinWith "," (l.map (fun (a, c) => a.w ++ ":" ++ toString c))

def computeToks : List (String × Expr) → List String
  | [] => []
  | (n, e) :: es => n :: e.toks ++ computeToks es

mutual
def Node.toks : Node → List String
  | .scan rel s => ["S", rel, namesW s]
  | .map i proj s => ["M", natsW proj, namesW s] ++ i.toks
  | .filter i p => ["F"] ++ p.toks ++ i.toks
  | .join l r lk rk s => ["J", natsW lk, natsW rk, namesW s] ++ l.toks ++ r.toks
  | .distinct i => "D" :: i.toks
  | .union is => ["U", toString (NodeList.len is)] ++ NodeList.toks is
  | .aggregate i gb aggs s => ["A", natsW gb, aggsW aggs, namesW s] ++ i.toks
  | .antijoin l r lk rk s => ["X", natsW lk, natsW rk, namesW s] ++ l.toks ++ r.toks
  | .compute i es => ["C", toString es.length] ++ computeToks es ++ i.toks
  | .hnsw idx q k ef s => ["H", idx] ++ q.toks ++ [toString k, (match ef with | none => "-" | some e => toString e), namesW s]
  | .flatMap i proj fp s => ["FM", natsW proj] ++ optPredToks fp ++ [namesW s] ++ i.toks
  | .joinFlatMap l r lk rk proj fp s => ["JF", natsW lk, natsW rk, natsW proj] ++ optPredToks fp ++ [namesW s] ++ l.toks ++ r.toks
def NodeList.toks : NodeList → List String
  | .nil => []
  | .cons t ts => t.toks ++ NodeList.toks ts
def NodeList.len : NodeList → Nat
  | .nil => 0
  | .cons _ ts => NodeList.len ts + 1
end

def Node.wire (t : Node) : String := joinWith " " t.toks

/-! ### parsing (fuel = number of tokens is always enough) -/

def natsR (s : String) : Option (List Nat) := if s == "-" then some [] else optMapM parseNat (s.splitOn ",")
def namesR (s : String) : List String := if s == "-" then [] else s.splitOn ","
def hexR (s : String) : Option (List Nat) := if s == "-" then some [] else hexToBytes s

def CmpOp.r : String → Option CmpOp
  | "eq" => some .eq | "ne" => some .ne | "lt" => some .lt | "le" => some .le | "gt" => some .gt | "ge" => some .ge
  | _ => none
def AOp.r : String → Option AOp
  | "add" => some .add | "sub" => some .sub | "mul" => some .mul | "div" => some .div | "mod" => some .mod
  | _ => none

def vmR (s : String) : Option VarMap :=
  if s == "-" then some [] else
  optMapM (fun (x : String) => match x.splitOn ":" with
    | [n, c] => (parseNat c).map (fun c => (n, c))
    | _ => none) (s.splitOn ",")

def parseAExpr : Nat → List String → Option (AExpr × List String)
  | 0, _ => none
  | _ + 1, "v" :: n :: rest => some (.var n, rest)
  | _ + 1, "n" :: v :: rest => (parseInt v).map (fun v => (.const v, rest))
  | _ + 1, "f" :: h :: rest => (hexToNat h).map (fun b => (.fconst b, rest))
  | f + 1, "b" :: op :: rest =>
    match AOp.r op, parseAExpr f rest with
    | some op, some (l, rest) => match parseAExpr f rest with
      | some (r, rest) => some (.bin op l r, rest)
      | none => none
    | _, _ => none
  | _ + 1, _ => none

def parsePred : Nat → List String → Option (Pred × List String)
  | 0, _ => none
  | _ + 1, "cc" :: op :: c :: v :: rest =>
    match CmpOp.r op, parseNat c, parseInt v with
    | some op, some c, some v => some (.cc op c v, rest)
    | _, _, _ => none
  | _ + 1, "cs" :: op :: c :: s :: rest =>
    match CmpOp.r op, parseNat c, hexR s with
    | some op, some c, some s => some (.cs op c s, rest)
    | _, _, _ => none
  | _ + 1, "cb" :: op :: c :: b :: rest =>
    match CmpOp.r op, parseNat c with
    | some op, some c => some (.cb op c (b == "1"), rest)
    | _, _ => none
  | _ + 1, "cf" :: op :: c :: h :: rest =>
    match CmpOp.r op, parseNat c, hexToNat h with
    | some op, some c, some b => some (.cf op c b, rest)
    | _, _, _ => none
  | _ + 1, "kk" :: op :: l :: r :: rest =>
    match CmpOp.r op, parseNat l, parseNat r with
    | some op, some l, some r => some (.kk op l r, rest)
    | _, _, _ => none
  | f + 1, "ca" :: c :: op :: rest =>
    match parseNat c, CmpOp.r op, parseAExpr f rest with
    | some c, some op, some (e, vm :: rest) => (vmR vm).map (fun vm => (.ca c op e vm, rest))
    | _, _, _ => none
  | f + 1, "ac" :: rest =>
    match parseAExpr f rest with
    | some (e, op :: v :: vm :: rest) =>
      match CmpOp.r op, parseInt v, vmR vm with
      | some op, some v, some vm => some (.ac e op v vm, rest)
      | _, _, _ => none
    | _ => none
  | f + 1, "and" :: rest =>
    match parsePred f rest with
    | some (p, rest) => match parsePred f rest with
      | some (q, rest) => some (.and p q, rest)
      | none => none
    | none => none
  | f + 1, "or" :: rest =>
    match parsePred f rest with
    | some (p, rest) => match parsePred f rest with
      | some (q, rest) => some (.or p q, rest)
      | none => none
    | none => none
  | _ + 1, "T" :: rest => some (.tt, rest)
  | _ + 1, "Z" :: rest => some (.ff, rest)
  | _ + 1, _ => none

def parseOptPred (f : Nat) : List String → Option (Option Pred × List String)
  | "N" :: rest => some (none, rest)
  | "P" :: rest => (parsePred f rest).map (fun (p, rest) => (some p, rest))
  | _ => none

mutual
def parseExpr : Nat → List String → Option (Expr × List String)
  | 0, _ => none
  | _ + 1, "col" :: i :: rest => (parseNat i).map (fun i => (.col i, rest))
  | _ + 1, "i" :: v :: rest => (parseInt v).map (fun v => (.int v, rest))
  | _ + 1, "fl" :: h :: rest => (hexToNat h).map (fun b => (.flt b, rest))
  | _ + 1, "s" :: h :: rest => (hexR h).map (fun s => (.str s, rest))
  | _ + 1, "bo" :: b :: rest => some (.bool (b == "1"), rest)
  | _ + 1, "vl" :: l :: rest =>
    (if l == "-" then some [] else optMapM hexToNat (l.splitOn "/")).map (fun l => (.vec l, rest))
  | f + 1, "fn" :: name :: n :: rest =>
    match parseNat n with
    | some n => (parseExprs f n rest).map (fun (as, rest) => (.fn name as, rest))
    | none => none
  | f + 1, "ar" :: op :: rest =>
    match AOp.r op, parseExpr f rest with
    | some op, some (l, rest) => match parseExpr f rest with
      | some (r, rest) => some (.arith op l r, rest)
      | none => none
    | _, _ => none
  | _ + 1, _ => none
def parseExprs : Nat → Nat → List String → Option (ExprList × List String)
  | 0, _, _ => none
  | _ + 1, 0, rest => some (.nil, rest)
  | f + 1, n + 1, rest =>
    match parseExpr f rest with
    | some (e, rest) => (parseExprs f n rest).map (fun (es, rest) => (.cons e es, rest))
    | none => none
end

def parseOuts (s : String) : Option (List Nat) := if s.isEmpty then some [] else optMapM parseNat (s.splitOn "+")

def Agg.r (s : String) : Option Agg :=
  match s.splitOn "/" with
  | ["count"] => some .count | ["cd"] => some .countDistinct | ["sum"] => some .sum
  | ["min"] => some .min | ["max"] => some .max | ["avg"] => some .avg
  | ["topk", k, oc, out, d] =>
    match parseNat k, parseNat oc, parseOuts out with
    | some k, some oc, some out => some (.topK k oc out (d == "1"))
    | _, _, _ => none
  | ["topkt", k, oc, out, thr, d] =>
    match parseNat k, parseNat oc, parseOuts out, hexToNat thr with
    | some k, some oc, some out, some thr => some (.topKThreshold k oc out thr (d == "1"))
    | _, _, _, _ => none
  | ["wr", dc, out, m] =>
    match parseNat dc, parseOuts out, hexToNat m with
    | some dc, some out, some m => some (.withinRadius dc out m)
    | _, _, _ => none
  | _ => none

def aggsR (s : String) : Option (List (Agg × Nat)) :=
  if s == "-" then some [] else
  optMapM (fun (x : String) => match x.splitOn ":" with
    | [a, c] => match Agg.r a, parseNat c with
      | some a, some c => some (a, c)
      | _, _ => none
    | _ => none) (s.splitOn ",")

def parseComputes : Nat → Nat → List String → Option (List (String × Expr) × List String)
  | 0, _, _ => none
  | _ + 1, 0, rest => some ([], rest)
  | f + 1, n + 1, name :: rest =>
    match parseExpr f rest with
    | some (e, rest) => (parseComputes f n rest).map (fun (es, rest) => ((name, e) :: es, rest))
    | none => none
  | _ + 1, _ + 1, [] => none

mutual
def parseNode : Nat → List String → Option (Node × List String)
  | 0, _ => none
  | _ + 1, "S" :: rel :: s :: rest => some (.scan rel (namesR s), rest)
  | f + 1, "M" :: proj :: s :: rest =>
    match natsR proj, parseNode f rest with
    | some proj, some (i, rest) => some (.map i proj (namesR s), rest)
    | _, _ => none
  | f + 1, "F" :: rest =>
    match parsePred f rest with
    | some (p, rest) => (parseNode f rest).map (fun (i, rest) => (.filter i p, rest))
    | none => none
  | f + 1, "J" :: lk :: rk :: s :: rest =>
    match natsR lk, natsR rk, parseNode f rest with
    | some lk, some rk, some (l, rest) => (parseNode f rest).map (fun (r, rest) => (.join l r lk rk (namesR s), rest))
    | _, _, _ => none
  | f + 1, "D" :: rest => (parseNode f rest).map (fun (i, rest) => (.distinct i, rest))
  | f + 1, "U" :: n :: rest =>
    match parseNat n with
    | some n => (parseNodes f n rest).map (fun (is, rest) => (.union is, rest))
    | none => none
  | f + 1, "A" :: gb :: aggs :: s :: rest =>
    match natsR gb, aggsR aggs, parseNode f rest with
    | some gb, some aggs, some (i, rest) => some (.aggregate i gb aggs (namesR s), rest)
    | _, _, _ => none
  | f + 1, "X" :: lk :: rk :: s :: rest =>
    match natsR lk, natsR rk, parseNode f rest with
    | some lk, some rk, some (l, rest) => (parseNode f rest).map (fun (r, rest) => (.antijoin l r lk rk (namesR s), rest))
    | _, _, _ => none
  | f + 1, "C" :: n :: rest =>
    match parseNat n with
    | some n => match parseComputes f n rest with
      | some (es, rest) => (parseNode f rest).map (fun (i, rest) => (.compute i es, rest))
      | none => none
    | none => none
  | f + 1, "H" :: idx :: rest =>
    match parseExpr f rest with
    | some (q, k :: ef :: s :: rest) =>
      (parseNat k).map (fun k => (.hnsw idx q k (if ef == "-" then none else parseNat ef) (namesR s), rest))
    | _ => none
  | f + 1, "FM" :: proj :: rest =>
    match natsR proj, parseOptPred f rest with
    | some proj, some (fp, s :: rest) => (parseNode f rest).map (fun (i, rest) => (.flatMap i proj fp (namesR s), rest))
    | _, _ => none
  | f + 1, "JF" :: lk :: rk :: proj :: rest =>
    match natsR lk, natsR rk, natsR proj, parseOptPred f rest with
    | some lk, some rk, some proj, some (fp, s :: rest) =>
      match parseNode f rest with
      | some (l, rest) => (parseNode f rest).map (fun (r, rest) => (.joinFlatMap l r lk rk proj fp (namesR s), rest))
      | none => none
    | _, _, _, _ => none
  | _ + 1, _ => none
def parseNodes : Nat → Nat → List String → Option (NodeList × List String)
  | 0, _, _ => none
  | _ + 1, 0, rest => some (.nil, rest)
  | f + 1, n + 1, rest =>
    match parseNode f rest with
    | some (t, rest) => (parseNodes f n rest).map (fun (ts, rest) => (.cons t ts, rest))
    | none => none
end

/-- facts: `rel tuple ; rel tuple ; …` (tokens), grouped per relation in first-appearance order. -/
def Db.add (db : Db) (rel : String) (t : Tuple) : Db :=
  match db with
  | [] => [(rel, [t])]
  | (r, ts) :: rest => if r == rel then (r, ts ++ [t]) :: rest else (r, ts) :: Db.add rest rel t

def parseFacts : List String → Db → Option Db
  | [], db => some db
  | ";" :: rest, db => parseFacts rest db
  | rel :: tup :: rest, db =>
    match Tuple.ofWire tup with
    | some t => parseFacts rest (Db.add db rel t)
    | none => none
  | [_], _ => none

/-- `<tree tokens> [| facts]` -/
def parseTreeAndDb (toks : List String) : Option (Node × Db) :=
  match parseNode (toks.length + 1) toks with
  | some (t, []) => some (t, [])
  | some (t, "|" :: rest) => (parseFacts rest []).map (fun db => (t, db))
  | _ => none

/-- canonical rendering of a set of rows: sorted wire strings joined by `;` (as `rel_to_wire` in the harness). -/
def relWire (rows : List Tuple) : String :=
  let ws := sortBy (fun (a b : String) => !(b < a)) (rows.map Tuple.toWire)
  if ws.isEmpty then "{}" else joinWith ";" ws

end ILV.IR
