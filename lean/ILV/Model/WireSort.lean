/-
  E11 (part) — model of the result ordering / pagination helpers of `src/protocol/handler.rs`:
  `compare_wire_values` (:7997), `wire_value_type_rank` (:8028), `sort_rows` (:7974),
  `apply_pagination` (:7956) and of their call site (`sort_rows`; `total_count = rows.len()`;
  `apply_pagination`, handler.rs:3818-3823 and :4140-4145).

  `slice::sort_by` (std, stable): for `len ≤ 20` std runs `insertion_sort_shift_left` — modelled exactly
  (`stdInsertionSort`).  For longer inputs std runs driftsort, whose result is specified when the
  comparator is a total order on the slice: it is *the* stable sorted permutation, which is also what
  `stdInsertionSort` returns (Lemmas.WireSort).  After the repair of `compare_wire_values` the closure
  is a total preorder on all rows (Lemmas.WireOrder.rowCmp_tp), so the same function is the model for
  every length and `sort_by` never panics.
-/
import ILV.Model.Value
namespace ILV

inductive WVal where
  | null
  | i32 (n : Int)
  | i64 (n : Int)
  | f64 (bits : Nat)
  | str (s : List Nat)
  | bool (b : Bool)
  | ts (n : Int)
  | vec (l : List Nat)
  | vec8 (l : List Int)
  | bytes (l : List Nat)
  deriving Repr, DecidableEq, Inhabited

/-- `wire_value_type_rank` (handler.rs:8028). -/
def WVal.rank : WVal → Nat
  | .null => 0 | .bool _ => 1 | .i32 _ => 2 | .i64 _ => 3 | .f64 _ => 4 | .str _ => 5 | .ts _ => 6
  | .vec _ => 7 | .vec8 _ => 7 | .bytes _ => 8

def revOrd : Ordering → Ordering
  | .lt => .gt | .eq => .eq | .gt => .lt

/-! ### `i64 as f64` (round to nearest, ties to even) on bit patterns -/

def bitLenAux : Nat → Nat → Nat
  | 0, _ => 0
  | fuel + 1, m => if m = 0 then 0 else 1 + bitLenAux fuel (m / 2)

/-- number of significant bits of `m` (`m < 2^64`). -/
def bitLen (m : Nat) : Nat := bitLenAux 64 m

/-- `m / 2^sh` rounded to nearest, ties to even. -/
def rhe (m sh : Nat) : Nat :=
  let q := m / 2^sh
  let r := m % 2^sh
  if r > 2^(sh - 1) || (r == 2^(sh - 1) && q % 2 == 1) then q + 1 else q

/-- the 53-bit significand (2^52 ≤ · ≤ 2^53) of the double nearest to `m`, where 2^e ≤ m < 2^(e+1). -/
def sigOf (m e : Nat) : Nat := if e ≤ 52 then m * 2^(52 - e) else rhe m (e - 52)

/-- bit pattern of the double nearest to the natural number `m ≤ 2^64` (ties to even):
    exponent field `e + 1023`, fraction `sig - 2^52` (a carry to `sig = 2^53` bumps the exponent field). -/
def natToF64Bits (m : Nat) : Nat :=
  if m = 0 then 0 else
  let e := bitLen m - 1                       -- 2^e ≤ m < 2^(e+1)
  (e + 1022) * 2^52 + sigOf m e

/-- `(n as f64).to_bits()` for an `i64`. -/
def i64AsF64 (n : Int) : Nat :=
  if n < 0 then 2^63 + natToF64Bits n.natAbs else natToF64Bits n.natAbs

/-- `a.partial_cmp(b).unwrap_or(Equal)` on doubles (the comparison before the repair; still the Spec's
    comparison of two non-NaN doubles). -/
def cmpF (a b : Nat) : Ordering := (f64PartialCmp a b).getD .eq

/-- `compare_f64`: numeric order, NaN after every number, all NaNs tie, -0.0 ties with 0.0. -/
def cmpF64 (a b : Nat) : Ordering :=
  match f64IsNaN a, f64IsNaN b with
  | true, true => .eq
  | true, false => .gt
  | false, true => .lt
  | false, false => compare (f64Key a) (f64Key b)

/-- `b as i128` for a double that equals the rounding of an `i64` (integer-valued, |b| ≤ 2^63). -/
def f64ToInt (b : Nat) : Int :=
  let mag := b % 2^63
  let e := mag / 2^52
  let frac := mag % 2^52
  let v : Nat := if e = 0 then 0
    else if e ≥ 1075 then (2^52 + frac) * 2^(e - 1075) else (2^52 + frac) / 2^(1075 - e)
  if (b / 2^63) % 2 == 1 then - (v : Int) else (v : Int)

/-- `compare_i64_f64`: NaN after every number; otherwise compare `a as f64` with `b`, a tie being
    broken on the integers (`i128::from(a).cmp(&(b as i128))`). -/
def cmpI64F64 (a : Int) (b : Nat) : Ordering :=
  if f64IsNaN b then .lt else
  match compare (f64Key (i64AsF64 a)) (f64Key b) with
  | .eq => compare a (f64ToInt b)
  | o => o

/-- `compare_wire_values` on two present values. -/
def compareWV : WVal → WVal → Ordering
  | .i64 a, .i64 b => compare a b
  | .i32 a, .i32 b => compare a b
  | .f64 a, .f64 b => cmpF64 a b
  | .str a, .str b => lexCmp (fun (x y : Nat) => compare x y) a b
  | .bool a, .bool b => compare a b
  | .ts a, .ts b => compare a b
  | .null, .null => .eq
  | .null, _ => .lt
  | _, .null => .gt
  | .i64 a, .f64 b => cmpI64F64 a b
  | .f64 a, .i64 b => revOrd (cmpI64F64 b a)
  | a, b => compare a.rank b.rank

/-- `compare_wire_values` (handler.rs:7997). -/
def compareWire : Option WVal → Option WVal → Ordering
  | none, none => .eq
  | none, some _ => .lt
  | some _, none => .gt
  | some a, some b => compareWV a b

abbrev WRow := List WVal

/-- a sort key: column index and direction (`true` = descending). -/
abbrev SortKey := Nat × Bool

/-- the closure passed to `sort_by` (handler.rs:7978-7992). -/
def rowCmp : List SortKey → WRow → WRow → Ordering
  | [], _, _ => .eq
  | (col, desc) :: ks, a, b =>
    let c := compareWire a[col]? b[col]?
    let c := if desc then revOrd c else c
    if c != .eq then c else rowCmp ks a b

/-- insert `x` into the already sorted prefix, held in reverse (its last element first):
    shift left while `x < prev` (`insertion_sort_shift_left`, strict comparison ⇒ stable). -/
def insLeft {α} (lt : α → α → Bool) (x : α) : List α → List α
  | [] => [x]
  | p :: ps => if lt x p then p :: insLeft lt x ps else x :: p :: ps

def stdInsertionSort {α} (lt : α → α → Bool) (l : List α) : List α :=
  (l.foldl (fun acc x => insLeft lt x acc) []).reverse

/-- `sort_rows` (handler.rs:7974). -/
def sortRows (rows : List WRow) (keys : List SortKey) : List WRow :=
  if keys.isEmpty then rows else stdInsertionSort (fun a b => rowCmp keys a b == .lt) rows

/-- `apply_pagination` (handler.rs:7956). -/
def applyPagination (rows : List WRow) (limit offset : Option Nat) : List WRow :=
  let start := offset.getD 0
  if start ≥ rows.length then []
  else
    let remaining := rows.drop start
    match limit with
    | some n => remaining.take n
    | none => remaining

/-- the call site: sort, count, paginate.  Returns (total_count, rows). -/
def queryPage (rows : List WRow) (keys : List SortKey) (limit offset : Option Nat) : Nat × List WRow :=
  let sorted := sortRows rows keys
  (sorted.length, applyPagination sorted limit offset)

/-- is the closure a total preorder on these rows?  (brute force; decides which contract of
    `sort_by` applies) -/
def lawfulRows (keys : List SortKey) (rows : List WRow) : Bool :=
  rows.all (fun a => rows.all (fun b =>
    rowCmp keys b a == revOrd (rowCmp keys a b) &&
    rows.all (fun c =>
      !(rowCmp keys a b != .gt && rowCmp keys b c != .gt) || rowCmp keys a c != .gt)))

/-! ### Spec side: the exact order the annotations denote -/

def WVal.isNaN : WVal → Bool
  | .f64 b => f64IsNaN b
  | _ => false

/-- exact comparison of an `i64` with a non-NaN double: rounding is monotone and the double is a fixed
    point of it, so a strict answer after rounding is the exact answer; on a tie compare exactly. -/
def cmpIntF (a : Int) (b : Nat) : Ordering :=
  match compare (f64Key (i64AsF64 a)) (f64Key b) with
  | .eq => compare a (f64ToInt b)
  | o => o

/-- the order the annotations denote: natural order within a kind, exact numeric order between Int64 and
    Float64 ("cross-type numeric comparison"), type rank otherwise.  NaN has no place in it (callers
    exclude rows with a NaN key). -/
def specCmpV : WVal → WVal → Ordering
  | .i64 a, .f64 b => cmpIntF a b
  | .f64 a, .i64 b => revOrd (cmpIntF b a)
  | a, b => compareWV a b

def specCmpO : Option WVal → Option WVal → Ordering
  | none, none => .eq
  | none, some _ => .lt
  | some _, none => .gt
  | some a, some b => specCmpV a b

def specRowCmp : List SortKey → WRow → WRow → Ordering
  | [], _, _ => .eq
  | (col, desc) :: ks, a, b =>
    let c := specCmpO a[col]? b[col]?
    let c := if desc then revOrd c else c
    if c != .eq then c else specRowCmp ks a b

/-- a row whose sort keys contain a NaN is unordered: it may stand anywhere. -/
def rowHasNaNKey (keys : List SortKey) (r : WRow) : Bool :=
  keys.any (fun (col, _) => match r[col]? with | some v => v.isNaN | none => false)

def sortedBy (cmp : WRow → WRow → Ordering) : List WRow → Bool
  | [] => true
  | [_] => true
  | a :: b :: rest => cmp a b != .gt && sortedBy cmp (b :: rest)

/-- Spec sortedness: the rows without NaN keys appear in the exact order (ties in any order). -/
def specSorted (keys : List SortKey) (rows : List WRow) : Bool :=
  sortedBy (specRowCmp keys) (rows.filter (fun r => !rowHasNaNKey keys r))


/-- remove one occurrence. -/
def eraseOne (r : WRow) : List WRow → Option (List WRow)
  | [] => none
  | x :: xs => if x == r then some xs else (eraseOne r xs).map (x :: ·)

def subMultiset : List WRow → List WRow → Option (List WRow)
  | [], a => some a
  | r :: rs, a => match eraseOne r a with
    | some a' => subMultiset rs a'
    | none => none

/-- the slice the call site takes. -/
def pageSlice (s : List WRow) (limit offset : Option Nat) : List WRow :=
  match limit with
  | some n => (s.drop (offset.getD 0)).take n
  | none => s.drop (offset.getD 0)

/-- length of that slice for an answer of `n` rows. -/
def wantLen (n : Nat) (limit offset : Option Nat) : Nat :=
  match limit with
  | some l => min l (n - offset.getD 0)
  | none => n - offset.getD 0

def nfRow (keys : List SortKey) (r : WRow) : Bool := !rowHasNaNKey keys r

/-- candidate permutation: `p` of the (sorted) NaN-free rest rows and `off - p` NaN-key rows before the
    page, the others after it. -/
def pageCand (page restNF restN : List WRow) (off p : Nat) : List WRow :=
  (restNF.take p ++ restN.take (off - p)) ++ page ++ (restN.drop (off - p) ++ restNF.drop p)

/-- Spec oracle for a page: is there a permutation `s` of `a` with `specSorted s` and
    `page = take limit (drop offset s)`?  The rest `a ∖ page` is split into its NaN-free rows (sorted) and
    its NaN-key rows; every number `p` of NaN-free rows placed before the page is tried, the candidate
    permutation is built and checked.  Proved equivalent to the proposition (Lemmas.PageSpec). -/
def specPageOk (keys : List SortKey) (a : List WRow) (limit offset : Option Nat) (page : List WRow) : Bool :=
  if keys.isEmpty then page == pageSlice a limit offset else       -- no annotation: the answer's own order
  decide (page.length = wantLen a.length limit offset) &&
  match subMultiset page a with
  | none => false
  | some rest =>
    let off := min (offset.getD 0) a.length
    let restNF := stdInsertionSort (fun x y => specRowCmp keys x y == .lt) (rest.filter (nfRow keys))
    let restN := rest.filter (fun r => !nfRow keys r)
    (List.range (restNF.length + 1)).any (fun p =>
      decide (p ≤ off) && decide (off - p ≤ restN.length) &&
      specSorted keys (pageCand page restNF restN off p))

/-! ### line-protocol codec -/

def WVal.toWire : WVal → String
  | .null => "null"
  | .i32 n => s!"i32:{n}"
  | .i64 n => s!"i64:{n}"
  | .f64 b => "f64:" ++ natToHexW 16 b
  | .str s => "s:" ++ bytesToHex s
  | .bool b => if b then "b:1" else "b:0"
  | .ts n => s!"ts:{n}"
  | .vec l => "v:" ++ joinWith "/" (l.map (natToHexW 8))
  | .vec8 l => "v8:" ++ joinWith "/" (l.map (fun (i : Int) => toString i))
  | .bytes l => "by:" ++ bytesToHex l

def WVal.ofWire (s : String) : Option WVal :=
  if s == "null" then some .null else
  match s.splitOn ":" with
  | ["i32", n] => (parseInt n).map .i32
  | ["i64", n] => (parseInt n).map .i64
  | ["ts", n] => (parseInt n).map .ts
  | ["f64", h] => (hexToNat h).map .f64
  | ["s", h] => (hexToBytes h).map .str
  | ["b", "1"] => some (.bool true)
  | ["b", "0"] => some (.bool false)
  | ["v", l] => (optMapM hexToNat (splitNonEmpty l "/")).map .vec
  | ["v8", l] => (optMapM parseInt (splitNonEmpty l "/")).map .vec8
  | ["by", h] => (hexToBytes h).map .bytes
  | _ => none

def WRow.toWire (t : WRow) : String := if t.isEmpty then "()" else joinWith "," (t.map WVal.toWire)
def WRow.ofWire (s : String) : Option WRow :=
  if s == "()" then some [] else optMapM WVal.ofWire (s.splitOn ",")

end ILV
