/-
  Model of the LSH part of `src/vector_ops.rs`:
  * probe sequences `lsh_probes` (1127) / `lsh_probes_ranked` (1296) on `Nat` bit operations
    (a bucket is the 64-bit pattern of the `i64`),
  * deterministic hyperplane generation (909) over the parameters `FloatOps` and `hash`
    (`DefaultHasher` of one `u64`),
  * bucket computation (991, 690, 1198),
  * the global hyperplane cache (934 `get_or_create_hyperplanes`, 1074 clear, 1088 resize) as a
    state machine with one step per lock-protected region.
-/
import ILV.Model.FloatOps
namespace ILV.Lsh
open ILV

/-! ### probes -/

/-- `for i in 0..n { for j in (i+1)..n { … } }` over an index list: pairs in loop order. -/
def pairs : List Nat → List (List Nat)
  | [] => []
  | i :: rest => rest.map (fun j => [i, j]) ++ pairs rest

def triples : List Nat → List (List Nat)
  | [] => []
  | i :: rest => (pairs rest).map (fun p => i :: p) ++ triples rest

/-- the flip sets in the order the code pushes them: ∅, singles, pairs, triples. -/
def flipSets (idx : List Nat) : List (List Nat) :=
  [[]] ++ idx.map (fun i => [i]) ++ pairs idx ++ triples idx

/-- `bucket ^ (1 << i) ^ (1 << j) ^ …` in the order written in the code. -/
def applyFlips (b : Nat) (s : List Nat) : Nat := s.foldl (fun acc i => acc ^^^ (1 <<< i)) b

/-- all probes for an index order, then the `num_probes` cut (every loop of the code returns as
    soon as `probes.len() >= num_probes`; with `num_probes = 0` the result is empty). -/
def probesOf (b : Nat) (idx : List Nat) (m : Nat) : List Nat := ((flipSets idx).map (applyFlips b)).take m

/-- vector_ops.rs:1127 `lsh_probes`. -/
def probes (b n m : Nat) : List Nat := probesOf b (List.range (min n 62)) m

/-- stable insertion of `(i,d)` by a strict "less" on the keys: `x` (which precedes the elements of
    the list in the input) goes in front of everything not strictly smaller than it. -/
def insertStable {α} (lt : α → α → Bool) (x : Nat × α) : List (Nat × α) → List (Nat × α)
  | [] => [x]
  | y :: ys => if lt y.2 x.2 then y :: insertStable lt x ys else x :: y :: ys

/-- `sort_by(|a,b| a.1.partial_cmp(&b.1).unwrap_or(Equal))` for a comparator that is a strict weak
    order (no NaN): the unique stable result.  With NaNs Rust's result is an unspecified
    permutation (or a panic); the theorems hold for *every* permutation. -/
def sortIdx {α} (lt : α → α → Bool) (d : List α) : List Nat :=
  (((List.range d.length).zip d).foldr (insertStable lt) []).map (·.1)

/-- vector_ops.rs:1296 `lsh_probes_ranked`; `d` = the boundary distances, `lt` = IEEE `<` on them.
    (`num_bits == 0` returns `[bucket]` unless `num_probes == 0` — the same as `probesOf b [] m`.) -/
def probesRanked {α} (lt : α → α → Bool) (b : Nat) (d : List α) (m : Nat) : List Nat :=
  probesOf b (sortIdx lt (d.take 62)) m

/-- number of one bits among the low 64 (`(a ^ b).count_ones()` on the i64 patterns). -/
def popCount64 (x : Nat) : Nat := ((List.range 64).filter (fun i => x.testBit i)).length

/-- vector_ops.rs:232 `hamming_distance`. -/
def hamming (a b : Nat) : Nat := popCount64 (a ^^^ b)

/-- i64 ↔ 64-bit pattern. -/
def patOfInt (i : Int) : Nat := (i % (2 ^ 64 : Int)).toNat
def intOfPat (n : Nat) : Int :=
  let r : Nat := n % 2 ^ 64
  if r < 2 ^ 63 then (r : Int) else (r : Int) - (2 ^ 64 : Int)

/-- vector_ops.rs:241 `abs_i64` (saturating). -/
def absI64 (x : Int) : Int := if x == -(2 ^ 63 : Int) then (2 ^ 63 : Int) - 1 else if x < 0 then -x else x

/-! ### hyperplanes and buckets -/

variable (F : FloatOps) (hash : Nat → Nat)

/-- vector_ops.rs:891 `random_f32_from_seed`. -/
def randomF32 (seed : Nat) : F.F32 :=
  let bits : Nat := hash seed % 2 ^ 32
  let unit := F.div64 (F.ofInt64 (bits : Int)) (F.ofInt64 ((2 ^ 32 - 1 : Nat) : Int))
  F.to32 (F.sub64 (F.mul64 unit F.two64) F.one64)

/-- the cache key `(table_idx, num_hyperplanes, dimension)`. -/
abbrev Key := Int × Nat × Nat

/-- vector_ops.rs:909 `generate_hyperplanes`: `min(n,62)` rows of `dimension` components. -/
def genHyperplanes (k : Key) : List (List F.F32) :=
  let (t, n, dim) := k
  (List.range (min n 62)).map (fun h =>
    (List.range dim).map (fun d =>
      randomF32 F hash ((patOfInt t * 1000000007 % 2 ^ 64 + h * 31337 % 2 ^ 64 + d) % 2 ^ 64)))

def dot32 : List F.F32 → List F.F32 → F.F32 → F.F32
  | a :: as, b :: bs, acc => dot32 as bs (F.add32 acc (F.mul32 a b))
  | _, _, acc => acc

def dot64 : List F.F64 → List F.F32 → F.F64 → F.F64
  | a :: as, b :: bs, acc => dot64 as bs (F.add64 acc (F.mul64 a (F.to64 b)))
  | _, _, acc => acc

/-- set bit `h` for every hyperplane whose dot product is `> 0`. -/
def bitsOf (signs : List Bool) : Nat :=
  ((List.range signs.length).zip signs).foldl (fun acc (h, s) => if s then acc ||| (1 <<< h) else acc) 0

/-- vector_ops.rs:991 `compute_bucket_from_hyperplanes` (f32 accumulation). -/
def bucketFrom (v : List F.F32) (hp : List (List F.F32)) : Nat :=
  bitsOf (hp.map (fun row => F.lt32 F.zero32 (dot32 F v row F.negZero32)))

/-- vector_ops.rs:1213-1225 / 700-710: f64 accumulation; also the boundary distances. -/
def bucketDist (v : List F.F64) (hp : List (List F.F32)) : Nat × List F.F64 :=
  let dots := hp.map (fun row => dot64 F v row F.negZero64)
  (bitsOf (dots.map (fun d => F.lt64 F.zero64 d)), dots.map F.abs64)

/-- the key `lsh_bucket*` asks the cache for (vector_ops.rs:1043-1044). -/
def bucketKey (t : Int) (n len : Nat) : Key := (t, min n 62, len)

/-- `lsh_bucket` as a function of its arguments only (what C26 (c) says it must be). -/
def lshBucketPure (v : List F.F32) (t : Int) (n : Nat) : Nat :=
  if v.isEmpty || n == 0 then 0 else bucketFrom F v (genHyperplanes F hash (bucketKey t n v.length))

def lshBucketDistPure (v : List F.F64) (t : Int) (n : Nat) : Nat × List F.F64 :=
  if v.isEmpty || n == 0 then (0, []) else bucketDist F v (genHyperplanes F hash (bucketKey t n v.length))

/-! ### the cache -/

structure Entry (V : Type) where
  key : Key
  val : V
  last : Nat

structure Cache (V : Type) where
  entries : List (Entry V) := []
  max : Nat := 64
  clock : Nat := 0
  hits : Nat := 0
  misses : Nat := 0
  evictions : Nat := 0

/-- one atomic step = one lock-protected region (or one group of atomic stores). -/
inductive Step where
  | probe (k : Key)      -- read-lock region of `get_or_create_hyperplanes` (944-951)
  | fill (k : Key)       -- write-lock region (954-984), entered after `probe` returned nothing
  | clearMap             -- `cache.write().cache.clear()` (1077)
  | resetStats           -- `stats.reset()` (1078)
  | resize (m : Nat)     -- `configure_lsh_cache_size` (1088)

section
variable {V : Type} (gen : Key → V)

def touch (c : Cache V) (k : Key) : Cache V :=
  { c with entries := c.entries.map (fun e => if e.key == k then { e with last := c.clock } else e),
           clock := c.clock + 1, hits := c.hits + 1 }

def lookup (c : Cache V) (k : Key) : Option V := (c.entries.find? (fun e => e.key == k)).map (·.val)

/-- the entry with the least `last_access` (first one on ties, like `Iterator::min_by_key`). -/
def minEntry : List (Entry V) → Option (Entry V)
  | [] => none
  | e :: es => match minEntry es with
    | none => some e
    | some m => if m.last < e.last then some m else some e

def evictIfFull (c : Cache V) : Cache V :=
  if c.entries.length >= c.max then
    match minEntry c.entries with
    | some m => { c with entries := c.entries.filter (fun e => !(e.key == m.key)), evictions := c.evictions + 1 }
    | none => c
  else c

def step (c : Cache V) : Step → Cache V × Option V
  | .probe k => match lookup c k with
    | some v => (touch c k, some v)
    | none => (c, none)
  | .fill k => match lookup c k with
    | some v => (touch c k, some v)
    | none =>
      let c1 := evictIfFull { c with misses := c.misses + 1 }
      let v := gen k
      ({ c1 with entries := c1.entries ++ [{ key := k, val := v, last := c1.clock }], clock := c1.clock + 1 }, some v)
  | .clearMap => ({ c with entries := [] }, none)
  | .resetStats => ({ c with hits := 0, misses := 0, evictions := 0 }, none)
  | .resize m => ({ c with max := m }, none)

/-- run a sequence of atomic steps, collecting what each returned. -/
def run (c : Cache V) : List Step → Cache V × List (Option V)
  | [] => (c, [])
  | s :: ss => let (c1, r) := step gen c s; let (c2, rs) := run c1 ss; (c2, r :: rs)

/-- `get_or_create_hyperplanes` executed without interference: probe, then fill on a miss. -/
def getOrCreate (c : Cache V) (k : Key) : Cache V × V :=
  match step gen c (.probe k) with
  | (c1, some v) => (c1, v)
  | (c1, none) => match step gen c1 (.fill k) with
    | (c2, some v) => (c2, v)
    | (c2, none) => (c2, gen k)   -- unreachable: `fill` always returns a value

/-- the cache invariant: every cached entry is what `generate_hyperplanes` gives for its key. -/
def Inv (c : Cache V) : Prop := ∀ e ∈ c.entries, e.val = gen e.key

end

/-- `lsh_bucket` through the cache (vector_ops.rs:1038). -/
def lshBucket (c : Cache (List (List F.F32))) (v : List F.F32) (t : Int) (n : Nat) : Cache (List (List F.F32)) × Nat :=
  if v.isEmpty || n == 0 then (c, 0)
  else match getOrCreate (genHyperplanes F hash) c (bucketKey t n v.length) with
    | (c1, hp) => (c1, bucketFrom F v hp)

def lshBucketDist (c : Cache (List (List F.F32))) (v : List F.F64) (t : Int) (n : Nat) : Cache (List (List F.F32)) × (Nat × List F.F64) :=
  if v.isEmpty || n == 0 then (c, (0, []))
  else match getOrCreate (genHyperplanes F hash) c (bucketKey t n v.length) with
    | (c1, hp) => (c1, bucketDist F v hp)

end ILV.Lsh
