import ILV.Drv.All
open ILV

partial def loop (h : IO.FS.Stream) (out : IO.FS.Stream) : IO Unit := do
  let line ← h.getLine
  if line.isEmpty then return ()
  if line.startsWith "#" then
    loop h out
    return ()
  let line := (line.dropEndWhile (fun c => c == '\n' || c == '\r')).toString
  let (req, impl) := match line.splitOn "\t" with
    | [r] => (r, "")
    | r :: i :: _ => (r, i)
    | [] => ("", "")
  let r : Reply := match req.splitOn " " with
    | op :: args => match ILV.Drv.allHandlers.lookup op with
      | some f => f args impl
      | none => { model := "unknown-op", spec := "na", nt := false }
    | [] => { model := "unknown-op", spec := "na", nt := false }
  out.putStrLn (r.model ++ "\t" ++ r.spec ++ "\t" ++ (if r.nt then "1" else "0"))
  loop h out

def main : IO Unit := do
  let out ← IO.getStdout
  loop (← IO.getStdin) out
  out.flush
