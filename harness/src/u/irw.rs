//! Wire codec for real `IRNode` values (grammar in lean/ILV/Model/IRWire.lean).
//! Encoding is a wildcard-free `match` over every enum of `src/ir/mod.rs`, so a new variant
//! breaks the harness build instead of being silently skipped.
use crate::common::*;
use inputlayer::ast::{ArithExpr, ArithOp as AstOp, ComparisonOp};
use inputlayer::ir::{AggregateFunction, ArithOp, BuiltinFunction, IRExpression, IRNode, Predicate};
use inputlayer::{Tuple, Value};
use std::collections::HashMap;

fn nats(l: &[usize]) -> String { if l.is_empty() { "-".into() } else { l.iter().map(|x| x.to_string()).collect::<Vec<_>>().join(",") } }
fn names(l: &[String]) -> String { if l.is_empty() { "-".into() } else { l.join(",") } }
fn hexs(s: &str) -> String { if s.is_empty() { "-".into() } else { hex(s.as_bytes()) } }

fn cmp_w(o: &ComparisonOp) -> &'static str {
    match o { ComparisonOp::Equal => "eq", ComparisonOp::NotEqual => "ne", ComparisonOp::LessThan => "lt",
              ComparisonOp::LessOrEqual => "le", ComparisonOp::GreaterThan => "gt", ComparisonOp::GreaterOrEqual => "ge" }
}
fn astop_w(o: &AstOp) -> &'static str {
    match o { AstOp::Add => "add", AstOp::Sub => "sub", AstOp::Mul => "mul", AstOp::Div => "div", AstOp::Mod => "mod" }
}
fn irop_w(o: &ArithOp) -> &'static str {
    match o { ArithOp::Add => "add", ArithOp::Sub => "sub", ArithOp::Mul => "mul", ArithOp::Div => "div", ArithOp::Mod => "mod" }
}
fn vm_w(vm: &HashMap<String, usize>) -> String {
    if vm.is_empty() { return "-".into(); }
    let mut v: Vec<_> = vm.iter().collect(); v.sort();
    v.iter().map(|(n, c)| format!("{n}:{c}")).collect::<Vec<_>>().join(",")
}
fn aexpr_w(e: &ArithExpr, out: &mut Vec<String>) {
    match e {
        ArithExpr::Variable(n) => { out.push("v".into()); out.push(n.clone()); }
        ArithExpr::Constant(v) => { out.push("n".into()); out.push(v.to_string()); }
        ArithExpr::FloatConstant(b) => { out.push("f".into()); out.push(format!("{:016x}", b)); }
        ArithExpr::Binary { op, left, right } => { out.push("b".into()); out.push(astop_w(op).into()); aexpr_w(left, out); aexpr_w(right, out); }
    }
}
pub fn pred_w(p: &Predicate, out: &mut Vec<String>) {
    let mut cc = |k: &str, op: &str, c: &usize, v: String| { out.push(k.into()); out.push(op.into()); out.push(c.to_string()); out.push(v); };
    match p {
        Predicate::ColumnEqConst(c, v) => cc("cc", "eq", c, v.to_string()),
        Predicate::ColumnNeConst(c, v) => cc("cc", "ne", c, v.to_string()),
        Predicate::ColumnGtConst(c, v) => cc("cc", "gt", c, v.to_string()),
        Predicate::ColumnLtConst(c, v) => cc("cc", "lt", c, v.to_string()),
        Predicate::ColumnGeConst(c, v) => cc("cc", "ge", c, v.to_string()),
        Predicate::ColumnLeConst(c, v) => cc("cc", "le", c, v.to_string()),
        Predicate::ColumnEqStr(c, s) => cc("cs", "eq", c, hexs(s)),
        Predicate::ColumnNeStr(c, s) => cc("cs", "ne", c, hexs(s)),
        Predicate::ColumnLtStr(c, s) => cc("cs", "lt", c, hexs(s)),
        Predicate::ColumnGtStr(c, s) => cc("cs", "gt", c, hexs(s)),
        Predicate::ColumnLeStr(c, s) => cc("cs", "le", c, hexs(s)),
        Predicate::ColumnGeStr(c, s) => cc("cs", "ge", c, hexs(s)),
        Predicate::ColumnEqBool(c, b) => cc("cb", "eq", c, (*b as u8).to_string()),
        Predicate::ColumnNeBool(c, b) => cc("cb", "ne", c, (*b as u8).to_string()),
        Predicate::ColumnEqFloat(c, f) => cc("cf", "eq", c, format!("{:016x}", f.to_bits())),
        Predicate::ColumnNeFloat(c, f) => cc("cf", "ne", c, format!("{:016x}", f.to_bits())),
        Predicate::ColumnGtFloat(c, f) => cc("cf", "gt", c, format!("{:016x}", f.to_bits())),
        Predicate::ColumnLtFloat(c, f) => cc("cf", "lt", c, format!("{:016x}", f.to_bits())),
        Predicate::ColumnGeFloat(c, f) => cc("cf", "ge", c, format!("{:016x}", f.to_bits())),
        Predicate::ColumnLeFloat(c, f) => cc("cf", "le", c, format!("{:016x}", f.to_bits())),
        Predicate::ColumnsEq(l, r) => cc("kk", "eq", l, r.to_string()),
        Predicate::ColumnsNe(l, r) => cc("kk", "ne", l, r.to_string()),
        Predicate::ColumnsLt(l, r) => cc("kk", "lt", l, r.to_string()),
        Predicate::ColumnsGt(l, r) => cc("kk", "gt", l, r.to_string()),
        Predicate::ColumnsLe(l, r) => cc("kk", "le", l, r.to_string()),
        Predicate::ColumnsGe(l, r) => cc("kk", "ge", l, r.to_string()),
        Predicate::ColumnCompareArith(c, op, e, vm) => {
            out.push("ca".into()); out.push(c.to_string()); out.push(cmp_w(op).into()); aexpr_w(e, out); out.push(vm_w(vm));
        }
        Predicate::ArithCompareConst(e, op, v, vm) => {
            out.push("ac".into()); aexpr_w(e, out); out.push(cmp_w(op).into()); out.push(v.to_string()); out.push(vm_w(vm));
        }
        Predicate::And(a, b) => { out.push("and".into()); pred_w(a, out); pred_w(b, out); }
        Predicate::Or(a, b) => { out.push("or".into()); pred_w(a, out); pred_w(b, out); }
        Predicate::True => out.push("T".into()),
        Predicate::False => out.push("Z".into()),
    }
}
fn optp_w(p: &Option<Predicate>, out: &mut Vec<String>) {
    match p { None => out.push("N".into()), Some(p) => { out.push("P".into()); pred_w(p, out); } }
}
fn fn_name(f: &BuiltinFunction) -> String { format!("{:?}", f) }
fn expr_w(e: &IRExpression, out: &mut Vec<String>) {
    match e {
        IRExpression::Column(i) => { out.push("col".into()); out.push(i.to_string()); }
        IRExpression::IntConstant(v) => { out.push("i".into()); out.push(v.to_string()); }
        IRExpression::FloatConstant(f) => { out.push("fl".into()); out.push(format!("{:016x}", f.to_bits())); }
        IRExpression::StringConstant(s) => { out.push("s".into()); out.push(hexs(s)); }
        IRExpression::BoolConstant(b) => { out.push("bo".into()); out.push((*b as u8).to_string()); }
        IRExpression::VectorLiteral(v) => { out.push("vl".into()); out.push(if v.is_empty() { "-".into() } else { v.iter().map(|f| format!("{:08x}", f.to_bits())).collect::<Vec<_>>().join("/") }); }
        IRExpression::FunctionCall(f, args) => { out.push("fn".into()); out.push(fn_name(f)); out.push(args.len().to_string()); for a in args { expr_w(a, out); } }
        IRExpression::Arithmetic { op, left, right } => { out.push("ar".into()); out.push(irop_w(op).into()); expr_w(left, out); expr_w(right, out); }
    }
}
fn outs(v: &[usize]) -> String { v.iter().map(|x| x.to_string()).collect::<Vec<_>>().join("+") }
fn agg_w(a: &AggregateFunction) -> String {
    match a {
        AggregateFunction::Count => "count".into(), AggregateFunction::CountDistinct => "cd".into(), AggregateFunction::Sum => "sum".into(),
        AggregateFunction::Min => "min".into(), AggregateFunction::Max => "max".into(), AggregateFunction::Avg => "avg".into(),
        AggregateFunction::TopK { k, order_col, output_cols, descending } => format!("topk/{k}/{order_col}/{}/{}", outs(output_cols), *descending as u8),
        AggregateFunction::TopKThreshold { k, order_col, output_cols, threshold, descending } =>
            format!("topkt/{k}/{order_col}/{}/{:016x}/{}", outs(output_cols), threshold.to_bits(), *descending as u8),
        AggregateFunction::WithinRadius { distance_col, output_cols, max_distance } => format!("wr/{distance_col}/{}/{:016x}", outs(output_cols), max_distance.to_bits()),
    }
}
pub fn node_w(n: &IRNode, out: &mut Vec<String>) {
    match n {
        IRNode::Scan { relation, schema } => { out.push("S".into()); out.push(relation.clone()); out.push(names(schema)); }
        IRNode::Map { input, projection, output_schema } => { out.push("M".into()); out.push(nats(projection)); out.push(names(output_schema)); node_w(input, out); }
        IRNode::Filter { input, predicate } => { out.push("F".into()); pred_w(predicate, out); node_w(input, out); }
        IRNode::Join { left, right, left_keys, right_keys, output_schema } => {
            out.push("J".into()); out.push(nats(left_keys)); out.push(nats(right_keys)); out.push(names(output_schema)); node_w(left, out); node_w(right, out); }
        IRNode::Distinct { input } => { out.push("D".into()); node_w(input, out); }
        IRNode::Union { inputs } => { out.push("U".into()); out.push(inputs.len().to_string()); for i in inputs { node_w(i, out); } }
        IRNode::Aggregate { input, group_by, aggregations, output_schema } => {
            out.push("A".into()); out.push(nats(group_by));
            out.push(if aggregations.is_empty() { "-".into() } else { aggregations.iter().map(|(a, c)| format!("{}:{}", agg_w(a), c)).collect::<Vec<_>>().join(",") });
            out.push(names(output_schema)); node_w(input, out); }
        IRNode::Antijoin { left, right, left_keys, right_keys, output_schema } => {
            out.push("X".into()); out.push(nats(left_keys)); out.push(nats(right_keys)); out.push(names(output_schema)); node_w(left, out); node_w(right, out); }
        IRNode::Compute { input, expressions } => {
            out.push("C".into()); out.push(expressions.len().to_string());
            for (n, e) in expressions { out.push(n.clone()); expr_w(e, out); }
            node_w(input, out); }
        IRNode::HnswScan { index_name, query, k, ef_search, output_schema } => {
            out.push("H".into()); out.push(index_name.clone()); expr_w(query, out); out.push(k.to_string());
            out.push(match ef_search { None => "-".into(), Some(e) => e.to_string() }); out.push(names(output_schema)); }
        IRNode::FlatMap { input, projection, filter_predicate, output_schema } => {
            out.push("FM".into()); out.push(nats(projection)); optp_w(filter_predicate, out); out.push(names(output_schema)); node_w(input, out); }
        IRNode::JoinFlatMap { left, right, left_keys, right_keys, projection, filter_predicate, output_schema } => {
            out.push("JF".into()); out.push(nats(left_keys)); out.push(nats(right_keys)); out.push(nats(projection)); optp_w(filter_predicate, out);
            out.push(names(output_schema)); node_w(left, out); node_w(right, out); }
    }
}
pub fn node_wire(n: &IRNode) -> String { let mut v = vec![]; node_w(n, &mut v); v.join(" ") }

// ---------------------------------------------------------------- decoding
pub struct Toks<'a> { t: Vec<&'a str>, i: usize }
impl<'a> Toks<'a> {
    pub fn new(t: Vec<&'a str>) -> Self { Toks { t, i: 0 } }
    pub fn next(&mut self) -> Option<&'a str> { let r = self.t.get(self.i).copied(); self.i += 1; r }
    pub fn peek(&self) -> Option<&'a str> { self.t.get(self.i).copied() }
    pub fn rest(&self) -> &[&'a str] { if self.i <= self.t.len() { &self.t[self.i..] } else { &[] } }
}
fn nats_r(s: &str) -> Option<Vec<usize>> { if s == "-" { Some(vec![]) } else { s.split(',').map(|x| x.parse().ok()).collect() } }
fn names_r(s: &str) -> Vec<String> { if s == "-" { vec![] } else { s.split(',').map(|x| x.to_string()).collect() } }
fn hexs_r(s: &str) -> Option<String> { if s == "-" { Some(String::new()) } else { String::from_utf8(unhex(s)?).ok() } }
fn f64_r(s: &str) -> Option<f64> { Some(f64::from_bits(u64::from_str_radix(s, 16).ok()?)) }
fn cmp_r(s: &str) -> Option<ComparisonOp> {
    Some(match s { "eq" => ComparisonOp::Equal, "ne" => ComparisonOp::NotEqual, "lt" => ComparisonOp::LessThan, "le" => ComparisonOp::LessOrEqual,
                   "gt" => ComparisonOp::GreaterThan, "ge" => ComparisonOp::GreaterOrEqual, _ => return None })
}
fn astop_r(s: &str) -> Option<AstOp> { Some(match s { "add" => AstOp::Add, "sub" => AstOp::Sub, "mul" => AstOp::Mul, "div" => AstOp::Div, "mod" => AstOp::Mod, _ => return None }) }
fn irop_r(s: &str) -> Option<ArithOp> { Some(match s { "add" => ArithOp::Add, "sub" => ArithOp::Sub, "mul" => ArithOp::Mul, "div" => ArithOp::Div, "mod" => ArithOp::Mod, _ => return None }) }
fn vm_r(s: &str) -> Option<HashMap<String, usize>> {
    if s == "-" { return Some(HashMap::new()); }
    s.split(',').map(|x| { let (n, c) = x.split_once(':')?; Some((n.to_string(), c.parse().ok()?)) }).collect()
}
fn aexpr_r(t: &mut Toks) -> Option<ArithExpr> {
    Some(match t.next()? {
        "v" => ArithExpr::Variable(t.next()?.to_string()),
        "n" => ArithExpr::Constant(t.next()?.parse().ok()?),
        "f" => ArithExpr::FloatConstant(u64::from_str_radix(t.next()?, 16).ok()?),
        "b" => { let op = astop_r(t.next()?)?; let l = aexpr_r(t)?; let r = aexpr_r(t)?; ArithExpr::Binary { op, left: Box::new(l), right: Box::new(r) } }
        _ => return None,
    })
}
pub fn pred_r(t: &mut Toks) -> Option<Predicate> {
    let k = t.next()?;
    Some(match k {
        "cc" => { let op = t.next()?; let c: usize = t.next()?.parse().ok()?; let v: i64 = t.next()?.parse().ok()?;
            match op { "eq" => Predicate::ColumnEqConst(c, v), "ne" => Predicate::ColumnNeConst(c, v), "gt" => Predicate::ColumnGtConst(c, v),
                       "lt" => Predicate::ColumnLtConst(c, v), "ge" => Predicate::ColumnGeConst(c, v), "le" => Predicate::ColumnLeConst(c, v), _ => return None } }
        "cs" => { let op = t.next()?; let c: usize = t.next()?.parse().ok()?; let v = hexs_r(t.next()?)?;
            match op { "eq" => Predicate::ColumnEqStr(c, v), "ne" => Predicate::ColumnNeStr(c, v), "gt" => Predicate::ColumnGtStr(c, v),
                       "lt" => Predicate::ColumnLtStr(c, v), "ge" => Predicate::ColumnGeStr(c, v), "le" => Predicate::ColumnLeStr(c, v), _ => return None } }
        "cb" => { let op = t.next()?; let c: usize = t.next()?.parse().ok()?; let v = t.next()? == "1";
            match op { "eq" => Predicate::ColumnEqBool(c, v), "ne" => Predicate::ColumnNeBool(c, v), _ => return None } }
        "cf" => { let op = t.next()?; let c: usize = t.next()?.parse().ok()?; let v = f64_r(t.next()?)?;
            match op { "eq" => Predicate::ColumnEqFloat(c, v), "ne" => Predicate::ColumnNeFloat(c, v), "gt" => Predicate::ColumnGtFloat(c, v),
                       "lt" => Predicate::ColumnLtFloat(c, v), "ge" => Predicate::ColumnGeFloat(c, v), "le" => Predicate::ColumnLeFloat(c, v), _ => return None } }
        "kk" => { let op = t.next()?; let l: usize = t.next()?.parse().ok()?; let r: usize = t.next()?.parse().ok()?;
            match op { "eq" => Predicate::ColumnsEq(l, r), "ne" => Predicate::ColumnsNe(l, r), "gt" => Predicate::ColumnsGt(l, r),
                       "lt" => Predicate::ColumnsLt(l, r), "ge" => Predicate::ColumnsGe(l, r), "le" => Predicate::ColumnsLe(l, r), _ => return None } }
        "ca" => { let c: usize = t.next()?.parse().ok()?; let op = cmp_r(t.next()?)?; let e = aexpr_r(t)?; let vm = vm_r(t.next()?)?; Predicate::ColumnCompareArith(c, op, e, vm) }
        "ac" => { let e = aexpr_r(t)?; let op = cmp_r(t.next()?)?; let v: i64 = t.next()?.parse().ok()?; let vm = vm_r(t.next()?)?; Predicate::ArithCompareConst(e, op, v, vm) }
        "and" => { let a = pred_r(t)?; let b = pred_r(t)?; Predicate::And(Box::new(a), Box::new(b)) }
        "or" => { let a = pred_r(t)?; let b = pred_r(t)?; Predicate::Or(Box::new(a), Box::new(b)) }
        "T" => Predicate::True,
        "Z" => Predicate::False,
        _ => return None,
    })
}
fn optp_r(t: &mut Toks) -> Option<Option<Predicate>> { match t.next()? { "N" => Some(None), "P" => Some(Some(pred_r(t)?)), _ => None } }
fn expr_r(t: &mut Toks) -> Option<IRExpression> {
    Some(match t.next()? {
        "col" => IRExpression::Column(t.next()?.parse().ok()?),
        "i" => IRExpression::IntConstant(t.next()?.parse().ok()?),
        "fl" => IRExpression::FloatConstant(f64_r(t.next()?)?),
        "s" => IRExpression::StringConstant(hexs_r(t.next()?)?),
        "bo" => IRExpression::BoolConstant(t.next()? == "1"),
        "vl" => { let s = t.next()?; IRExpression::VectorLiteral(if s == "-" { vec![] } else { s.split('/').map(|x| u32::from_str_radix(x, 16).ok().map(f32::from_bits)).collect::<Option<Vec<_>>>()? }) }
        "ar" => { let op = irop_r(t.next()?)?; let l = expr_r(t)?; let r = expr_r(t)?; IRExpression::Arithmetic { op, left: Box::new(l), right: Box::new(r) } }
        _ => return None, // builtin calls are never sent by this harness
    })
}
fn agg_r(s: &str) -> Option<AggregateFunction> {
    let p: Vec<&str> = s.split('/').collect();
    let outs_r = |s: &str| -> Option<Vec<usize>> { if s.is_empty() { Some(vec![]) } else { s.split('+').map(|x| x.parse().ok()).collect() } };
    Some(match p[0] {
        "count" => AggregateFunction::Count, "cd" => AggregateFunction::CountDistinct, "sum" => AggregateFunction::Sum,
        "min" => AggregateFunction::Min, "max" => AggregateFunction::Max, "avg" => AggregateFunction::Avg,
        "topk" if p.len() == 5 => AggregateFunction::TopK { k: p[1].parse().ok()?, order_col: p[2].parse().ok()?, output_cols: outs_r(p[3])?, descending: p[4] == "1" },
        "topkt" if p.len() == 6 => AggregateFunction::TopKThreshold { k: p[1].parse().ok()?, order_col: p[2].parse().ok()?, output_cols: outs_r(p[3])?, threshold: f64_r(p[4])?, descending: p[5] == "1" },
        "wr" if p.len() == 4 => AggregateFunction::WithinRadius { distance_col: p[1].parse().ok()?, output_cols: outs_r(p[2])?, max_distance: f64_r(p[3])? },
        _ => return None,
    })
}
pub fn node_r(t: &mut Toks) -> Option<IRNode> {
    Some(match t.next()? {
        "S" => IRNode::Scan { relation: t.next()?.to_string(), schema: names_r(t.next()?) },
        "M" => { let p = nats_r(t.next()?)?; let s = names_r(t.next()?); IRNode::Map { input: Box::new(node_r(t)?), projection: p, output_schema: s } }
        "F" => { let p = pred_r(t)?; IRNode::Filter { input: Box::new(node_r(t)?), predicate: p } }
        "J" => { let lk = nats_r(t.next()?)?; let rk = nats_r(t.next()?)?; let s = names_r(t.next()?); let l = node_r(t)?; let r = node_r(t)?;
                 IRNode::Join { left: Box::new(l), right: Box::new(r), left_keys: lk, right_keys: rk, output_schema: s } }
        "D" => IRNode::Distinct { input: Box::new(node_r(t)?) },
        "U" => { let n: usize = t.next()?.parse().ok()?; let mut v = vec![]; for _ in 0..n { v.push(node_r(t)?); } IRNode::Union { inputs: v } }
        "A" => { let gb = nats_r(t.next()?)?; let a = t.next()?;
                 let aggs = if a == "-" { vec![] } else { a.split(',').map(|x| { let (f, c) = x.rsplit_once(':')?; Some((agg_r(f)?, c.parse().ok()?)) }).collect::<Option<Vec<_>>>()? };
                 let s = names_r(t.next()?); IRNode::Aggregate { input: Box::new(node_r(t)?), group_by: gb, aggregations: aggs, output_schema: s } }
        "X" => { let lk = nats_r(t.next()?)?; let rk = nats_r(t.next()?)?; let s = names_r(t.next()?); let l = node_r(t)?; let r = node_r(t)?;
                 IRNode::Antijoin { left: Box::new(l), right: Box::new(r), left_keys: lk, right_keys: rk, output_schema: s } }
        "C" => { let n: usize = t.next()?.parse().ok()?; let mut es = vec![]; for _ in 0..n { let name = t.next()?.to_string(); es.push((name, expr_r(t)?)); }
                 IRNode::Compute { input: Box::new(node_r(t)?), expressions: es } }
        "H" => { let idx = t.next()?.to_string(); let q = expr_r(t)?; let k = t.next()?.parse().ok()?; let ef = t.next()?; let s = names_r(t.next()?);
                 IRNode::HnswScan { index_name: idx, query: q, k, ef_search: if ef == "-" { None } else { Some(ef.parse().ok()?) }, output_schema: s } }
        "FM" => { let p = nats_r(t.next()?)?; let fp = optp_r(t)?; let s = names_r(t.next()?);
                  IRNode::FlatMap { input: Box::new(node_r(t)?), projection: p, filter_predicate: fp, output_schema: s } }
        "JF" => { let lk = nats_r(t.next()?)?; let rk = nats_r(t.next()?)?; let p = nats_r(t.next()?)?; let fp = optp_r(t)?; let s = names_r(t.next()?);
                  let l = node_r(t)?; let r = node_r(t)?;
                  IRNode::JoinFlatMap { left: Box::new(l), right: Box::new(r), left_keys: lk, right_keys: rk, projection: p, filter_predicate: fp, output_schema: s } }
        _ => return None,
    })
}

/// `<tree tokens> [| rel tuple ; rel tuple ...]` → tree and database (relations keep duplicates).
pub fn tree_and_db(toks: Vec<&str>) -> Option<(IRNode, Vec<(String, Vec<Tuple>)>)> {
    let mut t = Toks::new(toks);
    let n = node_r(&mut t)?;
    let mut db: Vec<(String, Vec<Tuple>)> = vec![];
    let rest = t.rest();
    if rest.is_empty() { return Some((n, db)); }
    if rest[0] != "|" { return None; }
    let mut i = 1;
    while i < rest.len() {
        if rest[i] == ";" { i += 1; continue; }
        if i + 1 >= rest.len() { return None; }
        let tup = tuple_of_wire(rest[i + 1])?;
        match db.iter_mut().find(|e| e.0 == rest[i]) { Some(e) => e.1.push(tup), None => db.push((rest[i].to_string(), vec![tup])) }
        i += 2;
    }
    Some((n, db))
}
pub fn facts_wire(db: &[(String, Vec<Tuple>)]) -> String {
    let mut items = vec![];
    for (r, ts) in db { for t in ts { items.push(format!("{} {}", r, tuple_to_wire(t))); } }
    items.join(" ; ")
}
pub fn _unused(_: &Value) {}
