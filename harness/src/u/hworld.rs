//! Shared by C27/C29/C30: an in-process `Handler` world (temp data dir, fixed users/KGs, ACLs and
//! sessions from a setup spec), execution of `execute_program` / `query_program` calls, canonical
//! outcomes, a full state dump, and the *parser oracle* (the real parser's classification of the
//! whole text and of every logical line) that the Lean model consumes.
//!
//! Wire format of one case's implementation output (one line):
//!   `O <oracle entries> ; R <outcome> [| <outcome>…] ; D <dump>`
//! oracle entry = `<hex key>=<descr>`; key = `strip_inline_comment(text.trim())` (real functions),
//! descr = `err` | `<kind>[/<arg>…]` extracted from the real AST (see `describe`).
use crate::common::*;
use crate::u::authk::kind_of;
use inputlayer::ast::Term;
use inputlayer::auth::{AuthIdentity, Role};
use inputlayer::protocol::handler::{verif_join_continuation_lines, verif_strip_comments, Handler};
use inputlayer::protocol::wire::{QueryResult, WireValue};
use inputlayer::statement::parser::strip_inline_comment;
use inputlayer::statement::{parse_statement, DeletePattern, MetaCommand, Statement};
use inputlayer::{Config, Tuple, Value};
use std::collections::BTreeMap;

pub const KGS: &[&str] = &["default", "kga", "kgb"];
pub const USERS: &[(&str, &str)] = &[("adm", "admin"), ("ed", "editor"), ("vi", "viewer")];

pub struct World {
    _dir: tempfile::TempDir,
    pub h: Handler,
    rt: tokio::runtime::Runtime,
    pub sessions: BTreeMap<String, String>,
}

fn s(v: &str) -> Value { Value::string(v) }

fn role_of(u: &str) -> Option<Role> { match u { "adm" => Some(Role::Admin), "ed" => Some(Role::Editor), "vi" => Some(Role::Viewer), _ => None } }

impl World {
    /// setup spec: `acl=<kg>:<user>:<role>,…/sess=<user>:<kg>,…` (either list may be `-`)
    pub fn new(spec: &str) -> Result<World, String> {
        // tmpfs when available: the box is shared and disk latency otherwise dominates the run time
        let dir = if std::path::Path::new("/dev/shm").is_dir() { tempfile::Builder::new().prefix("ilvh").tempdir_in("/dev/shm") } else { tempfile::TempDir::new() }.map_err(|e| e.to_string())?;
        let mut c = Config::default();
        c.storage.data_dir = dir.path().join("data");
        c.storage.performance.num_threads = 1;
        // durability is not what these properties are about: no fsync per write (same code paths otherwise)
        c.storage.persist.durability_mode = inputlayer::DurabilityMode::Batched;
        c.http.auth.credentials_file = Some(dir.path().join("cred.toml"));
        let h = Handler::from_config(c)?;
        let rt = tokio::runtime::Builder::new_current_thread().enable_all().build().map_err(|e| e.to_string())?;
        {
            let st = h.get_storage();
            st.create_knowledge_graph("_internal").map_err(|e| e.to_string())?;
            for kg in KGS { if *kg != "default" { st.create_knowledge_graph(kg).map_err(|e| e.to_string())?; } }
            for (u, r) in USERS {
                st.insert_tuples_into("_internal", "users", vec![Tuple::new(vec![s(u), s("h"), s(r)])]).map_err(|e| e.to_string())?;
            }
            for kg in KGS { st.insert_tuples_into(kg, "m1", vec![Tuple::new(vec![Value::Int64(0)])]).map_err(|e| e.to_string())?; }
        }
        let mut w = World { _dir: dir, h, rt, sessions: BTreeMap::new() };
        for part in spec.split('/') {
            if let Some(l) = part.strip_prefix("acl=") {
                for e in l.split(',').filter(|e| !e.is_empty() && *e != "-") {
                    let f: Vec<&str> = e.split(':').collect();
                    if f.len() != 3 { return Err("bad acl".into()); }
                    w.h.get_storage().insert_tuples_into("_internal", "kg_acls", vec![Tuple::new(vec![s(f[0]), s(f[1]), s(f[2])])]).map_err(|e| e.to_string())?;
                }
            } else if let Some(l) = part.strip_prefix("sess=") {
                for e in l.split(',').filter(|e| !e.is_empty() && *e != "-") {
                    let f: Vec<&str> = e.split(':').collect();
                    if f.len() != 2 { return Err("bad sess".into()); }
                    let sid = w.h.session_manager().create_session(f[1])?;
                    w.sessions.insert(f[0].to_string(), sid);
                }
            }
        }
        Ok(w)
    }

    /// one call. `who` ∈ adm|ed|vi|anon (anon = no auth identity); `sess` = `s` (use who's session) | `n`;
    /// `kgarg` = `-` (None) | name; `api` = `exec` (execute_program) | `query` (query_program)
    pub fn call(&self, api: &str, who: &str, sess: &str, kgarg: &str, prog: &str) -> String {
        let kg = if kgarg == "-" { None } else { Some(kgarg.to_string()) };
        let r = if api == "query" {
            self.rt.block_on(self.h.query_program(kg, prog.to_string()))
        } else {
            let auth = role_of(who).map(|r| AuthIdentity { username: who.to_string(), role: r });
            let sid = if sess == "s" { self.sessions.get(who) } else { None };
            self.rt.block_on(self.h.execute_program(sid, kg, prog.to_string(), auth.as_ref()))
        };
        outcome(&r)
    }

    pub fn dump(&self) -> String {
        let st = self.h.get_storage();
        let mut kgs = vec![];
        for kg in st.list_knowledge_graphs() {
            let mut rels = vec![];
            if let Ok(snap) = st.get_snapshot_for(&kg) {
                let mut names: Vec<&String> = snap.input_tuples.keys().collect(); names.sort();
                for n in names { let ts = &snap.input_tuples[n]; if !ts.is_empty() { rels.push(format!("{n}={}", rel_to_wire(ts))); } }
            }
            let mut rules = st.list_rules_in(&kg).unwrap_or_default(); rules.sort();
            let mut schemas = st.list_schemas_in(&kg).unwrap_or_default(); schemas.sort();
            kgs.push(format!("{kg}{{{}}}r[{}]s[{}]", rels.join("|"), rules.join(","), schemas.join(",")));
        }
        drop(st);
        let mut ss = vec![];
        for (u, sid) in &self.sessions {
            let sm = self.h.session_manager();
            match sm.session_kg(sid) {
                Ok(kg) => {
                    let nf = sm.get_session_facts(sid).map(|f| f.len()).unwrap_or(0);
                    let nr = sm.with_session(sid, |x| x.rules().len()).unwrap_or(0);
                    ss.push(format!("{u}@{kg}:{nf}:{nr}"));
                }
                Err(_) => ss.push(format!("{u}@closed")),
            }
        }
        format!("{} S[{}]", kgs.join(" "), ss.join(","))
    }
}

fn wv(v: &WireValue) -> String {
    match v {
        WireValue::Int32(n) => format!("i32:{n}"),
        WireValue::Int64(n) => format!("i64:{n}"),
        WireValue::String(s) => format!("s:{}", hex(s.as_bytes())),
        WireValue::Bool(b) => format!("b:{}", if *b { 1 } else { 0 }),
        WireValue::Null => "null".into(),
        WireValue::Float64(f) => format!("f64:{:016x}", f.to_bits()),
        WireValue::Timestamp(t) => format!("ts:{t}"),
        _ => "vec".into(),
    }
}

/// message → small class (prefix table; anything unknown is shown verbatim-ish so that it is noticed)
pub fn msg_class(m: &str) -> Option<String> {
    let q = |m: &str| -> String { m.split('\'').nth(1).unwrap_or("?").to_string() };
    let num = |m: &str, i: usize| -> String { m.split_whitespace().nth(i).unwrap_or("?").to_string() };
    if m.starts_with("  ") { return None; }                       // list items (kg list, status, rel list)
    Some(if m.starts_with("Inserted ") { format!("ins:{}:{}", num(m, 1), q(m)) }
    else if m.starts_with("Deleted ") { format!("del:{}:{}", num(m, 1), q(m)) }
    else if m.starts_with("Session fact added") { "sfact".into() }
    else if m.starts_with("Session rule added") { "srule".into() }
    else if m.starts_with("Rule '") && m.ends_with("registered.") { format!("rule:{}", q(m)) }
    else if m.starts_with("Rule '") && m.ends_with("dropped.") { format!("ruledrop:{}", q(m)) }
    else if m.ends_with("not found as rule.") { format!("notrule:{}", q(m)) }
    else if m.starts_with("Schema for") { format!("schema:{}", q(m)) }
    else if m.starts_with("Failed to register schema") { "schemafail".into() }
    else if m.starts_with("Type '") { "type".into() }
    else if m.starts_with("Current knowledge graph: ") { format!("cur:{}", &m[25..]) }
    else if m == "Knowledge Graphs:" || m == "No knowledge graphs found." { "kgs".into() }
    else if m.starts_with("Knowledge graph '") && m.ends_with("created.") { format!("created:{}", q(m)) }
    else if m.starts_with("Switched to knowledge graph: ") { format!("switched:{}", &m[29..]) }
    else if m.starts_with("Create failed:") { "createfail".into() }
    else if m.starts_with("Knowledge graph '") && m.contains("not found") { format!("kgnotfound:{}", q(m)) }
    else if m.starts_with("Cannot drop current knowledge graph") { "dropcurrent".into() }
    else if m.starts_with("Knowledge graph '") && m.ends_with("dropped.") { format!("dropped:{}", q(m)) }
    else if m.starts_with("Drop failed:") { "dropfail".into() }
    else if m == "Relations:" || m.starts_with("No relations in current") { "rellist".into() }
    else if m == "Rules:" || m == "No rules defined." { "rulelist".into() }
    else if m.starts_with("Relation '") && m.ends_with("dropped.") { format!("reldrop:{}", q(m)) }
    else if m.starts_with("Error: ") { "error".into() }
    else if m.starts_with("No relations matching prefix") { "clear0".into() }
    else if m.starts_with("Cleared ") && m.contains("relation(s)") { format!("cleared:{}:{}", num(m, 1), num(m, 4)) }
    else if m.starts_with("Cleared ") && m.contains("session fact") { format!("sclear:{}:{}", num(m, 1), num(m, 4)) }
    else if m == "Server Status" { "status".into() }
    else if m == "Compaction complete." { "compacted".into() }
    else if m.starts_with("Session commands require") { "needws".into() }
    else if m.starts_with("User/API key commands require") { "needadmin".into() }
    else if m.starts_with("KG ACL commands require") { "needowner".into() }
    else if m.starts_with("This command is client-only") { "clientonly".into() }
    else if m.starts_with("Rule editing is not supported") { "noedit".into() }
    else if m == "No indexes." { "noindex".into() }
    else if m.starts_with("Granted '") { "granted".into() }
    else if m.starts_with("Cannot insert variable") || m.starts_with("Cannot insert placeholder") { "badterm".into() }
    else if m.starts_with("Revoked access") { "revoked".into() }
    else if m.starts_with("No ACL entries for") || m.starts_with("ACL entries for") { "acllist".into() }
    else { format!("msg?{}", m.chars().take(40).collect::<String>().replace(' ', "_")) })
}

pub fn err_class(e: &str) -> String {
    if e.starts_with("VALIDATION_ERRORS:") { "parse".into() }
    else if e.starts_with("Access denied: '_internal'") { "denied-internal".into() }
    else if e == "Access denied" { "denied-noacl".into() }
    else if e.starts_with("Access denied: user no longer exists") { "denied-nouser".into() }
    else if e.starts_with("Permission denied: you have viewer access") { "denied-kgviewer".into() }
    else if e.starts_with("Permission denied: only KG owners") { "denied-kgowner".into() }
    else if e.starts_with("Permission denied: only admins can perform") { "denied-kgadmin".into() }
    else if e.starts_with("Permission denied:") { "denied-global".into() }
    else if e.starts_with("Knowledge graph not found") { "nokg".into() }
    else if e.starts_with("Cannot drop current knowledge graph") { "dropcurrent".into() }
    else if e.starts_with("Create failed:") { "createfail".into() }
    else if e.starts_with("Drop failed:") { "dropfail".into() }
    else if e.starts_with("Knowledge graph '") && e.contains("not found") { "kgnotfound".into() }
    else if e.starts_with("No active session") { "nosession".into() }
    else if e.starts_with("Session rule '") && e.contains("reserved") { "reserved".into() }
    else if e.starts_with("Failed to parse query") { "queryparse".into() }
    else if e.starts_with("Query execution failed") { "queryfail".into() }
    else if e.starts_with("No ACL entry found") { "noacl".into() }
    else if e.starts_with("Cannot insert variable") || e.starts_with("Cannot insert placeholder") { "badterm".into() }
    else if e.starts_with("Session ") && e.ends_with("not found") { "sessiongone".into() }
    else { format!("err?{}", e.chars().take(60).collect::<String>().replace(' ', "_")) }
}

pub fn outcome(r: &Result<QueryResult, String>) -> String {
    match r {
        Err(e) => format!("err:{}", err_class(e)),
        Ok(q) => {
            let is_msgs = q.schema.len() == 1 && q.schema[0].name == "message";
            if is_msgs {
                let ms: Vec<String> = q.rows.iter().filter_map(|t| match t.values.first() { Some(WireValue::String(m)) => msg_class(m), _ => Some("nonstring".into()) }).collect();
                format!("msgs:{}:sw={}", ms.join(","), q.switched_kg.as_deref().unwrap_or("-"))
            } else {
                let mut rows: Vec<String> = q.rows.iter().map(|t| t.values.iter().map(wv).collect::<Vec<_>>().join(",")).collect();
                rows.sort();
                format!("rows:{}:sw={}", if rows.is_empty() { "{}".into() } else { rows.join(";") }, q.switched_kg.as_deref().unwrap_or("-"))
            }
        }
    }
}

fn term_wire(t: &Term) -> Option<String> {
    Some(match t {
        Term::Constant(n) => format!("i64:{n}"),
        Term::StringConstant(s) => format!("s:{}", hex(s.as_bytes())),
        Term::BoolConstant(b) => format!("b:{}", if *b { 1 } else { 0 }),
        _ => return None,
    })
}
fn tuple_wire(ts: &[Term]) -> Option<String> {
    if ts.is_empty() { return None; }
    Some(ts.iter().map(term_wire).collect::<Option<Vec<_>>>()?.join(","))
}
/// names travel verbatim when plain, else as `~<hex>` (the tolerant meta parser can pick up any token)
fn enc_name(n: &str) -> String { if name_ok(n) && n != "-" { n.to_string() } else { format!("~{}", hex(n.as_bytes())) } }
fn name_ok(n: &str) -> bool { !n.is_empty() && n.chars().all(|c| c.is_ascii_alphanumeric() || c == '_') }

/// Description of a parsed statement for the model: `<kind>` + the payload the model interprets.
/// Forms whose effect the model does not interpret get `<kind>/?` — the model treats them as
/// "unsupported" (its output then says so; generators avoid them in executing positions).
pub fn describe(st: &Statement) -> String {
    let k = kind_of(st);
    let unsupported = format!("{k}/?");
    match st {
        Statement::Insert(op) => {
            let ts: Option<Vec<String>> = op.tuples.iter().map(|t| tuple_wire(t)).collect();
            match ts { Some(ts) if name_ok(&op.relation) && !ts.is_empty() => format!("{k}/{}/{}", op.relation, ts.join(";")), _ => unsupported }
        }
        Statement::Delete(op) => match &op.pattern {
            DeletePattern::SingleTuple(ts) => match tuple_wire(ts) { Some(t) if name_ok(&op.relation) => format!("{k}/{}/{}", op.relation, t), _ => unsupported },
            _ => unsupported,
        },
        // the relation "name" of a fact can be any text (e.g. a whole-text parse that starts with a `%` line)
        Statement::Fact(r) => if r.head.args.is_empty() { unsupported } else { match tuple_wire(&r.head.args) {
            Some(t) => format!("{k}/{}/{}", enc_name(&r.head.relation), t),
            None => if r.head.args.iter().all(|a| matches!(a, Term::Constant(_) | Term::StringConstant(_) | Term::BoolConstant(_) | Term::Variable(_) | Term::Placeholder)) { format!("{k}/{}/!", enc_name(&r.head.relation)) } else { unsupported },
        } },
        Statement::SessionRule(r) => if name_ok(&r.head.relation) { format!("{k}/{}", r.head.relation) } else { unsupported },
        Statement::PersistentRule(r) => if name_ok(&r.head.relation) { format!("{k}/{}", r.head.relation) } else { unsupported },
        Statement::Query(q) => {
            let all_vars = q.goal.args.iter().all(|a| matches!(a, Term::Variable(_)));
            let mut names: Vec<String> = q.goal.args.iter().filter_map(|a| if let Term::Variable(v) = a { Some(v.clone()) } else { None }).collect();
            names.sort(); names.dedup();
            if all_vars && names.len() == q.goal.args.len() && q.body.is_empty() && q.order_by.is_empty() && q.limit.is_none() && q.offset.is_none() && name_ok(&q.goal.relation) {
                format!("{k}/{}/{}", q.goal.relation, q.goal.args.len())
            } else { unsupported }
        }
        Statement::DeleteRelationOrRule(n) => format!("{k}/{}", enc_name(n)),
        Statement::SchemaDecl(d) => if name_ok(&d.name) { format!("{k}/{}/{}", d.name, if d.persistent { 1 } else { 0 }) } else { unsupported },
        Statement::TypeDecl(_) => k.to_string(),
        Statement::Update(_) => unsupported,
        Statement::Meta(m) => match m {
            MetaCommand::KgCreate(n) | MetaCommand::KgUse(n) | MetaCommand::KgDrop(n) => format!("{k}/{}", enc_name(n)),
            MetaCommand::RelDrop(n) => format!("{k}/{}", enc_name(n)),
            MetaCommand::ClearPrefix(n) => format!("{k}/{}", enc_name(n)),
            MetaCommand::KgAclList(o) => match o { None => format!("{k}/-"), Some(n) => format!("{k}/{}", enc_name(n)) },
            MetaCommand::KgAclGrant { kg_name, username, role } => format!("{k}/{}/{}/{}", enc_name(kg_name), enc_name(username), enc_name(role)),
            MetaCommand::KgAclRevoke { kg_name, username } => format!("{k}/{}/{}", enc_name(kg_name), enc_name(username)),
            MetaCommand::KgShow | MetaCommand::KgList | MetaCommand::RelList | MetaCommand::RuleList | MetaCommand::Status | MetaCommand::Compact
            | MetaCommand::SessionList | MetaCommand::SessionClear | MetaCommand::SessionDrop(_) | MetaCommand::SessionDropName(_)
            | MetaCommand::UserList | MetaCommand::UserCreate { .. } | MetaCommand::UserDrop(_) | MetaCommand::UserPassword { .. } | MetaCommand::UserRole { .. }
            | MetaCommand::ApiKeyCreate(_) | MetaCommand::ApiKeyList | MetaCommand::ApiKeyRevoke(_)
            | MetaCommand::Help | MetaCommand::Quit | MetaCommand::Load { .. } | MetaCommand::RuleEdit { .. } | MetaCommand::IndexList => k.to_string(),
            _ => unsupported,
        },
    }
}

pub fn oracle_key(text: &str) -> String { strip_inline_comment(text.trim()).to_string() }

/// the real logical lines of `QueryJob::execute` (handler.rs:2491/2503-2507)
pub fn real_logical_lines(prog: &str) -> Vec<String> {
    let t = verif_join_continuation_lines(&verif_strip_comments(prog));
    t.lines().map(|l| l.trim().to_string()).filter(|l| !l.is_empty()).collect()
}

/// oracle for a set of program texts: whole text + every logical line, keyed by the comment-stripped text
pub fn oracle(progs: &[&str]) -> String {
    let mut m: BTreeMap<String, String> = BTreeMap::new();
    for p in progs {
        let mut texts = vec![p.to_string()];
        texts.extend(real_logical_lines(p));
        for t in texts {
            let key = oracle_key(&t);
            if key.is_empty() { continue; }
            let d = match parse_statement(&key) { Ok(s) => describe(&s), Err(_) => "err".into() };
            m.insert(hex(key.as_bytes()), d);
        }
    }
    if m.is_empty() { "-".into() } else { m.iter().map(|(k, v)| format!("{k}={v}")).collect::<Vec<_>>().join(" ") }
}

/// program text of a `|`-request: items are physical lines in hex (`-` = empty line), joined by `\n`
pub fn prog_of_items(items: &str) -> Option<String> {
    let mut lines = vec![];
    for it in items.split(" ; ") {
        let it = it.trim();
        if it == "-" || it.is_empty() { lines.push(String::new()); } else { lines.push(String::from_utf8(unhex(it)?).ok()?); }
    }
    Some(lines.join("\n"))
}
pub fn items_of_prog(p: &str) -> String {
    p.split('\n').map(|l| if l.is_empty() { "-".to_string() } else { hex(l.as_bytes()) }).collect::<Vec<_>>().join(" ; ")
}

/// Generic executor for the three properties' request shapes:
///  `<p>.q <kgarg> | <hex line> ; …`                          query_program, no auth, fresh world
///  `<p>.prog <setup> <who> <sess> <kgarg> | <hex line> ; …`  one execute_program call
///  `<p>.hist <setup> | <who>:<sess>:<kgarg>:<hex program> ; …`  a history of execute_program calls
/// Output: `O <oracle> ; R <outcome> # <outcome>… ; D <dump before> # <dump after call 1> # …`.
pub fn exec_world(req: &str) -> String {
    let (head, items) = match req.split_once(" | ") { Some((h, i)) => (h, i), None => return "bad-request".into() };
    let parts: Vec<&str> = head.split(' ').collect();
    let op = parts[0].split('.').nth(1).unwrap_or("");
    match (op, parts.len()) {
        ("q", 2) => {
            let p = match prog_of_items(items) { Some(p) => p, None => return "bad-request".into() };
            let w = match World::new("acl=-/sess=-") { Ok(w) => w, Err(e) => return format!("setup-failed {e}") };
            let o = oracle(&[&p]);
            let d0 = w.dump();
            let r = w.call("query", "anon", "n", parts[1], &p);
            format!("O {} ; R {} ; D {} # {}", o, r, d0, w.dump())
        }
        ("prog", 5) => {
            let p = match prog_of_items(items) { Some(p) => p, None => return "bad-request".into() };
            let w = match World::new(parts[1]) { Ok(w) => w, Err(e) => return format!("setup-failed {e}") };
            let o = oracle(&[&p]);
            let d0 = w.dump();
            let r = w.call("exec", parts[2], parts[3], parts[4], &p);
            format!("O {} ; R {} ; D {} # {}", o, r, d0, w.dump())
        }
        ("hist", 2) => {
            let mut calls = vec![];
            for it in items.split(" ; ") {
                let f: Vec<&str> = it.trim().split(':').collect();
                if f.len() != 4 { return "bad-request".into(); }
                let p = if f[3] == "-" { String::new() } else { match unhex(f[3]).and_then(|b| String::from_utf8(b).ok()) { Some(p) => p, None => return "bad-request".into() } };
                calls.push((f[0].to_string(), f[1].to_string(), f[2].to_string(), p));
            }
            let w = match World::new(parts[1]) { Ok(w) => w, Err(e) => return format!("setup-failed {e}") };
            let progs: Vec<&str> = calls.iter().map(|c| c.3.as_str()).collect();
            let o = oracle(&progs);
            let mut ds = vec![w.dump()];
            let mut rs = vec![];
            for (who, sess, kg, p) in &calls { rs.push(w.call("exec", who, sess, kg, p)); ds.push(w.dump()); }
            format!("O {} ; R {} ; D {}", o, rs.join(" # "), ds.join(" # "))
        }
        _ => "bad-request".into(),
    }
}
