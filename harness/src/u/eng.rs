//! Shared executor of the storage-engine step system (C20, C19): real `StorageEngine` threads
//! stepped through the `se.insert/delete.after_time|after_persist` yield points.
//! Grammar and output format: lean/ILV/Drv/EStepIO.lean.
use crate::u::sched::*;
use inputlayer::{Config, StorageEngine, Tuple, Value};
use std::sync::{Arc, Mutex};

#[derive(Clone, Debug)]
pub enum Op { Insert(usize, Vec<i64>), Delete(usize, Vec<i64>), Query(usize), ReadC(usize), RegRule(usize, usize), DropRule(usize), QueryV(usize) }

pub fn parse_progs(s: &str) -> Option<Vec<Vec<Op>>> {
    s.split('/').map(|t| {
        if t == "-" { return Some(vec![]); }
        t.split(',').map(|o| {
            if o.is_empty() { return None; }
            let (k, r) = o.split_at(1);
            let mut it = r.split('.');
            let rel: usize = it.next()?.parse().ok()?;
            let ts: Option<Vec<i64>> = it.map(|x| x.parse().ok()).collect();
            match k { "i" => Some(Op::Insert(rel, ts?)), "d" => Some(Op::Delete(rel, ts?)), "q" => Some(Op::Query(rel)), "c" => Some(Op::ReadC(rel)),
                "g" => { let t = ts?; if t.len() == 1 && t[0] >= 0 { Some(Op::RegRule(rel, t[0] as usize)) } else { None } }
                "x" => Some(Op::DropRule(rel)), "w" => Some(Op::QueryV(rel)), _ => None }
        }).collect::<Option<Vec<Op>>>()
    }).collect()
}
pub fn show_progs(p: &[Vec<Op>]) -> String {
    let l = |v: &Vec<i64>| v.iter().map(|u| format!(".{u}")).collect::<String>();
    p.iter().map(|t| if t.is_empty() { "-".to_string() } else { t.iter().map(|o| match o {
        Op::Insert(r, v) => format!("i{r}{}", l(v)), Op::Delete(r, v) => format!("d{r}{}", l(v)),
        Op::Query(r) => format!("q{r}"), Op::ReadC(r) => format!("c{r}"),
        Op::RegRule(v, r) => format!("g{v}.{r}"), Op::DropRule(v) => format!("x{v}"), Op::QueryV(v) => format!("w{v}"),
    }).collect::<Vec<_>>().join(",") }).collect::<Vec<_>>().join("/")
}

pub fn cfg(d: &std::path::Path) -> Config { let mut c = Config::default(); c.storage.data_dir = d.to_path_buf(); c.storage.performance.num_threads = 1; c }
pub fn tup(id: i64) -> Tuple { Tuple::new(vec![Value::Int64(id)]) }
pub fn id_of(t: &Tuple) -> i64 { match t.values().first() { Some(Value::Int64(n)) => *n, _ => -1 } }
fn ids(v: &[i64]) -> String { v.iter().map(|x| x.to_string()).collect::<Vec<_>>().join(".") }
fn ids_e(v: &[i64]) -> String { if v.is_empty() { "_".into() } else { ids(v) } }
pub const KG: &str = "default";
pub fn rel(r: usize) -> String { format!("r{r}") }

pub fn readc(se: &StorageEngine, r: usize) -> String {
    match se.with_kg_read(KG, |kg| match kg.incremental() { Some(dd) => dd.read_relation_consistent(&rel(r)), None => Err("off".into()) }) {
        Ok(ts) => { let mut v: Vec<i64> = ts.iter().map(id_of).collect(); v.sort(); format!("r{}", ids(&v)) }
        Err(_) => "err".into(),
    }
}

pub fn view(v: usize) -> String { format!("v{v}") }

/// `q(X) <- v<v>(X)` through the snapshot's own rule list
pub fn query_view(se: &StorageEngine, v: usize) -> String {
    match se.execute_query_with_rules_tuples_on(KG, &format!("q(X) <- {}(X)", view(v))) {
        Ok(ts) => { let mut x: Vec<i64> = ts.iter().map(id_of).collect(); x.sort(); x.dedup(); format!("r{}", ids(&x)) }
        Err(_) => "err".into(),
    }
}

pub const ACTIVE: [&str; 4] = ["se.insert.after_time", "se.insert.after_persist", "se.delete.after_time", "se.delete.after_persist"];

/// run one `<op> inc=.. R=.. T=.. | sched` request
pub fn exec(req: &str) -> String {
    let (head, tail) = match req.split_once(" | ") { Some((h, t)) => (h, t), None => (req.trim_end_matches(" |"), "") };
    let a: Vec<&str> = head.split(' ').collect();
    if a.len() != 4 && a.len() != 5 { return "bad-request".into(); }
    let get = |i: usize, k: &str| a[i].strip_prefix(k).and_then(|x| x.strip_prefix('='));
    // optional `V=<#views>` before `T=`
    let (nv, ti) = if a.len() == 5 { match get(3, "V").and_then(|x| x.parse::<usize>().ok()) { Some(v) => (v, 4), None => return "bad-request".into() } } else { (0, 3) };
    let (inc, nr, progs) = match (get(1, "inc").and_then(|x| x.parse::<u8>().ok()), get(2, "R").and_then(|x| x.parse::<usize>().ok()), get(ti, "T").and_then(parse_progs)) {
        (Some(i), Some(r), Some(t)) => (i != 0, r, t), _ => return "bad-request".into() };
    let sched: Option<Vec<usize>> = tail.split(' ').filter(|x| !x.is_empty() && *x != ";" && *x != "|").map(|x| x.parse().ok()).collect();
    let sched = match sched { Some(s) => s, None => return "bad-request".into() };

    let root = tmpdir();
    let se = Arc::new(StorageEngine::new(cfg(root.path())).unwrap());
    let before: Vec<u64> = if inc { threads_named("incremental-wor") } else { vec![] };
    if inc { if se.with_kg_mut(KG, |kg| kg.enable_incremental().map_err(|e| e.to_string())).is_err() { return "enable-incremental-failed".into(); } }
    // kernel id of this engine's DD worker thread (the one that appeared with enable_incremental)
    let mut worker_tid: Option<u64> = None;
    if inc {
        for _ in 0..200 {
            let now = threads_named("incremental-wor");
            if let Some(t) = now.iter().find(|t| !before.contains(t)) { worker_tid = Some(*t); break; }
            std::thread::sleep(std::time::Duration::from_millis(5));
        }
        if worker_tid.is_none() { return "incremental-worker-thread-not-found".into(); }
    }

    let sc = Sched::new(progs.len(), &ACTIVE, &[]);
    let res: Arc<Mutex<Vec<Vec<(usize, String)>>>> = Arc::new(Mutex::new(vec![vec![]; progs.len()]));
    let mut handles = vec![];
    for (t, prog) in progs.iter().cloned().enumerate() {
        let (w, se, res) = (sc.worker(t), se.clone(), res.clone());
        handles.push(std::thread::spawn(move || {
            w.enter();
            for op in prog {
                w.begin();
                let out = std::panic::catch_unwind(std::panic::AssertUnwindSafe(|| match &op {
                    Op::Insert(r, v) => match se.insert_tuples_into(KG, &rel(*r), v.iter().map(|x| tup(*x)).collect()) { Ok((n, d)) => format!("i{n}.{d}"), Err(_) => "err".into() },
                    Op::Delete(r, v) => match se.delete_tuples_from(KG, &rel(*r), v.iter().map(|x| tup(*x)).collect()) { Ok(n) => format!("d{n}"), Err(_) => "err".into() },
                    Op::Query(r) => match se.execute_query_tuples_on(KG, &format!("q(X) <- {}(X)", rel(*r))) {
                        Ok(ts) => { let mut v: Vec<i64> = ts.iter().map(id_of).collect(); v.sort(); format!("r{}", ids(&v)) }
                        Err(_) => "err".into() },
                    Op::ReadC(r) => readc(&se, *r),
                    Op::RegRule(v, r) => match inputlayer::statement::parse_rule_definition(&format!("{}(X) <- {}(X)", view(*v), rel(*r))) {
                        Ok(def) => match se.register_rule_in(KG, &def) {
                            Ok(inputlayer::rule_catalog::RuleRegisterResult::Created) => "c".into(),
                            Ok(inputlayer::rule_catalog::RuleRegisterResult::RuleAdded(n)) => format!("a{n}"),
                            Err(_) => "err".into() },
                        Err(_) => "err".into() },
                    Op::DropRule(v) => match se.drop_rule_in(KG, &view(*v)) { Ok(()) => "x".into(), Err(_) => "err".into() },
                    Op::QueryV(v) => query_view(&se, *v),
                })).unwrap_or_else(|_| "panic".into());
                res.lock().unwrap()[t].push((w.step_no(), out));
            }
            w.exit();
        }));
    }
    sc.wait_all_parked();
    let observe = |se: &StorageEngine| -> String {
        match se.get_snapshot_for(KG) {
            Ok(s) => {
                let facts = (0..nr).map(|r| ids_e(&s.input_tuples.get(&rel(r)).map(|v| v.iter().map(id_of).collect::<Vec<_>>()).unwrap_or_default())).collect::<Vec<_>>().join("|");
                // the rule list the snapshot carries: one entry per clause  <head>:<first body relation>
                let mut rl: Vec<String> = s.rules.iter().map(|r| format!("{}:{}", r.head.relation, r.body.iter().find_map(|b| match b { inputlayer::ast::BodyPredicate::Positive(a) => Some(a.relation.clone()), _ => None }).unwrap_or_default())).collect();
                rl.sort();
                format!("{}~{}", facts, if rl.is_empty() { "_".to_string() } else { rl.join(",") })
            }
            Err(_) => "err".into(),
        }
    };
    // With the incremental engine on, a shadow write below the input-session time kills the DD
    // worker *inside* the write call; the call then either returns an error or (race inside the real
    // code: the response sender of `notify_base_update` stays buffered in the half-closed channel)
    // blocks forever while holding the KG write lock. Both outcomes are canonicalised as
    // `fin=dead@<step>`; results/observations are reported up to the boundary before that step.
    if let Some(wt) = worker_tid { sc.set_abort(Box::new(move || !thread_exists(wt))); }
    let is_write = |t: usize, k: usize| matches!(progs.get(t).and_then(|p| p.get(k)), Some(Op::Insert(..)) | Some(Op::Delete(..)));
    let mut obs = vec![observe(&se)];
    let mut dead: Option<usize> = None;
    let mut run = |t: usize, k: usize, obs: &mut Vec<String>, dead: &mut Option<usize>| -> bool {
        let before = res.lock().unwrap().get(t).map(|l| l.len()).unwrap_or(0);
        match sc.step(t) {
            StepResult::Arrived(_) => {
                let r = res.lock().unwrap();
                if inc && t < r.len() && r[t].len() > before && r[t][before].1 == "err" && is_write(t, before) { *dead = Some(k); return false; }
            }
            StepResult::Finished => sc.bump(),
            StepResult::Blocked => { *dead = Some(k); return false; }
        }
        obs.push(observe(&se));
        true
    };
    let mut k = 0usize;
    for &t in sched.iter() { if !run(t, k, &mut obs, &mut dead) { break; } k += 1; }
    while dead.is_none() {
        let t = match sc.unfinished().first().copied() { Some(t) => t, None => break };
        if !run(t, k, &mut obs, &mut dead) { break; }
        k += 1;
    }
    sc.release_all();
    if let Some(kd) = dead {
        // never join: a worker may be stuck for good; leak the engine with it
        Sched::uninstall();
        std::mem::forget(handles);
        let res = res.lock().unwrap();
        let res_s = res.iter().map(|l| { let v: Vec<String> = l.iter().filter(|(k, _)| *k < kd).map(|(k, o)| format!("{k}:{o}")).collect(); if v.is_empty() { "-".to_string() } else { v.join(",") } }).collect::<Vec<_>>().join("/");
        std::mem::forget(se.clone());
        return format!("res={} obs={} fin=dead@{} vfin=-", res_s, obs.join(" "), kd);
    }
    for h in handles { let _ = h.join(); }
    Sched::uninstall();
    let fin = if inc { (0..nr).map(|r| readc(&se, r)).collect::<Vec<_>>().join("|") } else { "-".into() };
    let res = res.lock().unwrap();
    let res_s = res.iter().map(|l| if l.is_empty() { "-".to_string() } else { l.iter().map(|(k, o)| format!("{k}:{o}")).collect::<Vec<_>>().join(",") }).collect::<Vec<_>>().join("/");
    let vfin = if nv == 0 { "-".to_string() } else { (0..nv).map(|v| query_view(&se, v)).collect::<Vec<_>>().join("|") };
    format!("res={} obs={} fin={} vfin={}", res_s, obs.join(" "), fin, vfin)
}

/// length of each operation in steps (for schedule generation only)
pub fn op_steps(op: &Op) -> usize { match op { Op::Insert(_, v) | Op::Delete(_, v) => if v.is_empty() { 1 } else { 3 }, _ => 1 } }

/// all interleavings of per-thread step counts (multiset permutations), capped
pub fn interleavings(counts: &[usize], cap: usize) -> Vec<Vec<usize>> {
    fn go(left: &mut Vec<usize>, cur: &mut Vec<usize>, out: &mut Vec<Vec<usize>>, cap: usize) {
        if out.len() >= cap { return; }
        if left.iter().all(|&c| c == 0) { out.push(cur.clone()); return; }
        for t in 0..left.len() { if left[t] > 0 { left[t] -= 1; cur.push(t); go(left, cur, out, cap); cur.pop(); left[t] += 1; } }
    }
    let mut out = vec![]; go(&mut counts.to_vec(), &mut vec![], &mut out, cap); out
}
