//! Program generator shared by C27/C29/C30: statements in the forms the Lean model interprets
//! (see `hworld::describe`), syntax-error mutations, and textual decoration (comment lines, trailing
//! comments, blank lines, indented continuation lines, CRLF, odd whitespace).
use crate::common::Ctx;
use inputlayer::statement::parse_statement;

/// a valid statement (one logical line) of a supported form; `internal` biases names towards `_internal`
pub fn stmt(ctx: &mut Ctx, internal: bool) -> String {
    let k = ctx.range(1, 9);
    let kg = if internal && ctx.chance(1, 2) { "_internal" } else { *ctx.pick(&["kga", "kgb", "default", "nokg", "kgc"]) };
    let w = ctx.below(if internal { 60 } else { 54 });
    match w {
        0..=7 => format!("+m1({k})"),
        8..=10 => format!("+m2({k}, {})", ctx.range(1, 9)),
        11..=12 => format!("+m1[({k},), ({},)]", ctx.range(1, 9)),
        13..=15 => format!("-m1({})", ctx.range(0, 9)),
        16 => format!("-m2({k}, {})", ctx.range(1, 9)),
        17..=18 => format!("m1({k})"),
        19 => format!("sr{}(X) <- m1(X)", ctx.range(1, 2)),
        20..=21 => format!("+v{}(X) <- m1(X)", ctx.range(1, 2)),
        22 => format!("-v{}", ctx.range(1, 2)),
        23 => format!("+sc{}(a: int)", ctx.range(1, 2)),
        24 => format!("sc{}(a: int)", ctx.range(1, 2)),
        25 => "type T1: int".into(),
        26 => ".kg".into(),
        27 => ".kg list".into(),
        28..=32 => format!(".kg use {kg}"),
        33..=34 => format!(".kg create {}", if kg == "nokg" { "kgc" } else { kg }),
        35..=37 => format!(".kg drop {kg}"),
        38 => ctx.pick(&[".rel", ".rule", ".status", ".index list"]).to_string(),
        39 => ".compact".into(),
        40 => ctx.pick(&[".session", ".session clear", ".user list", ".kg acl list", ".help", ".load x"]).to_string(),
        41..=42 => format!(".rel drop {}", ctx.pick(&["m1", "m2", "v1", "sc1", "nosuch"])),
        43 => format!(".clear prefix {}", ctx.pick(&["m", "m1", "z"])),
        44..=48 => "?m1(X)".into(),
        49 => "?m2(X, Y)".into(),
        50 => format!(".kg acl grant {kg} {} {}", ctx.pick(&["vi", "ed"]), ctx.pick(&["owner", "editor", "viewer"])),
        51 => format!(".kg acl revoke {kg} {}", ctx.pick(&["vi", "ed"])),
        52..=53 => format!("+m1({k})"),
        // _internal-flavoured
        54 => "?users(A, B, C)".into(),
        55 => "?kg_acls(A, B, C)".into(),
        56 => format!("+kg_acls(\"{}\", \"{}\", \"owner\")", ctx.pick(&["default", "kga", "kgb"]), ctx.pick(&["vi", "ed"])),
        57 => format!("+users(\"x{k}\", \"h\", \"admin\")"),
        58 => "-users(\"adm\", \"h\", \"admin\")".into(),
        _ => ".rel drop users".into(),
    }
}

/// a line that the real parser rejects (verified), derived from a valid statement
pub fn broken(ctx: &mut Ctx) -> String {
    for _ in 0..20 {
        let base = stmt(ctx, false);
        let cand = match ctx.below(8) {
            0 => base.trim_end_matches(')').to_string(),
            1 => format!("{base} := 1"),
            2 => ".nosuch cmd".into(),
            3 => "+m1(\"abc)".into(),
            4 => "+m1[(1,), (2]".into(),
            5 => "?".into(),
            6 => "+m1(abc)".into(),
            _ => "m1 m2".into(),
        };
        if parse_statement(&cand).is_err() && !cand.trim().is_empty() { return cand; }
    }
    ".nosuch".into()
}

/// textual decoration of a list of logical lines into one program text
pub fn decorate(ctx: &mut Ctx, lines: &[String], level: u32) -> String {
    let mut out: Vec<String> = vec![];
    for l in lines {
        if level > 0 && ctx.chance(1, 6) { out.push(ctx.pick(&["// note", "% note", "  // indented note", "//", "%%"]).to_string()); }
        if level > 0 && ctx.chance(1, 10) { out.push(ctx.pick(&["", "  ", "\t"]).to_string()); }
        let mut l = l.clone();
        // indented continuation: split after a comma or before `<-`
        if level > 0 && ctx.chance(1, 6) {
            if let Some(p) = l.find(", ").or_else(|| l.find(" <- ")) {
                let (a, b) = l.split_at(p + 1);
                l = format!("{a}\n{}{}", ctx.pick(&["  ", "\t", " \t "]), b.trim_start());
            }
        }
        if level > 0 && ctx.chance(1, 7) { l = format!("{l} {}", ctx.pick(&["// trailing", "//x", "// +m1(99)"])); }
        if level > 1 && ctx.chance(1, 12) { l = format!("{l}\r"); }
        if level > 1 && ctx.chance(1, 14) { l = format!("{l}{}", ctx.pick(&[" ", "\t", "\u{a0}", "\u{2003}"])); }
        out.push(l);
    }
    let mut t = out.join("\n");
    if level > 0 && ctx.chance(1, 5) { t.push('\n'); }
    if level > 1 && ctx.chance(1, 12) { t = format!("{}{t}", ctx.pick(&[" ", "\n", "\t"])); }
    t
}

/// 1..=n statements
pub fn lines(ctx: &mut Ctx, n: usize, internal: bool) -> Vec<String> { (0..n).map(|_| stmt(ctx, internal)).collect() }
