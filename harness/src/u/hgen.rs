//! Program generator shared by C27/C29/C30: statements in the forms the Lean model interprets
//! (see `hworld::describe`), syntax-error mutations, and textual decoration (comment lines, trailing
//! comments, blank lines, indented continuation lines, CRLF, odd whitespace).
use crate::common::Ctx;
use inputlayer::statement::parse_statement;

/// a valid statement (one logical line) of a supported form; `internal` biases names towards `_internal`
pub fn stmt(ctx: &mut Ctx, internal: bool) -> String {
    let k = ctx.range(1, 9);
    let kg = if internal && ctx.chance(1, 2) { "_internal" } else { *ctx.pick(&["kga", "kgb", "default", "nokg", "kgc"]) };
    let w = ctx.below(if internal { 60 } else { 54 });
    match w {
        0..=7 => format!("+m1({k})"),
        8..=10 => format!("+m2({k}, {})", ctx.range(1, 9)),
        11..=12 => format!("+m1[({k},), ({},)]", ctx.range(1, 9)),
        13..=15 => format!("-m1({})", ctx.range(0, 9)),
        16 => format!("-m2({k}, {})", ctx.range(1, 9)),
        17..=18 => format!("m1({k})"),
        19 => format!("sr{}(X) <- m1(X)", ctx.range(1, 2)),
        20..=21 => format!("+v{}(X) <- m1(X)", ctx.range(1, 2)),
        22 => format!("-v{}", ctx.range(1, 2)),
        23 => format!("+sc{}(a: int)", ctx.range(1, 2)),
        24 => format!("sc{}(a: int)", ctx.range(1, 2)),
        25 => "type T1: int".into(),
        26 => ".kg".into(),
        27 => ".kg list".into(),
        28..=32 => format!(".kg use {kg}"),
        33..=34 => format!(".kg create {}", if kg == "nokg" { "kgc" } else { kg }),
        35..=37 => format!(".kg drop {kg}"),
        38 => ctx.pick(&[".rel", ".rule", ".status", ".index list"]).to_string(),
        39 => ".compact".into(),
        40 => ctx.pick(&[".session clear", ".session clear", ".user list", ".kg acl list", ".help", ".load x"]).to_string(),
        41..=42 => format!(".rel drop {}", ctx.pick(&["m1", "m2", "v1", "sc1", "nosuch"])),
        43 => format!(".clear prefix {}", ctx.pick(&["m", "m1", "z"])),
        44..=48 => "?m1(X)".into(),
        49 => "?m2(X, Y)".into(),
        50 => format!(".kg acl grant {kg} {} {}", ctx.pick(&["vi", "ed"]), ctx.pick(&["owner", "editor", "viewer"])),
        51 => format!(".kg acl revoke {kg} {}", ctx.pick(&["vi", "ed"])),
        52..=53 => format!("+m1({k})"),
        // _internal-flavoured
        54 => "?users(A, B, C)".into(),
        55 => "?kg_acls(A, B, C)".into(),
        56 => format!("+kg_acls(\"{}\", \"{}\", \"owner\")", ctx.pick(&["default", "kga", "kgb"]), ctx.pick(&["vi", "ed"])),
        57 => format!("+users(\"x{k}\", \"h\", \"admin\")"),
        58 => "-users(\"adm\", \"h\", \"admin\")".into(),
        _ => ".rel drop users".into(),
    }
}

/// a line that the real parser rejects (verified), derived from a valid statement
pub fn broken(ctx: &mut Ctx) -> String {
    for _ in 0..20 {
        let base = stmt(ctx, false);
        let cand = match ctx.below(8) {
            0 => base.trim_end_matches(')').to_string(),
            1 => format!("{base} := 1"),
            2 => ".nosuch cmd".into(),
            3 => "+m1(\"abc)".into(),
            4 => "+m1[(1,), (2]".into(),
            5 => "?".into(),
            6 => "+m1(abc)".into(),
            _ => "m1 m2".into(),
        };
        if parse_statement(&cand).is_err() && !cand.trim().is_empty() { return cand; }
    }
    ".nosuch".into()
}

/// textual decoration of a list of logical lines into one program text
pub fn decorate(ctx: &mut Ctx, lines: &[String], level: u32) -> String {
    let mut out: Vec<String> = vec![];
    for l in lines {
        if level > 0 && ctx.chance(1, 6) { out.push(ctx.pick(&["// note", "% note", "  // indented note", "//", "%%"]).to_string()); }
        if level > 0 && ctx.chance(1, 10) { out.push(ctx.pick(&["", "  ", "\t"]).to_string()); }
        let mut l = l.clone();
        // indented continuation: split after a comma or before `<-`
        if level > 0 && ctx.chance(1, 6) {
            if let Some(p) = l.find(", ").or_else(|| l.find(" <- ")) {
                let (a, b) = l.split_at(p + 1);
                l = format!("{a}\n{}{}", ctx.pick(&["  ", "\t", " \t "]), b.trim_start());
            }
        }
        if level > 0 && ctx.chance(1, 7) { l = format!("{l} {}", ctx.pick(&["// trailing", "//x", "// +m1(99)"])); }
        if level > 1 && ctx.chance(1, 12) { l = format!("{l}\r"); }
        if level > 1 && ctx.chance(1, 14) { l = format!("{l}{}", ctx.pick(&[" ", "\t", "\u{a0}", "\u{2003}"])); }
        out.push(l);
    }
    let mut t = out.join("\n");
    if level > 0 && ctx.chance(1, 5) { t.push('\n'); }
    if level > 1 && ctx.chance(1, 12) { t = format!("{}{t}", ctx.pick(&[" ", "\n", "\t"])); }
    t
}

/// 1..=n statements
pub fn lines(ctx: &mut Ctx, n: usize, internal: bool) -> Vec<String> { (0..n).map(|_| stmt(ctx, internal)).collect() }

/// random ACL/session setup spec (see `hworld::World::new`)
pub fn setup(ctx: &mut Ctx) -> String {
    let mut acl = vec![];
    for kg in ["default", "kga", "kgb"] { for u in ["vi", "ed"] {
        match ctx.below(7) { 0 | 1 => {}, 2 | 3 => acl.push(format!("{kg}:{u}:viewer")), 4 => acl.push(format!("{kg}:{u}:editor")), 5 => acl.push(format!("{kg}:{u}:owner")), _ => acl.push(format!("{kg}:{u}:Viewer")) }
    } }
    let sess: Vec<String> = ["vi", "ed", "adm"].iter().map(|u| format!("{u}:{}", ctx.pick(&["default", "kga", "kgb"]))).collect();
    format!("acl={}/sess={}", if acl.is_empty() { "-".to_string() } else { acl.join(",") }, sess.join(","))
}

fn mutating(ctx: &mut Ctx, internal: bool) -> String {
    if internal && ctx.chance(1, 2) {
        return match ctx.below(4) { 0 => format!("+kg_acls(\"{}\", \"{}\", \"owner\")", ctx.pick(&["default", "kga", "kgb"]), ctx.pick(&["vi", "ed"])), 1 => format!("+users(\"x{}\", \"h\", \"admin\")", ctx.below(5)), 2 => "-users(\"adm\", \"h\", \"admin\")".to_string(), _ => ".rel drop users".to_string() };
    }
    match ctx.below(12) {
        0..=3 => format!("+m1({})", ctx.range(1, 9)), 4 => format!("+m2({}, {})", ctx.range(1, 9), ctx.range(1, 9)), 5 => format!("-m1({})", ctx.range(0, 3)),
        6 => format!("+v{}(X) <- m1(X)", ctx.range(1, 2)), 7 => format!("+sc{}(a: int)", ctx.range(1, 2)), 8 => ".rel drop m1".to_string(),
        9 => ".clear prefix m".to_string(), 10 => format!(".kg drop {}", ctx.pick(&["kga", "kgb"])), _ => ".compact".to_string(),
    }
}

/// a program of one of the chosen shapes; returns (text, shape name)
pub fn program(ctx: &mut Ctx, internal: bool) -> (String, &'static str) {
    let ikg = |ctx: &mut Ctx| -> &'static str { if internal && ctx.chance(2, 3) { "_internal" } else { *ctx.pick(&["kga", "kgb", "default"]) } };
    match ctx.below(9) {
        0 | 1 => (stmt(ctx, internal), "single"),
        2 => { let n = 2 + ctx.below(4); let mut ls = lines(ctx, n, internal); let p = ctx.below(ls.len()); ls[p] = mutating(ctx, internal); (ls.join("\n"), "multi-plain") }
        3 => {
            let first = format!("{} // {}", ctx.pick(&["?m1(X)", ".kg", "?m2(X, Y)", ".status", "m1(3)"]), ctx.pick(&["note", "+m1(1)", ""]));
            let mut ls = vec![first]; let n = 1 + ctx.below(3); for _ in 0..n { ls.push(if ctx.chance(2, 3) { mutating(ctx, internal) } else { stmt(ctx, internal) }); }
            (ls.join("\n"), "comment-cut")
        }
        4 => {
            let first = ctx.pick(&[".kg list", ".status", ".kg acl list", ".rule", ".index list", ".help", ".session clear"]).to_string();
            let mut ls = vec![first]; let n = 1 + ctx.below(3); for _ in 0..n { ls.push(if ctx.chance(2, 3) { mutating(ctx, internal) } else { stmt(ctx, internal) }); }
            (ls.join("\n"), "tolerant-meta")
        }
        5 => {
            let mut ls = vec![format!(".kg use {}", ikg(ctx))]; let n = 1 + ctx.below(3);
            for _ in 0..n { ls.push(if ctx.chance(2, 3) { mutating(ctx, internal) } else { stmt(ctx, internal) }); }
            (ls.join("\n"), "use-then")
        }
        6 => {
            let mut ls = vec![ctx.pick(&["?m1(X)", ".kg", "+m1(2)", ".kg list"]).to_string(), format!(".kg use {}", ikg(ctx))]; let n = 1 + ctx.below(2);
            for _ in 0..n { ls.push(if ctx.chance(1, 2) { mutating(ctx, internal) } else { ctx.pick(&["?m1(X)", "?users(A, B, C)", "?kg_acls(A, B, C)"]).to_string() }); }
            (ls.join("\n"), "later-use")
        }
        7 => { let n = 2 + ctx.below(3); let mut ls = lines(ctx, n, internal); ls.push(mutating(ctx, internal)); let t = decorate(ctx, &ls, 2); (t, "decorated") }
        _ => { let q = ctx.pick(&["?m1(X)", "?m2(X, Y)", "?users(A, B, C)"]).to_string(); if ctx.chance(1, 2) { (q, "query") } else { (format!("{q}\n{}", mutating(ctx, internal)), "query-then") } }
    }
}

/// Systematic product for C27/C29: (session binding) × (explicit KG argument) × (first line kind) ×
/// (1..3 lines). User `vi`: owner of `kga`, viewer of `default`, no role on `kgb`; `ed`: editor of `kga`.
/// `op` = "c27.prog" | "c29.prog".
pub fn product_cases(ctx: &mut Ctx, op: &str) -> Vec<String> {
    let mut out = vec![];
    let firsts: [(&str, &str); 7] = [("query", "?m1(X)"), ("query_users", "?users(A, B, C)"), ("insert", "+m1(7)"), ("meta", ".kg list"),
        ("use", ".kg use kga"), ("use_internal", ".kg use _internal"), ("fact", "m1(4)")];
    let followers = ["?users(A, B, C)", "?m1(X)", "+users(\"mallory\", \"nohash\", \"admin\")", "+m1(8)", ".kg use _internal", "-m1(0)", ".rel drop m1", "?kg_acls(A, B, C)"];
    for sess_kg in ["kga", "default", "kgb", "_internal", "-"] {
        for kgarg in ["-", "kga", "default", "kgb", "_internal"] {
            for (fname, first) in firsts {
                for nlines in 1..=3usize {
                    for who in ["vi", "ed"] {
                        // thin out deterministically-randomly, keep every (sess, kgarg, first, nlines) for vi
                        if who == "ed" && !ctx.chance(1, 4) { continue; }
                        let mut ls = vec![first.to_string()];
                        for _ in 1..nlines { ls.push(ctx.pick(&followers).to_string()); }
                        let su = format!("acl=kga:vi:owner,default:vi:viewer,kga:ed:editor,default:ed:viewer/sess={}",
                            if sess_kg == "-" { "adm:default".to_string() } else { format!("vi:{sess_kg},ed:{sess_kg},adm:default") });
                        let sess = if sess_kg == "-" { "n" } else { "s" };
                        ctx.count("product"); ctx.count(&format!("product_sess_{}", if sess_kg == "-" { "none" } else { sess_kg }));
                        ctx.count(&format!("product_kgarg_{}", if kgarg == "-" { "none" } else { kgarg })); ctx.count(&format!("product_first_{fname}")); ctx.count(&format!("product_lines_{nlines}"));
                        out.push(format!("{op} {su} {who} {sess} {kgarg} | {}", crate::u::hworld::items_of_prog(&ls.join("\n"))));
                    }
                }
            }
        }
    }
    out
}

/// C30 shape family: a full-line comment (`//` or `%`) immediately followed by an indented line (blank
/// lines optionally in between), at every position of a 3–5 statement program; the indented text is
/// either a broken fragment or the valid continuation of the statement before the comment.
/// (`strip_comments ∘ join_continuation_lines` and `join_continuation_lines ∘ strip_comments` differ
/// exactly here.) Returns (program text, shape name).
pub fn comment_then_indent(ctx: &mut Ctx) -> Vec<(String, &'static str)> {
    let mut out = vec![];
    let n = 3 + ctx.below(3);
    let base: Vec<String> = (0..n).map(|i| match ctx.below(4) { 0 => format!("+m2({}, {})", i + 1, ctx.range(1, 9)), 1 => format!("-m1({})", ctx.range(0, 2)), _ => format!("+m1({})", 10 + i) }).collect();
    let comment = |ctx: &mut Ctx| ctx.pick(&["// note", "% note", "//", "  // indented note", "%% x", "// +m1(99)"]).to_string();
    let gap = |ctx: &mut Ctx| -> Vec<String> { match ctx.below(4) { 0 => vec!["".to_string()], 1 => vec!["  ".to_string()], _ => vec![] } };
    for pos in 1..=n {
        // (i) broken fragment after the comment; it attaches to statement pos-1
        let mut ls: Vec<String> = base[..pos].to_vec();
        ls.push(comment(ctx)); ls.extend(gap(ctx));
        ls.push(format!("{}{}", ctx.pick(&["   ", "\t", " \t"]), ctx.pick(&["+c(oops", "+m1(", ")) x", ":= 3", "\"open"])));
        ls.extend(base[pos..].iter().cloned());
        out.push((ls.join("\n"), "comment-indent-broken"));
        // (ii) valid continuation: statement pos-1 is split around the comment
        let (head, tail) = match ctx.below(3) { 0 => (format!("+m2({},", 20 + pos), format!("{})", ctx.range(1, 9))), 1 => ("+v1(X) <-".to_string(), "m1(X)".to_string()), _ => (format!("+m1[({},),", 30 + pos), format!("({},)]", 40 + pos)) };
        let mut ls: Vec<String> = base[..pos - 1].to_vec();
        ls.push(head); ls.push(comment(ctx)); ls.extend(gap(ctx));
        ls.push(format!("{}{}", ctx.pick(&["  ", "\t", "    "]), tail));
        ls.extend(base[pos..].iter().cloned());
        out.push((ls.join("\n"), "comment-indent-continuation"));
    }
    // comment first, then an indented valid statement (nothing to attach to)
    let mut ls = vec![comment(ctx), format!("  {}", base[0])]; ls.extend(base[1..].iter().cloned());
    out.push((ls.join("\n"), "comment-indent-leading"));
    out
}
