//! Shared helpers of the provenance group (C21, C22, C23): wire codec between the real AST and
//! the Lean syntax (lean/ILV/Model/ProvSyntax.lean), building a knowledge graph in a real Handler,
//! canonical rendering of real proof trees / why-not trees (lean/ILV/Model/ProvWire.lean).
use crate::common::*;
use inputlayer::ast::{Atom, BodyPredicate, ComparisonOp, Rule, Term};
use inputlayer::protocol::handler::Handler;
use inputlayer::provenance::backward_chaining::{build_proof_tree, ProofContext};
use inputlayer::provenance::proof_tree::{FactSource, NodeKind, ProofNode, ProofTree};
use inputlayer::provenance::{Blocker, ProofConfig};
use inputlayer::{Config, Tuple, Value};
use std::collections::HashMap;

// ---------------------------------------------------------------- wire <-> AST

pub fn term_to_wire(t: &Term) -> String {
    match t {
        Term::Variable(x) => format!("V.{x}"),
        Term::Constant(n) => format!("C.{n}"),
        Term::StringConstant(s) => format!("S.{}", hex(s.as_bytes())),
        Term::BoolConstant(b) => format!("B.{}", if *b { 1 } else { 0 }),
        Term::FloatConstant(f) => format!("L.{:016x}", f.to_bits()),
        Term::Placeholder => "W".into(),
        // wildcard-free on purpose: a new Term variant must be classified here
        Term::Aggregate(..) | Term::Arithmetic(..) | Term::FunctionCall(..) | Term::VectorLiteral(..)
        | Term::FieldAccess(..) | Term::RecordPattern(..) => "O".into(),
    }
}
pub fn term_of_wire(s: &str) -> Option<Term> {
    if s == "W" { return Some(Term::Placeholder); }
    let (k, r) = s.split_once('.')?;
    Some(match k {
        "V" => { if r.is_empty() { return None; } Term::Variable(r.to_string()) }
        "C" => Term::Constant(r.parse().ok()?),
        "S" => Term::StringConstant(String::from_utf8(unhex(r)?).ok()?),
        "B" => Term::BoolConstant(r == "1"),
        "L" => Term::FloatConstant(f64::from_bits(u64::from_str_radix(r, 16).ok()?)),
        _ => return None,
    })
}
pub fn atom_to_wire(a: &Atom) -> String {
    format!("{}({})", a.relation, a.args.iter().map(term_to_wire).collect::<Vec<_>>().join(","))
}
pub fn atom_of_wire(s: &str) -> Option<Atom> {
    let (rel, rest) = s.split_once('(')?;
    let inner = rest.strip_suffix(')')?;
    if rel.is_empty() { return None; }
    let args = if inner.is_empty() { vec![] } else { inner.split(',').map(term_of_wire).collect::<Option<Vec<_>>>()? };
    Some(Atom::new(rel.to_string(), args))
}
fn op_to_wire(op: &ComparisonOp) -> &'static str {
    match op { ComparisonOp::Equal => "eq", ComparisonOp::NotEqual => "ne", ComparisonOp::LessThan => "lt",
        ComparisonOp::LessOrEqual => "le", ComparisonOp::GreaterThan => "gt", ComparisonOp::GreaterOrEqual => "ge" }
}
fn op_of_wire(s: &str) -> Option<ComparisonOp> {
    Some(match s { "eq" => ComparisonOp::Equal, "ne" => ComparisonOp::NotEqual, "lt" => ComparisonOp::LessThan,
        "le" => ComparisonOp::LessOrEqual, "gt" => ComparisonOp::GreaterThan, "ge" => ComparisonOp::GreaterOrEqual, _ => return None })
}
pub fn lit_to_wire(l: &BodyPredicate) -> String {
    match l {
        BodyPredicate::Positive(a) => format!("+{}", atom_to_wire(a)),
        BodyPredicate::Negated(a) => format!("-{}", atom_to_wire(a)),
        BodyPredicate::Comparison(l, op, r) => format!("?{},{},{}", op_to_wire(op), term_to_wire(l), term_to_wire(r)),
        BodyPredicate::HnswNearest { .. } => "X".into(),
    }
}
pub fn lit_of_wire(s: &str) -> Option<BodyPredicate> {
    if let Some(a) = s.strip_prefix('+') { return Some(BodyPredicate::Positive(atom_of_wire(a)?)); }
    if let Some(a) = s.strip_prefix('-') { return Some(BodyPredicate::Negated(atom_of_wire(a)?)); }
    if let Some(c) = s.strip_prefix('?') {
        let p: Vec<&str> = c.split(',').collect();
        if p.len() != 3 { return None; }
        return Some(BodyPredicate::Comparison(term_of_wire(p[1])?, op_of_wire(p[0])?, term_of_wire(p[2])?));
    }
    None
}
pub fn rule_to_wire(r: &Rule) -> String {
    format!("R@{}@{}", atom_to_wire(&r.head), r.body.iter().map(lit_to_wire).collect::<Vec<_>>().join("&"))
}

#[derive(Clone, Debug)]
pub enum Item { Fact(String, Tuple), Rule(Rule) }

pub fn item_of_wire(s: &str) -> Option<Item> {
    let p: Vec<&str> = s.split('@').collect();
    match p.as_slice() {
        ["F", rel, t] => Some(Item::Fact(rel.to_string(), tuple_of_wire(t)?)),
        ["R", h, b] => {
            let body = if b.is_empty() { vec![] } else { b.split('&').map(lit_of_wire).collect::<Option<Vec<_>>>()? };
            Some(Item::Rule(Rule::new(atom_of_wire(h)?, body)))
        }
        _ => None,
    }
}
pub fn item_to_wire(i: &Item) -> String {
    match i { Item::Fact(r, t) => format!("F@{}@{}", r, tuple_to_wire(t)), Item::Rule(r) => rule_to_wire(r) }
}

/// `<pre…> | item ; item ; …`
pub fn split_request(req: &str) -> (Vec<&str>, Vec<&str>) {
    let (pre, post) = match req.split_once(" | ") { Some((a, b)) => (a, b), None => (req.strip_suffix(" |").unwrap_or(req), "") };
    let items = if post.is_empty() { vec![] } else { post.split(" ; ").collect() };
    (pre.split(' ').collect(), items)
}

// ---------------------------------------------------------------- IQL text for the handler

/// literal text of a stored value as the insert / `.why_not` parsers read it; `None` when the value
/// kind cannot be written so that it comes back as the same kind.
pub fn insert_literal(v: &Value) -> Option<String> {
    match v {
        Value::Int64(n) => Some(n.to_string()),          // `+r[(1,)]` stores Int64
        Value::String(s) => if s.chars().all(|c| c.is_ascii_alphanumeric()) { Some(format!("\"{s}\"")) } else { None },
        _ => None,
    }
}
pub fn whynot_literal(v: &Value) -> Option<String> {
    match v {
        Value::Int32(n) => Some(n.to_string()),          // parse_literal_value: small integers -> Int32
        Value::Int64(n) => if i32::try_from(*n).is_ok() { None } else { Some(n.to_string()) },
        Value::String(s) => if s.chars().all(|c| c.is_ascii_alphanumeric()) { Some(format!("\"{s}\"")) } else { None },
        _ => None,
    }
}

thread_local! {
    static RT: tokio::runtime::Runtime = tokio::runtime::Builder::new_current_thread().enable_all().build().unwrap();
}
pub fn block_on<F: std::future::Future>(f: F) -> F::Output { RT.with(|rt| rt.block_on(f)) }

pub struct Kg { pub h: Handler, pub _dir: tempfile::TempDir, pub rules: Vec<Rule>, pub base: HashMap<String, Vec<Tuple>>, pub perm: Vec<usize> }
impl Kg { pub fn perm_wire(&self) -> String { if self.perm.is_empty() { "O -".into() } else { format!("O {}", self.perm.iter().map(|i| i.to_string()).collect::<Vec<_>>().join(",")) } } }

fn cfg(d: &std::path::Path) -> Config {
    let mut c = Config::default();
    c.storage.data_dir = d.to_path_buf();
    c.storage.performance.num_threads = 1;
    c
}

pub fn run_stmt(h: &Handler, stmt: &str) -> Result<inputlayer::protocol::wire::QueryResult, String> {
    block_on(h.execute_program(None, Some("default".to_string()), stmt.to_string(), None))
}

/// Build the knowledge graph through the real Handler (facts via `+rel[(…)]`, rules via `+<rule>`),
/// then read rules and base data back and check that they are what the request says.
pub fn build_kg(items: &[&str]) -> Result<Kg, String> {
    let its: Vec<Item> = items.iter().map(|s| item_of_wire(s)).collect::<Option<Vec<_>>>().ok_or("bad-request")?;
    let dir = tempfile::TempDir::new().map_err(|_| "err:tempdir")?;
    let h = Handler::from_config(cfg(dir.path())).map_err(|_| "err:handler")?;
    for it in &its {
        match it {
            Item::Fact(rel, t) => {
                let vals: Option<Vec<String>> = t.values().iter().map(insert_literal).collect();
                let vals = vals.ok_or("bad-request:fact-literal")?;
                if vals.is_empty() { return Err("bad-request:nullary-fact".into()); }
                let stmt = if vals.len() == 1 { format!("+{}[({},)]", rel, vals[0]) } else { format!("+{}[({})]", rel, vals.join(", ")) };
                run_stmt(&h, &stmt).map_err(|_| "err:insert")?;
            }
            Item::Rule(r) => {
                run_stmt(&h, &format!("+{r}")).map_err(|_| "err:rule-rejected")?;
            }
        }
    }
    let (rules, base) = h.get_storage().get_rules_and_data("default").map_err(|_| "err:context")?;
    // what the request says
    // `snapshot.rules` = `RuleCatalog::all_rules()`: hash-map order of the rule names followed by a
    // clause-level topological sort whose tie-breaking follows hash sets — the clause order the
    // provenance code sees varies from run to run, even among the clauses of one relation. The order
    // actually used (same snapshot as `.why`/`.why_not`) is reported as a permutation of the request's
    // rule list (`perm[k]` = request index of the k-th snapshot rule); clause indices in the canonical
    // output refer to snapshot positions.
    let req_rules: Vec<Rule> = its.iter().filter_map(|i| if let Item::Rule(r) = i { Some(r.clone()) } else { None }).collect();
    let mut used = vec![false; req_rules.len()];
    let mut perm = vec![];
    for r in &rules {
        match (0..req_rules.len()).find(|&i| !used[i] && rule_to_wire(&req_rules[i]) == rule_to_wire(r)) { Some(i) => { used[i] = true; perm.push(i); } None => return Err(format!("err:rules-differ:{}", rules.iter().map(rule_to_wire).collect::<Vec<_>>().join(";"))) }
    }
    if perm.len() != req_rules.len() { return Err(format!("err:rules-differ:{}", rules.iter().map(rule_to_wire).collect::<Vec<_>>().join(";"))); }
    let mut want: Vec<(String, Vec<Tuple>)> = vec![];
    for it in &its { if let Item::Fact(rel, t) = it {
        match want.iter_mut().find(|(r, _)| r == rel) {
            Some((_, ts)) => if !ts.contains(t) { ts.push(t.clone()) },
            None => want.push((rel.clone(), vec![t.clone()])),
        }
    } }
    for (rel, ts) in &want { if base.get(rel) != Some(ts) { return Err(format!("err:base-differs:{rel}")); } }
    for (rel, ts) in &base { if !ts.is_empty() && !want.iter().any(|(r, _)| r == rel) { return Err(format!("err:base-extra:{rel}")); } }
    Ok(Kg { h, _dir: dir, rules, base, perm })
}

// ---------------------------------------------------------------- canonical renderings

pub fn db_to_wire(d: &HashMap<String, Vec<Tuple>>) -> String {
    let mut keys: Vec<&String> = d.keys().collect(); keys.sort();
    if keys.is_empty() { return "{}".into(); }
    keys.iter().map(|k| format!("{}={}", k, d[*k].iter().map(tuple_to_wire).collect::<Vec<_>>().join(";"))).collect::<Vec<_>>().join(" ")
}

fn bindings_to_wire(b: &Option<HashMap<String, Value>>) -> String {
    match b {
        None => "-".into(),
        Some(m) => {
            if m.is_empty() { return "-".into(); }
            let mut ks: Vec<&String> = m.keys().collect(); ks.sort();
            ks.iter().map(|k| format!("{}={}", k, val_to_wire(&m[*k]))).collect::<Vec<_>>().join(";")
        }
    }
}

fn rule_idx(rules: &[Rule], text: &Option<String>) -> String {
    match text { Some(t) => match rules.iter().position(|r| &r.to_string() == t) { Some(i) => i.to_string(), None => "-".into() }, None => "-".into() }
}

/// `format_bound_terms` text -> `c` / `v.<name>` / `_` per position (values never contain ", " here).
fn pattern_canon(p: &str) -> String {
    if p.is_empty() { return "()".into(); }
    p.split(", ").map(|x| {
        if x.starts_with("_placeholder_") { "_".to_string() }
        else if x == "true" || x == "false" || x == "NULL" || x.starts_with(|c: char| c.is_ascii_digit() || c == '-' || c == '"' || c == '[') { "c".to_string() }
        else { format!("v.{x}") }
    }).collect::<Vec<_>>().join(",")
}

fn vals_wire(v: &[Value]) -> String { tuple_to_wire(&Tuple::new(v.to_vec())) }

pub fn tree_to_wire(t: &ProofTree, rules: &[Rule]) -> String {
    let mut out: Vec<String> = vec![];
    let mut budget = 20000usize;
    fn walk(t: &ProofTree, rules: &[Rule], id: &str, out: &mut Vec<String>, budget: &mut usize) {
        if *budget == 0 { out.push("toobig".into()); return; }
        *budget -= 1;
        let n: &ProofNode = match t.nodes.get(id) { Some(n) => n, None => { out.push("dangling".into()); return; } };
        let (p, a) = (n.conclusion.pred.clone(), vals_wire(&n.conclusion.args));
        match n.kind {
            NodeKind::Fact => { out.extend(["fact".into(), p, a, match n.source { Some(FactSource::Edb) => "edb".into(), Some(FactSource::Derived) => "derived".into(), None => "nosource".into() }]); }
            NodeKind::Rule => {
                out.extend(["rule".into(), p, a, rule_idx(rules, &n.rule_id), bindings_to_wire(&n.bindings), n.children.len().to_string()]);
                for c in &n.children { walk(t, rules, c, out, budget); }
            }
            NodeKind::Negation => { out.extend(["neg".into(), p, a, pattern_canon(n.negation.as_ref().map(|x| x.pattern.as_str()).unwrap_or("?"))]); }
            NodeKind::Truncated => { out.extend(["trunc".into(), p, a, n.truncated.as_ref().map(|x| x.depth_limit.to_string()).unwrap_or("?".into())]); }
            NodeKind::Aggregate => out.push("other:aggregate".into()),
            NodeKind::VectorSearch => out.push("other:vector_search".into()),
            NodeKind::WhyNot => out.push("other:why_not".into()),
        }
    }
    match t.roots.first() { Some(r) => walk(t, rules, r, &mut out, &mut budget), None => out.push("noroot".into()) }
    out.join(" ")
}

/// `explain_why_not` tree -> `norules` | clause / clause …
pub fn whynot_to_wire(t: &ProofTree, rules: &[Rule]) -> String {
    let root = match t.roots.first().and_then(|r| t.nodes.get(r)) { Some(r) => r, None => return "noroot".into() };
    if root.kind != NodeKind::WhyNot { return "root-not-whynot".into(); }
    let kids: Vec<&ProofNode> = root.children.iter().filter_map(|c| t.nodes.get(c)).collect();
    if kids.len() != root.children.len() { return "dangling".into(); }
    if kids.len() == 1 && kids[0].rule_id.is_none() {
        if let Some(w) = &kids[0].why_not { if let Blocker::HeadUnificationFailed { reason } = &w.blocker { if reason == "No rules produce this relation" { return "norules".into(); } } }
    }
    if kids.is_empty() { return "noclauses".into(); }
    let mut clauses = vec![];
    for (i, c) in kids.iter().enumerate() {
        let ridx = rule_idx(rules, &c.rule_id);
        if let Some(w) = &c.why_not {
            match &w.blocker {
                Blocker::HeadUnificationFailed { .. } => { clauses.push(format!("{i} {ridx} - head")); continue; }
                _ => { clauses.push(format!("{i} {ridx} - other")); continue; }
            }
        }
        let mut toks = vec![i.to_string(), ridx, bindings_to_wire(&c.bindings)];
        let mut blocker = "open".to_string();
        for cid in &c.children {
            let k = match t.nodes.get(cid) { Some(k) => k, None => { toks.push("dangling".into()); continue; } };
            match k.kind {
                NodeKind::Fact => toks.push(format!("F#{}#{}#{}", k.conclusion.pred, vals_wire(&k.conclusion.args), match k.source { Some(FactSource::Edb) => "edb", Some(FactSource::Derived) => "derived", None => "nosource" })),
                NodeKind::WhyNot => {
                    blocker = match k.why_not.as_ref().map(|w| (&w.blocker, w.clause_index)) {
                        Some((Blocker::BodyAtomFailed { predicate_text, reason, .. }, idx)) => {
                            if reason.starts_with("No matching tuples in ") {
                                let rel = &k.conclusion.pred;
                                let pat = predicate_text.strip_prefix(&format!("{rel}(")).and_then(|x| x.strip_suffix(')')).unwrap_or("?");
                                format!("atom#{}#{}#{}#{}", idx, rel, vals_wire(&k.conclusion.args), pattern_canon(pat))
                            } else { format!("cmperr#{idx}") }
                        }
                        Some((Blocker::NegationSucceeded { relation, matching_tuple }, idx)) => format!("neg#{}#{}#{}", idx, relation, vals_wire(matching_tuple)),
                        Some((Blocker::ComparisonFailed { .. }, idx)) => format!("cmp#{idx}"),
                        Some((Blocker::HeadUnificationFailed { .. }, _)) => "head".into(),
                        Some((Blocker::HnswNotInTopK { .. }, _)) => "other".into(),
                        None => "noblocker".into(),
                    };
                }
                _ => toks.push("other".into()),
            }
        }
        toks.push(blocker);
        clauses.push(toks.join(" "));
    }
    clauses.join(" / ")
}

// ---------------------------------------------------------------- the two ways of asking "why"

/// the handler's `transform_query_shorthand` for the query shapes the generators use.
pub fn transformed_query(q: &Atom) -> Option<String> {
    let mut head = vec![]; let mut args = vec![]; let mut extra = vec![];
    for (i, t) in q.args.iter().enumerate() {
        match t {
            Term::Variable(v) => { head.push(v.clone()); args.push(v.clone()); }
            Term::Constant(n) => { let c = format!("_c{i}"); head.push(c.clone()); args.push(c.clone()); extra.push(format!("{c} = {n}")); }
            Term::Placeholder => { let c = format!("_p{i}"); head.push(c.clone()); args.push(c); }
            _ => return None,
        }
    }
    let mut body = vec![format!("{}({})", q.relation, args.join(", "))]; body.extend(extra);
    Some(format!("__query__({}) <- {}", head.join(", "), body.join(", ")))
}
pub fn query_text(q: &Atom) -> String { format!("?{q}") }

/// `.why ?q` through the Handler; output `D <derived> | T <tree> …`.
pub fn exec_why(req: &str) -> String {
    let (pre, items) = split_request(req);
    if pre.len() != 2 { return "bad-request".into(); }
    let q = match atom_of_wire(pre[1]) { Some(q) => q, None => return "bad-request".into() };
    let kg = match build_kg(&items) { Ok(k) => k, Err(e) => return e };
    let tq = match transformed_query(&q) { Some(t) => t, None => return "bad-request:query".into() };
    let derived = match kg.h.get_storage().execute_and_get_context("default", &tq) { Ok((_, _, _, d, _)) => d, Err(_) => return "err:engine".into() };
    let res = match run_stmt(&kg.h, &format!(".why {}", query_text(&q))) { Ok(r) => r, Err(_) => return "err:why".into() };
    let mut out = format!("{} | D {}", kg.perm_wire(), db_to_wire(&derived));
    match res.proof_trees {
        None => out.push_str(" | none"),
        Some(ts) => {
            if ts.is_empty() { out.push_str(" | none"); }
            for t in &ts {
                if t.query.as_deref() != Some(tq.as_str()) { return format!("err:query-transform-differs:{}", t.query.clone().unwrap_or_default()); }
                out.push_str(" | T "); out.push_str(&tree_to_wire(t, &kg.rules));
            }
        }
    }
    out
}

/// `build_proof_tree` called directly with a context built as `why_query` builds it, but with a
/// chosen `max_depth`; the fallback truncated root of handler.rs:576-599 is reproduced here.
pub fn exec_bpt(req: &str) -> String {
    let (pre, items) = split_request(req);
    if pre.len() != 4 { return "bad-request".into(); }
    let depth: usize = match pre[1].parse() { Ok(d) => d, Err(_) => return "bad-request".into() };
    let rel = pre[2];
    let tuple = match tuple_of_wire(pre[3]) { Some(t) => t, None => return "bad-request".into() };
    let kg = match build_kg(&items) { Ok(k) => k, Err(e) => return e };
    let vars: Vec<String> = (0..tuple.arity()).map(|i| format!("V{i}")).collect();
    let tq = format!("__query__({}) <- {}({})", vars.join(", "), rel, vars.join(", "));
    let (rules, base, derived) = match kg.h.get_storage().execute_and_get_context("default", &tq) { Ok((_, r, b, d, _)) => (r, b, d), Err(_) => return "err:engine".into() };
    let config = ProofConfig { max_depth: depth, ..ProofConfig::default() };
    let ctx = ProofContext::with_index_info(&rules, &base, config, HashMap::new()).with_derived_data(&derived);
    let tree = match build_proof_tree(rel, &tuple, &ctx) {
        Ok(t) => tree_to_wire(&t, &kg.rules),
        Err(_) => format!("trunc {} {} {}", rel, tuple_to_wire(&tuple), depth),
    };
    format!("{} | D {} | T {}", kg.perm_wire(), db_to_wire(&derived), tree)
}

/// `.why_not rel(values)` through the Handler.
pub fn exec_whynot(req: &str) -> String {
    let (pre, items) = split_request(req);
    if pre.len() != 3 { return "bad-request".into(); }
    let rel = pre[1];
    let tuple = match tuple_of_wire(pre[2]) { Some(t) => t, None => return "bad-request".into() };
    let lits: Option<Vec<String>> = tuple.values().iter().map(whynot_literal).collect();
    let lits = match lits { Some(l) => l, None => return "bad-request:target-literal".into() };
    let kg = match build_kg(&items) { Ok(k) => k, Err(e) => return e };
    // the derived data `why_not_query` hands to the explanation (handler.rs: one evaluation of
    // `__query__(V0..) <- rel(V0..)` when the relation has rules; none when it has no rules or the
    // evaluation fails) — recorded like for `.why`
    let derived_wire = match kg.rules.iter().find(|r| r.head.relation == rel).map(|r| r.head.args.len()) {
        Some(arity) => {
            let vars: Vec<String> = (0..arity).map(|i| format!("V{i}")).collect();
            let q = format!("__query__({}) <- {}({})", vars.join(", "), rel, vars.join(", "));
            match kg.h.get_storage().execute_and_get_context("default", &q) { Ok((_, _, _, d, _)) => db_to_wire(&d), Err(_) => "-".to_string() }
        }
        None => "-".to_string(),
    };
    let res = match run_stmt(&kg.h, &format!(".why_not {}({})", rel, lits.join(", "))) { Ok(r) => r, Err(_) => return "err:why_not".into() };
    match res.proof_trees.as_ref().and_then(|t| t.first()) {
        Some(t) => {
            let root = t.roots.first().and_then(|r| t.nodes.get(r));
            // the target as the handler parsed it
            match root { Some(r) if r.conclusion.pred == rel && r.conclusion.args == tuple.values().to_vec() => {}, _ => return "err:target-differs".into() }
            format!("{} | D {} | {}", kg.perm_wire(), derived_wire, whynot_to_wire(t, &kg.rules))
        }
        None => "err:no-tree".into(),
    }
}
