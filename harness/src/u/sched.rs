//! Deterministic step scheduler over the `#[cfg(inputlayer_verif)] yield_point(label)` hooks.
//!
//! Worker threads run real inputlayer calls. A worker parks (a) in `Worker::begin()` before each
//! operation and (b) inside every `yield_point` whose label the case declared *active*; it resumes
//! only when the controller grants it one step. `Sched::step(t)` grants thread `t` one step and
//! waits until `t` parks again or finishes. If `t` does not arrive although some thread is parked
//! at a label that is declared to *hold a lock*, and the kernel reports `t` as sleeping (state `S` in
//! /proc/self/task/<tid>/stat) on several consecutive polls after `BLOCK_MS`, `t` is blocked on that
//! real lock: the controller reports `Blocked`. A thread that is merely slow (runnable, state `R`,
//! e.g. on an overloaded machine) is waited for; no verdict depends on wall-clock time alone.
//! An optional `abort` predicate (e.g. "the incremental worker thread of the engine is gone") ends
//! the wait with `Blocked` as well.
//! Threads not registered with the scheduler (timely workers, tokio pool) pass through untouched.
use std::cell::Cell;
use std::collections::HashSet;
use std::sync::{Arc, Condvar, Mutex, Once};
use std::time::{Duration, Instant};

pub const BLOCK_MS: u64 = 250;
const HARD_LIMIT_S: u64 = 60;

#[derive(Clone, Debug, PartialEq)]
pub enum Status {
    NotStarted,
    Running,
    Parked(String),
    Done,
}

#[derive(Debug, PartialEq)]
pub enum StepResult {
    /// the thread ran one step and is parked again (label) or finished (None)
    Arrived(Option<String>),
    /// the thread is waiting for a lock held by a parked thread
    Blocked,
    /// the thread had already finished
    Finished,
}

struct St {
    stuck_ms: u64,
    tids: Vec<Option<u64>>,
    status: Vec<Status>,
    grant: Vec<bool>,
    free_run: bool,
    step_no: usize,
}

pub struct Sched {
    abort: Mutex<Option<Box<dyn Fn() -> bool + Send + Sync>>>,
    st: Mutex<St>,
    cv: Condvar,
    active: HashSet<&'static str>,
    holding: HashSet<&'static str>,
}

thread_local! { static ME: Cell<Option<usize>> = const { Cell::new(None) }; }
static CURRENT: Mutex<Option<Arc<Sched>>> = Mutex::new(None);
static INSTALL: Once = Once::new();

fn on_yield(label: &str) {
    let me = match ME.with(|m| m.get()) { Some(t) => t, None => return };
    let s = match CURRENT.lock().unwrap_or_else(|e| e.into_inner()).clone() { Some(s) => s, None => return };
    if !s.active.contains(label) { return; }
    s.park(me, label);
}

impl Sched {
    /// `active`: labels that are scheduling points for this case; `holding`: the subset at which the
    /// parked thread keeps a lock that other threads may need.
    pub fn new(n: usize, active: &[&'static str], holding: &[&'static str]) -> Arc<Sched> {
        INSTALL.call_once(|| inputlayer::verif_hooks::set_yield_callback(Some(Arc::new(|l: &str| on_yield(l)))));
        let s = Arc::new(Sched {
            abort: Mutex::new(None),
            st: Mutex::new(St { stuck_ms: HARD_LIMIT_S * 1000, tids: vec![None; n], status: vec![Status::NotStarted; n], grant: vec![false; n], free_run: false, step_no: 0 }),
            cv: Condvar::new(),
            active: active.iter().copied().collect(),
            holding: holding.iter().copied().collect(),
        });
        *CURRENT.lock().unwrap_or_else(|e| e.into_inner()) = Some(s.clone());
        s
    }

    pub fn uninstall() { *CURRENT.lock().unwrap_or_else(|e| e.into_inner()) = None; }

    fn park(&self, me: usize, label: &str) {
        let mut g = self.st.lock().unwrap_or_else(|e| e.into_inner());
        if g.free_run { return; }
        g.status[me] = Status::Parked(label.to_string());
        self.cv.notify_all();
        while !g.grant[me] && !g.free_run { g = self.cv.wait(g).unwrap_or_else(|e| e.into_inner()); }
        g.grant[me] = false;
        if !g.free_run { g.status[me] = Status::Running; }
    }

    /// index of the step currently being executed (for recording when a call returned)
    pub fn step_no(&self) -> usize { self.st.lock().unwrap_or_else(|e| e.into_inner()).step_no }

    pub fn status(&self, t: usize) -> Status { self.st.lock().unwrap_or_else(|e| e.into_inner()).status[t].clone() }

    /// wait until every thread is parked or done (call after spawning the workers)
    pub fn wait_all_parked(&self) {
        let mut g = self.st.lock().unwrap_or_else(|e| e.into_inner());
        let t0 = Instant::now();
        while g.status.iter().any(|s| matches!(s, Status::NotStarted | Status::Running)) {
            let (g2, _) = self.cv.wait_timeout(g, Duration::from_millis(100)).unwrap_or_else(|e| e.into_inner());
            g = g2;
            if t0.elapsed().as_secs() > HARD_LIMIT_S { break; }
        }
    }

    /// thread holding a lock across a boundary, if any
    pub fn holder(&self) -> Option<usize> {
        let g = self.st.lock().unwrap_or_else(|e| e.into_inner());
        g.status.iter().position(|s| matches!(s, Status::Parked(l) if self.holding.contains(l.as_str())))
    }

    pub fn unfinished(&self) -> Vec<usize> {
        let g = self.st.lock().unwrap_or_else(|e| e.into_inner());
        (0..g.status.len()).filter(|&t| g.status[t] != Status::Done).collect()
    }

    /// grant one step to thread `t`
    pub fn step(&self, t: usize) -> StepResult {
        let mut g = self.st.lock().unwrap_or_else(|e| e.into_inner());
        if t >= g.status.len() || g.status[t] == Status::Done { return StepResult::Finished; }
        if !matches!(g.status[t], Status::Parked(_)) { return StepResult::Blocked; }   // still blocked from an earlier grant
        g.status[t] = Status::Running;
        g.grant[t] = true;
        self.cv.notify_all();
        let t0 = Instant::now();
        let mut asleep = 0u32;
        loop {
            match &g.status[t] {
                Status::Parked(l) if !g.grant[t] => { let l = l.clone(); g.step_no += 1; return StepResult::Arrived(Some(l)); }
                Status::Done => { g.step_no += 1; return StepResult::Arrived(None); }
                _ => {}
            }
            let (g2, _) = self.cv.wait_timeout(g, Duration::from_millis(50)).unwrap_or_else(|e| e.into_inner());
            g = g2;
            let someone_holds = (0..g.status.len()).any(|u| u != t && matches!(&g.status[u], Status::Parked(l) if self.holding.contains(l.as_str())));
            if someone_holds && t0.elapsed() >= Duration::from_millis(BLOCK_MS) && matches!(g.status[t], Status::Running) {
                if g.tids[t].map(thread_sleeping).unwrap_or(false) { asleep += 1; } else { asleep = 0; }
                if asleep >= 4 { return StepResult::Blocked; }
            }
            if matches!(g.status[t], Status::Running) {
                let ab = self.abort.lock().unwrap_or_else(|e| e.into_inner());
                if let Some(f) = ab.as_ref() { if f() { return StepResult::Blocked; } }
            }
            if t0.elapsed().as_millis() as u64 > g.stuck_ms { return StepResult::Blocked; }
        }
    }

    /// after this many ms without arrival a granted thread counts as stuck (default: 60 s)
    pub fn set_stuck_limit(&self, ms: u64) { self.st.lock().unwrap_or_else(|e| e.into_inner()).stuck_ms = ms; }

    /// predicate polled while waiting for a granted thread; `true` ends the wait with `Blocked`
    pub fn set_abort(&self, f: Box<dyn Fn() -> bool + Send + Sync>) { *self.abort.lock().unwrap_or_else(|e| e.into_inner()) = Some(f); }

    /// a schedule entry that names a finished thread still counts as a step index
    pub fn bump(&self) { self.st.lock().unwrap_or_else(|e| e.into_inner()).step_no += 1; }

    /// let everybody run to the end (used to unwind after a `Blocked` verdict)
    pub fn release_all(&self) {
        let mut g = self.st.lock().unwrap_or_else(|e| e.into_inner());
        g.free_run = true;
        self.cv.notify_all();
    }

    pub fn worker(self: &Arc<Sched>, t: usize) -> Worker { Worker { s: self.clone(), t } }
}

/// handle used inside a worker thread
pub struct Worker { s: Arc<Sched>, t: usize }
impl Worker {
    /// call first thing in the thread
    pub fn enter(&self) {
        ME.with(|m| m.set(Some(self.t)));
        let tid = std::fs::read_link("/proc/thread-self").ok().and_then(|p| p.file_name().and_then(|f| f.to_str().and_then(|x| x.parse::<u64>().ok())));
        self.s.st.lock().unwrap_or_else(|e| e.into_inner()).tids[self.t] = tid;
    }
    /// park before an operation
    pub fn begin(&self) { self.s.park(self.t, "begin"); }
    pub fn step_no(&self) -> usize { self.s.step_no() }
    /// call last thing in the thread
    pub fn exit(&self) {
        ME.with(|m| m.set(None));
        let mut g = self.s.st.lock().unwrap_or_else(|e| e.into_inner());
        g.status[self.t] = Status::Done;
        self.s.cv.notify_all();
    }
}

/// kernel scheduling state of a thread of this process: sleeping (`S`), i.e. waiting on a futex/condvar
fn thread_sleeping(tid: u64) -> bool {
    match std::fs::read_to_string(format!("/proc/self/task/{tid}/stat")) {
        Ok(s) => s.rsplit_once(") ").map(|(_, r)| r.starts_with('S')).unwrap_or(false),
        Err(_) => false,
    }
}

/// kernel thread ids of the live threads of this process whose name starts with `prefix`
pub fn threads_named(prefix: &str) -> Vec<u64> {
    let mut v = vec![];
    if let Ok(rd) = std::fs::read_dir("/proc/self/task") {
        for e in rd.flatten() {
            if let Ok(c) = std::fs::read_to_string(e.path().join("comm")) {
                if c.trim_end().starts_with(prefix) { if let Some(t) = e.file_name().to_str().and_then(|x| x.parse().ok()) { v.push(t); } }
            }
        }
    }
    v
}
/// is the thread with this kernel id still there? (a direct lookup, not a directory scan)
pub fn thread_exists(tid: u64) -> bool { std::path::Path::new(&format!("/proc/self/task/{tid}/stat")).exists() }

/// recursive directory copy (crash image = the directory as it is at a step boundary)
pub fn copy_dir(src: &std::path::Path, dst: &std::path::Path) -> std::io::Result<()> {
    std::fs::create_dir_all(dst)?;
    for e in std::fs::read_dir(src)? {
        let e = e?;
        let p = e.path();
        let d = dst.join(e.file_name());
        if p.is_dir() { copy_dir(&p, &d)?; } else { std::fs::copy(&p, &d)?; }
    }
    Ok(())
}

/// temp dir on tmpfs when available (fsync-heavy code paths; thousands of cases per run)
pub fn tmpdir() -> tempfile::TempDir {
    let shm = std::path::Path::new("/dev/shm");
    if shm.is_dir() { if let Ok(d) = tempfile::TempDir::new_in(shm) { return d; } }
    tempfile::TempDir::new().unwrap()
}
