//! Deterministic step scheduler over the `#[cfg(inputlayer_verif)] yield_point(label)` hooks.
//!
//! Worker threads run real inputlayer calls. A worker parks (a) in `Worker::begin()` before each
//! operation and (b) inside every `yield_point` whose label the case declared *active*; it resumes
//! only when the controller grants it one step. `Sched::step(t)` grants thread `t` one step and
//! waits until `t` parks again or finishes. If `t` does not arrive although some thread is parked
//! at a label that is declared to *hold a lock*, `t` is blocked on that real lock: the controller
//! reports `Blocked` after `BLOCK_MS` (no false positives are possible when nobody is parked inside a
//! critical section: then the controller simply keeps waiting).
//! Threads not registered with the scheduler (timely workers, tokio pool) pass through untouched.
use std::cell::Cell;
use std::collections::HashSet;
use std::sync::{Arc, Condvar, Mutex, Once};
use std::time::{Duration, Instant};

pub const BLOCK_MS: u64 = 1200;
const HARD_LIMIT_S: u64 = 60;

#[derive(Clone, Debug, PartialEq)]
pub enum Status {
    NotStarted,
    Running,
    Parked(String),
    Done,
}

#[derive(Debug, PartialEq)]
pub enum StepResult {
    /// the thread ran one step and is parked again (label) or finished (None)
    Arrived(Option<String>),
    /// the thread is waiting for a lock held by a parked thread
    Blocked,
    /// the thread had already finished
    Finished,
}

struct St {
    status: Vec<Status>,
    grant: Vec<bool>,
    free_run: bool,
    step_no: usize,
}

pub struct Sched {
    st: Mutex<St>,
    cv: Condvar,
    active: HashSet<&'static str>,
    holding: HashSet<&'static str>,
}

thread_local! { static ME: Cell<Option<usize>> = const { Cell::new(None) }; }
static CURRENT: Mutex<Option<Arc<Sched>>> = Mutex::new(None);
static INSTALL: Once = Once::new();

fn on_yield(label: &str) {
    let me = match ME.with(|m| m.get()) { Some(t) => t, None => return };
    let s = match CURRENT.lock().unwrap_or_else(|e| e.into_inner()).clone() { Some(s) => s, None => return };
    if !s.active.contains(label) { return; }
    s.park(me, label);
}

impl Sched {
    /// `active`: labels that are scheduling points for this case; `holding`: the subset at which the
    /// parked thread keeps a lock that other threads may need.
    pub fn new(n: usize, active: &[&'static str], holding: &[&'static str]) -> Arc<Sched> {
        INSTALL.call_once(|| inputlayer::verif_hooks::set_yield_callback(Some(Arc::new(|l: &str| on_yield(l)))));
        let s = Arc::new(Sched {
            st: Mutex::new(St { status: vec![Status::NotStarted; n], grant: vec![false; n], free_run: false, step_no: 0 }),
            cv: Condvar::new(),
            active: active.iter().copied().collect(),
            holding: holding.iter().copied().collect(),
        });
        *CURRENT.lock().unwrap_or_else(|e| e.into_inner()) = Some(s.clone());
        s
    }

    pub fn uninstall() { *CURRENT.lock().unwrap_or_else(|e| e.into_inner()) = None; }

    fn park(&self, me: usize, label: &str) {
        let mut g = self.st.lock().unwrap_or_else(|e| e.into_inner());
        if g.free_run { return; }
        g.status[me] = Status::Parked(label.to_string());
        self.cv.notify_all();
        while !g.grant[me] && !g.free_run { g = self.cv.wait(g).unwrap_or_else(|e| e.into_inner()); }
        g.grant[me] = false;
        if !g.free_run { g.status[me] = Status::Running; }
    }

    /// index of the step currently being executed (for recording when a call returned)
    pub fn step_no(&self) -> usize { self.st.lock().unwrap_or_else(|e| e.into_inner()).step_no }

    pub fn status(&self, t: usize) -> Status { self.st.lock().unwrap_or_else(|e| e.into_inner()).status[t].clone() }

    /// wait until every thread is parked or done (call after spawning the workers)
    pub fn wait_all_parked(&self) {
        let mut g = self.st.lock().unwrap_or_else(|e| e.into_inner());
        let t0 = Instant::now();
        while g.status.iter().any(|s| matches!(s, Status::NotStarted | Status::Running)) {
            let (g2, _) = self.cv.wait_timeout(g, Duration::from_millis(100)).unwrap_or_else(|e| e.into_inner());
            g = g2;
            if t0.elapsed().as_secs() > HARD_LIMIT_S { break; }
        }
    }

    /// thread holding a lock across a boundary, if any
    pub fn holder(&self) -> Option<usize> {
        let g = self.st.lock().unwrap_or_else(|e| e.into_inner());
        g.status.iter().position(|s| matches!(s, Status::Parked(l) if self.holding.contains(l.as_str())))
    }

    pub fn unfinished(&self) -> Vec<usize> {
        let g = self.st.lock().unwrap_or_else(|e| e.into_inner());
        (0..g.status.len()).filter(|&t| g.status[t] != Status::Done).collect()
    }

    /// grant one step to thread `t`
    pub fn step(&self, t: usize) -> StepResult {
        let mut g = self.st.lock().unwrap_or_else(|e| e.into_inner());
        if t >= g.status.len() || g.status[t] == Status::Done { return StepResult::Finished; }
        if !matches!(g.status[t], Status::Parked(_)) { return StepResult::Blocked; }   // still blocked from an earlier grant
        g.status[t] = Status::Running;
        g.grant[t] = true;
        self.cv.notify_all();
        let t0 = Instant::now();
        loop {
            match &g.status[t] {
                Status::Parked(l) if !g.grant[t] => { let l = l.clone(); g.step_no += 1; return StepResult::Arrived(Some(l)); }
                Status::Done => { g.step_no += 1; return StepResult::Arrived(None); }
                _ => {}
            }
            let (g2, _) = self.cv.wait_timeout(g, Duration::from_millis(50)).unwrap_or_else(|e| e.into_inner());
            g = g2;
            let someone_holds = (0..g.status.len()).any(|u| u != t && matches!(&g.status[u], Status::Parked(l) if self.holding.contains(l.as_str())));
            if someone_holds && t0.elapsed() >= Duration::from_millis(BLOCK_MS) && matches!(g.status[t], Status::Running) {
                return StepResult::Blocked;
            }
            if t0.elapsed().as_secs() > HARD_LIMIT_S { return StepResult::Blocked; }
        }
    }

    /// a schedule entry that names a finished thread still counts as a step index
    pub fn bump(&self) { self.st.lock().unwrap_or_else(|e| e.into_inner()).step_no += 1; }

    /// let everybody run to the end (used to unwind after a `Blocked` verdict)
    pub fn release_all(&self) {
        let mut g = self.st.lock().unwrap_or_else(|e| e.into_inner());
        g.free_run = true;
        self.cv.notify_all();
    }

    pub fn worker(self: &Arc<Sched>, t: usize) -> Worker { Worker { s: self.clone(), t } }
}

/// handle used inside a worker thread
pub struct Worker { s: Arc<Sched>, t: usize }
impl Worker {
    /// call first thing in the thread
    pub fn enter(&self) { ME.with(|m| m.set(Some(self.t))); }
    /// park before an operation
    pub fn begin(&self) { self.s.park(self.t, "begin"); }
    pub fn step_no(&self) -> usize { self.s.step_no() }
    /// call last thing in the thread
    pub fn exit(&self) {
        ME.with(|m| m.set(None));
        let mut g = self.s.st.lock().unwrap_or_else(|e| e.into_inner());
        g.status[self.t] = Status::Done;
        self.s.cv.notify_all();
    }
}

/// recursive directory copy (crash image = the directory as it is at a step boundary)
pub fn copy_dir(src: &std::path::Path, dst: &std::path::Path) -> std::io::Result<()> {
    std::fs::create_dir_all(dst)?;
    for e in std::fs::read_dir(src)? {
        let e = e?;
        let p = e.path();
        let d = dst.join(e.file_name());
        if p.is_dir() { copy_dir(&p, &d)?; } else { std::fs::copy(&p, &d)?; }
    }
    Ok(())
}

/// temp dir on tmpfs when available (fsync-heavy code paths; thousands of cases per run)
pub fn tmpdir() -> tempfile::TempDir {
    let shm = std::path::Path::new("/dev/shm");
    if shm.is_dir() { if let Ok(d) = tempfile::TempDir::new_in(shm) { return d; } }
    tempfile::TempDir::new().unwrap()
}
