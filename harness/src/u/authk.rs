//! Shared by C27–C30: the *kind* of a parsed statement (one name per `Statement` / `MetaCommand`
//! variant) and a text generator producing, for every kind, statements with varied payloads.
//!
//! `kind_of` is a wildcard-free `match`: a new variant in /repo breaks this build, so the
//! extracted tables (C28) can never silently miss a variant.
use crate::common::Ctx;
use inputlayer::statement::{MetaCommand, Statement};

macro_rules! kinds {
    (stmt: [$($sp:pat => $sn:literal),* $(,)?], meta: [$($mp:pat => $mn:literal),* $(,)?]) => {
        /// kinds of non-meta statements, in declaration order of this table
        pub const STMT_NAMES: &[&str] = &[$($sn),*];
        /// kinds of meta commands
        pub const META_NAMES: &[&str] = &[$($mn),*];
        pub fn kind_of(s: &Statement) -> &'static str {
            match s {
                $($sp => $sn,)*
                Statement::Meta(m) => match m { $($mp => $mn,)* },
            }
        }
    };
}

kinds! {
    stmt: [
        Statement::Query(_) => "query",
        Statement::Insert(_) => "insert",
        Statement::Delete(_) => "delete",
        Statement::Update(_) => "update",
        Statement::PersistentRule(_) => "persistentRule",
        Statement::SessionRule(_) => "sessionRule",
        Statement::Fact(_) => "fact",
        Statement::SchemaDecl(_) => "schemaDecl",
        Statement::TypeDecl(_) => "typeDecl",
        Statement::DeleteRelationOrRule(_) => "deleteRelationOrRule",
    ],
    meta: [
        MetaCommand::KgShow => "kgShow",
        MetaCommand::KgList => "kgList",
        MetaCommand::KgCreate(_) => "kgCreate",
        MetaCommand::KgUse(_) => "kgUse",
        MetaCommand::KgDrop(_) => "kgDrop",
        MetaCommand::RelList => "relList",
        MetaCommand::RelDescribe(_) => "relDescribe",
        MetaCommand::RelDrop(_) => "relDrop",
        MetaCommand::RuleList => "ruleList",
        MetaCommand::RuleQuery(_) => "ruleQuery",
        MetaCommand::RuleShowDef(_) => "ruleShowDef",
        MetaCommand::RuleDrop(_) => "ruleDrop",
        MetaCommand::RuleDropPrefix(_) => "ruleDropPrefix",
        MetaCommand::RuleEdit { .. } => "ruleEdit",
        MetaCommand::RuleClear(_) => "ruleClear",
        MetaCommand::RuleRemove { .. } => "ruleRemove",
        MetaCommand::SessionList => "sessionList",
        MetaCommand::SessionClear => "sessionClear",
        MetaCommand::SessionDrop(_) => "sessionDrop",
        MetaCommand::SessionDropName(_) => "sessionDropName",
        MetaCommand::IndexList => "indexList",
        MetaCommand::IndexCreate(_) => "indexCreate",
        MetaCommand::IndexDrop(_) => "indexDrop",
        MetaCommand::IndexStats(_) => "indexStats",
        MetaCommand::IndexRebuild(_) => "indexRebuild",
        MetaCommand::ClearPrefix(_) => "clearPrefix",
        MetaCommand::Compact => "compact",
        MetaCommand::Status => "status",
        MetaCommand::Debug(_) => "debug",
        MetaCommand::Why(_) => "why",
        MetaCommand::WhyFull(_) => "whyFull",
        MetaCommand::WhyNot(_) => "whyNot",
        MetaCommand::AgentMessage(_) => "agentMessage",
        MetaCommand::AgentStart(_) => "agentStart",
        MetaCommand::AgentSetup(_) => "agentSetup",
        MetaCommand::AgentExamples => "agentExamples",
        MetaCommand::Help => "help",
        MetaCommand::Quit => "quit",
        MetaCommand::Load { .. } => "load",
        MetaCommand::UserList => "userList",
        MetaCommand::UserCreate { .. } => "userCreate",
        MetaCommand::UserDrop(_) => "userDrop",
        MetaCommand::UserPassword { .. } => "userPassword",
        MetaCommand::UserRole { .. } => "userRole",
        MetaCommand::ApiKeyCreate(_) => "apiKeyCreate",
        MetaCommand::ApiKeyList => "apiKeyList",
        MetaCommand::ApiKeyRevoke(_) => "apiKeyRevoke",
        MetaCommand::KgAclList(_) => "kgAclList",
        MetaCommand::KgAclGrant { .. } => "kgAclGrant",
        MetaCommand::KgAclRevoke { .. } => "kgAclRevoke",
    ]
}

pub fn all_kinds() -> Vec<&'static str> { STMT_NAMES.iter().chain(META_NAMES.iter()).copied().collect() }

/// identifiers used as payloads; deliberately includes the system KG and auth relation names.
pub const REL_NAMES: &[&str] = &["r", "s", "edge", "users", "kg_acls", "api_keys", "t_1", "zz9"];
pub const KG_NAMES: &[&str] = &["default", "kga", "kgb", "_internal", "x1", "Default"];
pub const USER_NAMES: &[&str] = &["bob", "admin", "eve", "u_2"];
pub const ROLE_WORDS: &[&str] = &["viewer", "editor", "owner", "admin", "bogus"];

fn val(ctx: &mut Ctx) -> String {
    match ctx.below(5) {
        0 => ctx.range(-3, 99).to_string(),
        1 => format!("\"{}\"", ctx.pick(&["a", "b c", "x//y", "_internal", "é"])),
        2 => "true".into(),
        3 => format!("{}.5", ctx.range(0, 9)),
        _ => ctx.range(0, 5).to_string(),
    }
}
fn vals(ctx: &mut Ctx, n: usize) -> String { (0..n).map(|_| val(ctx)).collect::<Vec<_>>().join(", ") }
fn vars(n: usize) -> String { ["X", "Y", "Z", "W"][..n].join(", ") }

/// A statement text of the requested kind with a random payload (the caller verifies the kind
/// with the real parser; a text that does not parse to `kind` is a generator bug, counted).
pub fn stmt_text(ctx: &mut Ctx, kind: &str) -> String {
    let r = *ctx.pick(REL_NAMES); let r2 = *ctx.pick(REL_NAMES);
    let kg = *ctx.pick(KG_NAMES); let u = *ctx.pick(USER_NAMES); let role = *ctx.pick(ROLE_WORDS);
    let n = 1 + ctx.below(3);
    let q = |ctx: &mut Ctx| -> String { match ctx.below(3) { 0 => format!("?{r}({})", vars(n)), 1 => format!("?{r}({}, {})", val(ctx), "X"), _ => format!("?{r}(X), X > {}", ctx.range(0, 9)) } };
    match kind {
        "query" => q(ctx),
        "insert" => match ctx.below(3) { 0 => format!("+{r}({})", vals(ctx, n)), 1 => format!("+{r}[({},), ({},)]", val(ctx), val(ctx)), _ => format!("+{r}[({}), ({})]", vals(ctx, 2), vals(ctx, 2)) },
        "delete" => match ctx.below(3) { 0 => format!("-{r}({})", vals(ctx, n)), 1 => format!("-{r}({}) <- {r2}({})", vars(n), vars(n)), _ => format!("-{r}(X) <- {r}(X), X > {}", ctx.range(0, 9)) },
        "update" => format!("-{r}({}, Y), +{r}({}, {}) <- {r}({}, Y)", 1, 1, ctx.range(0, 99), 1),
        "persistentRule" => format!("+{r}({}) <- {r2}({})", vars(n), vars(n)),
        "sessionRule" => format!("{r}({}) <- {r2}({})", vars(n), vars(n)),
        "fact" => format!("{r}({})", vals(ctx, n)),
        "schemaDecl" => match ctx.below(2) { 0 => format!("+{r}(a: int, b: string)"), _ => format!("{r}(a: int)") },
        "typeDecl" => format!("type T{}: {}", ctx.below(9), ctx.pick(&["int", "string", "float"])),
        "deleteRelationOrRule" => format!("-{r}"),
        "kgShow" => ".kg".into(),
        "kgList" => ".kg list".into(),
        "kgCreate" => format!(".kg create {kg}"),
        "kgUse" => format!(".kg use {kg}"),
        "kgDrop" => format!(".kg drop {kg}"),
        "relList" => ctx.pick(&[".rel", ".relation"]).to_string(),
        "relDescribe" => format!(".rel {r}"),
        "relDrop" => format!(".rel drop {r}"),
        "ruleList" => ctx.pick(&[".rule", ".rule list"]).to_string(),
        "ruleQuery" => format!(".rule {r}"),
        "ruleShowDef" => format!(".rule def {r}"),
        "ruleDrop" => format!(".rule drop {r}"),
        "ruleDropPrefix" => format!(".rule drop prefix {r}"),
        "ruleEdit" => format!(".rule edit {r} {} {r}(X) <- {r2}(X)", 1 + ctx.below(3)),
        "ruleClear" => format!(".rule clear {r}"),
        "ruleRemove" => format!(".rule remove {r} {}", 1 + ctx.below(3)),
        "sessionList" => ctx.pick(&[".session", ".rules"]).to_string(),
        "sessionClear" => ".session clear".into(),
        "sessionDrop" => format!(".session drop {}", 1 + ctx.below(4)),
        "sessionDropName" => format!(".session drop {r}"),
        "indexList" => ctx.pick(&[".index", ".index list", ".idx"]).to_string(),
        "indexCreate" => format!(".index create i{} on {r}(c) metric {}", ctx.below(9), ctx.pick(&["cosine", "euclidean"])),
        "indexDrop" => format!(".index drop {r}"),
        "indexStats" => format!(".index stats {r}"),
        "indexRebuild" => format!(".index rebuild {r}"),
        "clearPrefix" => format!(".clear prefix {r}"),
        "compact" => ".compact".into(),
        "status" => ".status".into(),
        "debug" => format!(".debug {}", q(ctx)),
        "why" => format!(".why {}", q(ctx)),
        "whyFull" => format!(".why full {}", q(ctx)),
        "whyNot" => format!(".why_not {r}({})", vals(ctx, n)),
        "agentMessage" => format!(".agent tell me about {r}"),
        "agentStart" => format!(".agent start {r}"),
        "agentSetup" => format!(".agent setup {r}"),
        "agentExamples" => ctx.pick(&[".agent", ".agent examples"]).to_string(),
        "help" => ctx.pick(&[".help", ".?"]).to_string(),
        "quit" => ctx.pick(&[".quit", ".exit", ".q"]).to_string(),
        "load" => format!(".load /tmp/{r}.iql{}", ctx.pick(&["", " --replace", " --merge"])),
        "userList" => ".user list".into(),
        "userCreate" => format!(".user create {u} pw{} {role}", ctx.below(99)),
        "userDrop" => format!(".user drop {u}"),
        "userPassword" => format!(".user password {u} pw{}", ctx.below(99)),
        "userRole" => format!(".user role {u} {role}"),
        "apiKeyCreate" => format!(".apikey create k{}", ctx.below(9)),
        "apiKeyList" => ".apikey list".into(),
        "apiKeyRevoke" => format!(".apikey revoke k{}", ctx.below(9)),
        "kgAclList" => if ctx.chance(1, 2) { ".kg acl list".into() } else { format!(".kg acl list {kg}") },
        "kgAclGrant" => format!(".kg acl grant {kg} {u} {role}"),
        "kgAclRevoke" => format!(".kg acl revoke {kg} {u}"),
        _ => String::new(),
    }
}
