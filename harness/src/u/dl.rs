//! Datalog helpers shared by C01–C08 (and reusable by other groups):
//! a small rule AST, the one-line wire encoding read by `ILV.Model.Datalog` (Lean never parses IQL
//! text), IQL rendering for the real engine, an encoder of the *real* parser's AST
//! (`inputlayer::parse_program`) into the same wire form (used to check that what the engine
//! parsed is what Lean was given), and the program / EDB generators over the shapes of DESIGN §5.
use crate::common::*;
use inputlayer::ast as iast;
use inputlayer::{Tuple, Value};

#[derive(Clone, Debug, PartialEq)]
pub enum T { V(String), C(Value), W }
#[derive(Clone, Debug, PartialEq)]
pub enum H { V(String), C(Value), A(String, String) }
#[derive(Clone, Debug, PartialEq)]
pub enum E { V(String), C(i64), B(String, Box<E>, Box<E>) }
#[derive(Clone, Debug, PartialEq)]
pub struct Atom { pub rel: String, pub args: Vec<T> }
#[derive(Clone, Debug, PartialEq)]
pub enum L { P(Atom), N(Atom), Cmp(String, E, E) }
#[derive(Clone, Debug, PartialEq)]
pub struct Rule { pub hrel: String, pub hargs: Vec<H>, pub body: Vec<L> }

pub fn v(x: &str) -> T { T::V(x.to_string()) }
pub fn c(n: i64) -> T { T::C(Value::Int64(n)) }
pub fn hv(x: &str) -> H { H::V(x.to_string()) }
pub fn hc(n: i64) -> H { H::C(Value::Int64(n)) }
pub fn ev(x: &str) -> E { E::V(x.to_string()) }
pub fn eb(op: &str, l: E, r: E) -> E { E::B(op.to_string(), Box::new(l), Box::new(r)) }
pub fn atom(rel: &str, args: Vec<T>) -> Atom { Atom { rel: rel.to_string(), args } }
pub fn pos(rel: &str, args: Vec<T>) -> L { L::P(atom(rel, args)) }
pub fn neg(rel: &str, args: Vec<T>) -> L { L::N(atom(rel, args)) }
pub fn cmp(op: &str, l: E, r: E) -> L { L::Cmp(op.to_string(), l, r) }
pub fn rule(hrel: &str, hargs: Vec<H>, body: Vec<L>) -> Rule { Rule { hrel: hrel.to_string(), hargs, body } }

// ---------------------------------------------------------------- wire encoding

fn t_wire(t: &T) -> String { match t { T::V(x) => format!("${x}"), T::C(v) => format!("#{}", val_to_wire(v)), T::W => "_".into() } }
fn h_wire(t: &H) -> String { match t { H::V(x) => format!("${x}"), H::C(v) => format!("#{}", val_to_wire(v)), H::A(f, x) => format!("@{f}${x}") } }
fn e_wire(e: &E) -> String { match e { E::V(x) => format!("${x}"), E::C(n) => format!("#{n}"), E::B(op, l, r) => format!("{op}.{}.{}", e_wire(l), e_wire(r)) } }
fn atom_wire(a: &Atom) -> String { format!("{}({})", a.rel, a.args.iter().map(t_wire).collect::<Vec<_>>().join(",")) }
fn l_wire(l: &L) -> String { match l { L::P(a) => atom_wire(a), L::N(a) => format!("!{}", atom_wire(a)), L::Cmp(op, l, r) => format!("?{op}~{}~{}", e_wire(l), e_wire(r)) } }
pub fn rule_wire(r: &Rule) -> String {
    format!("{}({})<={}", r.hrel, r.hargs.iter().map(h_wire).collect::<Vec<_>>().join(","), r.body.iter().map(l_wire).collect::<Vec<_>>().join("&"))
}
pub fn fact_wire(rel: &str, t: &Tuple) -> String { format!("+{}({})", rel, t.values().iter().map(val_to_wire).collect::<Vec<_>>().join(",")) }

fn split_atom(s: &str) -> Option<(String, Vec<String>)> {
    let p = s.find('(')?; if !s.ends_with(')') || p == 0 { return None; }
    let inner = &s[p + 1..s.len() - 1];
    Some((s[..p].to_string(), if inner.is_empty() { vec![] } else { inner.split(',').map(|x| x.to_string()).collect() }))
}
fn t_of(s: &str) -> Option<T> {
    if s == "_" { return Some(T::W); }
    if let Some(x) = s.strip_prefix('$') { return Some(T::V(x.to_string())); }
    if let Some(x) = s.strip_prefix('#') { return Some(T::C(val_of_wire(x)?)); }
    None
}
fn h_of(s: &str) -> Option<H> {
    if let Some(x) = s.strip_prefix('$') { return Some(H::V(x.to_string())); }
    if let Some(x) = s.strip_prefix('#') { return Some(H::C(val_of_wire(x)?)); }
    if let Some(x) = s.strip_prefix('@') { let (f, var) = x.split_once('$')?; return Some(H::A(f.to_string(), var.to_string())); }
    None
}
fn e_of_toks(toks: &[&str], i: &mut usize) -> Option<E> {
    let t = *toks.get(*i)?; *i += 1;
    if let Some(x) = t.strip_prefix('$') { return Some(E::V(x.to_string())); }
    if let Some(x) = t.strip_prefix('#') { return Some(E::C(x.parse().ok()?)); }
    if !["add", "sub", "mul", "div", "mod"].contains(&t) { return None; }
    let l = e_of_toks(toks, i)?; let r = e_of_toks(toks, i)?;
    Some(E::B(t.to_string(), Box::new(l), Box::new(r)))
}
fn e_of(s: &str) -> Option<E> { let toks: Vec<&str> = s.split('.').collect(); let mut i = 0; let e = e_of_toks(&toks, &mut i)?; if i == toks.len() { Some(e) } else { None } }
fn atom_of(s: &str) -> Option<Atom> { let (rel, args) = split_atom(s)?; Some(Atom { rel, args: args.iter().map(|a| t_of(a)).collect::<Option<Vec<_>>>()? }) }
fn l_of(s: &str) -> Option<L> {
    if let Some(x) = s.strip_prefix('!') { return Some(L::N(atom_of(x)?)); }
    if let Some(x) = s.strip_prefix('?') { let p: Vec<&str> = x.split('~').collect(); if p.len() != 3 { return None; } return Some(L::Cmp(p[0].to_string(), e_of(p[1])?, e_of(p[2])?)); }
    Some(L::P(atom_of(s)?))
}
pub fn rule_of_wire(s: &str) -> Option<Rule> {
    let (h, b) = s.split_once("<=")?;
    let (hrel, hargs) = split_atom(h)?;
    let hargs = hargs.iter().map(|a| h_of(a)).collect::<Option<Vec<_>>>()?;
    let body = if b.is_empty() { vec![] } else { b.split('&').map(l_of).collect::<Option<Vec<_>>>()? };
    Some(Rule { hrel, hargs, body })
}
pub fn fact_of_wire(s: &str) -> Option<(String, Tuple)> {
    let (rel, args) = split_atom(s.strip_prefix('+')?)?;
    Some((rel, Tuple::new(args.iter().map(|a| val_of_wire(a)).collect::<Option<Vec<_>>>()?)))
}

/// the items after ` | ` of a request: facts (`+rel(..)`) and rules, in order.
pub fn parse_items(items: &str) -> Option<(Vec<(String, Vec<Tuple>)>, Vec<Rule>)> {
    let mut edb: Vec<(String, Vec<Tuple>)> = vec![]; let mut rules = vec![];
    for it in items.split(" ; ") {
        let it = it.trim(); if it.is_empty() { continue; }
        if it.starts_with('+') {
            let (r, t) = fact_of_wire(it)?;
            if let Some(e) = edb.iter_mut().find(|e| e.0 == r) { e.1.push(t) } else { edb.push((r, vec![t])) }
        } else { rules.push(rule_of_wire(it)?); }
    }
    Some((edb, rules))
}
pub fn items_wire(edb: &[(String, Vec<Tuple>)], rules: &[Rule]) -> String {
    let mut v: Vec<String> = vec![];
    for (r, ts) in edb { for t in ts { v.push(fact_wire(r, t)); } }
    for r in rules { v.push(rule_wire(r)); }
    v.join(" ; ")
}

// ---------------------------------------------------------------- IQL text

fn val_iql(v: &Value) -> String {
    match v { Value::Int64(n) => n.to_string(), Value::Int32(n) => n.to_string(), Value::String(s) => format!("\"{s}\""), Value::Bool(b) => b.to_string(), other => format!("{other:?}") }
}
fn t_iql(t: &T) -> String { match t { T::V(x) => x.clone(), T::C(v) => val_iql(v), T::W => "_".into() } }
fn h_iql(t: &H) -> String { match t { H::V(x) => x.clone(), H::C(v) => val_iql(v), H::A(f, x) => format!("{f}<{x}>") } }
fn op_iql(op: &str) -> &'static str { match op { "add" => "+", "sub" => "-", "mul" => "*", "div" => "/", "mod" => "%", "eq" => "=", "ne" => "!=", "lt" => "<", "le" => "<=", "gt" => ">", "ge" => ">=", _ => "?" } }
fn e_iql(e: &E, top: bool) -> String {
    match e { E::V(x) => x.clone(), E::C(n) => n.to_string(),
        E::B(op, l, r) => { let s = format!("{} {} {}", e_iql(l, false), op_iql(op), e_iql(r, false)); if top { s } else { format!("({s})") } } }
}
fn atom_iql(a: &Atom) -> String { format!("{}({})", a.rel, a.args.iter().map(t_iql).collect::<Vec<_>>().join(", ")) }
fn l_iql(l: &L) -> String { match l { L::P(a) => atom_iql(a), L::N(a) => format!("!{}", atom_iql(a)), L::Cmp(op, l, r) => format!("{} {} {}", e_iql(l, true), op_iql(op), e_iql(r, true)) } }
pub fn rule_iql(r: &Rule) -> String {
    let h = format!("{}({})", r.hrel, r.hargs.iter().map(h_iql).collect::<Vec<_>>().join(", "));
    if r.body.is_empty() { h } else { format!("{} <- {}", h, r.body.iter().map(l_iql).collect::<Vec<_>>().join(", ")) }
}
pub fn program_iql(rules: &[Rule]) -> String { rules.iter().map(rule_iql).collect::<Vec<_>>().join("\n") }

// ---------------------------------------------------------------- real AST -> wire

fn real_arith(e: &iast::ArithExpr) -> Result<E, String> {
    Ok(match e {
        iast::ArithExpr::Variable(x) => E::V(x.clone()),
        iast::ArithExpr::Constant(n) => E::C(*n),
        iast::ArithExpr::FloatConstant(_) => return Err("float".into()),
        iast::ArithExpr::Binary { op, left, right } => E::B(match op { iast::ArithOp::Add => "add", iast::ArithOp::Sub => "sub", iast::ArithOp::Mul => "mul", iast::ArithOp::Div => "div", iast::ArithOp::Mod => "mod" }.to_string(), Box::new(real_arith(left)?), Box::new(real_arith(right)?)),
    })
}
fn real_term(t: &iast::Term) -> Result<T, String> {
    Ok(match t {
        iast::Term::Variable(x) => T::V(x.clone()), iast::Term::Constant(n) => T::C(Value::Int64(*n)), iast::Term::Placeholder => T::W,
        iast::Term::StringConstant(s) => T::C(Value::string(s)), iast::Term::BoolConstant(b) => T::C(Value::Bool(*b)),
        other => return Err(format!("term {other:?}")),
    })
}
fn real_hterm(t: &iast::Term) -> Result<H, String> {
    Ok(match t {
        iast::Term::Variable(x) => H::V(x.clone()), iast::Term::Constant(n) => H::C(Value::Int64(*n)),
        iast::Term::StringConstant(s) => H::C(Value::string(s)), iast::Term::BoolConstant(b) => H::C(Value::Bool(*b)),
        iast::Term::Aggregate(f, x) => H::A(match f { iast::AggregateFunc::Count => "count", iast::AggregateFunc::CountDistinct => "count_distinct", iast::AggregateFunc::Sum => "sum", iast::AggregateFunc::Min => "min", iast::AggregateFunc::Max => "max", iast::AggregateFunc::Avg => "avg", _ => return Err("ranking aggregate".into()) }.to_string(), x.clone()),
        other => return Err(format!("head term {other:?}")),
    })
}
fn real_cterm(t: &iast::Term) -> Result<E, String> {
    Ok(match t { iast::Term::Variable(x) => E::V(x.clone()), iast::Term::Constant(n) => E::C(*n), iast::Term::Arithmetic(a) => real_arith(a)?, other => return Err(format!("cmp term {other:?}")) })
}
fn real_atom(a: &iast::Atom) -> Result<Atom, String> { Ok(Atom { rel: a.relation.clone(), args: a.args.iter().map(real_term).collect::<Result<Vec<_>, _>>()? }) }
/// encode a rule as parsed by the real parser.
pub fn real_rule(r: &iast::Rule) -> Result<Rule, String> {
    let mut body = vec![];
    for b in &r.body {
        body.push(match b {
            iast::BodyPredicate::Positive(a) => L::P(real_atom(a)?),
            iast::BodyPredicate::Negated(a) => L::N(real_atom(a)?),
            iast::BodyPredicate::Comparison(l, op, rr) => L::Cmp(match op { iast::ComparisonOp::Equal => "eq", iast::ComparisonOp::NotEqual => "ne", iast::ComparisonOp::LessThan => "lt", iast::ComparisonOp::LessOrEqual => "le", iast::ComparisonOp::GreaterThan => "gt", iast::ComparisonOp::GreaterOrEqual => "ge" }.to_string(), real_cterm(l)?, real_cterm(rr)?),
            iast::BodyPredicate::HnswNearest { .. } => return Err("hnsw".into()),
        });
    }
    Ok(Rule { hrel: r.head.relation.clone(), hargs: r.head.args.iter().map(real_hterm).collect::<Result<Vec<_>, _>>()?, body })
}
/// parse IQL text with the real parser and return the wire forms of its rules.
pub fn real_parse_wire(text: &str) -> Result<Vec<String>, String> {
    let p = inputlayer::parse_program(text)?;
    p.rules.iter().map(|r| real_rule(r).map(|r| rule_wire(&r))).collect()
}
/// does the IQL rendering of these rules parse back (with the real parser) to exactly these rules?
pub fn roundtrip_ok(rules: &[Rule]) -> bool {
    match real_parse_wire(&program_iql(rules)) { Ok(w) => w == rules.iter().map(rule_wire).collect::<Vec<_>>(), Err(_) => false }
}

// ---------------------------------------------------------------- generators

pub const EDB_RELS: [(&str, usize); 4] = [("e", 2), ("f", 2), ("n", 1), ("w", 3)];
const VARS: [&str; 5] = ["X", "Y", "Z", "U", "V"];

pub fn int_tuple(vals: &[i64]) -> Tuple { Tuple::new(vals.iter().map(|n| Value::Int64(*n)).collect()) }

/// random duplicate-free EDB: every relation of `rels` gets 0..=max tuples over {0..dom-1}.
pub fn gen_edb(ctx: &mut Ctx, rels: &[(&str, usize)], max: usize, dom: i64) -> Vec<(String, Vec<Tuple>)> {
    let mut out = vec![];
    for (r, ar) in rels {
        let k = ctx.below(max + 1);
        let mut ts: Vec<Tuple> = vec![];
        for _ in 0..k {
            let t = int_tuple(&(0..*ar).map(|_| ctx.range(0, dom - 1)).collect::<Vec<_>>());
            if !ts.contains(&t) { ts.push(t); }
        }
        out.push((r.to_string(), ts));
    }
    out
}

pub struct ClauseOpts { pub min_atoms: usize, pub max_atoms: usize, pub neg: bool, pub cmp: bool, pub assign: bool, pub consts: bool, pub wild: bool, pub must_use: Option<(String, usize)> }
impl Default for ClauseOpts { fn default() -> Self { ClauseOpts { min_atoms: 1, max_atoms: 3, neg: true, cmp: true, assign: true, consts: true, wild: true, must_use: None } } }

fn gen_args(ctx: &mut Ctx, ar: usize, o: &ClauseOpts, nvars: usize) -> Vec<T> {
    (0..ar).map(|_| {
        let k = ctx.below(20);
        if k == 0 && o.consts { c(ctx.range(0, 3)) } else if k == 1 && o.wild { T::W } else { v(VARS[ctx.below(nvars)]) }
    }).collect()
}
fn atom_vars(a: &Atom, out: &mut Vec<String>) { for t in &a.args { if let T::V(x) = t { if !out.contains(x) { out.push(x.clone()); } } } }

/// one clause for `head` of arity `har` over the available relations `pos_rels` (positive) and
/// `neg_rels` (negatable, i.e. completely defined in lower strata). Always safe.
pub fn gen_clause(ctx: &mut Ctx, head: &str, har: usize, pos_rels: &[(String, usize)], neg_rels: &[(String, usize)], o: &ClauseOpts) -> Rule {
    let nvars = 2 + ctx.below(3);
    let mut body: Vec<L> = vec![]; let mut bound: Vec<String> = vec![];
    let n_atoms = o.min_atoms + ctx.below(o.max_atoms - o.min_atoms + 1);
    for i in 0..n_atoms.max(1) {
        let (r, ar) = if i == 0 { o.must_use.clone().unwrap_or_else(|| ctx.pick(pos_rels).clone()) } else { ctx.pick(pos_rels).clone() };
        let mut a = Atom { rel: r, args: gen_args(ctx, ar, o, nvars) };
        // keep joins connected: from the second atom on, force one already bound variable in
        if i > 0 && !bound.is_empty() && !a.args.iter().any(|t| matches!(t, T::V(x) if bound.contains(x))) && ctx.chance(5, 6) {
            let k = ctx.below(a.args.len()); a.args[k] = T::V(ctx.pick(&bound).clone());
        }
        atom_vars(&a, &mut bound); body.push(L::P(a));
    }
    if bound.is_empty() { // all constants/wildcards: make one argument a variable
        if let L::P(a) = &mut body[0] { a.args[0] = v("X"); } bound.push("X".into());
    }
    // assignment  Z = X (+|-|*) (c | Y)
    if o.assign && ctx.chance(1, 5) {
        let fresh = VARS.iter().map(|s| s.to_string()).find(|s| !bound.contains(s)).unwrap_or_else(|| "T".into());
        let l = ev(ctx.pick(&bound).as_str()); let r = if ctx.chance(1, 2) { E::C(ctx.range(0, 3)) } else { ev(ctx.pick(&bound).as_str()) };
        let op = *ctx.pick(&["add", "sub", "mul"]);
        let e = eb(op, l, r);
        body.push(if ctx.chance(1, 6) { L::Cmp("eq".into(), e, E::V(fresh.clone())) } else { L::Cmp("eq".into(), E::V(fresh.clone()), e) });
        bound.push(fresh);
    }
    if o.cmp && ctx.chance(1, 3) {
        let op = *ctx.pick(&["eq", "ne", "lt", "le", "gt", "ge"]);
        let l = ev(ctx.pick(&bound).as_str());
        let lit = match ctx.below(6) {
            0 | 1 => L::Cmp(op.into(), l, ev(ctx.pick(&bound).as_str())),
            2 | 3 => L::Cmp(op.into(), l, E::C(ctx.range(0, 4))),
            4 => L::Cmp(op.into(), E::C(ctx.range(0, 4)), l),
            _ => if ctx.chance(1, 2) { L::Cmp(op.into(), l, eb(*ctx.pick(&["add", "sub", "mul"]), ev(ctx.pick(&bound).as_str()), E::C(ctx.range(0, 2)))) }
                 else { L::Cmp(op.into(), eb(*ctx.pick(&["add", "sub", "mul", "div", "mod"]), l, E::C(ctx.range(0, 2))), E::C(ctx.range(0, 4))) },
        };
        body.push(lit);
    }
    if o.neg && !neg_rels.is_empty() && ctx.chance(1, 4) {
        let (r, ar) = ctx.pick(neg_rels).clone();
        let mut args: Vec<T> = (0..ar).map(|_| { let k = ctx.below(12); if k == 0 { c(ctx.range(0, 3)) } else if k == 1 { T::W } else { T::V(ctx.pick(&bound).clone()) } }).collect();
        if !args.iter().any(|t| matches!(t, T::V(_))) { args[0] = T::V(ctx.pick(&bound).clone()); }
        let at = body.len().min(1 + ctx.below(body.len()));
        body.insert(at, L::N(Atom { rel: r, args }));
    }
    let hargs: Vec<H> = (0..har).map(|_| if o.consts && ctx.chance(1, 15) { hc(ctx.range(0, 3)) } else { H::V(ctx.pick(&bound).clone()) }).collect();
    Rule { hrel: head.to_string(), hargs, body }
}

/// vocabulary of the EDB as (name, arity) strings
pub fn edb_vocab() -> Vec<(String, usize)> { EDB_RELS.iter().map(|(r, a)| (r.to_string(), *a)).collect() }

/// the final query head in the forms the snapshot layer generates.
pub fn gen_query(ctx: &mut Ctx, target: &str, ar: usize) -> Rule {
    let vars: Vec<&str> = VARS[..ar].to_vec();
    match ctx.below(4) {
        0 if ar >= 2 => { // constant in one position
            let k = ctx.below(ar); let cst = ctx.range(0, 3);
            let args: Vec<T> = (0..ar).map(|i| if i == k { c(cst) } else { v(vars[i]) }).collect();
            let hargs: Vec<H> = (0..ar).filter(|i| *i != k).map(|i| hv(vars[i])).collect();
            rule("q", hargs, vec![pos(target, args)])
        }
        1 => { // with a comparison
            let k = ctx.below(ar); let op = *ctx.pick(&["lt", "ge", "ne", "eq"]);
            rule("q", vars.iter().map(|x| hv(x)).collect(), vec![pos(target, vars.iter().map(|x| v(x)).collect()), cmp(op, ev(vars[k]), E::C(ctx.range(0, 3)))])
        }
        _ => rule("q", vars.iter().map(|x| hv(x)).collect(), vec![pos(target, vars.iter().map(|x| v(x)).collect())]),
    }
}

/// A generated program with the name of the shape that was chosen.
pub struct GenProg { pub shape: &'static str, pub rules: Vec<Rule> }

fn tc_clauses(ctx: &mut Ctx, h: &str, edge: &str, variant: usize) -> (Rule, Rule) {
    let base = rule(h, vec![hv("X"), hv("Y")], vec![pos(edge, vec![v("X"), v("Y")])]);
    let rec = match variant % 5 {
        0 => rule(h, vec![hv("X"), hv("Z")], vec![pos(h, vec![v("X"), v("Y")]), pos(edge, vec![v("Y"), v("Z")])]),
        1 => rule(h, vec![hv("X"), hv("Z")], vec![pos(edge, vec![v("X"), v("Y")]), pos(h, vec![v("Y"), v("Z")])]),
        2 => rule(h, vec![hv("X"), hv("Z")], vec![pos(h, vec![v("X"), v("Y")]), pos(h, vec![v("Y"), v("Z")])]),
        3 => rule(h, vec![hv("X"), hv("Z")], vec![pos(h, vec![v("X"), v("Y")]), pos(edge, vec![v("Y"), v("Z")]), cmp(*ctx.pick(&["ne", "lt", "le"]), ev("X"), ev("Z"))]),
        _ => rule(h, vec![hv("Z"), hv("X")], vec![pos(edge, vec![v("X"), v("Y")]), pos(h, vec![v("Z"), v("Y")])]),
    };
    (base, rec)
}

/// Programs over the EDB vocabulary `e/2 f/2 n/1 w/3`, IDB heads `a b c d`, query head `q`.
/// The shape is *chosen* (DESIGN §5 "Generators shared by C01–C08").
pub fn gen_program(ctx: &mut Ctx) -> GenProg {
    let ev_ = edb_vocab();
    let shape = ctx.below(15);
    let mut rules: Vec<Rule> = vec![];
    let name: &'static str;
    match shape {
        0 => { name = "single_clause";
            let ar = 1 + ctx.below(3);
            rules.push(gen_clause(ctx, "a", ar, &ev_, &ev_, &ClauseOpts::default()));
            rules.push(gen_query(ctx, "a", ar)); }
        1 => { name = "union_of_joins";
            let ar = 1 + ctx.below(2); let k = 2 + ctx.below(2);
            for _ in 0..k { rules.push(gen_clause(ctx, "a", ar, &ev_, &ev_, &ClauseOpts { min_atoms: 2, max_atoms: 3, ..Default::default() })); }
            if ctx.chance(2, 3) { rules.push(gen_query(ctx, "a", ar)); } }
        2 => { name = "multi_clause";
            let ar = 1 + ctx.below(2); let k = 2 + ctx.below(3);
            for _ in 0..k { rules.push(gen_clause(ctx, "a", ar, &ev_, &ev_, &ClauseOpts::default())); }
            if ctx.chance(2, 3) { rules.push(gen_query(ctx, "a", ar)); } }
        3 | 4 => { name = "self_recursive";
            let edge = *ctx.pick(&["e", "f"]);
            let (b, r) = { let vv = ctx.below(5); tc_clauses(ctx, "a", edge, vv) };
            let extra = if ctx.chance(1, 3) { Some(gen_clause(ctx, "a", 2, &ev_, &ev_, &ClauseOpts { assign: false, ..Default::default() })) } else { None };
            let mut cl = vec![b, r]; if let Some(x) = extra { cl.push(x); }
            // recursive clause first / middle / last
            let k = ctx.below(cl.len()); cl.swap(1, k);
            rules.extend(cl);
            if ctx.chance(3, 4) { rules.push(gen_query(ctx, "a", 2)); } }
        5 => { name = "mutual_recursion";
            // even/odd style pair or triangle over a binary edge relation
            let edge = *ctx.pick(&["e", "f"]);
            if ctx.chance(2, 3) {
                rules.push(rule("a", vec![hv("X")], vec![pos("n", vec![v("X")])]));
                rules.push(rule("a", vec![hv("Y")], vec![pos("b", vec![v("X")]), pos(edge, vec![v("X"), v("Y")])]));
                rules.push(rule("b", vec![hv("Y")], vec![pos("a", vec![v("X")]), pos(edge, vec![v("X"), v("Y")])]));
                if ctx.chance(1, 2) { rules.swap(0, 2); }
                let t = if ctx.chance(1, 2) { "a" } else { "b" }; rules.push(gen_query(ctx, t, 1));
            } else {
                rules.push(rule("a", vec![hv("X")], vec![pos("n", vec![v("X")])]));
                rules.push(rule("a", vec![hv("Y")], vec![pos("c", vec![v("X")]), pos(edge, vec![v("X"), v("Y")])]));
                rules.push(rule("b", vec![hv("Y")], vec![pos("a", vec![v("X")]), pos(edge, vec![v("X"), v("Y")])]));
                rules.push(rule("c", vec![hv("Y")], vec![pos("b", vec![v("X")]), pos(edge, vec![v("X"), v("Y")])]));
                let k = ctx.below(4); rules.swap(0, k);
                let t = *ctx.pick(&["a", "b", "c"]); rules.push(gen_query(ctx, t, 1));
            } }
        6 => { name = "negation_over_recursive";
            let edge = *ctx.pick(&["e", "f"]);
            let (b, r) = { let vv = ctx.below(4); tc_clauses(ctx, "a", edge, vv) };
            rules.push(b); rules.push(r);
            rules.push(rule("b", vec![hv("X"), hv("Y")], vec![pos("n", vec![v("X")]), pos("n", vec![v("Y")]), neg("a", vec![v("X"), v("Y")])]));
            if ctx.chance(1, 3) { rules.swap(0, 2); }
            rules.push(gen_query(ctx, "b", 2)); }
        7 => { name = "negation_over_multi_clause";
            let k = 2 + ctx.below(2);
            for _ in 0..k { rules.push(gen_clause(ctx, "a", 1, &ev_, &ev_, &ClauseOpts::default())); }
            let mut o = ClauseOpts::default(); o.neg = false;
            let mut r = gen_clause(ctx, "b", 1, &ev_, &[], &o);
            let bv: Vec<String> = r.body.iter().filter_map(|l| if let L::P(a) = l { Some(a) } else { None }).flat_map(|a| a.args.iter().filter_map(|t| if let T::V(x) = t { Some(x.clone()) } else { None })).collect();
            r.body.push(L::N(Atom { rel: "a".into(), args: vec![T::V(ctx.pick(&bv).clone())] }));
            let at = ctx.below(rules.len() + 1); rules.insert(at, r);
            rules.push(gen_query(ctx, "b", 1)); }
        8 | 9 => { name = "chain";
            // a chain of >= 3 dependent heads, text order shuffled so that the engine's topological sort matters
            let names = ["a", "b", "c", "d"]; let len = 3 + ctx.below(2);
            let mut avail = ev_.clone(); let mut negs = ev_.clone(); let mut groups: Vec<Vec<Rule>> = vec![]; let mut last = ("a".to_string(), 1usize);
            for i in 0..len {
                let ar = 1 + ctx.below(2); let k = 1 + ctx.below(2); let mut g = vec![];
                for _ in 0..k {
                    let mut o = ClauseOpts::default(); if i > 0 { o.must_use = Some(last.clone()); }
                    g.push(gen_clause(ctx, names[i], ar, &avail, &negs, &o));
                }
                groups.push(g); last = (names[i].to_string(), ar); avail.push(last.clone()); negs.push(last.clone());
            }
            // shuffle groups (Fisher-Yates), sometimes interleave clauses
            for i in (1..groups.len()).rev() { let j = ctx.below(i + 1); groups.swap(i, j); }
            for g in groups { rules.extend(g); }
            if ctx.chance(1, 4) && rules.len() > 2 { let i = ctx.below(rules.len()); let j = ctx.below(rules.len()); rules.swap(i, j); }
            // without a query head an earlier head may depend on the last one ("last stays last")
            if ctx.chance(2, 3) { rules.push(gen_query(ctx, &last.0, last.1)); } }
        10 => { name = "aggregate";
            let f = *ctx.pick(&["count", "sum", "min", "max", "count_distinct"]);
            let mut o = ClauseOpts::default(); o.max_atoms = 2;
            let ar0 = 1 + ctx.below(2); let mut r = gen_clause(ctx, "a", ar0, &ev_, &ev_, &o);
            let bv: Vec<String> = { let mut b = vec![]; for l in &r.body { if let L::P(a) = l { atom_vars(a, &mut b); } } b };
            r.hargs.retain(|h| matches!(h, H::V(_)));
            if ctx.chance(1, 4) { r.hargs.clear(); }
            let agg = H::A(f.to_string(), ctx.pick(&bv).clone());
            if ctx.chance(1, 8) && !r.hargs.is_empty() { r.hargs.insert(0, agg); } else { r.hargs.push(agg); }
            let ar = r.hargs.len();
            rules.push(r);
            rules.push(gen_query(ctx, "a", ar)); }
        11 => { name = "recursive_arith";
            // bounded counter / path length recursion with a guard so that it terminates
            let bound_ = ctx.range(3, 7);
            if ctx.chance(1, 2) {
                rules.push(rule("a", vec![hv("X")], vec![pos("n", vec![v("X")])]));
                rules.push(rule("a", vec![hv("Z")], vec![pos("a", vec![v("X")]), cmp("eq", ev("Z"), eb("add", ev("X"), E::C(1))), cmp("lt", ev("Z"), E::C(bound_))]));
                rules.push(gen_query(ctx, "a", 1));
            } else {
                let edge = *ctx.pick(&["e", "f"]);
                rules.push(rule("a", vec![hv("X"), hv("Y"), hc(1)], vec![pos(edge, vec![v("X"), v("Y")])]));
                rules.push(rule("a", vec![hv("X"), hv("Z"), hv("D")], vec![pos("a", vec![v("X"), v("Y"), v("U")]), pos(edge, vec![v("Y"), v("Z")]), cmp("eq", ev("D"), eb("add", ev("U"), E::C(1))), cmp("le", ev("D"), E::C(bound_))]));
                rules.push(gen_query(ctx, "a", 3));
            } }
        12 => { name = "last_head_multi_clause";
            // no separate query head: the last head itself has several clauses (direct-API shape)
            let ar = 1 + ctx.below(2);
            rules.push(gen_clause(ctx, "a", ar, &ev_, &ev_, &ClauseOpts::default()));
            let mut av = ev_.clone(); av.push(("a".into(), ar));
            let k = 2 + ctx.below(2); let ar_b = 1 + ctx.below(2);
            for _ in 0..k { rules.push(gen_clause(ctx, "b", ar_b, &av, &ev_, &ClauseOpts { min_atoms: 2, ..Default::default() })); } }
        13 => { name = "last_rule_extends_earlier_head";
            // the last rule of the text adds a clause to a head introduced earlier (direct-API shape)
            rules.push(gen_clause(ctx, "a", 1, &ev_, &ev_, &ClauseOpts::default()));
            let mut av = ev_.clone(); av.push(("a".into(), 1));
            let mut o = ClauseOpts::default(); o.must_use = Some(("a".into(), 1));
            rules.push(gen_clause(ctx, "b", 1, &av, &ev_, &o));
            rules.push(gen_clause(ctx, "a", 1, &ev_, &ev_, &ClauseOpts::default())); }
        _ => { name = "random_mix";
            let names = ["a", "b", "c"]; let nh = 1 + ctx.below(3);
            let mut avail = ev_.clone(); let mut negs = ev_.clone(); let mut last = ("a".to_string(), 1usize);
            for i in 0..nh {
                let ar = 1 + ctx.below(3); let k = 1 + ctx.below(3);
                let mut av = avail.clone(); if ctx.chance(1, 3) { av.push((names[i].to_string(), ar)); }
                for j in 0..k {
                    let mut o = ClauseOpts::default(); if j > 0 && av.len() > avail.len() { o.must_use = Some((names[i].to_string(), ar)); o.assign = false; }
                    rules.push(gen_clause(ctx, names[i], ar, if j == 0 { &avail } else { &av }, &negs, &o));
                }
                last = (names[i].to_string(), ar); avail.push(last.clone()); negs.push(last.clone());
            }
            rules.push(gen_query(ctx, &last.0, last.1)); }
    }
    GenProg { shape: name, rules }
}

/// relations named in a program that are not heads (so: to be supplied as EDB), with arities.
pub fn edb_rels_of(rules: &[Rule]) -> Vec<(String, usize)> {
    let heads: Vec<&String> = rules.iter().map(|r| &r.hrel).collect();
    let mut out: Vec<(String, usize)> = vec![];
    for r in rules { for l in &r.body { if let L::P(a) | L::N(a) = l { if !heads.contains(&&a.rel) && !out.iter().any(|x| x.0 == a.rel) { out.push((a.rel.clone(), a.args.len())); } } } }
    out
}

// ---------------------------------------------------------------- running the real engine

#[derive(Clone, Debug)]
pub struct Cfg { pub sw: [bool; 5], pub workers: usize, pub limit: usize }
pub fn cfg_of_wire(s: &str) -> Option<Cfg> {
    let p: Vec<&str> = s.split(':').collect(); if p.len() != 3 || p[0].len() != 5 { return None; }
    let b: Vec<bool> = p[0].chars().map(|c| c == '1').collect();
    Some(Cfg { sw: [b[0], b[1], b[2], b[3], b[4]], workers: p[1].parse().ok()?, limit: p[2].parse().ok()? })
}
pub fn new_engine(cfg: &Cfg) -> inputlayer::IQLEngine {
    let oc = inputlayer::OptimizationConfig { enable_join_planning: cfg.sw[0], enable_sip_rewriting: cfg.sw[1], enable_subplan_sharing: cfg.sw[2], enable_boolean_specialization: cfg.sw[3], enable_magic_sets: cfg.sw[4] };
    let mut e = inputlayer::IQLEngine::with_config(oc);
    e.set_num_workers(cfg.workers); e.set_max_result_rows(cfg.limit);
    e
}
/// small error enum shared with the Lean model
pub fn err_class(e: &str) -> String {
    if e.starts_with("Unsafe rule") { "err:range".into() }
    else if e.contains("not found in schema") || e.contains("shares no variables") || e.contains("no positive body atoms") || e.contains("in aggregation head") || e.contains("Unsupported comparison") || e.contains("not found in schema for arithmetic") { "err:build".into() }
    else if e.contains("No IR nodes") { "err:empty".into() }
    else { format!("err:other:{}", e.chars().take(60).collect::<String>().replace(' ', "_")) }
}
/// Load the facts, run the program text through `IQLEngine::execute_tuples`, canonical output.
pub fn run_engine(cfg: &Cfg, edb: &[(String, Vec<Tuple>)], rules: &[Rule]) -> String {
    let text = program_iql(rules);
    // what the real parser reads must be what the Lean side is given
    match real_parse_wire(&text) {
        Ok(w) => if w != rules.iter().map(rule_wire).collect::<Vec<_>>() { return "err:wire-mismatch".into(); },
        Err(_) => return "err:parse".into(),
    }
    let mut e = new_engine(cfg);
    for (r, ts) in edb { e.add_tuples(r, ts.clone()); }
    match e.execute_tuples(&text) { Ok(ts) => rel_to_wire(&ts), Err(m) => err_class(&m) }
}
/// like `run_engine`, but also reports every derived relation the run accumulated
/// (`execute_tuples_with_derived`): `answer#a=..#b=..`, relations sorted by name.
pub fn run_engine_all(cfg: &Cfg, edb: &[(String, Vec<Tuple>)], rules: &[Rule]) -> String {
    let text = program_iql(rules);
    match real_parse_wire(&text) {
        Ok(w) => if w != rules.iter().map(rule_wire).collect::<Vec<_>>() { return "err:wire-mismatch".into(); },
        Err(_) => return "err:parse".into(),
    }
    let mut e = new_engine(cfg);
    for (r, ts) in edb { e.add_tuples(r, ts.clone()); }
    match e.execute_tuples_with_derived(&text) {
        Ok((ts, derived)) => {
            let mut names: Vec<&String> = derived.keys().collect(); names.sort();
            let mut out = rel_to_wire(&ts);
            for n in names { out.push_str(&format!("#{}={}", n, rel_to_wire(&derived[n]))); }
            out
        }
        Err(m) => err_class(&m),
    }
}
/// request `<op> <cfg> | items`
pub fn split_req(req: &str) -> Option<(String, Cfg, Vec<(String, Vec<Tuple>)>, Vec<Rule>)> {
    let (head, items) = req.split_once(" | ").unwrap_or((req, ""));
    let mut hp = head.split(' ');
    let op = hp.next()?.to_string(); let cfg = cfg_of_wire(hp.next()?)?;
    let (edb, rules) = parse_items(items)?;
    Some((op, cfg, edb, rules))
}

// ---------------------------------------------------------------- ranking aggregates (IQL text only)

/// Programs with a ranking aggregate head (`top_k`, `top_k_threshold`, `within_radius`) over a single
/// positive atom `w(G, I, S)` (optionally a filter / a computed column), plus a query head.
/// Ranking aggregates are not part of the wire AST / Lean model: the program travels as IQL text.
/// Returns (shape, text, arity of the answer).
pub fn gen_ranking(ctx: &mut Ctx) -> (&'static str, String, usize) {
    let k = 1 + ctx.below(3);
    let dir = *ctx.pick(&[":desc", ":asc"]);
    let grouped = ctx.chance(2, 3);
    let (gh, gq) = if grouped { ("G, ", "G, ") } else { ("", "") };
    let garg = if grouped { "G" } else { "_" };
    let ar = if grouped { 3 } else { 2 };
    let (shape, head_agg, body): (&'static str, String, String) = match ctx.below(6) {
        0 | 1 => ("top_k", format!("top_k<{k}, I, S{dir}>"), format!("w({garg}, I, S)")),
        2 => ("top_k_filter", format!("top_k<{k}, I, S{dir}>"), format!("w({garg}, I, S), S > {}", ctx.range(0, 3))),
        3 => ("top_k_computed", format!("top_k<{k}, I, T{dir}>"), format!("w({garg}, I, S), T = S + I")),
        4 => ("top_k_threshold", format!("top_k_threshold<{k}, {}.0, I, S{dir}>", ctx.range(1, 6)), format!("w({garg}, I, S)")),
        _ => ("within_radius", format!("within_radius<{}.0, I, S:asc>", ctx.range(1, 6)), format!("w({garg}, I, S)")),
    };
    let text = format!("a({gh}{head_agg}) <- {body}\nq({gq}I, S) <- a({gq}I, S)");
    (shape, text, ar)
}
/// facts for `w(G, I, S)`: two groups, more qualifying rows per group than any k, spread over partitions.
pub fn gen_ranking_edb(ctx: &mut Ctx) -> Vec<(String, Vec<Tuple>)> {
    let n = *ctx.pick(&[0usize, 4, 12, 25, 40]);
    let mut ts: Vec<Tuple> = vec![];
    for i in 0..n { let t = int_tuple(&[ctx.range(0, 1), i as i64, ctx.range(0, 9)]); if !ts.contains(&t) { ts.push(t); } }
    vec![("w".to_string(), ts)]
}
/// run IQL text (no wire form) on the real engine.
pub fn run_engine_text(cfg: &Cfg, edb: &[(String, Vec<Tuple>)], text: &str) -> String {
    let mut e = new_engine(cfg);
    for (r, ts) in edb { e.add_tuples(r, ts.clone()); }
    match e.execute_tuples(text) { Ok(ts) => rel_to_wire(&ts), Err(m) => err_class(&m) }
}
