//! Shared driver for the storage properties C11 / C12 / C14: runs one self-contained history
//! `<cfg> | item ; item ; …` against the real `StorageEngine` on a private temp dir.
//!
//! cfg   = `b<buffer_size>,w<max_wal_size_bytes>,m<i|b|a>`  (immediate / batched / async)
//! items = `ins <rel> <tuple>…` | `del <rel> <tuple>…` | `save` | `compact` | `compactif <n>` |
//!         `savekg` | `restart` (drop + reopen) | `shutdown` (save_all, drop, reopen = clean shutdown) |
//!         `obs` (live state) | `files` (on-disk persist summary) | `q` (live state through the query engine)
//! Output: one token per item joined by ` | `.
//!   ins -> `+<new>/<dup>` | `err:<kind>`;  del -> `-<n>` | `err:<kind>`;  save/compact/… -> `ok` | `err:<kind>`
//!   restart/shutdown -> `pre=<state> post=<state>` | `pre=<state> post=err:<kind>` (then the history stops)
//!   state = `<rel>:<arity|->=<sorted tuples | {} | ->` per relation named in the history, sorted by name
//!           (`-` = no entry in the snapshot's `input_tuples`; duplicates are *kept*).
use crate::common::*;
use inputlayer::{Config, DurabilityMode, StorageEngine, Tuple};
use std::collections::BTreeSet;

pub const KG: &str = "default";

pub struct Cfg { pub buffer: usize, pub wal: u64, pub mode: DurabilityMode }

pub fn parse_cfg(s: &str) -> Option<Cfg> {
    let mut c = Cfg { buffer: 10000, wal: 0, mode: DurabilityMode::Immediate };
    for p in s.split(',') {
        if p.len() < 2 { return None; }
        let (k, v) = p.split_at(1);
        match k {
            "b" => c.buffer = v.parse().ok()?,
            "w" => c.wal = v.parse().ok()?,
            "m" => c.mode = match v { "i" => DurabilityMode::Immediate, "b" => DurabilityMode::Batched, "a" => DurabilityMode::Async, _ => return None },
            _ => return None,
        }
    }
    if c.buffer == 0 { return None; }
    Some(c)
}

pub fn mk_config(dir: &std::path::Path, c: &Cfg) -> Config {
    let mut cfg = Config::default();
    cfg.storage.data_dir = dir.to_path_buf();
    cfg.storage.performance.num_threads = 1;
    cfg.storage.persist.buffer_size = c.buffer;
    cfg.storage.persist.max_wal_size_bytes = c.wal;
    cfg.storage.persist.durability_mode = c.mode;
    cfg
}

pub fn err_kind(msg: &str) -> &'static str {
    if msg.contains("Arity mismatch in insert batch") { "arity-batch" }
    else if msg.contains("Arity mismatch for relation") { "arity-rel" }
    else if msg.contains("Schema mismatch") { "arrow-arity" }
    else if msg.contains("Arrow") || msg.contains("arrow") { "arrow" }
    else if msg.contains("Parquet") || msg.contains("parquet") { "parquet" }
    else if msg.contains("derived relation") { "view" }
    else if msg.contains("not found") { "notfound" }
    else { "other" }
}

pub fn split_hist(req: &str) -> Option<(Vec<&str>, Vec<&str>)> {
    // `<op> <fixed args…> | item ; item`
    let (head, tail) = match req.split_once(" | ") { Some(x) => x, None => (req.strip_suffix(" |").unwrap_or(req), "") };
    let head: Vec<&str> = head.split(' ').collect();
    let items: Vec<&str> = if tail.is_empty() { vec![] } else { tail.split(" ; ").collect() };
    Some((head, items))
}

pub fn rel_names(items: &[&str]) -> Vec<String> {
    let mut s = BTreeSet::new();
    for it in items {
        let p: Vec<&str> = it.split(' ').collect();
        if (p[0] == "ins" || p[0] == "del") && p.len() >= 2 { s.insert(p[1].to_string()); }
    }
    s.into_iter().collect()
}

pub fn state(e: &StorageEngine, rels: &[String]) -> String {
    let snap = match e.get_snapshot_for(KG) { Ok(s) => s, Err(_) => return "err:snapshot".into() };
    let mut out = vec![];
    for r in rels {
        let ar = match e.get_relation_metadata_in(KG, r) { Ok(Some((cols, _))) => cols.len().to_string(), _ => "-".into() };
        let body = match snap.input_tuples.get(r) { Some(v) => rel_to_wire(v), None => "-".into() };
        out.push(format!("{r}:{ar}={body}"));
    }
    if out.is_empty() { "()".into() } else { out.join(" ") }
}

/// the same state as served by the query engine (`q(X0..Xk) <- r(X0..Xk)`), arity from the metadata
pub fn state_by_query(e: &StorageEngine, rels: &[String]) -> String {
    let mut out = vec![];
    for r in rels {
        let ar = match e.get_relation_metadata_in(KG, r) { Ok(Some((cols, _))) => Some(cols.len()), _ => None };
        let body = match ar {
            None => "-".to_string(),
            Some(0) => "arity0".to_string(),
            Some(k) => {
                let vars: Vec<String> = (0..k).map(|i| format!("X{i}")).collect();
                let prog = format!("verif_q({v}) <- {r}({v})", v = vars.join(","));
                match e.execute_query_tuples_on(KG, &prog) { Ok(ts) => rel_to_wire(&ts), Err(_) => "err:query".into() }
            }
        };
        out.push(format!("{r}={body}"));
    }
    if out.is_empty() { "()".into() } else { out.join(" ") }
}

/// on-disk summary of the persist layer: per shard the batch lengths recorded in the shard meta
/// (in meta order), and the number of WAL lines per shard in `current.wal`.
pub fn files(dir: &std::path::Path, rels: &[String]) -> String {
    let mut out = vec![];
    let wal = std::fs::read_to_string(dir.join("persist/wal/current.wal")).unwrap_or_default();
    for r in rels {
        let shard = format!("{KG}:{r}");
        let meta = dir.join("persist/shards").join(format!("{}.json", shard.replace([':', '/'], "_")));
        let b = match std::fs::read_to_string(&meta) {
            Ok(s) => match serde_json::from_str::<serde_json::Value>(&s) {
                Ok(v) => v["batches"].as_array().map(|a| a.iter().map(|b| b["len"].as_u64().unwrap_or(0).to_string()).collect::<Vec<_>>().join(",")).unwrap_or("?".into()),
                Err(_) => "?".into(),
            },
            Err(_) => "-".into(),
        };
        let needle = format!("\"shard\":\"{shard}\"");
        let w = wal.lines().filter(|l| l.contains(&needle)).count();
        out.push(format!("{r}:b[{b}]w{w}"));
    }
    if out.is_empty() { "()".into() } else { out.join(" ") }
}

fn parse_tuples(parts: &[&str]) -> Option<Vec<Tuple>> { parts.iter().map(|s| tuple_of_wire(s)).collect() }

/// run a whole history; `items` as split by `split_hist`
pub fn run_history(cfg: &Cfg, items: &[&str]) -> String {
    let dir = match tempfile::TempDir::new() { Ok(d) => d, Err(_) => return "err:tempdir".into() };
    let rels = rel_names(items);
    let mut eng = match StorageEngine::new(mk_config(dir.path(), cfg)) { Ok(e) => Some(e), Err(_) => return "err:open".into() };
    let mut out: Vec<String> = vec![];
    for it in items {
        let p: Vec<&str> = it.split(' ').collect();
        let e = match eng.as_ref() { Some(e) => e, None => { out.push("dead".into()); continue; } };
        let tok = match p[0] {
            "ins" | "del" if p.len() >= 2 => match parse_tuples(&p[2..]) {
                None => "bad-item".to_string(),
                Some(ts) => if p[0] == "ins" {
                    match e.insert_tuples_into(KG, p[1], ts) { Ok((n, d)) => format!("+{n}/{d}"), Err(x) => format!("err:{}", err_kind(&x.to_string())) }
                } else {
                    match e.delete_tuples_from(KG, p[1], ts) { Ok(n) => format!("-{n}"), Err(x) => format!("err:{}", err_kind(&x.to_string())) }
                },
            },
            "save" => match e.save_all() { Ok(()) => "ok".into(), Err(x) => format!("err:{}", err_kind(&x.to_string())) },
            "savekg" => match e.save_knowledge_graph(KG) { Ok(()) => "ok".into(), Err(x) => format!("err:{}", err_kind(&x.to_string())) },
            "compact" => match e.compact_all() { Ok(()) => "ok".into(), Err(x) => format!("err:{}", err_kind(&x.to_string())) },
            "compactif" if p.len() == 2 => match p[1].parse::<usize>() {
                Ok(n) => match e.compact_if_needed(n) { Ok(k) => format!("ok{k}"), Err(x) => format!("err:{}", err_kind(&x.to_string())) },
                Err(_) => "bad-item".into(),
            },
            "obs" => state(e, &rels),
            "q" => state_by_query(e, &rels),
            "files" => files(dir.path(), &rels),
            "restart" | "shutdown" => {
                let pre = state(e, &rels);
                let sv = if p[0] == "shutdown" { match e.save_all() { Ok(()) => "", Err(_) => "save-err " } } else { "" };
                eng = None; // drop the engine (closes the WAL writer)
                match StorageEngine::new(mk_config(dir.path(), cfg)) {
                    Ok(e2) => { let post = state(&e2, &rels); eng = Some(e2); format!("{sv}pre={pre} post={post}") }
                    Err(x) => format!("{sv}pre={pre} post=err:{}", err_kind(&x.to_string())),
                }
            }
            _ => "bad-item".to_string(),
        };
        out.push(tok);
    }
    if out.is_empty() { "empty".into() } else { out.join(" | ") }
}
