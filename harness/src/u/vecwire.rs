//! Wire helpers shared by C24/C25/C26: f32/f64 bit patterns, vectors, a request-local PRNG.
//! Floats never travel as text: always as hex bit patterns; any NaN result is printed as `nan`
//! (NaN payload/sign propagation is not part of any law checked here).

pub fn f64w(x: f64) -> String { if x.is_nan() { "nan".into() } else { format!("{:016x}", x.to_bits()) } }
pub fn f32w(x: f32) -> String { if x.is_nan() { "nan".into() } else { format!("{:08x}", x.to_bits()) } }

/// `v:<8hex>/<8hex>…` (empty vector = `v:`)
pub fn vec_to_wire(v: &[f32]) -> String { format!("v:{}", v.iter().map(|f| format!("{:08x}", f.to_bits())).collect::<Vec<_>>().join("/")) }
pub fn vec_of_wire(s: &str) -> Option<Vec<f32>> {
    let r = s.strip_prefix("v:")?;
    if r.is_empty() { return Some(vec![]); }
    r.split('/').map(|x| u32::from_str_radix(x, 16).ok().map(f32::from_bits)).collect()
}
/// result vectors: NaN components canonicalised
pub fn vec_res(v: &[f32]) -> String { if v.is_empty() { "-".into() } else { v.iter().map(|f| f32w(*f)).collect::<Vec<_>>().join("/") } }

/// `v8:<int>/<int>…`
pub fn v8_to_wire(v: &[i8]) -> String { format!("v8:{}", v.iter().map(|i| i.to_string()).collect::<Vec<_>>().join("/")) }
pub fn v8_of_wire(s: &str) -> Option<Vec<i8>> {
    let r = s.strip_prefix("v8:")?;
    if r.is_empty() { return Some(vec![]); }
    r.split('/').map(|x| x.parse::<i8>().ok()).collect()
}
pub fn v8_res(v: &[i8]) -> String { if v.is_empty() { "-".into() } else { v.iter().map(|i| i.to_string()).collect::<Vec<_>>().join("/") } }

/// f64 list `d:<16hex>/…`
pub fn f64s_to_wire(v: &[f64]) -> String { format!("d:{}", v.iter().map(|f| format!("{:016x}", f.to_bits())).collect::<Vec<_>>().join("/")) }
pub fn f64s_of_wire(s: &str) -> Option<Vec<f64>> {
    let r = s.strip_prefix("d:")?;
    if r.is_empty() { return Some(vec![]); }
    r.split('/').map(|x| u64::from_str_radix(x, 16).ok().map(f64::from_bits)).collect()
}

pub fn ints(v: &[i64]) -> String { if v.is_empty() { "-".into() } else { v.iter().map(|i| i.to_string()).collect::<Vec<_>>().join(",") } }
