//! Crash-image plumbing shared by C16 / C13: the `fs_point` callback (counts `:post` labels with the
//! chosen prefixes, copies the data directory at the target point), directory copy, torn-file cuts.
use std::path::{Path, PathBuf};
use std::sync::{Arc, Mutex, Once};

pub struct Cb {
    /// label prefixes that count as crash points (others are ignored)
    pub prefixes: Vec<&'static str>,
    pub src: PathBuf,
    pub dst: PathBuf,
    /// copy `src` to `dst` when the `target`-th matching `:post` label is reached (0 = never)
    pub target: usize,
    pub count: usize,
    pub hit_label: Option<String>,
    /// every matching label (without `:post`) since the callback was armed
    pub labels: Vec<String>,
    /// every label (pre and post, all prefixes) since armed — for the bracket audit
    pub all: Vec<String>,
    /// file sizes under `src` at the `:pre` label that directly precedes the target `:post`
    pub pre_sizes: Vec<(PathBuf, u64)>,
    /// when set: at every `persist.meta.rename:post` the most recently modified `*.json` of this directory is
    /// recorded (the shard whose metadata was just renamed into place — the observable order of multi-shard loops)
    pub order_dir: Option<PathBuf>,
    pub order: Vec<String>,
}

impl Cb {
    pub fn new(prefixes: Vec<&'static str>, src: &Path, dst: &Path, target: usize) -> Cb {
        Cb { prefixes, src: src.to_path_buf(), dst: dst.to_path_buf(), target, count: 0, hit_label: None, labels: vec![], all: vec![], pre_sizes: vec![], order_dir: None, order: vec![] }
    }
}

static CB: Mutex<Option<Cb>> = Mutex::new(None);
static INSTALL: Once = Once::new();

/// With `ILV_FS_MARK=1` every label is made visible to `strace` as a `stat` of `/ilv-mark/<label>`
/// (hook-completeness audit, harness/fs_audit.py).
pub fn mark(label: &str) {
    static ON: std::sync::OnceLock<bool> = std::sync::OnceLock::new();
    if *ON.get_or_init(|| std::env::var_os("ILV_FS_MARK").is_some()) { let _ = std::fs::metadata(format!("/ilv-mark/{label}")); }
}

fn on_label(label: &str) {
    mark(label);
    let mut g = match CB.lock() { Ok(g) => g, Err(p) => p.into_inner() };
    let cb = match g.as_mut() { Some(cb) => cb, None => return };
    cb.all.push(label.to_string());
    let (base, post) = match label.strip_suffix(":post") { Some(b) => (b, true), None => (label.strip_suffix(":pre").unwrap_or(label), false) };
    if !cb.prefixes.iter().any(|p| base.starts_with(p)) { return; }
    if !post {
        if cb.target > 0 && cb.count + 1 == cb.target { cb.pre_sizes = sizes(&cb.src); }
        return;
    }
    cb.count += 1;
    cb.labels.push(base.to_string());
    if base == "persist.meta.rename" {
        if let Some(dir) = &cb.order_dir {
            let mut best: Option<(std::time::SystemTime, String)> = None;
            if let Ok(rd) = std::fs::read_dir(dir) {
                for e in rd.flatten() {
                    let p = e.path();
                    if p.extension().and_then(|x| x.to_str()) != Some("json") { continue; }
                    if let (Ok(m), Some(stem)) = (e.metadata().and_then(|m| m.modified()), p.file_stem().and_then(|x| x.to_str())) {
                        if best.as_ref().map_or(true, |(t, _)| m > *t) { best = Some((m, stem.to_string())); }
                    }
                }
            }
            // the shard name is the `name` field of the metadata document (the file name is a lossy encoding of it)
            if let Some((_, stem)) = best {
                let name = std::fs::read_to_string(dir.join(format!("{stem}.json"))).ok()
                    .and_then(|c| serde_json::from_str::<serde_json::Value>(&c).ok())
                    .and_then(|v| v.get("name").and_then(|n| n.as_str()).map(|x| x.to_string()))
                    .unwrap_or(stem);
                cb.order.push(name);
            }
        }
    }
    if cb.count == cb.target {
        mark("harness:pre");
        let _ = std::fs::remove_dir_all(&cb.dst);
        copy_dir(&cb.src, &cb.dst);
        mark("harness:post");
        cb.hit_label = Some(base.to_string());
    }
}

pub fn install() {
    INSTALL.call_once(|| inputlayer::verif_hooks::set_fs_callback(Some(Arc::new(on_label))));
}
pub fn arm(cb: Cb) { install(); *(match CB.lock() { Ok(g) => g, Err(p) => p.into_inner() }) = Some(cb); }
pub fn disarm() -> Option<Cb> { (match CB.lock() { Ok(g) => g, Err(p) => p.into_inner() }).take() }

pub fn copy_dir(src: &Path, dst: &Path) {
    let _ = std::fs::create_dir_all(dst);
    if let Ok(rd) = std::fs::read_dir(src) {
        for e in rd.flatten() {
            let p = e.path();
            let d = dst.join(e.file_name());
            if p.is_dir() { copy_dir(&p, &d); } else { let _ = std::fs::copy(&p, &d); }
        }
    }
}

/// (relative path, size) of every regular file under `root`, sorted.
pub fn sizes(root: &Path) -> Vec<(PathBuf, u64)> {
    fn walk(root: &Path, dir: &Path, out: &mut Vec<(PathBuf, u64)>) {
        if let Ok(rd) = std::fs::read_dir(dir) {
            for e in rd.flatten() {
                let p = e.path();
                if p.is_dir() { walk(root, &p, out); }
                else if let Ok(m) = p.metadata() { out.push((p.strip_prefix(root).unwrap_or(&p).to_path_buf(), m.len())); }
            }
        }
    }
    let mut v = vec![]; walk(root, root, &mut v); v.sort(); v
}

/// sorted listing `rel/path:size` of a directory tree (for debugging and audits)
pub fn listing(root: &Path) -> String {
    sizes(root).iter().map(|(p, n)| format!("{}:{}", p.display(), n)).collect::<Vec<_>>().join(",")
}

pub fn truncate(path: &Path, len: u64) -> bool {
    mark("harness:pre");
    let r = truncate0(path, len);
    mark("harness:post");
    r
}
fn truncate0(path: &Path, len: u64) -> bool {
    match std::fs::OpenOptions::new().write(true).open(path) { Ok(f) => f.set_len(len).is_ok(), Err(_) => false }
}

/// Replace the live directory by the crash image (same absolute path, because shard metadata stores
/// absolute batch paths).
pub fn swap_in(live: &Path, image: &Path) {
    mark("harness:pre");
    let _ = std::fs::remove_dir_all(live);
    let _ = std::fs::rename(image, live);
    mark("harness:post");
}
/// as-is image of the live directory (harness action)
pub fn snapshot(live: &Path, image: &Path) {
    mark("harness:pre");
    let _ = std::fs::remove_dir_all(image);
    copy_dir(live, image);
    mark("harness:post");
}

/// scratch directory for one request (tmpfs when available: fsync-heavy workloads run ~10x faster)
pub fn scratch() -> std::io::Result<tempfile::TempDir> {
    install();
    mark("harness:pre");
    let r = scratch0();
    mark("harness:post");
    r
}
fn scratch0() -> std::io::Result<tempfile::TempDir> {
    if Path::new("/dev/shm").is_dir() { if let Ok(d) = tempfile::tempdir_in("/dev/shm") { return Ok(d); } }
    tempfile::tempdir()
}
