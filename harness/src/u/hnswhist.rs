//! Histories over the real `HnswIndex` (C24/C25): one request = config + a list of operations;
//! the output lists, per operation, what the public API returned plus (for `st`) the state as
//! persisted by `save` and the inner graph's ids (cfg accessor `verif_inner_ids`), and for `s` the
//! raw hnsw_rs answer (cfg accessor `verif_last_raw`) next to the wrapper's result.
//!
//! ops:  i <id> <v:…> | ib <id>=<v:…> … | d <id> | rb [<id>=<v:…> …] | s <k> <ef|-> <v:…> | sl | st
use crate::common::Ctx;
use crate::u::vecwire::*;
use inputlayer::hnsw_index::HnswIndex;
use inputlayer::index_manager::{DistanceMetric, HnswConfig, Index};

pub fn metric_of(s: &str) -> Option<DistanceMetric> {
    Some(match s { "cos" => DistanceMetric::Cosine, "l2" => DistanceMetric::Euclidean, "dot" => DistanceMetric::DotProduct, "l1" => DistanceMetric::Manhattan, _ => return None })
}
pub const METRICS: &[&str] = &["cos", "l2", "dot", "l1"];

fn err_class(e: &str) -> &'static str {
    if e.starts_with("Cannot insert empty vector") { "err:empty" }
    else if e.starts_with("Cannot insert zero-norm") { "err:zeronorm" }
    else if e.starts_with("Dimension mismatch") { "err:dim" }
    else { "err:other" }
}

fn parse_entries(parts: &[&str]) -> Option<Vec<(usize, Vec<f32>)>> {
    parts.iter().map(|p| { let (i, v) = p.split_once('=')?; Some((i.parse::<usize>().ok()?, vec_of_wire(v)?)) }).collect()
}

fn hexvec(v: &[f32]) -> String { if v.is_empty() { "-".into() } else { v.iter().map(|f| format!("{:08x}", f.to_bits())).collect::<Vec<_>>().join("/") } }

fn state(ix: &HnswIndex) -> String {
    let dir = match tempfile::TempDir::new() { Ok(d) => d, Err(_) => return "err:tmp".into() };
    if let Err(_) = ix.save(dir.path()) { return "err:save".into(); }
    let txt = match std::fs::read_to_string(dir.path().join("index.json")) { Ok(t) => t, Err(_) => return "err:read".into() };
    let j: serde_json::Value = match serde_json::from_str(&txt) { Ok(j) => j, Err(_) => return "err:json".into() };
    let vecs: Vec<String> = j["vectors"].as_array().map(|a| a.iter().map(|e| {
        let id = e[0].as_u64().unwrap_or(u64::MAX);
        let v: Vec<f32> = e[1].as_array().map(|x| x.iter().map(|f| f.as_f64().map(|d| d as f32).unwrap_or(f32::NAN)).collect()).unwrap_or_default();
        format!("{}={}", id, hexvec(&v))
    }).collect()).unwrap_or_default();
    let mut tombs: Vec<u64> = j["tombstones"].as_array().map(|a| a.iter().filter_map(|x| x.as_u64()).collect()).unwrap_or_default();
    tombs.sort();
    let inner = match ix.verif_inner_ids() { None => "none".to_string(), Some(ids) => if ids.is_empty() { "-".into() } else { ids.iter().map(|i| i.to_string()).collect::<Vec<_>>().join(",") } };
    format!("len={} tomb={} dim={} ratio={} vec={} tombs={} inner={} pdim={} metric={} cfg={},{},{}",
        ix.len(), ix.tombstone_count(), ix.dimension(), if ix.tombstone_ratio() > 0.3 { 1 } else { 0 },
        if vecs.is_empty() { "-".into() } else { vecs.join("|") },
        if tombs.is_empty() { "-".into() } else { tombs.iter().map(|t| t.to_string()).collect::<Vec<_>>().join(",") },
        inner, j["dimension"].as_u64().unwrap_or(u64::MAX), j["metric"].as_str().unwrap_or("?"),
        j["m"].as_u64().unwrap_or(0), j["ef_construction"].as_u64().unwrap_or(0), j["ef_search"].as_u64().unwrap_or(0))
}

pub fn exec_history(metric: &str, m: usize, efc: usize, efs: usize, items: &str) -> String {
    let metric = match metric_of(metric) { Some(m) => m, None => return "bad-request".into() };
    let mut ix = HnswIndex::new(HnswConfig { m, ef_construction: efc, ef_search: efs, metric });
    let mut out = vec![];
    for it in items.split(" ; ") {
        let a: Vec<&str> = it.split(' ').collect();
        let r = match a[0] {
            "i" if a.len() == 3 => match (a[1].parse::<usize>().ok(), vec_of_wire(a[2])) {
                (Some(id), Some(v)) => match ix.insert(id, &v) { Ok(()) => "ok".into(), Err(e) => err_class(&e).to_string() },
                _ => "bad".into() },
            "ib" => match parse_entries(&a[1..]) { Some(es) => match ix.insert_batch(&es) { Ok(()) => "ok".into(), Err(e) => err_class(&e).to_string() }, None => "bad".into() },
            "rb" => match parse_entries(&a[1..]) { Some(es) => match ix.rebuild(&es) { Ok(()) => "ok".into(), Err(e) => err_class(&e).to_string() }, None => "bad".into() },
            "d" if a.len() == 2 => match a[1].parse::<usize>() { Ok(id) => { ix.delete(id); "-".into() } Err(_) => "bad".into() },
            "s" if a.len() == 4 => {
                let ef = if a[2] == "-" { Some(None) } else { a[2].parse::<usize>().ok().map(Some) };
                match (a[1].parse::<usize>().ok(), ef, vec_of_wire(a[3])) {
                    (Some(k), Some(ef), Some(q)) => {
                        let empty_before = ix.verif_inner_ids().is_none();
                        let res = ix.search(&q, k, ef);
                        let raw = if empty_before { vec![] } else { HnswIndex::verif_last_raw() };
                        format!("raw={} res={}",
                            if raw.is_empty() { "-".into() } else { raw.iter().map(|(i, d)| format!("{}:{}", i, f32w(*d))).collect::<Vec<_>>().join(",") },
                            if res.is_empty() { "-".into() } else { res.iter().map(|(i, d)| format!("{}:{}", i, f64w(*d))).collect::<Vec<_>>().join(",") })
                    }
                    _ => "bad".into() }
            }
            "sl" if a.len() == 1 => {
                match tempfile::TempDir::new() {
                    Err(_) => "err:tmp".into(),
                    Ok(dir) => match ix.save(dir.path()) {
                        Err(_) => "err:save".into(),
                        Ok(()) => match HnswIndex::load(dir.path()) { Ok(l) => { ix = l; "ok".into() } Err(_) => "err:load".into() } } }
            }
            "st" if a.len() == 1 => state(&ix),
            _ => "bad".into(),
        };
        out.push(r);
    }
    out.join(" ; ")
}

// ------------------------------------------------------------------------------------------------
// generation

pub fn gen_vec(ctx: &mut Ctx, dim: usize, kind: usize) -> Vec<f32> {
    (0..dim).map(|_| match kind {
        0 => ctx.range(-3, 3) as f32,                         // small integers: duplicates and ties
        1 => (ctx.range(-1000, 1000) as f32) / 1000.0,
        2 => (ctx.range(-1000, 1000) as f32) * 1.5,
        3 => if ctx.chance(1, 2) { 0.0 } else { ctx.range(-2, 2) as f32 * 1e-12 }, // near-zero norm
        _ => (ctx.next() % 2_000_001) as f32 / 1_000_000.0 - 1.0,
    }).collect()
}

pub struct Gen { pub dim: usize, pub ids: usize, pub kind: usize, pub live: Vec<usize>, pub deleted: Vec<usize>, pub known: Vec<Vec<f32>> }

impl Gen {
    pub fn new(ctx: &mut Ctx) -> Gen {
        let kind = *ctx.pick(&[0usize, 0, 1, 1, 2, 4, 4]);
        Gen { dim: 1 + ctx.below(8), ids: 3 + ctx.below(12), kind, live: vec![], deleted: vec![], known: vec![] }
    }
    pub fn vecw(&mut self, ctx: &mut Ctx) -> String {
        let r = ctx.below(20);
        let v = if r == 0 { gen_vec(ctx, self.dim, 3) }                                   // near-zero norm
            else if r == 1 && !self.known.is_empty() { ctx.pick(&self.known).clone() }    // duplicate of an earlier vector
            else if r == 2 { let d = if ctx.chance(1, 3) { 0 } else { 1 + ctx.below(8) }; gen_vec(ctx, d, self.kind) } // maybe wrong dimension / empty
            else { gen_vec(ctx, self.dim, self.kind) };
        if v.len() == self.dim { self.known.push(v.clone()); }
        vec_to_wire(&v)
    }
    fn note_insert(&mut self, id: usize) { if !self.live.contains(&id) { self.live.push(id); } }
    pub fn insert(&mut self, ctx: &mut Ctx) -> String {
        let id = if !self.deleted.is_empty() && ctx.chance(1, 4) { *ctx.pick(&self.deleted) } else { ctx.below(self.ids) };
        self.note_insert(id);
        format!("i {} {}", id, self.vecw(ctx))
    }
    pub fn batch(&mut self, ctx: &mut Ctx, op: &str, distinct: bool) -> String {
        let big = ctx.chance(1, 4); let n = if op == "rb" && ctx.chance(1, 8) { 0 } else { 1 + ctx.below(if big { 30 } else { 6 }) };
        let mut used = vec![]; let mut s = vec![op.to_string()];
        if op == "rb" { self.live.clear(); self.deleted.clear(); }
        for j in 0..n {
            let id = if distinct { let base = ctx.below(self.ids); let mut id = base; while used.contains(&id) { id += self.ids; } id } else { ctx.below(self.ids.max(n)) };
            let _ = j; used.push(id); self.note_insert(id);
            s.push(format!("{}={}", id, self.vecw(ctx)));
        }
        s.join(" ")
    }
    /// `ib` of ids 0..n with vectors of the right dimension (so that it succeeds unless a norm is ~0)
    pub fn batch_n(&mut self, ctx: &mut Ctx, n: usize) -> String {
        let mut s = vec!["ib".to_string()];
        for id in 0..n { let v = gen_vec(ctx, self.dim, if self.kind == 3 { 0 } else { self.kind }); self.known.push(v.clone()); self.note_insert(id); s.push(format!("{}={}", id, vec_to_wire(&v))); }
        s.join(" ")
    }
    pub fn delete(&mut self, ctx: &mut Ctx) -> String {
        let id = if !self.live.is_empty() && ctx.chance(5, 6) { *ctx.pick(&self.live) } else { ctx.below(self.ids + 3) };
        if !self.deleted.contains(&id) { self.deleted.push(id); }
        format!("d {}", id)
    }
    pub fn search(&mut self, ctx: &mut Ctx) -> String {
        let n = self.live.len();
        let k = match ctx.below(6) { 0 => 0, 1 => 1, 2 => 3, 3 => n, 4 => n + 5, _ => 1 + ctx.below(8) };
        let ef = match ctx.below(5) { 0 => "-".to_string(), 1 => k.to_string(), 2 => "64".into(), 3 => "200".into(), _ => (1 + ctx.below(12)).to_string() };
        let q = if !self.known.is_empty() && ctx.chance(1, 3) { { let i = ctx.below(self.known.len()); vec_to_wire(&self.known[i]) } }
            else if ctx.chance(1, 25) { vec_to_wire(&vec![0.0; self.dim]) } else { vec_to_wire(&gen_vec(ctx, self.dim, self.kind)) };
        format!("s {} {} {}", k, ef, q)
    }
    /// exhaustive search: every point of the graph, so the graph's content is visible through the public API
    pub fn search_all(&mut self, ctx: &mut Ctx) -> String {
        let q = if !self.known.is_empty() && ctx.chance(1, 2) { { let i = ctx.below(self.known.len()); vec_to_wire(&self.known[i]) } } else { vec_to_wire(&gen_vec(ctx, self.dim, self.kind)) };
        format!("s 10000 10000 {}", q)
    }
}

pub fn rand_cfg(ctx: &mut Ctx) -> String {
    format!("{} {} {} {}", ctx.pick(METRICS), ctx.pick(&[4usize, 8, 16]), ctx.pick(&[50usize, 100, 200]), ctx.pick(&[8usize, 32, 50]))
}
