//! Generators of the provenance group (C21, C22, C23).
//! Programs stay inside the fragment where the engine's answers are right (self-recursion only, no
//! mutual recursion, stratified by construction: a clause only negates EDB relations and IDB
//! relations defined before its head); the interesting shapes are *chosen*: negation over a derived
//! relation with a variable that is existential w.r.t. the head, repeated variables, head and body
//! constants, wildcards, self-recursion (left/right linear), two clauses per head, comparisons,
//! chains of dependent heads, facts stored for a relation that also has rules.
use crate::common::*;
use crate::u::prov::*;
use inputlayer::ast::{Atom, BodyPredicate, ComparisonOp, Rule, Term};
use inputlayer::{Tuple, Value};

fn v(x: &str) -> Term { Term::Variable(x.to_string()) }
fn c(n: i64) -> Term { Term::Constant(n) }
fn atom(r: &str, a: Vec<Term>) -> Atom { Atom::new(r.to_string(), a) }
fn pos(r: &str, a: Vec<Term>) -> BodyPredicate { BodyPredicate::Positive(atom(r, a)) }
fn neg(r: &str, a: Vec<Term>) -> BodyPredicate { BodyPredicate::Negated(atom(r, a)) }
fn cmp(l: Term, op: ComparisonOp, r: Term) -> BodyPredicate { BodyPredicate::Comparison(l, op, r) }
fn rule(h: Atom, b: Vec<BodyPredicate>) -> Item { Item::Rule(Rule::new(h, b)) }
fn fact(r: &str, vals: &[i64]) -> Item { Item::Fact(r.to_string(), Tuple::new(vals.iter().map(|n| Value::Int64(*n)).collect())) }

pub struct Prog {
    pub items: Vec<Item>,
    /// (relation, arity) of relations with rules, in definition order
    pub idb: Vec<(String, usize)>,
    pub edb: Vec<(String, usize)>,
    pub shape: &'static str,
    pub dom: Vec<i64>,
    pub recursive: bool,
}

const OPS: [ComparisonOp; 6] = [ComparisonOp::Equal, ComparisonOp::NotEqual, ComparisonOp::LessThan, ComparisonOp::LessOrEqual, ComparisonOp::GreaterThan, ComparisonOp::GreaterOrEqual];

/// EDB: e/2, f/1, g/2 over `dom`. `dag`: edges of e go upwards only (no cycles).
fn gen_edb(ctx: &mut Ctx, dom: &[i64], dag: bool) -> Vec<Item> {
    let mut out = vec![];
    let ne = 2 + ctx.below(5);
    for _ in 0..ne {
        let (mut a, mut b) = (*ctx.pick(dom), *ctx.pick(dom));
        if dag { if a == b { continue; } if a > b { std::mem::swap(&mut a, &mut b); } }
        out.push(fact("e", &[a, b]));
    }
    let nf = 1 + ctx.below(3);
    for _ in 0..nf { out.push(fact("f", &[*ctx.pick(dom)])); }
    if ctx.chance(1, 2) { let ng = 1 + ctx.below(3); for _ in 0..ng { out.push(fact("g", &[*ctx.pick(dom), *ctx.pick(dom)])); } }
    out
}

/// functional graph with a cycle (out-degree ≤ 1): failing recursive sub-goals stay linear.
fn gen_cyclic_edb(ctx: &mut Ctx, dom: &[i64]) -> Vec<Item> {
    let mut out = vec![];
    let n = dom.len();
    let k = 2 + ctx.below(n - 1);
    for i in 0..k { out.push(fact("e", &[dom[i], dom[(i + 1) % k]])); }
    if k < n && ctx.chance(1, 2) { out.push(fact("e", &[dom[k], dom[0]])); }
    out.push(fact("f", &[*ctx.pick(dom)]));
    out
}

struct ClauseGen<'a> { avail: &'a [(String, usize)], self_rel: Option<(String, usize)>, dom: &'a [i64] }

const VARS: [&str; 5] = ["X", "Y", "Z", "W", "U"];

fn gen_clause(ctx: &mut Ctx, g: &ClauseGen, head: &str, arity: usize, max_pos: usize, allow_neg: bool) -> Rule {
    let mut bound: Vec<String> = vec![];
    let mut body: Vec<BodyPredicate> = vec![];
    let npos = 1 + ctx.below(max_pos);
    let mut next_var = 0usize;
    for i in 0..npos {
        let (rel, ar) = if let (Some(s), true) = (&g.self_rel, i == npos - 1 && ctx.chance(2, 3)) { s.clone() } else { ctx.pick(g.avail).clone() };
        let mut args = vec![];
        for _ in 0..ar {
            let k = ctx.below(10);
            if k < 4 && !bound.is_empty() { args.push(v(ctx.pick(&bound[..]).as_str())); }
            else if k < 8 && next_var < VARS.len() { let x = VARS[next_var].to_string(); next_var += 1; bound.push(x.clone()); args.push(v(&x)); }
            else if k == 8 { args.push(c(*ctx.pick(g.dom))); }
            else { args.push(Term::Placeholder); }
        }
        body.push(pos(&rel, args));
    }
    // make sure there are enough bound variables for the head
    while bound.is_empty() || (bound.len() < arity && ctx.chance(2, 3) && next_var < VARS.len()) {
        let x = VARS[next_var].to_string(); next_var += 1; bound.push(x.clone());
        let (rel, ar) = ctx.pick(g.avail).clone();
        let mut args: Vec<Term> = (0..ar).map(|_| Term::Placeholder).collect();
        let p = ctx.below(ar); args[p] = v(&x);
        body.push(pos(&rel, args));
    }
    // negation / comparison, possibly in the middle of the body (all their variables are bound there
    // only if placed at the end; in the middle we restrict them to variables of the first atom)
    if allow_neg && ctx.chance(2, 5) {
        let (rel, ar) = ctx.pick(g.avail).clone();
        let mut args: Vec<Term> = (0..ar).map(|_| match ctx.below(6) { 0 => Term::Placeholder, 1 => c(*ctx.pick(g.dom)), _ => v(ctx.pick(&bound[..]).as_str()) }).collect();
        // the engine rejects a negated atom that shares no variable with the positive atoms
        if !args.iter().any(|t| matches!(t, Term::Variable(_))) { let p = ctx.below(ar); args[p] = v(ctx.pick(&bound[..]).as_str()); }
        body.push(neg(&rel, args));
    }
    if ctx.chance(1, 3) {
        let l = v(ctx.pick(&bound[..]).as_str());
        let r = if ctx.chance(1, 2) { v(ctx.pick(&bound[..]).as_str()) } else { c(*ctx.pick(g.dom)) };
        body.push(cmp(l, ctx.pick(&OPS).clone(), r));
    }
    let hargs: Vec<Term> = (0..arity).map(|i| {
        if ctx.chance(1, 8) { c(*ctx.pick(g.dom)) }
        else if i < bound.len() && ctx.chance(4, 5) { v(&bound[i]) } else { v(ctx.pick(&bound[..]).as_str()) }
    }).collect();
    Rule::new(atom(head, hargs), body)
}

fn random_prog(ctx: &mut Ctx) -> Prog {
    let dom: Vec<i64> = vec![1, 2, 3, 4];
    let recursive = ctx.chance(1, 3);
    let cyclic = recursive && ctx.chance(1, 4);
    let mut items = if cyclic { gen_cyclic_edb(ctx, &dom) } else { gen_edb(ctx, &dom, recursive) };
    let edb: Vec<(String, usize)> = vec![("e".into(), 2), ("f".into(), 1), ("g".into(), 2)];
    let mut avail = edb.clone();
    let mut idb = vec![];
    let n_idb = 1 + ctx.below(3);
    let rec_at = if recursive { ctx.below(n_idb) } else { usize::MAX };
    for k in 0..n_idb {
        let name = format!("r{k}");
        let arity = 1 + ctx.below(2);
        let two = ctx.chance(2, 5) || k == rec_at;
        // the engine's known Union-of-joins defect: keep at most one multi-atom clause per head (mostly)
        let g = ClauseGen { avail: &avail, self_rel: None, dom: &dom };
        let first = gen_clause(ctx, &g, &name, arity, if two { 1 } else { 3 }, true);
        items.push(Item::Rule(first));
        if two {
            let g2 = ClauseGen { avail: &avail, self_rel: if k == rec_at { Some((name.clone(), arity)) } else { None }, dom: &dom };
            let second = gen_clause(ctx, &g2, &name, arity, if cyclic { 2 } else { 3 }, k != rec_at);
            // the catalog drops a clause identical to an existing one
            if !items.iter().any(|it| matches!(it, Item::Rule(r) if rule_to_wire(r) == rule_to_wire(&second))) { items.push(Item::Rule(second)); }
        }
        avail.push((name.clone(), arity));
        idb.push((name, arity));
    }
    // facts stored for a relation that also has rules
    if ctx.chance(1, 10) { let (r, a) = ctx.pick(&idb).clone(); let vals: Vec<i64> = (0..a).map(|_| *ctx.pick(&dom)).collect(); items.insert(0, fact(&r, &vals)); }
    Prog { items, idb, edb, shape: if cyclic { "random-cyclic-rec" } else if recursive { "random-rec" } else { "random" }, dom, recursive }
}

/// hand-chosen shapes, EDB random.
fn directed_prog(ctx: &mut Ctx, which: usize) -> Prog {
    let dom: Vec<i64> = vec![1, 2, 3, 4];
    let mut items = gen_edb(ctx, &dom, true);
    let (x, y, z) = (v("X"), v("Y"), v("Z"));
    let mut idb: Vec<(String, usize)> = vec![];
    let mut recursive = false;
    let shape: &'static str;
    match which {
        0 => { // negation over a derived relation, Y existential w.r.t. the head (DESIGN §7 candidate)
            shape = "neg-derived-existential";
            // first match Y=2 is refuted by the derived dr(2); Y=3 is the real reason
            if ctx.chance(3, 4) { items.insert(0, fact("f", &[2])); items.insert(0, fact("e", &[1, 3])); items.insert(0, fact("e", &[1, 2])); }
            items.push(rule(atom("dr", vec![y.clone()]), vec![pos("f", vec![y.clone()])]));
            items.push(rule(atom("p", vec![x.clone()]), vec![pos("e", vec![x.clone(), y.clone()]), neg("dr", vec![y.clone()])]));
            idb = vec![("dr".into(), 1), ("p".into(), 1)];
        }
        1 => { // negation over a base relation
            shape = "neg-base";
            items.push(rule(atom("p", vec![x.clone()]), vec![pos("e", vec![x.clone(), y.clone()]), neg("f", vec![y.clone()])]));
            idb = vec![("p".into(), 1)];
        }
        2 => { // negation with a wildcard over a derived relation of arity 2
            shape = "neg-derived-wildcard";
            items.push(rule(atom("d2", vec![x.clone(), y.clone()]), vec![pos("e", vec![x.clone(), y.clone()]), cmp(x.clone(), ComparisonOp::LessThan, y.clone())]));
            items.push(rule(atom("p", vec![x.clone()]), vec![pos("f", vec![x.clone()]), neg("d2", vec![x.clone(), Term::Placeholder])]));
            idb = vec![("d2".into(), 2), ("p".into(), 1)];
        }
        3 => { // repeated variables in body and head
            shape = "repeated-vars";
            items.push(fact("e", &[2, 2]));
            if ctx.chance(1, 2) { items.push(fact("e", &[3, 3])); }
            if ctx.chance(1, 2) { items.push(fact("e", &[2, 1])); items.push(fact("e", &[1, 2])); }
            items.push(rule(atom("p", vec![x.clone()]), vec![pos("e", vec![x.clone(), x.clone()])]));
            items.push(rule(atom("q", vec![x.clone(), x.clone()]), vec![pos("f", vec![x.clone()])]));
            items.push(rule(atom("s", vec![x.clone(), y.clone()]), vec![pos("e", vec![x.clone(), y.clone()]), pos("e", vec![y.clone(), x.clone()])]));
            idb = vec![("p".into(), 1), ("q".into(), 2), ("s".into(), 2)];
        }
        4 => { // head and body constants, wildcard
            shape = "constants";
            let k = *ctx.pick(&dom);
            items.push(rule(atom("p", vec![x.clone(), c(5)]), vec![pos("e", vec![x.clone(), Term::Placeholder])]));
            items.push(rule(atom("q", vec![x.clone()]), vec![pos("e", vec![x.clone(), c(k)])]));
            items.push(rule(atom("s", vec![x.clone()]), vec![pos("p", vec![x.clone(), c(5)])]));
            idb = vec![("p".into(), 2), ("q".into(), 1), ("s".into(), 1)];
        }
        5 => { // right-linear transitive closure, base clause first
            shape = "tc-right";
            items.push(rule(atom("path", vec![x.clone(), y.clone()]), vec![pos("e", vec![x.clone(), y.clone()])]));
            items.push(rule(atom("path", vec![x.clone(), y.clone()]), vec![pos("e", vec![x.clone(), z.clone()]), pos("path", vec![z.clone(), y.clone()])]));
            idb = vec![("path".into(), 2)]; recursive = true;
        }
        6 => { // left-linear, recursive clause first
            shape = "tc-left-recfirst";
            items.push(rule(atom("path", vec![x.clone(), y.clone()]), vec![pos("path", vec![x.clone(), z.clone()]), pos("e", vec![z.clone(), y.clone()])]));
            items.push(rule(atom("path", vec![x.clone(), y.clone()]), vec![pos("e", vec![x.clone(), y.clone()])]));
            idb = vec![("path".into(), 2)]; recursive = true;
        }
        7 => { // two clauses per head + a consumer
            shape = "two-clauses";
            items.push(rule(atom("p", vec![x.clone()]), vec![pos("f", vec![x.clone()])]));
            items.push(rule(atom("p", vec![x.clone()]), vec![pos("e", vec![x.clone(), Term::Placeholder])]));
            items.push(rule(atom("q", vec![x.clone(), y.clone()]), vec![pos("p", vec![x.clone()]), pos("e", vec![x.clone(), y.clone()]), cmp(x.clone(), ComparisonOp::NotEqual, y.clone())]));
            idb = vec![("p".into(), 1), ("q".into(), 2)];
        }
        8 => { // chain of three dependent heads with a comparison on the way
            shape = "chain3";
            items.push(rule(atom("a1", vec![x.clone(), y.clone()]), vec![pos("e", vec![x.clone(), y.clone()])]));
            items.push(rule(atom("a2", vec![x.clone(), y.clone()]), vec![pos("a1", vec![x.clone(), z.clone()]), pos("a1", vec![z.clone(), y.clone()])]));
            items.push(rule(atom("a3", vec![x.clone()]), vec![pos("a2", vec![x.clone(), y.clone()]), cmp(y.clone(), ComparisonOp::GreaterOrEqual, c(3))]));
            idb = vec![("a1".into(), 2), ("a2".into(), 2), ("a3".into(), 1)];
        }
        9 => { // reachability from a unary seed (recursion of arity 1) + its complement
            shape = "reach-complement";
            items.push(rule(atom("reach", vec![x.clone()]), vec![pos("f", vec![x.clone()])]));
            items.push(rule(atom("reach", vec![y.clone()]), vec![pos("reach", vec![x.clone()]), pos("e", vec![x.clone(), y.clone()])]));
            items.push(rule(atom("node", vec![x.clone()]), vec![pos("e", vec![x.clone(), Term::Placeholder])]));
            items.push(rule(atom("unreach", vec![x.clone()]), vec![pos("node", vec![x.clone()]), neg("reach", vec![x.clone()])]));
            idb = vec![("reach".into(), 1), ("node".into(), 1), ("unreach".into(), 1)]; recursive = true;
        }
        10 => { // facts stored under a relation that also has a rule
            shape = "mixed-base-and-rules";
            items.push(fact("p", &[*ctx.pick(&dom)]));
            items.push(rule(atom("p", vec![x.clone()]), vec![pos("f", vec![x.clone()])]));
            items.push(rule(atom("q", vec![x.clone()]), vec![pos("p", vec![x.clone()])]));
            idb = vec![("p".into(), 1), ("q".into(), 1)];
        }
        11 => { // the greedy why-not witness shape: g(X) <- e(X,Y), f(Y)
            shape = "join-then-filter";
            if ctx.chance(3, 4) { items.insert(0, fact("f", &[3])); items.insert(0, fact("e", &[1, 3])); items.insert(0, fact("e", &[1, 2])); }
            items.push(rule(atom("g", vec![x.clone()]), vec![pos("e", vec![x.clone(), y.clone()]), pos("f", vec![y.clone()])]));
            idb = vec![("g".into(), 1)];
        }
        12 => { // a derived atom with a repeated variable that has no instance, in the first of two clauses
            shape = "repeated-var-over-derived";
            if ctx.chance(3, 4) { items.insert(0, fact("f", &[1])); items.insert(0, fact("e", &[2, 3])); }
            items.push(rule(atom("d", vec![x.clone(), y.clone()]), vec![pos("e", vec![x.clone(), y.clone()]), cmp(x.clone(), ComparisonOp::LessThan, y.clone())]));
            // the catalog orders clauses by dependencies (Kahn, FIFO): the second clause of `p` goes through
            // `z`, which itself needs `d`, so it becomes ready after the first one — the bogus clause is tried first
            items.push(rule(atom("z", vec![x.clone()]), vec![pos("d", vec![x.clone(), Term::Placeholder])]));
            items.push(rule(atom("p", vec![x.clone()]), vec![pos("f", vec![x.clone()]), pos("d", vec![y.clone(), y.clone()])]));
            items.push(rule(atom("p", vec![x.clone()]), vec![pos("f", vec![x.clone()]), pos("z", vec![y.clone()])]));
            idb = vec![("d".into(), 2), ("z".into(), 1), ("p".into(), 1)];
        }
        13 => { // first clause refuted only by a *derived* negated fact, second clause is the real reason
            shape = "neg-derived-first-clause";
            if ctx.chance(3, 4) { items.insert(0, fact("f", &[2])); }
            items.push(rule(atom("dr", vec![y.clone()]), vec![pos("f", vec![y.clone()])]));
            items.push(rule(atom("dr2", vec![y.clone()]), vec![pos("dr", vec![y.clone()])]));
            items.push(rule(atom("p", vec![x.clone()]), vec![pos("f", vec![x.clone()]), neg("dr", vec![x.clone()])]));
            items.push(rule(atom("p", vec![x.clone()]), vec![pos("dr2", vec![x.clone()])]));
            idb = vec![("dr".into(), 1), ("dr2".into(), 1), ("p".into(), 1)];
        }
        14 => { // GROUND negated atom with an integer literal: rule literals are narrowed to Int32, stored
                // facts are Int64 — the blocking fact flag(2,1) IS stored, p(1) holds through P=3
            shape = "neg-ground-literal";
            let k = 1 + ctx.below(2) as i64;
            if ctx.chance(4, 5) { items.insert(0, fact("flag", &[2, k])); items.insert(0, fact("e", &[1, 3])); items.insert(0, fact("e", &[1, 2])); }
            items.push(fact("flag", &[4, 9]));
            if ctx.chance(1, 2) { items.push(fact("flag", &[*ctx.pick(&dom), k])); }
            items.push(rule(atom("p", vec![x.clone()]), vec![pos("e", vec![x.clone(), v("P")]), neg("flag", vec![v("P"), c(k)])]));
            idb = vec![("p".into(), 1)];
        }
        15 => { // literal in the FIRST position of a negated atom over e/2, bound variable second: !e(2, Y)
            shape = "neg-literal-first";
            if ctx.chance(4, 5) { items.insert(0, fact("f", &[4])); items.insert(0, fact("f", &[3])); items.insert(0, fact("e", &[2, 3])); }
            items.push(rule(atom("q", vec![y.clone()]), vec![pos("f", vec![y.clone()]), neg("e", vec![c(2), y.clone()])]));
            items.push(rule(atom("s", vec![x.clone()]), vec![pos("g", vec![x.clone(), y.clone()]), neg("e", vec![c(2), y.clone()]), neg("f", vec![x.clone()])]));
            idb = vec![("q".into(), 1), ("s".into(), 1)];
        }
        16 => { // ground negation with literals in a second clause / behind a join, answer through another binding
            shape = "neg-ground-literal-join";
            if ctx.chance(4, 5) { items.insert(0, fact("flag", &[3, 1])); items.insert(0, fact("g", &[2, 4])); items.insert(0, fact("g", &[2, 3])); items.insert(0, fact("e", &[1, 2])); }
            items.push(rule(atom("p", vec![x.clone()]), vec![pos("e", vec![x.clone(), y.clone()]), pos("g", vec![y.clone(), z.clone()]), neg("flag", vec![z.clone(), c(1)]), cmp(x.clone(), ComparisonOp::LessThan, z.clone())]));
            items.push(fact("flag", &[4, 9]));
            items.push(rule(atom("p", vec![x.clone()]), vec![pos("f", vec![x.clone()]), neg("e", vec![x.clone(), c(4)])]));
            idb = vec![("p".into(), 1)];
        }
        _ => { // two-level positive: q(X) <- p(X); p from a join
            shape = "two-level";
            items.push(rule(atom("p", vec![x.clone()]), vec![pos("e", vec![x.clone(), y.clone()]), pos("f", vec![y.clone()])]));
            items.push(rule(atom("q", vec![x.clone()]), vec![pos("p", vec![x.clone()]), neg("f", vec![x.clone()])]));
            idb = vec![("p".into(), 1), ("q".into(), 1)];
        }
    }
    Prog { items, idb, edb: vec![("e".into(), 2), ("f".into(), 1), ("g".into(), 2)], shape, dom, recursive }
}
pub const N_DIRECTED: usize = 18;
/// the shapes with ground negated atoms carrying integer literals (chosen more often)
pub const NEG_LITERAL_SHAPES: [usize; 3] = [14, 15, 16];

pub fn gen_prog(ctx: &mut Ctx, i: usize) -> Prog {
    let p = if i % 5 == 0 { directed_prog(ctx, (i / 5) % N_DIRECTED) }
        else if i % 5 == 1 { if (i / 5) % 2 == 0 { directed_prog(ctx, NEG_LITERAL_SHAPES[(i / 10) % 3]) } else { directed_prog(ctx, (i / 10 * 7 + 3) % N_DIRECTED) } }
        else { random_prog(ctx) };
    ctx.count(&format!("shape_{}", p.shape));
    if p.items.iter().any(|it| matches!(it, Item::Rule(r) if r.body.iter().any(|l| matches!(l, BodyPredicate::Negated(a) if a.args.iter().any(|t| matches!(t, Term::Constant(_))))))) {
        ctx.count("programs_with_literal_in_negated_atom");
    }
    p
}

pub fn items_wire(p: &Prog) -> String { p.items.iter().map(item_to_wire).collect::<Vec<_>>().join(" ; ") }

fn query_atom(ctx: &mut Ctx, rel: &str, arity: usize, dom: &[i64]) -> Atom {
    let names = ["X", "Y", "Z"];
    let mut args: Vec<Term> = (0..arity).map(|i| v(names[i])).collect();
    match ctx.below(10) {
        0 | 1 => { let p = ctx.below(arity); args[p] = c(*ctx.pick(dom)); ctx.count("query_with_constant"); }
        2 => { let p = ctx.below(arity); args[p] = Term::Placeholder; ctx.count("query_with_wildcard"); }
        3 if arity == 2 => { args[1] = v("X"); ctx.count("query_repeated_var"); }
        _ => {}
    }
    atom(rel, args)
}

/// `.why` for every answer of a query over every derived relation (plus one stored relation now and
/// then), and direct `build_proof_tree` calls with small depth limits.
pub fn gen_why(ctx: &mut Ctx, p: &str) -> Vec<String> {
    let n = ctx.budget(420, 3000);
    let mut out = gen_why_n(ctx, p, n);
    out.extend(wide_fanout_requests(ctx, p));
    out
}

pub fn gen_why_n(ctx: &mut Ctx, p: &str, n: usize) -> Vec<String> {
    let mut out = vec![];
    for i in 0..n {
        let prog = gen_prog(ctx, i);
        let items = items_wire(&prog);
        for (rel, ar) in &prog.idb {
            let q = query_atom(ctx, rel, *ar, &prog.dom);
            out.push(format!("{p}.why {} | {}", atom_to_wire(&q), items));
            ctx.count("why_requests");
        }
        if ctx.chance(1, 10) {
            let (rel, ar) = ctx.pick(&prog.edb).clone();
            let q = query_atom(ctx, &rel, ar, &prog.dom);
            out.push(format!("{p}.why {} | {}", atom_to_wire(&q), items));
            ctx.count("why_on_stored_relation");
        }
        if prog.recursive || ctx.chance(1, 4) {
            let (rel, ar) = prog.idb.last().unwrap().clone();
            for _ in 0..2 {
                let t: Vec<Value> = (0..ar).map(|_| Value::Int64(*ctx.pick(&prog.dom))).collect();
                let d = ctx.below(5);
                out.push(format!("{p}.bpt {} {} {} | {}", d, rel, tuple_to_wire(&Tuple::new(t)), items));
                ctx.count(&format!("bpt_depth_{d}"));
            }
        }
    }
    out
}

/// Wide fan-out shapes (few per run): the first body atom matches 70–200 stored tuples under the head
/// bindings and exactly ONE candidate — first, middle or last in storage order — survives the later
/// atoms. `two(X,Z) <- hop(X,Y), good(Y,Z)` and `three(X,W) <- hop(X,Y), mid(Y,Z), good(Z,W)`; the single
/// answer must get a complete depth-2 proof (a cap on the number of partial proofs per body atom would
/// drop the late candidate and leave an unexplained `Fact{Derived}` root).
pub fn wide_fanout_requests(ctx: &mut Ctx, p: &str) -> Vec<String> {
    let mut out = vec![];
    let (x, y, z, w) = (v("X"), v("Y"), v("Z"), v("W"));
    let shapes: Vec<(usize, usize, bool)> = if ctx.thorough {
        vec![(70, 70, false), (130, 1, false), (130, 65, false), (130, 130, false), (200, 200, false), (200, 66, false), (130, 1, true), (130, 70, true), (130, 130, true), (200, 199, true)]
    } else {
        vec![(70, 70, false), (130, 1, false), (130, 65, false), (130, 130, false), (200, 200, false), (130, 1, true), (130, 70, true), (130, 130, true)]
    };
    for (n, k, three) in shapes {
        let mut items: Vec<Item> = vec![];
        for i in 1..=n as i64 { items.push(fact("hop", &[1, 100 + i])); }
        // a second source node so that the head binding matters
        items.push(fact("hop", &[2, 100 + k as i64]));
        if three {
            for i in 1..=n as i64 { items.push(fact("mid", &[100 + i, 500 + i])); }
            items.push(fact("good", &[500 + k as i64, 7]));
            items.push(fact("good", &[999, 8]));
            items.push(rule(atom("three", vec![x.clone(), w.clone()]), vec![pos("hop", vec![x.clone(), y.clone()]), pos("mid", vec![y.clone(), z.clone()]), pos("good", vec![z.clone(), w.clone()])]));
            let iw = items.iter().map(item_to_wire).collect::<Vec<_>>().join(" ; ");
            out.push(format!("{p}.why three(V.X,V.W) | {}", iw));
        } else {
            items.push(fact("good", &[100 + k as i64, 7]));
            items.push(fact("good", &[999, 8]));
            items.push(rule(atom("two", vec![x.clone(), z.clone()]), vec![pos("hop", vec![x.clone(), y.clone()]), pos("good", vec![y.clone(), z.clone()])]));
            let iw = items.iter().map(item_to_wire).collect::<Vec<_>>().join(" ; ");
            out.push(format!("{p}.why two(V.X,V.Z) | {}", iw));
        }
        ctx.count("wide_fanout");
    }
    out
}

/// C22: the C21 requests plus, for every derived relation of recursive / chained programs, direct
/// `build_proof_tree` calls for EVERY tuple of the domain at depth limits 1..6 (the Lean side keeps
/// the tuples that are true and whose reference depth is within the limit), and long-chain programs
/// whose derivations reach the handler's limit of 50.
pub fn gen_complete(ctx: &mut Ctx, p: &str) -> Vec<String> {
    let mut out = gen_why_n(ctx, p, ctx.budget(220, 1500));
    out.extend(wide_fanout_requests(ctx, p));
    let n = ctx.budget(60, 300);
    for i in 0..n {
        let prog = gen_prog(ctx, i * 5 + (i % 2)); // directed shapes twice as often
        let items = items_wire(&prog);
        for (rel, ar) in &prog.idb {
            let mut tuples: Vec<Vec<i64>> = vec![vec![]];
            for _ in 0..*ar { tuples = tuples.into_iter().flat_map(|t| prog.dom.iter().map(move |d| { let mut t2 = t.clone(); t2.push(*d); t2 })).collect(); }
            for t in tuples {
                let d = 1 + ctx.below(6);
                let tw = Tuple::new(t.iter().map(|n| Value::Int64(*n)).collect());
                out.push(format!("{p}.bpt {} {} {} | {}", d, rel, tuple_to_wire(&tw), items));
                ctx.count("bpt_all_tuples");
            }
        }
    }
    // long chains e(1,2), …, e(k,k+1) with right- / left-linear closure: the proof of path(1,k+1) has
    // depth k+1, explained by a direct build_proof_tree call at the handler's limit 50 (derived data
    // from the all-variable query). A query that binds an argument of the recursive relation is NOT
    // generated here: magic sets then replace `path` by `path_bf` in the derived data and the chainer
    // re-derives by enumeration in time exponential in k (measured: k=5 11 s, k=6 > 60 s timeout).
    let lens: Vec<usize> = if ctx.thorough { vec![5, 20, 40, 47, 48, 49, 50, 51, 55] } else { vec![5, 49, 50] };
    for k in lens {
        for left in [false, true] {
            let (x, y, z) = (v("X"), v("Y"), v("Z"));
            let mut items: Vec<Item> = (1..=k as i64).map(|i| fact("e", &[i, i + 1])).collect();
            if left {
                items.push(rule(atom("path", vec![x.clone(), y.clone()]), vec![pos("path", vec![x.clone(), z.clone()]), pos("e", vec![z.clone(), y.clone()])]));
                items.push(rule(atom("path", vec![x.clone(), y.clone()]), vec![pos("e", vec![x.clone(), y.clone()])]));
            } else {
                items.push(rule(atom("path", vec![x.clone(), y.clone()]), vec![pos("e", vec![x.clone(), y.clone()])]));
                items.push(rule(atom("path", vec![x.clone(), y.clone()]), vec![pos("e", vec![x.clone(), z.clone()]), pos("path", vec![z.clone(), y.clone()])]));
            }
            let iw = items.iter().map(item_to_wire).collect::<Vec<_>>().join(" ; ");
            for target in [k as i64 + 1, (k as i64 + 1) / 2 + 1] {
                out.push(format!("{p}.bpt 50 path i64:1,i64:{} | {}", target, iw));
                ctx.count("long_chain");
            }
        }
    }
    out
}

/// `.why_not` for every candidate tuple over the domain (plus one outside value) of every derived relation.
pub fn gen_whynot(ctx: &mut Ctx, p: &str) -> Vec<String> {
    let n = ctx.budget(150, 350);
    let mut out = vec![];
    for i in 0..n {
        let prog = gen_prog(ctx, i);
        let items = items_wire(&prog);
        let mut dom = prog.dom.clone(); dom.push(5);
        for (rel, ar) in &prog.idb {
            let mut tuples: Vec<Vec<i64>> = vec![vec![]];
            for _ in 0..*ar { tuples = tuples.into_iter().flat_map(|t| dom.iter().map(move |d| { let mut t2 = t.clone(); t2.push(*d); t2 })).collect(); }
            for t in tuples {
                let tw = Tuple::new(t.iter().map(|n| Value::Int32(*n as i32)).collect());
                out.push(format!("{p}.whynot {} {} | {}", rel, tuple_to_wire(&tw), items));
                ctx.count("whynot_requests");
            }
        }
        if ctx.chance(1, 10) { out.push(format!("{p}.whynot e i32:1,i32:2 | {}", items)); ctx.count("whynot_on_stored_relation"); }
    }
    out
}
