//! Generators of IR trees and small databases for C05/C02/C06 (all randomness from `Ctx`).
use crate::common::*;
use inputlayer::ast::{ArithExpr, ArithOp as AstOp, ComparisonOp};
use inputlayer::ir::{AggregateFunction, ArithOp, IRExpression, IRNode, Predicate};
use inputlayer::{Tuple, Value};
use std::collections::HashMap;

pub const RELS: [(&str, usize); 4] = [("r1", 2), ("r2", 2), ("r3", 3), ("r4", 1)];

pub fn scan(rel: &str, schema: &[&str]) -> IRNode { IRNode::Scan { relation: rel.into(), schema: schema.iter().map(|s| s.to_string()).collect() } }
pub fn bx(n: IRNode) -> Box<IRNode> { Box::new(n) }
pub fn width(n: &IRNode) -> usize { n.output_schema().len() }

// ------------------------------------------------------------------ databases
pub fn small_val(ctx: &mut Ctx, mixed: bool) -> Value {
    if !mixed || ctx.chance(3, 5) { return Value::Int64(ctx.range(0, 4)); }
    match ctx.below(9) {
        0 => Value::Int32(ctx.range(0, 3) as i32),
        1 => Value::Float64(ctx.range(0, 6) as f64 / 2.0),
        2 => Value::Float64(*ctx.pick(&[-0.0, 0.0, 1.0, 2.0, 0.1, 1e-11, f64::NAN, 3.0, -1.5])),
        3 => Value::string(*ctx.pick(&["a", "b", "", "ab"])),
        4 => Value::Bool(ctx.chance(1, 2)),
        5 => Value::Null,
        6 => Value::Timestamp(ctx.range(0, 3)),
        7 => Value::Int64(*ctx.pick(&[-1, -3, 7, 1000])),
        _ => Value::Int64(ctx.range(0, 4)),
    }
}
pub fn gen_db(ctx: &mut Ctx, mixed: bool, dup: bool, max_rows: usize) -> Vec<(String, Vec<Tuple>)> {
    let mut db = vec![];
    for (r, ar) in RELS.iter() {
        let n = ctx.below(max_rows + 1);
        let mut rows: Vec<Tuple> = vec![];
        for _ in 0..n {
            if dup && !rows.is_empty() && ctx.chance(1, 5) { let t = ctx.pick(&rows).clone(); rows.push(t); continue; }
            rows.push(Tuple::new((0..*ar).map(|_| small_val(ctx, mixed)).collect()));
        }
        if !dup { let mut seen = std::collections::HashSet::new(); rows.retain(|t| seen.insert(t.clone())); }
        if !rows.is_empty() { db.push((r.to_string(), rows)); }
    }
    db
}

// ------------------------------------------------------------------ predicates / expressions
pub fn cmp_op(ctx: &mut Ctx) -> ComparisonOp {
    match ctx.below(6) { 0 => ComparisonOp::Equal, 1 => ComparisonOp::NotEqual, 2 => ComparisonOp::LessThan, 3 => ComparisonOp::LessOrEqual, 4 => ComparisonOp::GreaterThan, _ => ComparisonOp::GreaterOrEqual }
}
pub fn gen_arith(ctx: &mut Ctx, vars: &[String], depth: usize) -> ArithExpr {
    if depth == 0 || ctx.chance(2, 5) {
        if !vars.is_empty() && ctx.chance(2, 3) { return ArithExpr::Variable(ctx.pick(vars).clone()); }
        if ctx.chance(1, 12) { return ArithExpr::FloatConstant((*ctx.pick(&[2.5f64, -1.5, 1e3, f64::NAN])).to_bits()); }
        return ArithExpr::Constant(ctx.range(-2, 4));
    }
    let op = match ctx.below(5) { 0 => AstOp::Add, 1 => AstOp::Sub, 2 => AstOp::Mul, 3 => AstOp::Div, _ => AstOp::Mod };
    ArithExpr::Binary { op, left: Box::new(gen_arith(ctx, vars, depth - 1)), right: Box::new(gen_arith(ctx, vars, depth - 1)) }
}
/// a predicate over columns `cols` (indices a row is known to have); `simple` keeps to int comparisons.
pub fn gen_pred_over(ctx: &mut Ctx, cols: &[usize], depth: usize, simple: bool) -> Predicate {
    if cols.is_empty() { return if ctx.chance(1, 2) { Predicate::True } else { Predicate::False }; }
    let c = *ctx.pick(cols);
    let k = if simple { ctx.below(8) } else { ctx.below(20) };
    match k {
        0..=4 => { let v = ctx.range(0, 4); match ctx.below(6) {
            0 => Predicate::ColumnEqConst(c, v), 1 => Predicate::ColumnNeConst(c, v), 2 => Predicate::ColumnGtConst(c, v),
            3 => Predicate::ColumnLtConst(c, v), 4 => Predicate::ColumnGeConst(c, v), _ => Predicate::ColumnLeConst(c, v) } }
        5..=7 => { let d = *ctx.pick(cols); match ctx.below(6) {
            0 => Predicate::ColumnsEq(c, d), 1 => Predicate::ColumnsNe(c, d), 2 => Predicate::ColumnsLt(c, d),
            3 => Predicate::ColumnsGt(c, d), 4 => Predicate::ColumnsLe(c, d), _ => Predicate::ColumnsGe(c, d) } }
        8 => { let s = ctx.pick(&["a", "b", "", "ab"]).to_string(); match ctx.below(6) {
            0 => Predicate::ColumnEqStr(c, s), 1 => Predicate::ColumnNeStr(c, s), 2 => Predicate::ColumnLtStr(c, s),
            3 => Predicate::ColumnGtStr(c, s), 4 => Predicate::ColumnLeStr(c, s), _ => Predicate::ColumnGeStr(c, s) } }
        9 => if ctx.chance(1, 2) { Predicate::ColumnEqBool(c, ctx.chance(1, 2)) } else { Predicate::ColumnNeBool(c, ctx.chance(1, 2)) },
        10 | 11 => { let f = *ctx.pick(&[0.0f64, 1.0, 2.0, 0.5, 1.5, -0.0, 0.1, 2.0000000000001, f64::NAN]); match ctx.below(6) {
            0 => Predicate::ColumnEqFloat(c, f), 1 => Predicate::ColumnNeFloat(c, f), 2 => Predicate::ColumnGtFloat(c, f),
            3 => Predicate::ColumnLtFloat(c, f), 4 => Predicate::ColumnGeFloat(c, f), _ => Predicate::ColumnLeFloat(c, f) } }
        12 | 13 => {
            let mut vm = HashMap::new(); let mut vars = vec![];
            for (i, cc) in cols.iter().enumerate() { if ctx.chance(1, 2) { vm.insert(format!("V{i}"), *cc); vars.push(format!("V{i}")); } }
            if ctx.chance(1, 8) { vars.push("Unbound".into()); }
            let e = gen_arith(ctx, &vars, 2);
            if ctx.chance(1, 2) { Predicate::ColumnCompareArith(c, cmp_op(ctx), e, vm) } else { Predicate::ArithCompareConst(e, cmp_op(ctx), ctx.range(-1, 5), vm) }
        }
        14 | 15 if depth > 0 => Predicate::And(Box::new(gen_pred_over(ctx, cols, depth - 1, simple)), Box::new(gen_pred_over(ctx, cols, depth - 1, simple))),
        16 if depth > 0 => Predicate::Or(Box::new(gen_pred_over(ctx, cols, depth - 1, simple)), Box::new(gen_pred_over(ctx, cols, depth - 1, simple))),
        17 => Predicate::True,
        18 => Predicate::False,
        _ => Predicate::ColumnGtConst(c, ctx.range(0, 3)),
    }
}
pub fn gen_pred(ctx: &mut Ctx, w: usize, depth: usize, simple: bool) -> Predicate {
    let cols: Vec<usize> = (0..w).collect(); gen_pred_over(ctx, &cols, depth, simple)
}
pub fn gen_expr(ctx: &mut Ctx, w: usize, depth: usize) -> IRExpression {
    if depth == 0 || ctx.chance(1, 3) {
        return match ctx.below(8) {
            0..=3 if w > 0 => IRExpression::Column(ctx.below(w)),
            4 => IRExpression::FloatConstant(*ctx.pick(&[0.5, 2.0, -1.0, 0.0, 3.0])),
            5 => IRExpression::StringConstant(ctx.pick(&["a", "b"]).to_string()),
            6 => IRExpression::BoolConstant(ctx.chance(1, 2)),
            _ => IRExpression::IntConstant(ctx.range(-2, 5)),
        };
    }
    let op = match ctx.below(5) { 0 => ArithOp::Add, 1 => ArithOp::Sub, 2 => ArithOp::Mul, 3 => ArithOp::Div, _ => ArithOp::Mod };
    IRExpression::Arithmetic { op, left: Box::new(gen_expr(ctx, w, depth - 1)), right: Box::new(gen_expr(ctx, w, depth - 1)) }
}
pub fn gen_agg(ctx: &mut Ctx) -> AggregateFunction {
    match ctx.below(6) { 0 => AggregateFunction::Count, 1 => AggregateFunction::CountDistinct, 2 => AggregateFunction::Sum, 3 => AggregateFunction::Min, 4 => AggregateFunction::Max, _ => AggregateFunction::Avg }
}
fn distinct_idx(ctx: &mut Ctx, w: usize, n: usize) -> Vec<usize> {
    let mut v: Vec<usize> = (0..w).collect();
    for i in (1..v.len()).rev() { let j = ctx.below(i + 1); v.swap(i, j); }
    v.truncate(n); v
}
fn cnames(prefix: &str, n: usize) -> Vec<String> { (0..n).map(|i| format!("{prefix}{i}")).collect() }

// ------------------------------------------------------------------ random well-formed trees
pub struct TreeGen { pub counter: usize, pub simple_preds: bool }
impl TreeGen {
    fn fresh(&mut self, n: usize) -> Vec<String> { self.counter += 1; cnames(&format!("c{}_", self.counter), n) }
    /// a well-formed tree of at most `budget` operators; widths and indices are always consistent.
    pub fn tree(&mut self, ctx: &mut Ctx, budget: usize) -> IRNode {
        if budget == 0 || ctx.chance(1, 8) {
            let (r, ar) = *ctx.pick(&RELS); let s = self.fresh(ar);
            return IRNode::Scan { relation: r.into(), schema: s };
        }
        let b = budget - 1;
        match ctx.below(20) {
            0..=2 => { let i = self.tree(ctx, b); let w = width(&i);
                let proj: Vec<usize> = if w == 0 { vec![] } else if ctx.chance(1, 4) { (0..w).collect() } else { (0..1 + ctx.below(3)).map(|_| ctx.below(w)).collect() };
                let s = self.fresh(proj.len()); IRNode::Map { input: bx(i), projection: proj, output_schema: s } }
            3..=6 => { let i = self.tree(ctx, b); let w = width(&i); IRNode::Filter { input: bx(i), predicate: gen_pred(ctx, w, 2, self.simple_preds) } }
            7..=10 => { let (l, r, lk, rk) = self.join_parts(ctx, b);
                let mut s = l.output_schema(); for (i, n) in r.output_schema().iter().enumerate() { if !rk.contains(&i) { s.push(n.clone()); } }
                IRNode::Join { left: bx(l), right: bx(r), left_keys: lk, right_keys: rk, output_schema: s } }
            11 => IRNode::Distinct { input: bx(self.tree(ctx, b)) },
            12 | 13 => { let n = ctx.below(4); let mut kids: Vec<IRNode> = (0..n).map(|_| self.tree(ctx, b / n.max(1))).collect();
                let w0 = kids.iter().map(width).min().unwrap_or(0);
                for k in kids.iter_mut() { if width(k) != w0 { let s = self.fresh(w0); *k = IRNode::Map { input: bx(k.clone()), projection: (0..w0).collect(), output_schema: s }; } }
                IRNode::Union { inputs: kids } }
            14 => { let i = self.tree(ctx, b); let w = width(&i); let ng = ctx.below(w.min(2) + 1); let gb = distinct_idx(ctx, w, ng);
                let na = 1 + ctx.below(2); let aggs: Vec<(AggregateFunction, usize)> = (0..na).map(|_| (gen_agg(ctx), if w == 0 { 0 } else { ctx.below(w) })).collect();
                let s = self.fresh(gb.len() + aggs.len()); IRNode::Aggregate { input: bx(i), group_by: gb, aggregations: aggs, output_schema: s } }
            15 => { let (l, r, lk, rk) = self.join_parts(ctx, b); let s = l.output_schema();
                IRNode::Antijoin { left: bx(l), right: bx(r), left_keys: lk, right_keys: rk, output_schema: s } }
            16 => { let i = self.tree(ctx, b); let w = width(&i); let n = 1 + ctx.below(2);
                let es: Vec<(String, IRExpression)> = (0..n).map(|k| (format!("e{}_{}", self.counter, k), gen_expr(ctx, w + k, 2))).collect();
                IRNode::Compute { input: bx(i), expressions: es } }
            17 => { let i = self.tree(ctx, b); let w = width(&i);
                let proj: Vec<usize> = if w == 0 { vec![] } else { (0..1 + ctx.below(3)).map(|_| ctx.below(w)).collect() };
                let fp = if ctx.chance(2, 3) { Some(gen_pred(ctx, proj.len(), 1, self.simple_preds)) } else { None };
                let s = self.fresh(proj.len()); IRNode::FlatMap { input: bx(i), projection: proj, filter_predicate: fp, output_schema: s } }
            18 => { let (l, r, lk, rk) = self.join_parts(ctx, b); let w = width(&l) + width(&r);
                if lk.is_empty() { return IRNode::Distinct { input: bx(l) }; }
                let proj: Vec<usize> = (0..1 + ctx.below(3)).map(|_| ctx.below(w)).collect();
                let fp = if ctx.chance(1, 2) { Some(gen_pred(ctx, proj.len(), 1, self.simple_preds)) } else { None };
                let s = self.fresh(proj.len());
                IRNode::JoinFlatMap { left: bx(l), right: bx(r), left_keys: lk, right_keys: rk, projection: proj, filter_predicate: fp, output_schema: s } }
            _ => { let i = self.tree(ctx, b); let w = width(&i); IRNode::Filter { input: bx(i), predicate: gen_pred(ctx, w, 1, true) } }
        }
    }
    fn join_parts(&mut self, ctx: &mut Ctx, b: usize) -> (IRNode, IRNode, Vec<usize>, Vec<usize>) {
        let l = self.tree(ctx, b / 2); let r = self.tree(ctx, b - b / 2);
        let (wl, wr) = (width(&l), width(&r));
        let nk = ctx.below(wl.min(wr).min(2) + 1);
        (l.clone(), r.clone(), distinct_idx(ctx, wl, nk), distinct_idx(ctx, wr, nk))
    }
}

// ------------------------------------------------------------------ rule-shaped trees (what IRBuilder::build_ir produces)
pub struct RuleShape { pub natoms: usize, pub nfilters: usize, pub antijoin: bool, pub aggregate: bool, pub wild: bool, pub consts: bool }

fn join_by_names(l: IRNode, r: IRNode) -> IRNode {
    // `build_join` (ir_builder/mod.rs:333): keys = shared names (here in left-schema order), output = left ++ right non-keys
    let (ls, rs) = (l.output_schema(), r.output_schema());
    let (mut lk, mut rk) = (vec![], vec![]);
    for (i, v) in ls.iter().enumerate() {
        if ls[..i].contains(v) { continue; }
        if let Some(j) = rs.iter().position(|x| x == v) { lk.push(i); rk.push(j); }
    }
    let mut s = ls.clone(); for (j, v) in rs.iter().enumerate() { if !rk.contains(&j) { s.push(v.clone()); } }
    IRNode::Join { left: bx(l), right: bx(r), left_keys: lk, right_keys: rk, output_schema: s }
}

/// one clause `h(...) <- atoms, comparisons[, !neg]` in the builder's shape; returns the tree and its head width.
pub fn rule_tree(ctx: &mut Ctx, sh: &RuleShape, head_width: Option<usize>, atom_base: usize) -> IRNode {
    let pool = ["X", "Y", "Z", "W"];
    let mut used: Vec<String> = vec![];
    let mut cur: Option<IRNode> = None;
    for a in 0..sh.natoms {
        let (r, ar) = *ctx.pick(&RELS);
        let mut schema = vec![]; let mut filters = vec![];
        for i in 0..ar {
            let k = ctx.below(10);
            if sh.consts && k == 0 { schema.push(format!("_const_a{}_c{}", atom_base + a, i)); filters.push(Predicate::ColumnEqConst(i, ctx.range(0, 3))); }
            else if sh.wild && k == 1 { schema.push(format!("_ph_{r}_{i}")); }
            else {
                let v = if !used.is_empty() && ctx.chance(1, 2) { ctx.pick(&used).clone() } else { ctx.pick(&pool).to_string() };
                if let Some(first) = schema.iter().position(|x| *x == v) { filters.push(Predicate::ColumnsEq(first, i)); }
                schema.push(v);
            }
        }
        for v in &schema { if !v.starts_with('_') && !used.contains(v) { used.push(v.clone()); } }
        let mut s = IRNode::Scan { relation: r.into(), schema };
        for f in filters { s = IRNode::Filter { input: bx(s), predicate: f }; }
        cur = Some(match cur { None => s, Some(c) => join_by_names(c, s) });
    }
    let mut cur = cur.unwrap();
    for _ in 0..sh.nfilters {
        let schema = cur.output_schema();
        let cols: Vec<usize> = (0..schema.len()).filter(|i| !schema[*i].starts_with('_')).collect();
        if cols.is_empty() { break; }
        // bias towards the *last* columns (right-hand side of the last join)
        let pick = |ctx: &mut Ctx| if ctx.chance(1, 2) { *cols.last().unwrap() } else { *ctx.pick(&cols) };
        let c = pick(ctx);
        let p = match ctx.below(6) {
            0 => Predicate::ColumnGtConst(c, ctx.range(0, 3)), 1 => Predicate::ColumnLeConst(c, ctx.range(0, 3)), 2 => Predicate::ColumnNeConst(c, ctx.range(0, 3)),
            3 => { let d = pick(ctx); Predicate::ColumnsLt(c, d) } 4 => { let d = *ctx.pick(&cols); Predicate::ColumnsNe(c, d) }
            _ => { let mut vm = HashMap::new(); vm.insert(schema[c].clone(), c);
                   Predicate::ArithCompareConst(ArithExpr::Binary { op: AstOp::Add, left: Box::new(ArithExpr::Variable(schema[c].clone())), right: Box::new(ArithExpr::Constant(1)) }, cmp_op(ctx), ctx.range(1, 4), vm) }
        };
        cur = IRNode::Filter { input: bx(cur), predicate: p };
    }
    if sh.antijoin {
        let (r, ar) = *ctx.pick(&RELS);
        let schema: Vec<String> = (0..ar).map(|i| if ctx.chance(2, 3) && !used.is_empty() { ctx.pick(&used).clone() } else { format!("_ph_{r}_{i}") }).collect();
        let ls = cur.output_schema();
        let (mut lk, mut rk) = (vec![], vec![]);
        for (j, v) in schema.iter().enumerate() { if v.starts_with('_') { continue; } if let Some(i) = ls.iter().position(|x| x == v) { lk.push(i); rk.push(j); } }
        if !lk.is_empty() { cur = IRNode::Antijoin { left: bx(cur), right: bx(IRNode::Scan { relation: r.into(), schema }), left_keys: lk, right_keys: rk, output_schema: ls }; }
    }
    let schema = cur.output_schema();
    let vars: Vec<usize> = (0..schema.len()).filter(|i| !schema[*i].starts_with('_') && !schema[..*i].contains(&schema[*i])).collect();
    if sh.aggregate && !vars.is_empty() {
        let ng = ctx.below(vars.len().min(2) + 1);
        let gb: Vec<usize> = vars.iter().take(ng).copied().collect();
        let ac = *ctx.pick(&vars); let f = gen_agg(ctx);
        let mut s: Vec<String> = gb.iter().map(|i| schema[*i].clone()).collect(); s.push(format!("agg_{}", schema[ac]));
        return IRNode::Aggregate { input: bx(cur), group_by: gb, aggregations: vec![(f, ac)], output_schema: s };
    }
    let hw = head_width.unwrap_or(1 + ctx.below(3));
    let mut proj = vec![]; let mut hs = vec![];
    for k in 0..hw { let i = if vars.is_empty() { 0 } else { vars[(k + ctx.below(2)) % vars.len()] }; proj.push(i); hs.push(schema.get(i).cloned().unwrap_or_else(|| format!("h{k}"))); }
    IRNode::Map { input: bx(cur), projection: proj, output_schema: hs }
}

pub fn rule_head(ctx: &mut Ctx, nclauses: usize, joins: bool, agg: bool) -> IRNode {
    let hw = 1 + ctx.below(2);
    let mut cl = vec![];
    for c in 0..nclauses {
        let sh = RuleShape { natoms: if joins { 2 + ctx.below(2) } else { 1 + ctx.below(3) }, nfilters: ctx.below(3), antijoin: !joins && ctx.chance(1, 6),
                             aggregate: agg && nclauses == 1, wild: ctx.chance(1, 3), consts: ctx.chance(1, 3) };
        cl.push(rule_tree(ctx, &sh, Some(hw), c * 4));
    }
    if cl.len() == 1 { cl.pop().unwrap() } else { IRNode::Union { inputs: cl } }
}

// ------------------------------------------------------------------ shapes aimed at single optimizer rules
pub fn targeted(ctx: &mut Ctx, k: usize) -> IRNode {
    let r1 = || scan("r1", &["A", "B"]); let r2 = || scan("r2", &["B", "C"]); let r3 = || scan("r3", &["C", "D", "E"]);
    let j12 = |lk: Vec<usize>, rk: Vec<usize>| { let mut s = vec!["A".to_string(), "B".into()]; for (i, n) in ["B", "C"].iter().enumerate() { if !rk.contains(&i) { s.push(n.to_string()); } }
        IRNode::Join { left: bx(r1()), right: bx(r2()), left_keys: lk, right_keys: rk, output_schema: s } };
    let c = ctx.range(0, 3);
    match k % 19 {
        0 => IRNode::Map { input: bx(r1()), projection: vec![0, 1], output_schema: vec!["A".into(), "B".into()] },
        1 => IRNode::Map { input: bx(IRNode::Map { input: bx(r3()), projection: vec![2, 0, 1], output_schema: vec!["E".into(), "C".into(), "D".into()] }), projection: vec![1, 0], output_schema: vec!["C".into(), "E".into()] },
        2 => IRNode::Filter { input: bx(r1()), predicate: Predicate::True },
        3 => IRNode::Union { inputs: vec![IRNode::Filter { input: bx(r1()), predicate: Predicate::False }, r2()] },
        4 => IRNode::Filter { input: bx(IRNode::Filter { input: bx(r1()), predicate: Predicate::ColumnGtConst(0, c) }), predicate: Predicate::ColumnLtConst(1, c + 2) },
        5 => IRNode::Filter { input: bx(j12(vec![1], vec![0])), predicate: Predicate::ColumnGtConst(0, c) },                 // left only
        6 => IRNode::Filter { input: bx(j12(vec![1], vec![0])), predicate: Predicate::ColumnGtConst(2, c) },                 // right only, key before column
        7 => IRNode::Filter { input: bx(j12(vec![1], vec![1])), predicate: Predicate::ColumnGtConst(2, c) },                 // right only, key after column
        8 => IRNode::Filter { input: bx(j12(vec![], vec![])), predicate: Predicate::ColumnsLt(2, 3) },                        // cartesian, right only
        9 => IRNode::Filter { input: bx(j12(vec![1], vec![0])), predicate: Predicate::ColumnsLt(0, 2) },                      // both sides
        10 => IRNode::Filter { input: bx(IRNode::Map { input: bx(r3()), projection: vec![2, 0], output_schema: vec!["E".into(), "C".into()] }), predicate: Predicate::ColumnGtConst(0, c) },
        11 => IRNode::Map { input: bx(j12(vec![1], vec![0])), projection: vec![2, 0], output_schema: vec!["C".into(), "A".into()] },
        12 => IRNode::Filter { input: bx(IRNode::Map { input: bx(j12(vec![0], vec![1])), projection: vec![2, 1], output_schema: vec!["B2".into(), "B".into()] }), predicate: Predicate::ColumnGtConst(0, c) },
        13 => IRNode::Map { input: bx(IRNode::Join { left: bx(r1()), right: bx(r3()), left_keys: vec![0, 1], right_keys: vec![2, 0], output_schema: vec!["A".into(), "B".into(), "D".into()] }), projection: vec![2, 0], output_schema: vec!["D".into(), "A".into()] },
        14 => IRNode::Join { left: bx(IRNode::Union { inputs: vec![] }), right: bx(r1()), left_keys: vec![], right_keys: vec![], output_schema: vec!["A".into(), "B".into()] },
        15 => IRNode::Filter { input: bx(IRNode::Join { left: bx(IRNode::Union { inputs: vec![IRNode::Filter { input: bx(r1()), predicate: Predicate::False }, r1()] }), right: bx(r2()), left_keys: vec![1], right_keys: vec![0], output_schema: vec!["A".into(), "B".into(), "C".into()] }), predicate: Predicate::ColumnGtConst(0, c) },
        // cartesian join whose left input is a Union with a statically empty first branch: output_schema() reports width 0
        16 => IRNode::Filter { input: bx(IRNode::Join { left: bx(IRNode::Union { inputs: vec![IRNode::Filter { input: bx(r1()), predicate: Predicate::False }, r1()] }), right: bx(r2()), left_keys: vec![], right_keys: vec![], output_schema: vec!["A".into(), "B".into(), "B2".into(), "C".into()] }), predicate: Predicate::ColumnGtConst(0, c) },
        // Distinct above an Aggregate above a Join of a duplicate-producing projection: Boolean annotation reaches the aggregate input
        17 => IRNode::Distinct { input: bx(IRNode::Aggregate { input: bx(IRNode::Join { left: bx(IRNode::Map { input: bx(r1()), projection: vec![0], output_schema: vec!["A".into()] }), right: bx(scan("r4", &["A"])), left_keys: vec![0], right_keys: vec![0], output_schema: vec!["A".into()] }),
                 group_by: vec![0], aggregations: vec![(AggregateFunction::Count, 0)], output_schema: vec!["A".into(), "n".into()] }) },
        _ => IRNode::Distinct { input: bx(IRNode::Aggregate { input: bx(IRNode::Distinct { input: bx(r1()) }), group_by: vec![0], aggregations: vec![(AggregateFunction::Count, 0)], output_schema: vec!["A".into(), "n".into()] }) },
    }
}
pub fn _u(_: &Value) {}
