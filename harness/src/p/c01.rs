//! C01 — query answers equal the stratified least model.
//! `c01.run  00000:1:0 | facts ; rules`  real engine, all switches off  (model correspondence + Spec)
//! `c01.spec jjjjj:1:0 | facts ; rules`  real engine, any switches      (Spec search only)
use crate::common::*;
use crate::u::dl::*;

pub fn gen(ctx: &mut Ctx) -> Vec<String> {
    let mut out = vec![];
    let n = ctx.budget(700, 12000);
    for _ in 0..n {
        let gp = gen_program(ctx);
        ctx.count(&format!("shape_{}", gp.shape));
        ctx.add("clauses", gp.rules.len() as u64);
        for k in 0..2 {
            let mut rels = edb_rels_of(&gp.rules);
            // sometimes a head also has stored facts
            if ctx.chance(1, 25) { let h = &gp.rules[0]; rels.push((h.hrel.clone(), h.hargs.len())); ctx.count("head_with_facts"); }
            let relrefs: Vec<(&str, usize)> = rels.iter().map(|(r, a)| (r.as_str(), *a)).collect();
            let edb = gen_edb(ctx, &relrefs, if k == 0 { 5 } else { 8 }, if k == 0 { 3 } else { 5 });
            ctx.add("facts", edb.iter().map(|e| e.1.len() as u64).sum());
            let items = items_wire(&edb, &gp.rules);
            out.push(format!("c01.run 00000:1:0 | {items}"));
            out.push(format!("c01.spec 11111:1:0 | {items}"));
            if ctx.chance(1, 4) { // one single switch on
                let k = ctx.below(5); let sw: String = (0..5).map(|i| if i == k { '1' } else { '0' }).collect();
                out.push(format!("c01.spec {sw}:1:0 | {items}")); ctx.count("single_switch");
            }
        }
    }
    // malformed stream: unsafe rules, unbuildable rules
    for _ in 0..ctx.budget(40, 400) {
        let mut gp = gen_program(ctx);
        let i = ctx.below(gp.rules.len());
        match ctx.below(3) {
            0 => { gp.rules[i].hargs.push(hv("Q")); }                                   // head variable not bound
            1 => { gp.rules[i].body.push(neg("n", vec![v("Q")])); }                      // negated variable not bound
            _ => { gp.rules[i].body.push(neg("n", vec![T::W])); }                        // negation without shared variable
        }
        ctx.count("malformed");
        let rels = edb_rels_of(&gp.rules); let relrefs: Vec<(&str, usize)> = rels.iter().map(|(r, a)| (r.as_str(), *a)).collect();
        let edb = gen_edb(ctx, &relrefs, 4, 3);
        out.push(format!("c01.run 00000:1:0 | {}", items_wire(&edb, &gp.rules)));
    }
    out
}

pub fn exec(req: &str) -> String {
    match split_req(req) {
        Some((op, cfg, edb, rules)) => if op == "c01.run" { run_engine_all(&cfg, &edb, &rules) } else { run_engine(&cfg, &edb, &rules) },
        None => "bad-request".into(),
    }
}
pub const TGEN: Option<fn() -> String> = None;
