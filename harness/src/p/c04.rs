//! C04 — answers independent of clause order, repetition and engine history; base facts unchanged.
//! `c04.run <cfg> p<i.j.k> d<i|-> | facts ; rules` : the clauses before the final one are permuted by the
//! index list, clause `d` is repeated before the final one; output
//! `base / permuted / duplicated / base-again-on-the-reused-engine / facts-unchanged`.
use crate::common::*;
use crate::u::dl::*;
use inputlayer::Tuple;

fn perm_of(s: &str) -> Option<Vec<usize>> { let r = s.strip_prefix('p')?; if r.is_empty() { Some(vec![]) } else { r.split('.').map(|x| x.parse().ok()).collect() } }

pub fn gen(ctx: &mut Ctx) -> Vec<String> {
    let mut out = vec![];
    let n = ctx.budget(450, 6000);
    for _ in 0..n {
        let gp = gen_program(ctx);
        if gp.rules.len() < 2 { continue; }
        ctx.count(&format!("shape_{}", gp.shape));
        let rels = edb_rels_of(&gp.rules); let relrefs: Vec<(&str, usize)> = rels.iter().map(|(r, a)| (r.as_str(), *a)).collect();
        let edb = gen_edb(ctx, &relrefs, 7, 4);
        let items = items_wire(&edb, &gp.rules);
        let k = gp.rules.len() - 1;
        // all permutations for <= 3 movable clauses, sampled beyond
        let nperm = if k <= 3 { 3 } else { 4 };
        for _ in 0..nperm {
            let mut ix: Vec<usize> = (0..k).collect();
            for i in (1..k).rev() { let j = ctx.below(i + 1); ix.swap(i, j); }
            let d = if ctx.chance(3, 4) { format!("d{}", ctx.below(k)) } else { "d-".into() };
            let p = format!("p{}", ix.iter().map(|i| i.to_string()).collect::<Vec<_>>().join("."));
            out.push(format!("c04.run 00000:1:0 {p} {d} | {items}"));
            if ctx.chance(1, 2) { out.push(format!("c04.spec 11111:1:0 {p} {d} | {items}")); ctx.count("default_cfg"); }
        }
    }
    out
}

fn snapshot(e: &inputlayer::IQLEngine) -> Vec<(String, String)> {
    let mut v: Vec<(String, String)> = e.input_tuples().iter().map(|(k, ts)| (k.clone(), ts.iter().map(tuple_to_wire).collect::<Vec<_>>().join(";"))).collect();
    v.sort(); v
}

fn run_on(e: &mut inputlayer::IQLEngine, rules: &[Rule]) -> String {
    let text = program_iql(rules);
    match real_parse_wire(&text) {
        Ok(w) => if w != rules.iter().map(rule_wire).collect::<Vec<_>>() { return "err:wire-mismatch".into(); },
        Err(_) => return "err:parse".into(),
    }
    match e.execute_tuples(&text) { Ok(ts) => rel_to_wire(&ts), Err(m) => err_class(&m) }
}

pub fn exec(req: &str) -> String {
    let (head, items) = match req.split_once(" | ") { Some(x) => x, None => return "bad-request".into() };
    let hp: Vec<&str> = head.split(' ').collect(); if hp.len() != 4 { return "bad-request".into(); }
    let (cfg, ix) = match (cfg_of_wire(hp[1]), perm_of(hp[2])) { (Some(c), Some(p)) => (c, p), _ => return "bad-request".into() };
    let d: Option<usize> = hp[3].strip_prefix('d').and_then(|x| x.parse().ok());
    let (edb, rules): (Vec<(String, Vec<Tuple>)>, Vec<Rule>) = match parse_items(items) { Some(x) => x, None => return "bad-request".into() };
    if rules.is_empty() { return "bad-request".into(); }
    let (ini, lst) = rules.split_at(rules.len() - 1);
    let mut p1: Vec<Rule> = ix.iter().filter_map(|i| ini.get(*i).cloned()).collect(); p1.extend_from_slice(lst);
    let mut p2: Vec<Rule> = ini.to_vec(); if let Some(i) = d { if let Some(r) = ini.get(i) { p2.push(r.clone()); } } p2.extend_from_slice(lst);
    let fresh = |rs: &[Rule]| { let mut e = new_engine(&cfg); for (r, ts) in &edb { e.add_tuples(r, ts.clone()); } run_on(&mut e, rs) };
    let mut e1 = new_engine(&cfg); for (r, ts) in &edb { e1.add_tuples(r, ts.clone()); }
    let before = snapshot(&e1);
    let a = run_on(&mut e1, &rules);
    let b = fresh(&p1);
    let c = fresh(&p2);
    let _ = run_on(&mut e1, &p1);
    let d3 = run_on(&mut e1, &rules);
    let after = snapshot(&e1);
    let flag = if before == after { "1".to_string() } else {
        let names: Vec<String> = after.iter().filter(|x| !before.contains(x)).map(|x| x.0.clone()).collect();
        format!("0:{}", names.join(","))
    };
    format!("{a} / {b} / {c} / {d3} / {flag}")
}
pub const TGEN: Option<fn() -> String> = None;
