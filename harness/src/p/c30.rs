//! C30 — a program with a syntax error has no effect; otherwise effects in program order.
//! Real code under test: `Handler::query_program` (→ `QueryJob::execute`, phase 1 / phase 2) and, for
//! the wrapper paths that act before it, `Handler::execute_program` with a session.
//! Requests: `c30.text <hex>` (text layer vs hook accessors), `c30.q <kgarg> | <hex line> ; …`
//! (query_program on a fresh world), `c30.prog <setup> <who> <sess> <kgarg> | …` (execute_program).
use crate::common::*;
use crate::u::hgen::*;
use crate::u::hworld::*;

const SETUP: &str = "acl=default:vi:viewer,kga:vi:editor,kgb:vi:owner,default:ed:editor/sess=vi:default,ed:default,adm:default";

pub fn gen(ctx: &mut Ctx) -> Vec<String> {
    let mut out = vec![];
    // (1) text layer
    let frag = ["+m1(1)", "  +m1(2)", "\t2)", "// c", "  // c", "% c", "", " ", "\t", "+m2(1,", "?m1(X) // t", "a\"//b\" // c", "x // \"q", "\"a\" \"//\" //z",
        "+m1(3)\r", "\r", " \u{a0}+m1(4)", "\u{2003}x", "\u{a0}", "q(X) <-", "   m1(X)", "//", "/ /", "%", "é(1)", "  é", "+m1(5) ", "\u{85}y", "z\u{3000}"];
    for _ in 0..ctx.budget(1200, 12000) {
        let n = ctx.below(6);
        let mut t = (0..n).map(|_| ctx.pick(&frag).to_string()).collect::<Vec<_>>().join(if ctx.chance(1, 8) { "\r\n" } else { "\n" });
        if ctx.chance(1, 4) { t.push('\n'); }
        if t.is_empty() { continue; }
        ctx.count("text_cases");
        out.push(format!("c30.text {}", hex(t.as_bytes())));
    }
    // (2) query_program: a syntax error at every position of a valid program, and the error-free program
    for _ in 0..ctx.budget(260, 2600) {
        let n = 1 + ctx.below(5);
        let ls = lines(ctx, n, false);
        let level = ctx.below(3) as u32;
        let kg = *ctx.pick(&["default", "default", "kga", "-", "nokg"]);
        let good = decorate(ctx, &ls, level);
        ctx.count("q_error_free"); ctx.count(&format!("q_len_{n}"));
        out.push(format!("c30.q {kg} | {}", items_of_prog(&good)));
        let b = broken(ctx);
        for pos in 0..=n {
            if n >= 3 && ctx.chance(1, 2) { continue; }
            let mut l2 = ls.clone(); l2.insert(pos, b.clone());
            let t = decorate(ctx, &l2, level);
            ctx.count("q_with_syntax_error"); ctx.count(&format!("q_error_pos_{pos}"));
            out.push(format!("c30.q {kg} | {}", items_of_prog(&t)));
        }
    }
    // (2b) full-line comment directly followed by an indented line, in every position
    for _ in 0..ctx.budget(40, 400) {
        for (t, shape) in comment_then_indent(ctx) {
            let kg = *ctx.pick(&["default", "default", "kga", "-"]);
            ctx.count(&format!("q_{shape}"));
            out.push(format!("c30.q {kg} | {}", items_of_prog(&t)));
            if ctx.chance(1, 4) {
                let who = *ctx.pick(&["adm", "ed"]); let sess = if ctx.chance(1, 2) { "s" } else { "n" };
                ctx.count(&format!("exec_{shape}"));
                out.push(format!("c30.prog {SETUP} {who} {sess} default | {}", items_of_prog(&t)));
            }
        }
    }
    // (3) execute_program with a session: whole text cut by an inline comment / tolerant meta parser,
    //     later line malformed
    for _ in 0..ctx.budget(150, 1500) {
        let first = match ctx.below(8) {
            0 => "m1(4) // note".to_string(), 1 => "sr1(X) <- m1(X) // note".to_string(), 2 => ".session clear".to_string(),
            3 => ".kg acl list".to_string(), 4 => ".user list".to_string(), 5 => "m1(5)".to_string(),
            6 => "+m1(6) // note".to_string(), _ => stmt(ctx, false),
        };
        let mut ls = vec![first];
        let extra = ctx.below(3); ls.extend(lines(ctx, extra, false));
        let pos = 1 + ctx.below(ls.len()); ls.insert(pos, broken(ctx));
        let who = *ctx.pick(&["adm", "adm", "ed", "vi"]);
        let sess = if ctx.chance(3, 4) { "s" } else { "n" };
        let kg = if sess == "s" && ctx.chance(1, 2) { "-" } else { "default" };
        ctx.count("exec_with_syntax_error"); ctx.count(&format!("exec_who_{who}_{sess}"));
        out.push(format!("c30.prog {SETUP} {who} {sess} {kg} | {}", items_of_prog(&ls.join("\n"))));
    }
    out
}

pub fn exec(req: &str) -> String {
    let parts: Vec<&str> = req.split(' ').collect();
    if parts[0] == "c30.text" && parts.len() == 2 {
        let p = match unhex(parts[1]).and_then(|b| String::from_utf8(b).ok()) { Some(p) => p, None => return "bad-request".into() };
        let ll = real_logical_lines(&p);
        let k = oracle_key(&p);
        return format!("{} {}", if ll.is_empty() { "-".into() } else { ll.iter().map(|l| hex(l.as_bytes())).collect::<Vec<_>>().join(",") },
            if k.is_empty() { "-".into() } else { hex(k.as_bytes()) });
    }
    exec_world(req)
}
pub const TGEN: Option<fn() -> String> = None;
