//! C11 — restart reproduces the live state. One request = one history run against the real
//! `StorageEngine` on a private temp dir (see `u/store.rs` for the item grammar and the output).
use crate::common::*;
use crate::u::store::*;

const RELS: [&str; 2] = ["r", "s"];
const DOM: [&str; 4] = ["i64:1,i64:2", "i64:1,i64:3", "i64:2,i64:2", "i64:7,i64:8"];

/// generator-side set model, only used to *choose* present / absent tuples on purpose
struct Sim { live: Vec<(usize, usize)> }
impl Sim {
    fn has(&self, r: usize, t: usize) -> bool { self.live.contains(&(r, t)) }
    fn present(&self, ctx: &mut Ctx, r: usize) -> Option<usize> { let v: Vec<usize> = (0..DOM.len()).filter(|t| self.has(r, *t)).collect(); if v.is_empty() { None } else { Some(*ctx.pick(&v)) } }
    fn absent(&self, ctx: &mut Ctx, r: usize) -> Option<usize> { let v: Vec<usize> = (0..DOM.len()).filter(|t| !self.has(r, *t)).collect(); if v.is_empty() { None } else { Some(*ctx.pick(&v)) } }
}

/// `single`: the history uses one relation only; only then are wrong-arity requests generated (with two
/// relations a failing flush makes `save_all`'s outcome depend on `HashMap` iteration order).
fn random_history(ctx: &mut Ctx, max_len: usize, single: bool) -> String {
    let n = 2 + ctx.below(max_len - 1);
    let mut sim = Sim { live: vec![] };
    let mut items: Vec<String> = vec![];
    for _ in 0..n {
        let r = if single || ctx.chance(3, 4) { 0 } else { 1 };
        let k = ctx.below(100);
        let k = if !single && k >= 88 && k <= 91 { 0 } else { k };
        match k {
            0..=17 => { // effective insert
                if let Some(t) = sim.absent(ctx, r) { items.push(format!("ins {} {}", RELS[r], DOM[t])); sim.live.push((r, t)); ctx.count("op_ins_absent"); }
            }
            18..=31 => { // redundant insert (present tuple)
                if let Some(t) = sim.present(ctx, r) { items.push(format!("ins {} {}", RELS[r], DOM[t])); ctx.count("op_ins_present"); }
            }
            32..=37 => { // duplicate inside one insert batch
                let t = ctx.below(DOM.len()); items.push(format!("ins {} {} {}", RELS[r], DOM[t], DOM[t]));
                if !sim.has(r, t) { sim.live.push((r, t)); } ctx.count("op_ins_dup_in_batch");
            }
            38..=43 => { // mixed batch
                let (a, b) = (ctx.below(DOM.len()), ctx.below(DOM.len())); items.push(format!("ins {} {} {}", RELS[r], DOM[a], DOM[b]));
                for t in [a, b] { if !sim.has(r, t) { sim.live.push((r, t)); } } ctx.count("op_ins_batch");
            }
            44..=57 => { // effective delete
                if let Some(t) = sim.present(ctx, r) { items.push(format!("del {} {}", RELS[r], DOM[t])); sim.live.retain(|x| *x != (r, t)); ctx.count("op_del_present"); }
            }
            58..=69 => { // delete of an absent tuple
                if let Some(t) = sim.absent(ctx, r) { items.push(format!("del {} {}", RELS[r], DOM[t])); ctx.count("op_del_absent"); }
            }
            70..=74 => { // duplicate inside one delete batch / mixed delete batch
                let (a, b) = (ctx.below(DOM.len()), if ctx.chance(1, 2) { usize::MAX } else { ctx.below(DOM.len()) }); let b = if b == usize::MAX { a } else { b };
                items.push(format!("del {} {} {}", RELS[r], DOM[a], DOM[b])); sim.live.retain(|x| *x != (r, a) && *x != (r, b)); ctx.count("op_del_batch");
            }
            75..=80 => { items.push("save".into()); ctx.count("op_save"); }
            81..=85 => { items.push("compact".into()); ctx.count("op_compact"); }
            86..=87 => { items.push("files".into()); }
            88..=89 => { // arity mismatch on insert (rejected before anything is persisted - unless the relation has no metadata)
                items.push(format!("ins {} i64:1", RELS[r])); ctx.count("op_ins_wrong_arity");
            }
            90..=91 => { // delete naming a tuple of another arity (there is no arity check on delete)
                items.push(format!("del {} {}", RELS[r], if ctx.chance(1, 2) { "i64:1" } else { "i64:1,i64:2,i64:3" })); ctx.count("op_del_wrong_arity");
            }
            _ => { items.push("restart".into()); ctx.count("op_restart");
                   // the generator's model follows the *specified* behaviour (restart changes nothing)
            }
        }
    }
    items.push("restart".into());
    if ctx.chance(1, 4) { items.push("q".into()); }
    items.join(" ; ")
}

pub fn gen(ctx: &mut Ctx) -> Vec<String> {
    let mut out = vec![];
    // exhaustive small scope: all histories of length <= L over 2 tuples of one relation, each followed by a restart
    let alpha: Vec<String> = vec![
        format!("ins r {}", DOM[0]), format!("ins r {}", DOM[1]), format!("del r {}", DOM[0]), format!("del r {}", DOM[1]),
        format!("ins r {} {}", DOM[0], DOM[0]), "save".into(), "compact".into(), "restart".into(),
    ];
    let l = ctx.budget(3, 4);
    let mut frontier: Vec<Vec<usize>> = vec![vec![]];
    for _ in 0..l {
        let mut next = vec![];
        for h in &frontier { for k in 0..alpha.len() { let mut h2 = h.clone(); h2.push(k); next.push(h2); } }
        for h in &next {
            if *h.last().unwrap() == 7 { continue; } // a trailing restart is appended anyway
            let items: Vec<&str> = h.iter().map(|k| alpha[*k].as_str()).collect();
            out.push(format!("c11.hist b10000,w0,mi | {} ; restart", items.join(" ; ")));
        }
        frontier = next;
    }
    ctx.add("exhaustive_histories", out.len() as u64);
    // random histories, several buffer sizes (so that flushes to batch files interleave), immediate durability
    let n = ctx.budget(700, 8000);
    for i in 0..n {
        let b = [10000, 1, 2, 3][i % 4];
        let single = i % 5 == 4;
        if single { ctx.count("single_relation_histories"); }
        let h = random_history(ctx, if i % 3 == 0 { 30 } else { 12 }, single);
        out.push(format!("c11.hist b{b},w0,mi | {h}"));
    }
    ctx.add("random_histories", n as u64);
    out
}

pub fn exec(req: &str) -> String {
    let (head, items) = match split_hist(req) { Some(x) => x, None => return "bad-request".into() };
    if head.len() != 2 || head[0] != "c11.hist" { return "bad-request".into(); }
    let cfg = match parse_cfg(head[1]) { Some(c) => c, None => return "bad-request".into() };
    run_history(&cfg, &items)
}
pub const TGEN: Option<fn() -> String> = None;
