//! C24 — vector index search returns valid nearest neighbours: histories over the real `HnswIndex`
//! with searches judged (in the Lean driver) against a brute-force oracle over the live vectors.
//!   c24.hist <metric cos|l2|dot|l1> <m> <ef_construction> <ef_search> | op ; op ; …   (ops: see u/hnswhist.rs)
use crate::common::*;
use crate::u::hnswhist::*;
use crate::u::vecwire::*;

fn tail(ctx: &mut Ctx, g: &mut Gen, ops: &mut Vec<String>, n: usize) {
    for _ in 0..n {
        let r = ctx.below(100);
        let op = if r < 38 { g.insert(ctx) } else if r < 45 { g.batch(ctx, "ib", true) } else if r < 60 { g.delete(ctx) }
            else if r < 64 { g.batch(ctx, "rb", true) } else if r < 94 { g.search(ctx) } else { "st".to_string() };
        ops.push(op);
    }
}

pub fn gen(ctx: &mut Ctx) -> Vec<String> {
    let mut out = vec![];
    let n = ctx.budget(320, 3200);
    for i in 0..n {
        let cfg = rand_cfg(ctx);
        let mut g = Gen::new(ctx);
        let mut ops: Vec<String> = vec![];
        let scenario = if i % 2 == 0 { 0 } else { 1 + ctx.below(7) };
        let cfg = if scenario == 7 { format!("l1 {} {} {}", ctx.pick(&[8usize, 16]), ctx.pick(&[100usize, 200]), 50) } else { cfg };
        match scenario {
            0 => { let len = 4 + ctx.below(36); tail(ctx, &mut g, &mut ops, len); ctx.count("c24_random_walk"); }
            1 => { // delete below the compaction threshold, then search at the deleted point
                let nn = 4 + ctx.below(10);
                ops.push(g.batch_n(ctx, nn));
                let id = ctx.below(nn); ops.push(format!("d {}", id)); g.deleted.push(id);
                ops.push(g.search(ctx)); ops.push(format!("s 3 64 {}", vec_to_wire(&g.known[id.min(g.known.len() - 1)])));
                ops.push("st".into()); ctx.count("c24_delete_below_threshold");
            }
            2 => { // re-insert of a deleted id
                let nn = 4 + ctx.below(10);
                ops.push(g.batch_n(ctx, nn));
                let id = ctx.below(nn); ops.push(format!("d {}", id)); g.deleted.push(id);
                ops.push(format!("i {} {}", id, g.vecw(ctx)));
                ops.push(g.search_all(ctx)); ops.push("st".into()); ctx.count("c24_reinsert_deleted");
            }
            3 => { // cross the 30 % threshold
                let nn = 3 + ctx.below(12);
                ops.push(g.batch_n(ctx, nn));
                let nd = nn * 3 / 10 + 1 + ctx.below(2);
                for d in 0..nd.min(nn) { ops.push(format!("d {}", d)); ops.push(g.search(ctx)); }
                ops.push(g.search_all(ctx)); ops.push("st".into()); ctx.count("c24_cross_threshold");
            }
            4 => { // a batch that fails in the middle
                let nn = 2 + ctx.below(8);
                ops.push(g.batch_n(ctx, nn));
                let bad = if ctx.chance(1, 2) { vec_to_wire(&gen_vec(ctx, g.dim + 1, g.kind)) } else { "v:".to_string() };
                let a = g.vecw(ctx); let b = g.vecw(ctx);
                ops.push(format!("ib {}={} {}={} {}={}", nn + 1, a, nn + 2, bad, nn + 3, b));
                ops.push(g.search_all(ctx)); ops.push("st".into()); ctx.count("c24_failing_batch");
            }
            5 => { // delete of an id that was never inserted, then its insert
                let nn = 1 + ctx.below(6);
                ops.push(g.batch_n(ctx, nn));
                ops.push(format!("d {}", nn + 2)); ops.push(format!("i {} {}", nn + 2, g.vecw(ctx)));
                ops.push(g.search_all(ctx)); ops.push("st".into()); ctx.count("c24_delete_absent_then_insert");
            }
            7 => { // L1 metric, k = 1: the 4 L2-nearest are diagonal points, the L1-nearest is the 5th by L2
                let r = 1.0 + ctx.below(5) as f32;
                let d = 0.70710678f32 * r;
                let pts: Vec<[f32; 2]> = vec![[d, d], [-d, d], [d, -d], [-d, -d], [1.2 * r, 0.0], [0.0, -1.25 * r], [3.0 * r, 3.0 * r]];
                g.dim = 2;
                let es: Vec<String> = pts.iter().enumerate().map(|(i, p)| format!("{}={}", i, vec_to_wire(&p[..]))).collect();
                ops.push(format!("ib {}", es.join(" ")));
                for i in 0..pts.len() { g.live.push(i); g.known.push(pts[i].to_vec()); }
                ops.push(format!("s 1 64 {}", vec_to_wire(&[0.0, 0.0])));
                ops.push(format!("s 2 64 {}", vec_to_wire(&[0.01, 0.0])));
                ctx.count("c24_manhattan_window");
            }
            _ => { // many points: graph larger than ef
                let nn = 30 + ctx.below(31);
                ops.push(g.batch_n(ctx, nn));
                for _ in 0..4 { ops.push(g.search(ctx)); }
                ctx.count("c24_large");
            }
        }
        if scenario != 0 { let extra = ctx.below(8); tail(ctx, &mut g, &mut ops, extra); }
        ctx.add("c24_ops", ops.len() as u64);
        ctx.add("c24_searches", ops.iter().filter(|o| o.starts_with("s ")).count() as u64);
        out.push(format!("c24.hist {} | {}", cfg, ops.join(" ; ")));
    }
    for r in ["c24.hist l2 8 100 | st", "c24.hist xx 8 100 32 | st", "c24.hist l2 8 100 32 | zz ; i 1 v:zz ; s 1 - v:"] { out.push(r.to_string()); }
    out
}

pub fn exec(req: &str) -> String {
    let (head, items) = match req.split_once(" | ") { Some(x) => x, None => return "bad-request".into() };
    let p: Vec<&str> = head.split(' ').collect();
    if p.len() != 5 || p[0] != "c24.hist" { return "bad-request".into(); }
    match (p[2].parse::<usize>(), p[3].parse::<usize>(), p[4].parse::<usize>()) {
        (Ok(m), Ok(efc), Ok(efs)) if m >= 2 && m <= 64 && efc >= 1 && efc <= 1000 => exec_history(p[1], m, efc, efs, items),
        _ => "bad-request".into(),
    }
}
pub const TGEN: Option<fn() -> String> = None;
