//! C29 — the internal knowledge graph `_internal` is unreachable for non-admins.
//! Same real code and observations as C27 (`Handler::execute_program`), with programs, KG arguments and
//! session bindings that name `_internal` in every position: target KG argument, `.kg use/create/drop`,
//! after a comment, on a later line, reads of `users` / `kg_acls`, writes to them, and sessions that an
//! earlier request of the same history re-bound.
use crate::common::*;
use crate::u::hgen::*;
use crate::u::hworld::*;

pub fn gen(ctx: &mut Ctx) -> Vec<String> {
    let mut out = vec![];
    // systematic product: session binding x explicit KG argument x first line kind x 1..3 lines
    out.extend(product_cases(ctx, "c29.prog"));
    for _ in 0..ctx.budget(1000, 10000) {
        let su = setup(ctx);
        let who = *ctx.pick(&["vi", "vi", "vi", "vi", "ed", "ed", "ed", "adm", "anon"]);
        let sess = if who != "anon" && ctx.chance(2, 5) { "s" } else { "n" };
        let kg = match ctx.below(10) { 0 => "-", 1..=5 => "default", 6 => "kga", _ => "_internal" };
        let (p, shape) = match ctx.below(6) {
            0 => (ctx.pick(&[".kg use _internal", ".kg drop _internal", ".kg create _internal", "?users(A, B, C)", "?kg_acls(A, B, C)", ".kg acl list _internal",
                             ".kg acl grant _internal vi owner", "+users(\"x\", \"h\", \"admin\")", ".kg use _internal // x", "  .kg use _internal", ".KG USE _internal"]).to_string(), "direct"),
            _ => program(ctx, true),
        };
        ctx.count(&format!("shape_{shape}")); ctx.count(&format!("who_{who}")); ctx.count(&format!("kgarg_{}", if kg == "-" { "none" } else { kg }));
        out.push(format!("c29.prog {su} {who} {sess} {kg} | {}", items_of_prog(&p)));
    }
    for _ in 0..ctx.budget(300, 3000) {
        let mut su = setup(ctx);
        let who = *ctx.pick(&["vi", "vi", "ed"]);
        // "whatever the session binding": sometimes the caller's session is already bound to `_internal`
        if ctx.chance(1, 10) { su = su.replace(&format!("{who}:default"), &format!("{who}:_internal")).replace(&format!("{who}:kga"), &format!("{who}:_internal")); ctx.count("session_prebound_internal"); }
        let n = 2 + ctx.below(3);
        let mut calls = vec![];
        for i in 0..n {
            let sess = if ctx.chance(3, 4) { "s" } else { "n" };
            let kg = *ctx.pick(&["-", "-", "default", "default", "kga", "_internal"]);
            let p = if i == 0 && ctx.chance(2, 3) {
                // try to re-bind the session
                ctx.pick(&[".kg list\n.kg use _internal", ".kg\n.kg use _internal", ".status\n.kg use _internal", "+m1(1)\n.kg use _internal", ".kg use _internal", "?m1(X) // c\n.kg use _internal"]).to_string()
            } else if ctx.chance(1, 2) {
                ctx.pick(&["?users(A, B, C)", "?kg_acls(A, B, C)", "?m1(X)\n+users(\"x\", \"h\", \"admin\")", "+users(\"x\", \"h\", \"admin\")", ".kg", "?m1(X)", "m1(4)", ".kg use default"]).to_string()
            } else { program(ctx, true).0 };
            calls.push(format!("{who}:{sess}:{kg}:{}", if p.is_empty() { "-".to_string() } else { hex(p.as_bytes()) }));
        }
        ctx.count("hist"); ctx.count(&format!("hist_len_{n}"));
        out.push(format!("c29.hist {su} | {}", calls.join(" ; ")));
    }
    out
}
pub fn exec(req: &str) -> String { exec_world(req) }
pub const TGEN: Option<fn() -> String> = None;
