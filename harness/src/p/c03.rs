//! C03 — worker count never changes answers.
//! `c03.run sssss:W:0 | facts ; rules` → `answer(num_workers = 1) / answer(num_workers = W)`
//! `c03.hash <tuple>` → `DefaultHasher` value of the tuple (ties the partitioner used by the model).
use crate::common::*;
use crate::u::dl::*;
use std::hash::{Hash, Hasher};

/// programs whose heads mostly take the partitioned path: single-atom clauses (filters, computed
/// columns, constants, repeated variables, projections), unions of them, optional aggregate.
fn gen_parsafe(ctx: &mut Ctx) -> (&'static str, Vec<Rule>) {
    let ev_ = edb_vocab();
    let one = ClauseOpts { min_atoms: 1, max_atoms: 1, neg: false, ..Default::default() };
    let mut rules = vec![];
    let shape = ctx.below(6);
    let name = match shape {
        0 | 1 => { // aggregate over a single scan
            let f = *ctx.pick(&["count", "sum", "min", "max", "count_distinct"]);
            let ar0 = ctx.below(2);
            let mut r = gen_clause(ctx, "a", ar0.max(1), &ev_, &[], &one);
            let bv: Vec<String> = r.body.iter().filter_map(|l| if let L::P(a) = l { Some(a) } else { None }).flat_map(|a| a.args.iter().filter_map(|t| if let T::V(x) = t { Some(x.clone()) } else { None })).collect();
            r.hargs.retain(|h| matches!(h, H::V(_))); if ar0 == 0 { r.hargs.clear(); }
            r.hargs.push(H::A(f.to_string(), ctx.pick(&bv).clone()));
            let ar = r.hargs.len(); rules.push(r); rules.push(gen_query(ctx, "a", ar)); "aggregate_single_scan" }
        2 => { let ar = 1 + ctx.below(2); let k = 1 + ctx.below(3);
            for _ in 0..k { rules.push(gen_clause(ctx, "a", ar, &ev_, &[], &one)); }
            rules.push(gen_query(ctx, "a", ar)); "union_of_scans" }
        3 => { let ar = 1 + ctx.below(2);
            rules.push(gen_clause(ctx, "a", ar, &ev_, &[], &one));
            let av = vec![("a".to_string(), ar)];
            rules.push(gen_clause(ctx, "b", 1, &av, &[], &one));
            rules.push(gen_query(ctx, "b", 1)); "chain_of_scans" }
        4 => { // partitioned head feeding a join / negation head (single worker)
            let ar = 1 + ctx.below(2);
            rules.push(gen_clause(ctx, "a", ar, &ev_, &[], &one));
            let mut av = ev_.clone(); av.push(("a".to_string(), ar));
            let mut o = ClauseOpts::default(); o.must_use = Some(("a".to_string(), ar)); o.min_atoms = 2;
            rules.push(gen_clause(ctx, "b", 1, &av, &ev_, &o));
            rules.push(gen_query(ctx, "b", 1)); "scan_then_join" }
        _ => { let gp = gen_program(ctx); rules = gp.rules; "general" }
    };
    (name, rules)
}

pub fn gen(ctx: &mut Ctx) -> Vec<String> {
    let mut out = vec![];
    for _ in 0..ctx.budget(300, 3000) { // the partitioner itself
        let ar = 1 + ctx.below(3);
        let t = int_tuple(&(0..ar).map(|_| if ctx.chance(1, 5) { ctx.next() as i64 } else { ctx.range(-3, 40) }).collect::<Vec<_>>());
        out.push(format!("c03.hash {}", tuple_to_wire(&t)));
    }
    // ranking aggregates over a single atom (IQL text; Spec only, see notes/C03.md)
    for _ in 0..ctx.budget(300, 3000) {
        let (shape, text, _) = gen_ranking(ctx);
        ctx.count(&format!("shape_rank_{shape}"));
        let edb = gen_ranking_edb(ctx);
        let w = *ctx.pick(&[2usize, 3, 4, 8]);
        let sw = if ctx.chance(3, 4) { "00000" } else { "11111" };
        out.push(format!("c03.rank {sw}:{w}:0 {} | {}", hex(text.as_bytes()), items_wire(&edb, &[])));
    }
    let n = ctx.budget(600, 6000);
    for _ in 0..n {
        let (shape, rules) = gen_parsafe(ctx);
        ctx.count(&format!("shape_{shape}"));
        let rels = edb_rels_of(&rules); let relrefs: Vec<(&str, usize)> = rels.iter().map(|(r, a)| (r.as_str(), *a)).collect();
        let sz = *ctx.pick(&[0usize, 3, 10, 25, 40]);
        let edb = gen_edb(ctx, &relrefs, sz, 10);
        ctx.add("facts", edb.iter().map(|e| e.1.len() as u64).sum());
        let items = items_wire(&edb, &rules);
        let w = *ctx.pick(&[2usize, 3, 4, 8]);
        out.push(format!("c03.run 00000:{w}:0 | {items}"));
        if ctx.chance(1, 3) { out.push(format!("c03.run 11111:{w}:0 | {items}")); ctx.count("default_cfg"); }
    }
    out
}

pub fn exec(req: &str) -> String {
    if let Some(t) = req.strip_prefix("c03.hash ") {
        return match tuple_of_wire(t) { Some(t) => { let mut h = std::collections::hash_map::DefaultHasher::new(); t.hash(&mut h); h.finish().to_string() } None => "bad-request".into() };
    }
    if let Some(rest) = req.strip_prefix("c03.rank ") {
        let (head, items) = rest.split_once(" | ").unwrap_or((rest, ""));
        let hp: Vec<&str> = head.split(' ').collect(); if hp.len() != 2 { return "bad-request".into(); }
        let (cfg, text, edb) = match (cfg_of_wire(hp[0]), unhex(hp[1]).and_then(|b| String::from_utf8(b).ok()), parse_items(items)) {
            (Some(c), Some(t), Some((e, _))) => (c, t, e), _ => return "bad-request".into() };
        let mut c1 = cfg.clone(); c1.workers = 1;
        return format!("{} / {}", run_engine_text(&c1, &edb, &text), run_engine_text(&cfg, &edb, &text));
    }
    match split_req(req) {
        Some((_, cfg, edb, rules)) => { let mut c1 = cfg.clone(); c1.workers = 1; format!("{} / {}", run_engine(&c1, &edb, &rules), run_engine(&cfg, &edb, &rules)) }
        None => "bad-request".into(),
    }
}
pub const TGEN: Option<fn() -> String> = None;
