//! C28 — complete tables of `authorize_statement` / `authorize_kg_operation` (src/auth.rs).
//!
//! T-gen: `tgen()` parses one representative per statement kind (kinds = variants of `Statement`
//! and `MetaCommand`, named by the wildcard-free `u::authk::kind_of`), evaluates the two real
//! gates for every role and prints the complete graph as `lean/ILV/Gen/C28.lean`. It also
//! (a) re-evaluates the gates on 50 further payloads per kind (payload independence, sampled) and
//! (b) checks the *source shape* of the six functions in src/auth.rs: every pattern binds no
//! payload (`(_)`, `{ .. }`, or the one pass-through `Meta(cmd)`), every `match` scrutinee is a
//! role / the statement / the command, and the only guard is `*role == Role::Viewer`.
//! Both results are emitted as Lean `Bool`s that `Props/C28.lean` requires to be `true`.
//!
//! T-corr (`gen`/`exec`): random statement texts of every kind through the real parser and the
//! real gates, compared with the generated table and judged by the Spec in `Drv/C28.lean`.
use crate::common::*;
use crate::u::authk::*;
use inputlayer::auth::{authorize_kg_operation, authorize_statement, KgRole, Role};
use inputlayer::statement::{parse_statement, Statement};

fn roles() -> Vec<(&'static str, Role)> {
    // wildcard-free: a new role breaks the build
    fn name(r: &Role) -> &'static str { match r { Role::Admin => "admin", Role::Editor => "editor", Role::Viewer => "viewer" } }
    [Role::Admin, Role::Editor, Role::Viewer].into_iter().map(|r| (name(&r), r)).collect()
}
fn kg_roles() -> Vec<(&'static str, KgRole)> {
    fn name(r: &KgRole) -> &'static str { match r { KgRole::Owner => "owner", KgRole::Editor => "editor", KgRole::Viewer => "viewer" } }
    [KgRole::Owner, KgRole::Editor, KgRole::Viewer].into_iter().map(|r| (name(&r), r)).collect()
}

/// the six verdicts of a statement, in the fixed order admin editor viewer | owner editor viewer
fn row(s: &Statement) -> Vec<bool> {
    let mut v: Vec<bool> = roles().iter().map(|(_, r)| authorize_statement(r, s).is_ok()).collect();
    v.extend(kg_roles().iter().map(|(_, r)| authorize_kg_operation(r, s).is_ok()));
    v
}
fn bits(v: &[bool]) -> String { v.iter().map(|b| if *b { "1" } else { "0" }).collect::<Vec<_>>().join(" ") }

/// a parsed statement of exactly this kind (tries a few payloads)
fn representative(ctx: &mut Ctx, kind: &str) -> Option<(String, Statement)> {
    for _ in 0..50 {
        let t = stmt_text(ctx, kind);
        if let Ok(s) = parse_statement(&t) { if kind_of(&s) == kind { return Some((t, s)); } }
    }
    None
}

// ---- source-shape check ---------------------------------------------------------------------
fn fn_body<'a>(src: &'a str, name: &str) -> Option<&'a str> {
    let start = src.find(&format!("fn {name}("))?;
    let open = start + src[start..].find('{')?;
    let mut depth = 0usize;
    for (i, c) in src[open..].char_indices() {
        match c { '{' => depth += 1, '}' => { depth -= 1; if depth == 0 { return Some(&src[open..open + i + 1]); } } _ => {} }
    }
    None
}
fn strip_rust_comments_and_strings(s: &str) -> String {
    let mut out = String::new(); let b: Vec<char> = s.chars().collect(); let mut i = 0;
    while i < b.len() {
        if b[i] == '/' && i + 1 < b.len() && b[i + 1] == '/' { while i < b.len() && b[i] != '\n' { i += 1; } continue; }
        if b[i] == '"' { out.push('"'); i += 1; while i < b.len() && b[i] != '"' { if b[i] == '\\' { i += 1; } i += 1; } out.push('"'); i += 1; continue; }
        out.push(b[i]); i += 1;
    }
    out
}
/// returns the list of shape violations (empty = ok)
pub fn source_shape_problems(src: &str) -> Vec<String> {
    let mut bad = vec![];
    let fns = ["authorize_kg_operation", "authorize_kg_editor", "authorize_kg_viewer", "authorize_statement", "authorize_non_admin", "authorize_non_admin_meta"];
    for f in fns {
        let body = match fn_body(src, f) { Some(b) => strip_rust_comments_and_strings(b), None => { bad.push(format!("{f}: not found")); continue; } };
        let toks: Vec<&str> = body.split(|c: char| c.is_whitespace()).filter(|t| !t.is_empty()).collect();
        // (1) variant patterns bind nothing
        for pre in ["Statement::", "MetaCommand::"] {
            let mut rest = body.as_str();
            while let Some(p) = rest.find(pre) {
                let after = &rest[p + pre.len()..];
                let id_len = after.find(|c: char| !(c.is_alphanumeric() || c == '_')).unwrap_or(after.len());
                let (id, tail) = after.split_at(id_len);
                let tail_t = tail.trim_start();
                if tail_t.starts_with('(') {
                    let close = tail_t.find(')').unwrap_or(0);
                    let inner = tail_t[1..close].trim();
                    let ok = inner == "_" || (pre == "Statement::" && id == "Meta" && inner == "cmd");
                    if !ok { bad.push(format!("{f}: pattern {pre}{id}({inner}) binds a payload")); }
                } else if tail_t.starts_with('{') {
                    let close = tail_t.find('}').unwrap_or(0);
                    let inner = tail_t[1..close].trim();
                    if inner != ".." { bad.push(format!("{f}: pattern {pre}{id} {{{inner}}} binds a payload")); }
                }
                rest = &after[id_len..];
            }
        }
        // (2) guards: only `if *role == Role::Viewer {`
        for (i, t) in toks.iter().enumerate() {
            if *t == "if" {
                let w: Vec<&str> = toks[i + 1..].iter().take(4).copied().collect();
                if w != ["*role", "==", "Role::Viewer", "{"] { bad.push(format!("{f}: unexpected guard `if {}`", w.join(" "))); }
            }
            if *t == "match" {
                let sc = toks.get(i + 1).copied().unwrap_or("");
                if !["kg_role", "role", "stmt", "cmd"].contains(&sc) { bad.push(format!("{f}: match on `{sc}`")); }
            }
        }
        // (3) nothing is called on the statement / command (no field or method access)
        for needle in ["stmt.", "cmd.", "stmt)", "cmd)"] {
            // the only calls taking stmt/cmd are the pass-through calls to the other gate functions
            let mut rest = body.as_str();
            while let Some(p) = rest.find(needle) {
                let before = &rest[..p];
                let call_ok = needle.ends_with(')') && (before.trim_end().ends_with("authorize_kg_editor(") || before.trim_end().ends_with("authorize_kg_viewer(")
                    || before.trim_end().ends_with("Statement::Meta(")
                    || before.trim_end().ends_with("authorize_non_admin(role,") || before.trim_end().ends_with("authorize_non_admin_meta(role,"));
                if !call_ok { bad.push(format!("{f}: statement/command used as `…{needle}`")); }
                rest = &rest[p + needle.len()..];
            }
        }
    }
    bad
}

fn lean_ctor(k: &str) -> String { format!(".{k}") }

fn tgen() -> String {
    let mut ctx = Ctx::new(28, false);
    let kinds = all_kinds();
    let mut rows: Vec<(&str, Vec<bool>)> = vec![];
    let mut missing = vec![];
    let mut payload_bad: Vec<String> = vec![];
    for k in &kinds {
        match representative(&mut ctx, k) {
            None => missing.push(k.to_string()),
            Some((_, s)) => {
                let r = row(&s);
                for _ in 0..50 {
                    if let Some((t, s2)) = representative(&mut ctx, k) { if row(&s2) != r { payload_bad.push(format!("{k}: {t}")); } }
                }
                rows.push((k, r));
            }
        }
    }
    if !missing.is_empty() { panic!("C28 tgen: no representative parses for kinds {:?}", missing); }
    let src = std::fs::read_to_string("/repo/src/auth.rs").unwrap_or_default();
    let shape = source_shape_problems(&src);

    let mut o = String::new();
    o.push_str("/-\n  GENERATED by `ilvh gen C28` (harness/src/p/c28.rs) from the current /repo — do not edit.\n");
    o.push_str("  Complete graphs of `authorize_statement` (src/auth.rs:347) and `authorize_kg_operation`\n  (src/auth.rs:183): one row per Statement/MetaCommand variant × role, obtained by calling the real\n  functions on a parsed representative of every variant.\n-/\n");
    o.push_str("namespace ILV.Gen.C28\n\n");
    o.push_str("/-- one constructor per variant of `Statement` (non-meta) and of `MetaCommand` -/\ninductive StmtKind where\n");
    for k in &kinds { o.push_str(&format!("  | {k}\n")); }
    o.push_str("  deriving DecidableEq, Repr\n\n");
    o.push_str("def StmtKind.all : List StmtKind :=\n  [");
    o.push_str(&kinds.iter().map(|k| lean_ctor(k)).collect::<Vec<_>>().join(", "));
    o.push_str("]\n\n");
    o.push_str("def StmtKind.name : StmtKind → String\n");
    for k in &kinds { o.push_str(&format!("  | .{k} => \"{k}\"\n")); }
    o.push_str("\ndef StmtKind.ofName (s : String) : Option StmtKind := StmtKind.all.find? (fun k => k.name == s)\n\n");
    o.push_str(&format!("/-- is the kind a variant of `MetaCommand` (the other {} are `Statement` variants) -/\ndef StmtKind.isMeta : StmtKind → Bool\n", STMT_NAMES.len()));
    for k in &kinds { o.push_str(&format!("  | .{k} => {}\n", META_NAMES.contains(k))); }
    o.push_str("\ninductive Role where\n");
    for (n, _) in roles() { o.push_str(&format!("  | {n}\n")); }
    o.push_str("  deriving DecidableEq, Repr\n\ninductive KgRole where\n");
    for (n, _) in kg_roles() { o.push_str(&format!("  | {n}\n")); }
    o.push_str("  deriving DecidableEq, Repr\n\n");
    o.push_str("/-- kinds for which `authorize_statement role` returned `Ok` -/\ndef globalAllowed : Role → List StmtKind\n");
    for (i, (n, _)) in roles().iter().enumerate() {
        o.push_str(&format!("  | .{n} => [{}]\n", rows.iter().filter(|(_, r)| r[i]).map(|(k, _)| lean_ctor(k)).collect::<Vec<_>>().join(", ")));
    }
    o.push_str("\n/-- kinds for which `authorize_kg_operation kgRole` returned `Ok` -/\ndef kgAllowed : KgRole → List StmtKind\n");
    for (i, (n, _)) in kg_roles().iter().enumerate() {
        o.push_str(&format!("  | .{n} => [{}]\n", rows.iter().filter(|(_, r)| r[3 + i]).map(|(k, _)| lean_ctor(k)).collect::<Vec<_>>().join(", ")));
    }
    o.push_str("\ndef globalOk (r : Role) (k : StmtKind) : Bool := (globalAllowed r).contains k\n");
    o.push_str("def kgOk (r : KgRole) (k : StmtKind) : Bool := (kgAllowed r).contains k\n\n");
    o.push_str("/-- source-shape check of the six gate functions in src/auth.rs (no payload binding, no guard\n    other than `*role == Role::Viewer`, matches only on role/stmt/cmd) -/\n");
    o.push_str(&format!("def sourceShapeOk : Bool := {}\n", shape.is_empty()));
    for p in &shape { o.push_str(&format!("-- shape problem: {}\n", p.replace('\n', " "))); }
    o.push_str("/-- 50 further random payloads per kind gave the same six verdicts as the representative -/\n");
    o.push_str(&format!("def payloadIndependent : Bool := {}\n", payload_bad.is_empty()));
    for p in payload_bad.iter().take(10) { o.push_str(&format!("-- payload-dependent verdict: {}\n", p.replace('\n', " "))); }
    o.push_str("\nend ILV.Gen.C28\n");
    o
}

pub fn gen(ctx: &mut Ctx) -> Vec<String> {
    let mut out = vec![];
    let per = ctx.budget(40, 400);
    for k in all_kinds() {
        let mut seen = std::collections::BTreeSet::new();
        for _ in 0..per {
            let t = stmt_text(ctx, k);
            match parse_statement(&t) {
                Ok(s) if kind_of(&s) == k => { if seen.insert(t.clone()) { ctx.count(&format!("kind_{k}")); out.push(format!("c28.row {k} {}", hex(t.as_bytes()))); } }
                _ => ctx.count("generator_text_not_of_kind"),
            }
        }
    }
    // malformed / foreign stream: texts that do not parse, or whose kind differs from the label
    for t in ["", "?", "+r(", ".kg frobnicate", ".nosuch", "r(1) :- s(1)", ".user", ".kg acl"] {
        out.push(format!("c28.row parse-error {}", hex(t.as_bytes()))); ctx.count("malformed");
    }
    out.push("c28.shape".to_string());
    out
}

pub fn exec(req: &str) -> String {
    let parts: Vec<&str> = req.split(' ').collect();
    match parts[0] {
        "c28.row" if parts.len() == 3 => {
            let text = match unhex(parts[2]).and_then(|b| String::from_utf8(b).ok()) { Some(t) => t, None => return "bad-request".into() };
            match parse_statement(&text) {
                Err(_) => "parse-error".into(),
                Ok(s) => format!("{} {}", kind_of(&s), bits(&row(&s))),
            }
        }
        "c28.shape" => {
            let src = std::fs::read_to_string("/repo/src/auth.rs").unwrap_or_default();
            let p = source_shape_problems(&src);
            if p.is_empty() { "shape-ok".into() } else { format!("shape-bad {}", p.join(" | ")) }
        }
        _ => "bad-request".into(),
    }
}
pub const TGEN: Option<fn() -> String> = Some(tgen);
