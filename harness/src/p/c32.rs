//! C32 — relations are sets and write reports are accurate, through `Handler::query_program`.
//!
//! request: `c32.hist | item ; item ; …`, each item is rendered to one IQL statement and sent as its own
//! program to the handler (knowledge graph `default`, fresh temp dir per request):
//!   `ins r 1,2 1,2`           -> `+r[(1, 2), (1, 2)]`                      token `I<n>`
//!   `del r 1,2`               -> `-r(1, 2)`                                token `D<n>`
//!   `delb r 1,2 3,4`          -> `-r[(1, 2), (3, 4)]`                      token `D<n>`
//!   `delc r X,_ X>1&s:X`      -> `-r(X, _) <- X > 1, s(X)`                 token `C<n>`
//!   `upd -r:X,Y/+r:Y,X r:X,Y&X<Y` -> `-r(X, Y), +r(Y, X) <- r(X, Y), X < Y`  token `U<d>/<i>`
//!   `obs`                     -> contents of every relation named in the history (snapshot vectors, duplicates kept)
//!   `ord <vars> <body>`       -> the rows of `__ord__(vars) <- body` in the order the engine returns them
//! terms: upper-case identifier = variable, `_` = wildcard, integer = Int64 constant.
use crate::common::*;
use inputlayer::protocol::handler::Handler;
use inputlayer::protocol::wire::WireValue;
use inputlayer::Config;
use std::collections::BTreeSet;

fn term(t: &str) -> String { t.to_string() }
fn args(a: &str) -> String { a.split(',').map(term).collect::<Vec<_>>().join(", ") }
fn tuple_txt(t: &str) -> String { format!("({})", args(t)) }

fn cond(c: &str) -> Option<String> {
    if let Some(rest) = c.strip_prefix('!') { let (r, a) = rest.split_once(':')?; return Some(format!("!{}({})", r, args(a))); }
    if let Some((r, a)) = c.split_once(':') { return Some(format!("{}({})", r, args(a))); }
    for op in ["<=", ">=", "!=", "<", ">", "="] {
        if let Some((l, r)) = c.split_once(op) { return Some(format!("{} {} {}", l, op, r)); }
    }
    None
}
fn body(b: &str) -> Option<String> { Some(b.split('&').map(cond).collect::<Option<Vec<_>>>()?.join(", ")) }

pub fn render(item: &str) -> Option<String> {
    let p: Vec<&str> = item.split(' ').collect();
    match p[0] {
        "ins" if p.len() >= 3 => Some(format!("+{}[{}]", p[1], p[2..].iter().map(|t| tuple_txt(t)).collect::<Vec<_>>().join(", "))),
        "del" if p.len() == 3 => Some(format!("-{}({})", p[1], args(p[2]))),
        "delb" if p.len() >= 3 => Some(format!("-{}[{}]", p[1], p[2..].iter().map(|t| tuple_txt(t)).collect::<Vec<_>>().join(", "))),
        "delc" if p.len() == 4 => Some(format!("-{}({}) <- {}", p[1], args(p[2]), body(p[3])?)),
        "upd" if p.len() == 3 => {
            let heads: Option<Vec<String>> = p[1].split('/').map(|h| { let (sign, rest) = h.split_at(1); let (r, a) = rest.split_once(':')?; Some(format!("{}{}({})", sign, r, args(a))) }).collect();
            Some(format!("{} <- {}", heads?.join(", "), body(p[2])?))
        }
        _ => None,
    }
}

fn rels_of(items: &[&str]) -> Vec<String> {
    let mut s = BTreeSet::new();
    for it in items {
        let p: Vec<&str> = it.split(' ').collect();
        match p[0] {
            "ins" | "del" | "delb" | "delc" if p.len() >= 2 => { s.insert(p[1].to_string()); }
            "upd" if p.len() == 3 => { for h in p[1].split('/') { if let Some((r, _)) = h[1..].split_once(':') { s.insert(r.to_string()); } } }
            _ => {}
        }
        // relations mentioned in bodies
        if let Some(b) = match p[0] { "delc" if p.len() == 4 => Some(p[3]), "upd" if p.len() == 3 => Some(p[2]), "ord" if p.len() == 3 => Some(p[2]), _ => None } {
            for c in b.split('&') { if let Some((r, _)) = c.trim_start_matches('!').split_once(':') { s.insert(r.to_string()); } }
        }
    }
    s.into_iter().collect()
}

fn first_num(s: &str) -> String { s.chars().skip_while(|c| !c.is_ascii_digit()).take_while(|c| c.is_ascii_digit()).collect() }

fn classify(msgs: &[String]) -> String {
    if msgs.len() != 1 { return format!("msgs{}", msgs.len()); }
    let m = &msgs[0];
    if m.starts_with("Inserted ") { format!("I{}", first_num(m)) }
    else if m.starts_with("Deleted ") { format!("D{}", first_num(m)) }
    else if m.starts_with("Conditional delete: ") { format!("C{}", first_num(m)) }
    else if let Some(rest) = m.strip_prefix("Update: ") { let mut it = rest.split(", "); format!("U{}/{}", first_num(it.next().unwrap_or("")), first_num(it.next().unwrap_or(""))) }
    else if m.starts_with("Insert rejected") { "rejected".into() }
    else { "othermsg".into() }
}

fn tup2(ctx: &mut Ctx) -> (i64, i64) { (ctx.range(0, 3), ctx.range(0, 3)) }

/// one history: write statements over r/2 (and q/2), s/1 with an `obs` after each, shapes chosen on purpose
fn history(ctx: &mut Ctx) -> String {
    let n = 3 + ctx.below(9);
    let mut items: Vec<String> = vec![];
    let mut r: Vec<(i64, i64)> = vec![]; // generator-side idea of r (to aim at present / absent tuples)
    // seed so that deletes/conditions have something to act on
    let seed: Vec<(i64, i64)> = (0..(2 + ctx.below(5))).map(|_| tup2(ctx)).collect();
    items.push(format!("ins r {}", seed.iter().map(|(a, b)| format!("{a},{b}")).collect::<Vec<_>>().join(" ")));
    for t in &seed { if !r.contains(t) { r.push(*t); } }
    if ctx.chance(1, 2) { items.push(format!("ins s {}", (0..(1 + ctx.below(3))).map(|_| ctx.range(0, 3).to_string()).collect::<Vec<_>>().join(" "))); }
    items.push("obs".into());
    let ops = ["<", "<=", ">", ">=", "=", "!="];
    for _ in 0..n {
        match ctx.below(100) {
            0..=17 => { // bulk insert with in-batch duplicates and already present tuples
                let k = 1 + ctx.below(4); let mut ts = vec![];
                for _ in 0..k { let t = if !r.is_empty() && ctx.chance(1, 3) { *ctx.pick(&r) } else { tup2(ctx) }; ts.push(t); if ctx.chance(1, 4) { ts.push(t); } }
                for t in &ts { if !r.contains(t) { r.push(*t); } }
                items.push(format!("ins r {}", ts.iter().map(|(a, b)| format!("{a},{b}")).collect::<Vec<_>>().join(" "))); ctx.count("op_ins_bulk");
            }
            18..=27 => { // single delete, present or absent
                let t = if !r.is_empty() && ctx.chance(2, 3) { *ctx.pick(&r) } else { tup2(ctx) };
                r.retain(|x| *x != t); items.push(format!("del r {},{}", t.0, t.1)); ctx.count("op_del_single");
            }
            28..=37 => { // bulk delete with duplicates / absent tuples
                let k = 1 + ctx.below(3); let mut ts = vec![];
                for _ in 0..k { let t = if !r.is_empty() && ctx.chance(1, 2) { *ctx.pick(&r) } else { tup2(ctx) }; ts.push(t); if ctx.chance(1, 3) { ts.push(t); } }
                r.retain(|x| !ts.contains(x));
                items.push(format!("delb r {}", ts.iter().map(|(a, b)| format!("{a},{b}")).collect::<Vec<_>>().join(" "))); ctx.count("op_del_bulk");
            }
            38..=62 => { // conditional delete: every comparison operator, var/const and var/var, atoms, negation, head shapes
                let head = *ctx.pick(&["X,Y", "X,Y", "X,Y", "X,X", "1,Y", "X,2", "X,_", "_,Y"]);
                let op = *ctx.pick(&ops);
                let has_x = head.contains('X'); let has_y = head.contains('Y');
                let v = if has_x { "X" } else { "Y" };
                let cond = match ctx.below(6) {
                    0 | 1 => format!("{v}{op}{}", ctx.range(0, 3)),
                    2 if has_x && has_y => format!("X{op}Y"),
                    3 => format!("s:{v}"),
                    4 => format!("!s:{v}"),
                    5 if has_x && has_y => format!("X{op}{}&Y{}{}", ctx.range(0, 3), *ctx.pick(&ops), ctx.range(0, 3)),
                    _ => format!("{v}{op}{}", ctx.range(0, 3)),
                };
                items.push(format!("delc r {head} {cond}")); ctx.count("op_del_cond");
                if head.contains('_') { ctx.count("op_del_cond_wildcard_head"); }
                r.clear(); // unknown to the generator from here on; refreshed by later inserts
            }
            63..=92 => { // update shapes, with and without overlap of delete and insert sets
                let u = match ctx.below(8) {
                    0 => "upd -r:X,Y/+r:Y,X r:X,Y".to_string(),                       // swap: cross-binding overlap
                    1 => "upd -r:X,Y/+r:Y,X r:X,Y&X<Y".to_string(),                   // swap one direction
                    2 => format!("upd -r:X,Y/+r:X,{} r:X,Y&Y{}{}", ctx.range(0, 4), *ctx.pick(&ops), ctx.range(0, 3)), // set a column
                    3 => "upd -r:X,Y/+r:Y,Z r:X,Y&r:Y,Z".to_string(),                // chain
                    4 => format!("upd -r:X,Y/+q:X,Y r:X,Y&X{}{}", *ctx.pick(&ops), ctx.range(0, 3)), // move to another relation
                    5 => "upd -r:X,Y/+r:X,Y r:X,Y".to_string(),                       // same tuple deleted and re-inserted
                    6 => "upd -r:X,Y/+r:X,Z r:X,Y&s:Z".to_string(),                   // fan-out through s
                    _ => format!("upd -r:{},Y/+r:{},9 r:{},Y", 1, 1, 1),              // constants
                };
                items.push(u); ctx.count("op_update"); r.clear();
            }
            93..=95 => { items.push(format!("ins r {}", ctx.range(0, 3))); ctx.count("op_ins_wrong_arity"); }
            _ => { items.push(format!("ord X,Y r:X,Y&X{}{}", *ctx.pick(&ops), ctx.range(0, 3))); ctx.count("op_ord"); continue; }
        }
        items.push("obs".into());
    }
    items.join(" ; ")
}

pub fn gen(ctx: &mut Ctx) -> Vec<String> {
    let mut out = vec![];
    // fixed shapes: each comparison operator once, each update shape once
    for op in ["<", "<=", ">", ">=", "=", "!="] {
        out.push(format!("c32.hist | ins r 0,0 0,1 1,0 1,2 2,1 2,2 3,0 ; delc r X,Y X{op}1 ; obs ; delc r X,Y X{op}Y ; obs"));
    }
    out.push("c32.hist | ins r 1,2 1,2 3,4 ; obs ; ins r 1,2 5,6 ; obs ; del r 1,2 ; del r 1,2 ; delb r 3,4 3,4 9,9 ; obs".into());
    ctx.add("fixed_histories", out.len() as u64);
    let n = ctx.budget(500, 5000);
    for _ in 0..n { out.push(format!("c32.hist | {}", history(ctx))); }
    ctx.add("random_histories", n as u64);
    out
}

pub fn exec(req: &str) -> String {
    let (head, tail) = match req.split_once(" | ") { Some(x) => x, None => (req.trim_end_matches(" |"), "") };
    if head != "c32.hist" { return "bad-request".into(); }
    let items: Vec<&str> = if tail.is_empty() { vec![] } else { tail.split(" ; ").collect() };
    let rels = rels_of(&items);
    let dir = match tempfile::TempDir::new() { Ok(d) => d, Err(_) => return "err:tempdir".into() };
    let mut cfg = Config::default();
    cfg.storage.data_dir = dir.path().to_path_buf();
    cfg.storage.performance.num_threads = 1;
    let rt = match tokio::runtime::Builder::new_current_thread().enable_all().build() { Ok(r) => r, Err(_) => return "err:runtime".into() };
    let h = match Handler::from_config(cfg) { Ok(h) => h, Err(_) => return "err:open".into() };
    let mut out: Vec<String> = vec![];
    for it in &items {
        let p: Vec<&str> = it.split(' ').collect();
        let tok = if p[0] == "obs" {
            let st = h.get_storage();
            match st.get_snapshot_for("default") {
                Ok(snap) => { let v: Vec<String> = rels.iter().map(|r| format!("{}={}", r, match snap.input_tuples.get(r) { Some(ts) => rel_to_wire(ts), None => "-".into() })).collect(); if v.is_empty() { "()".into() } else { v.join(" ") } }
                Err(_) => "err:snapshot".into(),
            }
        } else if p[0] == "ord" && p.len() == 3 {
            match body(p[2]) {
                Some(b) => {
                    let rule = format!("__ord__({}) <- {}", args(p[1]), b);
                    let st = h.get_storage();
                    match st.execute_query_with_rules_tuples_on("default", &rule) { Ok(ts) => { let v: Vec<String> = ts.iter().map(tuple_to_wire).collect(); format!("[{}]", v.join(";")) } Err(_) => "err:query".into() }
                }
                None => "bad-item".into(),
            }
        } else {
            match render(it) {
                None => "bad-item".into(),
                Some(text) => match rt.block_on(h.query_program(Some("default".to_string()), text)) {
                    Ok(qr) => { let msgs: Vec<String> = qr.rows.iter().map(|r| match r.values.first() { Some(WireValue::String(s)) => s.clone(), _ => "?".into() }).collect(); classify(&msgs) }
                    Err(e) => if e.contains("Arity") || e.contains("arity") { "err:arity".into() } else if e.contains("parse") || e.contains("Parse") || e.contains("alidation") { "err:parse".into() } else { "err:other".into() },
                },
            }
        };
        out.push(tok);
    }
    if out.is_empty() { "empty".into() } else { out.join(" | ") }
}
pub const TGEN: Option<fn() -> String> = None;
