//! C23 — why-not explanations are truthful: `.why_not rel(values)` through the real Handler for every
//! candidate tuple over the domain of every derived relation; the real why-not tree is rendered
//! clause by clause (facts matched, blocker, bindings reached).
use crate::common::*;
use crate::u::prov::*;
use crate::u::provgen;

pub fn gen(ctx: &mut Ctx) -> Vec<String> { provgen::gen_whynot(ctx, "c23") }

pub fn exec(req: &str) -> String {
    match req.split(' ').next().unwrap_or("") {
        "c23.whynot" => exec_whynot(req),
        _ => "bad-request".into(),
    }
}
pub const TGEN: Option<fn() -> String> = None;
