//! C18 — materialisation and incremental maintenance are invisible.
//!
//! One request = one history: `c18.hist <cfg> | step ; step ; …`, run in-process against TWO real
//! `StorageEngine`s on fresh temp dirs: `inc` (incremental maintenance gets switched on by the `idx`
//! step, exactly as `Handler::create_index` does it: `enable_incremental` + `register_index` under
//! `with_kg_mut`) and its `twin`, which receives the same steps except `idx`/`idxdrop`.
//! Output = the per-step results joined by ` ; ` (see `step`).
//! cfg `se` drives `StorageEngine` directly; cfg `h` sends every step as IQL text through the protocol
//! `Handler::execute_program` (schema + `.index create` for `idx`); there acknowledgements are reduced to
//! `ok`/`err`, `m`/`mat` reach the manager through `Handler::get_storage()`.
//!
//! Steps (rules are encoded structurally, the harness renders IQL text):
//!   ins r 1,2 3,4      insert tuples            -> `ins:<new>,<dup>` | `ins:err:<kind>`
//!   del r 1,2          delete tuples            -> `del:<n>`
//!   reg b(X)<-a(X)&e(X,1)   register clause     -> `reg:created` | `reg:added:<n>` | `reg:err:<kind>`
//!   rmc b 0            remove clause by index   -> `rmc:removed` | `rmc:deleted` | `rmc:err`
//!   rep b 0 <rule>     replace clause           -> `rep:ok` | `rep:err`
//!   clr b              clear clauses            -> `clr:ok` | `clr:err`
//!   drop b             drop rule                -> `drop:ok` | `drop:err`
//!   dropp b            drop rules by prefix     -> `dropp:<names,>`
//!   drel r             drop relation            -> `drel:ok` | `drel:err`
//!   clrp r             clear relations by prefix-> `clrp:<rel=n,>`
//!   idx                create an index (turns incremental maintenance on; inc engine only) -> `idx:ok|err`
//!   idxdrop            drop that index          -> `idxdrop:ok|err`
//!   q b(X,1)           query                    -> `q:<inc answer>/<twin answer>`
//!   m                  dump of the inc engine's DerivedRelationsManager
//!                        -> `m:<name>=<tuples>!<v|i>,…/<base>><derived.derived>,…` | `m:off`
use crate::common::*;
use inputlayer::index_manager::{DistanceMetric, HnswConfig, IndexType, RegisteredIndex};
use inputlayer::{Config, StorageEngine, Tuple, Value};

const KG: &str = "default";

/// data directories live on tmpfs when there is one: C18 is not about durability, and two engines per
/// history otherwise spend most of their time in fsync under a loaded disk
fn data_dir() -> tempfile::TempDir {
    let shm = std::path::Path::new("/dev/shm");
    if shm.is_dir() { if let Ok(d) = tempfile::Builder::new().prefix("ilv-c18-").tempdir_in(shm) { return d; } }
    tempfile::TempDir::new().unwrap()
}

fn cfg(d: &std::path::Path) -> Config {
    let mut c = Config::default();
    c.storage.data_dir = d.to_path_buf();
    c.storage.performance.num_threads = 1;
    c
}

// ---------------------------------------------------------------------------------------------
// structural rule syntax: head(args)<-atom&atom ; term = Upper-case variable | integer constant
// ---------------------------------------------------------------------------------------------
#[derive(Clone, Debug, PartialEq)]
pub struct Atom { pub rel: String, pub args: Vec<String> }
#[derive(Clone, Debug, PartialEq)]
pub struct Clause { pub head: Atom, pub body: Vec<Atom> }

fn ident_ok(s: &str) -> bool {
    let mut cs = s.chars();
    matches!(cs.next(), Some(c) if c.is_ascii_lowercase()) && cs.all(|c| c.is_ascii_lowercase() || c.is_ascii_digit() || c == '_')
}
fn term_ok(s: &str) -> bool {
    let mut cs = s.chars();
    match cs.next() {
        Some(c) if c.is_ascii_uppercase() => cs.all(|c| c.is_ascii_digit()),
        Some('-') => { let r: Vec<char> = cs.collect(); !r.is_empty() && r.iter().all(|c| c.is_ascii_digit()) }
        Some(c) if c.is_ascii_digit() => cs.all(|c| c.is_ascii_digit()),
        _ => false,
    }
}
pub fn parse_atom(s: &str) -> Option<Atom> {
    let (rel, rest) = s.split_once('(')?;
    let inner = rest.strip_suffix(')')?;
    if !ident_ok(rel) || inner.is_empty() { return None; }
    let args: Vec<String> = inner.split(',').map(|x| x.to_string()).collect();
    if !args.iter().all(|a| term_ok(a)) { return None; }
    Some(Atom { rel: rel.to_string(), args })
}
pub fn parse_clause(s: &str) -> Option<Clause> {
    let (h, b) = s.split_once("<-")?;
    let head = parse_atom(h)?;
    let body: Option<Vec<Atom>> = b.split('&').map(parse_atom).collect();
    let body = body?;
    if body.is_empty() { return None; }
    Some(Clause { head, body })
}
fn atom_text(a: &Atom) -> String { format!("{}({})", a.rel, a.args.join(", ")) }
fn clause_text(c: &Clause) -> String {
    format!("{} <- {}", atom_text(&c.head), c.body.iter().map(atom_text).collect::<Vec<_>>().join(", "))
}
fn parse_tuple(s: &str) -> Option<Tuple> {
    let vs: Option<Vec<Value>> = s.split(',').map(|x| x.parse::<i64>().ok().map(Value::Int64)).collect();
    Some(Tuple::new(vs?))
}

// ---------------------------------------------------------------------------------------------
// canonical output
// ---------------------------------------------------------------------------------------------
fn val_out(v: &Value) -> String {
    match v { Value::Int64(n) => n.to_string(), Value::Int32(n) => format!("i32:{n}"), other => format!("?{}", val_to_wire(other)) }
}
fn tuple_key(t: &Tuple) -> Vec<i64> { t.values().iter().map(|v| match v { Value::Int64(n) => *n, Value::Int32(n) => *n as i64, _ => i64::MAX }).collect() }
/// a relation as a sorted (numerically, lexicographic) list WITH duplicates preserved: `[1,2|3,4]`
fn rel_out(ts: &[Tuple]) -> String {
    let mut v: Vec<&Tuple> = ts.iter().collect();
    v.sort_by_key(|t| tuple_key(t));
    format!("[{}]", v.iter().map(|t| t.values().iter().map(val_out).collect::<Vec<_>>().join(",")).collect::<Vec<_>>().join("|"))
}
fn err_kind(e: &str) -> &'static str {
    let e = e.to_lowercase();
    if e.contains("derived relation (view)") { "view" }
    else if e.contains("arity mismatch") { "arity" }
    else if e.contains("unstratified") { "unstrat" }
    else if e.contains("unsafe") { "unsafe" }
    else if e.contains("does not exist") || e.contains("not found") { "missing" }
    else if e.contains("out of bounds") { "bounds" }
    else if e.contains("unknown relation") || e.contains("undefined") { "unknown-rel" }
    else { "other" }
}

struct Eng { se: StorageEngine, _d: tempfile::TempDir, inc: bool, names: Vec<String> }
impl Eng {
    fn new(inc: bool, names: Vec<String>) -> Eng {
        let d = data_dir();
        let se = StorageEngine::new(cfg(d.path())).unwrap();
        Eng { se, _d: d, inc, names }
    }
    /// `?rel(args)` as `Handler` runs it: `transform_query_shorthand` (handler.rs) turns constants into
    /// `_c<i>` variables plus `_c<i> = k` constraints under the head `__query__`.
    fn query_tuples(&self, a: &Atom) -> Result<Vec<Tuple>, String> {
        let mut hv = vec![]; let mut cons = vec![];
        for (i, t) in a.args.iter().enumerate() {
            if t.chars().next().map_or(false, |c| c.is_ascii_uppercase()) { hv.push(t.clone()); }
            else { hv.push(format!("_c{i}")); cons.push(format!("_c{i} = {t}")); }
        }
        let mut body = vec![format!("{}({})", a.rel, hv.join(", "))]; body.extend(cons);
        let text = format!("__query__({}) <- {}", hv.join(", "), body.join(", "));
        self.se.execute_query_with_rules_tuples_on(KG, &text).map_err(|e| e.to_string())
    }
    fn query(&self, a: &Atom) -> String {
        match self.query_tuples(a) { Ok(ts) => rel_out(&ts), Err(e) => format!("err:{}", err_kind(&e)) }
    }
    fn step(&mut self, parts: &[&str]) -> Option<String> {
        let se = &mut self.se;
        Some(match parts {
            ["ins", rel, ts @ ..] if !ts.is_empty() => {
                let ts: Option<Vec<Tuple>> = ts.iter().map(|t| parse_tuple(t)).collect();
                match se.insert_tuples_into(KG, rel, ts?) { Ok((n, d)) => format!("ins:{n},{d}"), Err(e) => format!("ins:err:{}", err_kind(&e.to_string())) }
            }
            ["del", rel, ts @ ..] if !ts.is_empty() => {
                let ts: Option<Vec<Tuple>> = ts.iter().map(|t| parse_tuple(t)).collect();
                match se.delete_tuples_from(KG, rel, ts?) { Ok(n) => format!("del:{n}"), Err(e) => format!("del:err:{}", err_kind(&e.to_string())) }
            }
            ["reg", rule] => {
                let c = parse_clause(rule)?;
                let def = match inputlayer::statement::parse_rule_definition(&clause_text(&c)) { Ok(d) => d, Err(_) => return Some("reg:err:parse".into()) };
                match se.register_rule_in(KG, &def) {
                    Ok(inputlayer::rule_catalog::RuleRegisterResult::Created) => "reg:created".into(),
                    Ok(inputlayer::rule_catalog::RuleRegisterResult::RuleAdded(n)) => format!("reg:added:{n}"),
                    Err(e) => format!("reg:err:{}", err_kind(&e.to_string())),
                }
            }
            ["rmc", name, idx] => match se.remove_rule_clause_in(KG, name, idx.parse().ok()?) {
                Ok(true) => "rmc:deleted".into(), Ok(false) => "rmc:removed".into(), Err(e) => format!("rmc:err:{}", err_kind(&e.to_string())) },
            ["rep", name, idx, rule] => {
                let c = parse_clause(rule)?;
                if c.head.rel != *name { return None; }
                let def = match inputlayer::statement::parse_rule_definition(&clause_text(&c)) { Ok(d) => d, Err(_) => return Some("rep:err:parse".into()) };
                match se.replace_rule_in(KG, name, idx.parse().ok()?, def.rule) { Ok(()) => "rep:ok".into(), Err(e) => format!("rep:err:{}", err_kind(&e.to_string())) }
            }
            ["clr", name] => match se.clear_rule_in(KG, name) { Ok(()) => "clr:ok".into(), Err(e) => format!("clr:err:{}", err_kind(&e.to_string())) },
            ["drop", name] => match se.drop_rule_in(KG, name) { Ok(()) => "drop:ok".into(), Err(e) => format!("drop:err:{}", err_kind(&e.to_string())) },
            ["dropp", pre] => match se.drop_rules_by_prefix_in(KG, pre) { Ok(v) => format!("dropp:{}", v.join(",")), Err(e) => format!("dropp:err:{}", err_kind(&e.to_string())) },
            ["drel", name] => match se.drop_relation_in(KG, name) { Ok(()) => "drel:ok".into(), Err(e) => format!("drel:err:{}", err_kind(&e.to_string())) },
            ["clrp", pre] => match se.clear_relations_by_prefix_in(KG, pre) {
                Ok(v) => format!("clrp:{}", v.iter().map(|(r, n)| format!("{r}={n}")).collect::<Vec<_>>().join(",")),
                Err(e) => format!("clrp:err:{}", err_kind(&e.to_string())) },
            ["idx"] => {
                if !self.inc { return Some(String::new()); }
                // what Handler::create_index does once its argument checks have passed
                let reg = RegisteredIndex { name: "ix".into(), relation: "vecs".into(), column_idx: 1, column_name: "v".into(),
                    index_type: IndexType::Hnsw(HnswConfig { m: 16, ef_construction: 200, ef_search: 50, metric: DistanceMetric::Cosine }) };
                let r = se.with_kg_mut(KG, |k| { k.enable_incremental().map_err(|e| e.to_string())?;
                    match k.incremental() { Some(dd) => dd.register_index(reg), None => Err("no incremental".into()) } });
                match r { Ok(()) => "idx:ok".into(), Err(_) => "idx:err".into() }
            }
            ["idxdrop"] => {
                if !self.inc { return Some(String::new()); }
                let r = se.with_kg_read(KG, |k| match k.incremental() { Some(dd) => dd.remove_index("ix"), None => Err("none".into()) });
                match r { Ok(()) => "idxdrop:ok".into(), Err(_) => "idxdrop:err".into() }
            }
            ["m"] => {
                if !self.inc { return Some(String::new()); }
                let names = &self.names;
                let r = se.with_kg_read(KG, |k| Ok(match k.incremental() {
                    None => "m:off".to_string(),
                    Some(dd) => {
                        let mgr = dd.derived_relations(); let g = mgr.lock();
                        // the manager's maps are private: probe every identifier of the history (sorted)
                        let valid = g.get_all_valid_materializations();
                        let mut mats = vec![];
                        for n in names { if let Some(ts) = valid.get(n) { mats.push(format!("{n}={}", rel_out(ts))); } }
                        let mut deps = vec![];
                        for n in names { if let Some(s) = g.get_dependent_derived(n) { let mut v: Vec<&String> = s.iter().collect(); v.sort();
                            if !v.is_empty() { deps.push(format!("{n}>{}", v.iter().map(|x| x.as_str()).collect::<Vec<_>>().join("."))); } } }
                        let mut rules = vec![];
                        for n in names { if g.is_derived(n) { rules.push(n.as_str()); } }
                        format!("m:{}/{}/{}", mats.join(","), deps.join(","), rules.join(","))
                    }
                }));
                r.unwrap_or_else(|_| "m:err".into())
            }
            _ => return None,
        })
    }
}


// ---------------------------------------------------------------------------------------------
// cfg `h`: the same history as IQL text through the protocol handler
// ---------------------------------------------------------------------------------------------
use inputlayer::protocol::handler::Handler;
use inputlayer::protocol::wire::WireValue;

struct HEng { h: Handler, _d: tempfile::TempDir, inc: bool, names: Vec<String> }
impl HEng {
    fn new(inc: bool, names: Vec<String>) -> HEng {
        let d = data_dir();
        let h = Handler::from_config(cfg(d.path())).unwrap();
        HEng { h, _d: d, inc, names }
    }
    fn run(&self, rt: &tokio::runtime::Runtime, text: &str) -> Result<Vec<Tuple>, String> {
        let r = rt.block_on(self.h.execute_program(None, Some(KG.to_string()), text.to_string(), None))?;
        Ok(r.rows.iter().map(|t| Tuple::new(t.values.iter().map(|v| match v {
            WireValue::Int64(n) => Value::Int64(*n), WireValue::Int32(n) => Value::Int32(*n), _ => Value::Null }).collect())).collect())
    }
    /// the handler's acknowledgements are its own business (most failures are reported as messages of a
    /// successful reply): only the state they leave behind is compared, through `q`, `mat` and `m`
    fn ack(&self, rt: &tokio::runtime::Runtime, _tag: &str, text: &str) -> String {
        let _ = self.run(rt, text); ".".into()
    }
    fn query_tuples(&self, rt: &tokio::runtime::Runtime, a: &Atom) -> Result<Vec<Tuple>, String> { self.run(rt, &format!("?{}", atom_text(a))) }
    fn step(&self, rt: &tokio::runtime::Runtime, parts: &[&str]) -> Option<String> {
        let tup = |t: &str| format!("({})", t.split(',').collect::<Vec<_>>().join(", "));
        Some(match parts {
            ["ins", rel, ts @ ..] if !ts.is_empty() => self.ack(rt, "ins", &format!("+{rel}[{}]", ts.iter().map(|t| tup(t)).collect::<Vec<_>>().join(", "))),
            ["del", rel, ts @ ..] if !ts.is_empty() => { let mut ok = true; for t in ts { if self.run(rt, &format!("-{rel}{}", tup(t))).is_err() { ok = false; } } let _ = ok; ".".into() }
            ["reg", rule] => { let c = parse_clause(rule)?; self.ack(rt, "reg", &format!("+{}", clause_text(&c))) }
            ["rmc", name, idx] => { let k: usize = idx.parse().ok()?; self.ack(rt, "rmc", &format!(".rule remove {name} {}", k + 1)) }
            ["clr", name] => self.ack(rt, "clr", &format!(".rule clear {name}")),
            ["drop", name] => self.ack(rt, "drop", &format!(".rule drop {name}")),
            ["dropp", pre] => self.ack(rt, "dropp", &format!(".rule drop prefix {pre}")),
            ["drel", name] => self.ack(rt, "drel", &format!(".rel drop {name}")),
            ["clrp", pre] => self.ack(rt, "clrp", &format!(".clear prefix {pre}")),
            ["idx"] => { if !self.inc { return Some(String::new()); }
                let _ = self.run(rt, "+vecs(id: int, v: vector)");
                self.ack(rt, "idx", ".index create ix on vecs(v)") }
            ["idxdrop"] => { if !self.inc { return Some(String::new()); } self.ack(rt, "idxdrop", ".index drop ix") }
            ["m"] => { if !self.inc { return Some(String::new()); }
                let st = self.h.get_storage();
                let names = &self.names;
                let r = st.with_kg_read(KG, |k| Ok(match k.incremental() {
                    None => "m:off".to_string(),
                    Some(dd) => { let mgr = dd.derived_relations(); let g = mgr.lock();
                        let valid = g.get_all_valid_materializations();
                        let mut mats = vec![]; for n in names { if let Some(ts) = valid.get(n) { mats.push(format!("{n}={}", rel_out(ts))); } }
                        let mut deps = vec![]; for n in names { if let Some(s) = g.get_dependent_derived(n) { let mut v: Vec<&String> = s.iter().collect(); v.sort();
                            if !v.is_empty() { deps.push(format!("{n}>{}", v.iter().map(|x| x.as_str()).collect::<Vec<_>>().join("."))); } } }
                        let mut rules = vec![]; for n in names { if g.is_derived(n) { rules.push(n.as_str()); } }
                        format!("m:{}/{}/{}", mats.join(","), deps.join(","), rules.join(",")) } }));
                r.unwrap_or_else(|_| "m:err".into()) }
            _ => return None,
        })
    }
}

fn exec_h(tail: &str, names: Vec<String>) -> String {
    let rt = tokio::runtime::Builder::new_current_thread().enable_all().build().unwrap();
    let inc = HEng::new(true, names);
    let twin = HEng::new(false, vec![]);
    let mut out = vec![];
    for item in tail.split(" ; ") {
        let parts: Vec<&str> = item.split(' ').collect();
        if let ["mat", name, ar] = parts[..] {
            let ar: usize = match ar.parse() { Ok(n) if n >= 1 && n <= 3 => n, _ => return "bad-request".into() };
            let a = Atom { rel: name.to_string(), args: (0..ar).map(|i| format!("V{i}")).collect() };
            let r = match twin.query_tuples(&rt, &a) {
                Err(_) => "mat:err".to_string(),
                Ok(ts) => { let st = inc.h.get_storage();
                    match st.with_kg_read(KG, |k| k.materialize_derived_relation(name, ts.clone())) { Ok(()) => format!("mat:{}", rel_out(&ts)), Err(_) => "mat:off".into() } } };
            out.push(r); continue;
        }
        if let ["q", atom] = parts[..] {
            let a = match parse_atom(atom) { Some(a) => a, None => return "bad-request".into() };
            let f = |e: &HEng| match e.query_tuples(&rt, &a) { Ok(ts) => rel_out(&ts), Err(_) => "err".to_string() };
            out.push(format!("q:{}/{}", f(&inc), f(&twin))); continue;
        }
        let r1 = match inc.step(&rt, &parts) { Some(r) => r, None => return "bad-request".into() };
        let r2 = twin.step(&rt, &parts).unwrap_or_default();
        if r2.is_empty() || r1 == r2 { out.push(r1) } else { out.push(format!("{r1}!twin:{r2}")) }
    }
    out.join(" ; ")
}

pub fn exec(req: &str) -> String {
    let (head, tail) = match req.split_once(" | ") { Some(x) => x, None => (req, "") };
    let hp: Vec<&str> = head.split(' ').collect();
    if hp.len() != 2 || hp[0] != "c18.hist" || (hp[1] != "se" && hp[1] != "h") { return "bad-request".into(); }
    // every lower-case identifier of the request, sorted: the names the `m` dump probes
    let mut names: Vec<String> = vec![];
    let mut cur = String::new();
    for ch in tail.chars().chain(std::iter::once(' ')) {
        if ch.is_ascii_lowercase() || ((ch.is_ascii_digit() || ch == '_') && !cur.is_empty()) { cur.push(ch); }
        else { if !cur.is_empty() { names.push(std::mem::take(&mut cur)); } }
    }
    names.sort(); names.dedup();
    if tail.is_empty() { return String::new(); }
    if hp[1] == "h" { return exec_h(tail, names); }
    let mut inc = Eng::new(true, names);
    let mut twin = Eng::new(false, vec![]);
    let mut out = vec![];
    if tail.is_empty() { return String::new(); }
    for item in tail.split(" ; ") {
        let parts: Vec<&str> = item.split(' ').collect();
        if let ["mat", name, ar] = parts[..] {
            // the only materialisation reachable on the pinned tree: the public
            // `KnowledgeGraph::materialize_derived_relation`, fed with the twin's (fresh) answer
            let ar: usize = match ar.parse() { Ok(n) if n >= 1 && n <= 3 => n, _ => return "bad-request".into() };
            let a = Atom { rel: name.to_string(), args: (0..ar).map(|i| format!("V{i}")).collect() };
            let r = match twin.query_tuples(&a) {
                Err(e) => format!("mat:err:{}", err_kind(&e)),
                Ok(ts) => match inc.se.with_kg_read(KG, |k| k.materialize_derived_relation(name, ts.clone())) { Ok(()) => format!("mat:{}", rel_out(&ts)), Err(_) => "mat:off".into() },
            };
            out.push(r);
            continue;
        }
        if let ["q", atom] = parts[..] {
            let a = match parse_atom(atom) { Some(a) => a, None => return "bad-request".into() };
            out.push(format!("q:{}/{}", inc.query(&a), twin.query(&a)));
            continue;
        }
        let r1 = match inc.step(&parts) { Some(r) => r, None => return "bad-request".into() };
        let r2 = twin.step(&parts).unwrap_or_default();
        if r2.is_empty() || r1 == r2 { out.push(r1) } else { out.push(format!("{r1}!twin:{r2}")) }
    }
    out.join(" ; ")
}

// ---------------------------------------------------------------------------------------------
// generator
// ---------------------------------------------------------------------------------------------
/// relation pool with fixed arities; derived names are ordered, a body may mention base relations,
/// derived names strictly earlier in this order (no mutual recursion) and the head itself.
const BASE: [(&str, usize); 3] = [("e", 2), ("f", 1), ("g", 1)];
const DERIVED: [(&str, usize); 5] = [("a", 1), ("ab", 1), ("b", 1), ("c", 2), ("p", 2)];
const VARS: [&str; 3] = ["X", "Y", "Z"];

fn arity_of(r: &str) -> usize { BASE.iter().chain(DERIVED.iter()).find(|(n, _)| *n == r).map(|x| x.1).unwrap_or(1) }
fn is_var(t: &str) -> bool { t.chars().next().map_or(false, |c| c.is_ascii_uppercase()) }
fn clause_wire(c: &Clause) -> String {
    let a = |a: &Atom| format!("{}({})", a.rel, a.args.join(","));
    format!("{}<-{}", a(&c.head), c.body.iter().map(a).collect::<Vec<_>>().join("&"))
}

/// shadow of the rule catalog: keeps rule heads and stored relations apart (the engine's treatment of
/// stored tuples under a rule head is outside C18) and knows which wrong-arity inserts are refused.
#[derive(Clone, Default)]
struct Shadow { cat: Vec<(String, Vec<Clause>)>, inc: bool, mats: Vec<String>, stored: Vec<String> }
impl Shadow {
    fn get(&self, n: &str) -> Option<&Vec<Clause>> { self.cat.iter().find(|(k, _)| k == n).map(|x| &x.1) }
    /// every clause set is in the supported fragment since the join planner plans each Union branch
    /// separately (`fix:` 0302469); before that a non-recursive head with >= 2 clauses one of which is a
    /// join had to be avoided (the engine answered `[]` for it)
    fn shape_ok(_cs: &[Clause], _head: &str) -> bool { true }
    fn safe(c: &Clause) -> bool { c.head.args.iter().filter(|t| is_var(t)).all(|v| c.body.iter().any(|a| a.args.contains(v))) }
    /// apply a step to the shadow; false = the step would leave the supported fragment
    fn apply(&mut self, parts: &[&str]) -> bool {
        match parts {
            // stored tuples under a rule head: how the engine combines them with the rules depends on the
            // head being recursive (engine-level convention, outside C18) — keep the name spaces apart
            ["ins", r, t, ..] if t.split(',').count() != arity_of(r) => self.stored.iter().any(|x| x == r),   // wrong arity: only where it is certain to be refused
            ["ins", r, ..] => { if DERIVED.iter().any(|(n, _)| n == r) { if self.get(r).is_none() { return false; } } else if !self.stored.iter().any(|x| x == r) { self.stored.push(r.to_string()); } true }
            ["reg", rule] => { let c = parse_clause(rule).unwrap(); if !Self::safe(&c) { return true; }
                let n = c.head.rel.clone();
                match self.cat.iter_mut().find(|(k, _)| *k == n) {
                    Some((_, cs)) => { if let Some(c0) = cs.first() { if c0.head.args.len() != c.head.args.len() { return true; } }
                        if !cs.contains(&c) { let mut t = cs.clone(); t.push(c); if !Self::shape_ok(&t, &n) { return false; } *cs = t; } }
                    None => self.cat.push((n, vec![c])) } true }
            ["rmc", n, k] => { let k: usize = k.parse().unwrap();
                if let Some(pos) = self.cat.iter().position(|(x, _)| x == n) { let cs = &self.cat[pos].1; if k < cs.len() { let mut t = cs.clone(); t.remove(k);
                    if !Self::shape_ok(&t, n) { return false; } if t.is_empty() { self.cat.remove(pos); } else { self.cat[pos].1 = t; } } } true }
            ["rep", n, k, rule] => { let k: usize = k.parse().unwrap(); let c = parse_clause(rule).unwrap();
                if let Some(pos) = self.cat.iter().position(|(x, _)| x == n) { let cs = &self.cat[pos].1; if k < cs.len() { let mut t = cs.clone(); t[k] = c;
                    if !Self::shape_ok(&t, n) || t.iter().any(|x| x.head.args.len() != t[0].head.args.len()) || !t.iter().all(Self::safe) { return false; } self.cat[pos].1 = t; } } true }
            ["clr", n] => { if let Some(x) = self.cat.iter_mut().find(|(k, _)| k == n) { x.1.clear(); } true }
            ["drop", n] => { self.cat.retain(|(k, _)| k != n); self.mats.retain(|m| m != n); true }
            ["drel", n] => { self.cat.retain(|(k, _)| k != n); self.mats.retain(|m| m != n); self.stored.retain(|m| m != n); true }
            ["dropp", pre] => { self.cat.retain(|(k, _)| !k.starts_with(pre)); self.mats.retain(|m| !m.starts_with(pre)); true }
            ["idx"] => { self.inc = true; true }
            ["mat", n, _] => { if self.inc && !self.mats.iter().any(|m| m == n) { self.mats.push(n.to_string()); } true }
            _ => true,
        }
    }
}

fn rnd_term(ctx: &mut Ctx, vars: &[&str], pconst: u64) -> String {
    if ctx.chance(pconst, 100) { ctx.below(4).to_string() } else { ctx.pick(vars).to_string() }
}
fn rnd_atom(ctx: &mut Ctx, rel: &str, pconst: u64) -> Atom {
    let ar = arity_of(rel);
    Atom { rel: rel.to_string(), args: (0..ar).map(|_| rnd_term(ctx, &VARS, pconst)).collect() }
}
/// a clause for `head` whose body mentions `rels` (1 or 2 of them); head arguments are drawn from the body variables
fn rnd_clause(ctx: &mut Ctx, head: &str, rels: &[&str]) -> Clause {
    let body: Vec<Atom> = rels.iter().map(|r| rnd_atom(ctx, r, 12)).collect();
    let mut bv: Vec<&str> = vec![];
    for a in &body { for t in &a.args { if is_var(t) && !bv.contains(&t.as_str()) { bv.push(t.as_str()); } } }
    let har = arity_of(head);
    let args: Vec<String> = (0..har).map(|i| {
        if bv.is_empty() || ctx.chance(6, 100) { ctx.below(4).to_string() }
        else if ctx.chance(2, 100) { "W".to_string() }            // unbound head variable: rejected as not range-restricted
        else { bv[(i + ctx.below(2)) % bv.len()].to_string() } }).collect();
    Clause { head: Atom { rel: head.to_string(), args }, body }
}
fn body_choices(ctx: &mut Ctx, head: &str, allow_rec: bool, allow_derived: bool) -> Vec<&'static str> {
    let hi = DERIVED.iter().position(|(n, _)| *n == head).unwrap_or(0);
    let mut pool: Vec<&'static str> = BASE.iter().map(|x| x.0).collect();
    if allow_derived { for (n, _) in DERIVED.iter().take(hi) { pool.push(n); pool.push(n); } }
    let k = if ctx.chance(35, 100) { 2 } else { 1 };
    let mut v: Vec<&'static str> = (0..k).map(|_| *ctx.pick(&pool)).collect();
    if allow_rec && ctx.chance(1, 2) { let s: &'static str = DERIVED.iter().find(|(n, _)| *n == head).unwrap().0; let at = ctx.below(v.len()); if v.len() == 1 { v.push(s); } else { v[at] = s; } }
    v
}
fn rnd_tuple(ctx: &mut Ctx, ar: usize) -> String { (0..ar).map(|_| ctx.below(4).to_string()).collect::<Vec<_>>().join(",") }
fn rnd_query(ctx: &mut Ctx, rel: &str) -> String {
    let ar = arity_of(rel);
    let args: Vec<String> = (0..ar).map(|i| if ctx.chance(15, 100) { ctx.below(4).to_string() } else if ctx.chance(8, 100) { "X".to_string() } else { VARS[i % 3].to_string() }).collect();
    format!("q {}({})", rel, args.join(","))
}

struct Hist { items: Vec<String>, sh: Shadow, handler: bool }
impl Hist {
    fn new(handler: bool) -> Hist { Hist { items: vec![], sh: Shadow::default(), handler } }
    /// push unless the shadow says the step leaves the supported fragment
    fn push(&mut self, ctx: &mut Ctx, item: String) -> bool {
        let parts: Vec<&str> = item.split(' ').collect();
        if self.handler && parts[0] == "rep" { return false; }       // "Rule editing is not supported in server mode"
        if !self.sh.apply(&parts) { ctx.count("gen_rejected_shape"); return false; }
        ctx.count(&format!("step_{}", parts[0]));
        self.items.push(item); true
    }
    fn observe(&mut self, ctx: &mut Ctx, focus: &[&str]) {
        let mut names: Vec<&str> = focus.to_vec();
        if names.is_empty() || ctx.chance(1, 4) { names.push(ctx.pick(&DERIVED).0); }
        for n in names { if ctx.chance(85, 100) { let q = rnd_query(ctx, n); self.push(ctx, q); } }
        if ctx.chance(30, 100) { self.push(ctx, "m".into()); }
    }
    fn base_update(&mut self, ctx: &mut Ctx) -> String {
        let (r, ar) = *ctx.pick(&BASE);
        let item = match ctx.below(10) {
            0..=5 => { let k = 1 + ctx.below(2); format!("ins {r} {}", (0..k).map(|_| rnd_tuple(ctx, ar)).collect::<Vec<_>>().join(" ")) }
            6..=8 => format!("del {r} {}", rnd_tuple(ctx, ar)),
            _ => format!("clrp {r}"),
        };
        self.push(ctx, item.clone()); item
    }
    fn seed_facts(&mut self, ctx: &mut Ctx) {
        for (r, ar) in BASE { if ctx.chance(3, 4) { let k = 1 + ctx.below(3); let it = format!("ins {r} {}", (0..k).map(|_| rnd_tuple(ctx, ar)).collect::<Vec<_>>().join(" ")); self.push(ctx, it); } }
    }
    fn reg(&mut self, ctx: &mut Ctx, head: &str, rels: &[&str]) -> bool { let c = rnd_clause(ctx, head, rels); self.push(ctx, format!("reg {}", clause_wire(&c))) }
    fn line(&self) -> String { format!("c18.hist {} | {}", if self.handler { "h" } else { "se" }, self.items.join(" ; ")) }
}

fn template(ctx: &mut Ctx, kind: usize, handler: bool) -> String {
    let mut h = Hist::new(handler);
    let idx_early = ctx.chance(3, 4);
    if ctx.chance(1, 2) { h.seed_facts(ctx); }
    if idx_early { h.push(ctx, "idx".into()); }
    if h.items.len() < 2 { h.seed_facts(ctx); }
    match kind {
        // one-level rule, materialised, then base updates (the maintained case)
        0 => { let (d, ar) = *ctx.pick(&DERIVED); let nb = 1 + ctx.below(2);
            for _ in 0..nb { let r = ctx.pick(&BASE).0; h.reg(ctx, d, &[r]); }
            if !idx_early { h.push(ctx, "idx".into()); }
            h.push(ctx, format!("mat {d} {ar}")); h.observe(ctx, &[d]);
            for _ in 0..2 + ctx.below(4) { h.base_update(ctx); h.observe(ctx, &[d]); if ctx.chance(1, 4) { h.push(ctx, format!("mat {d} {ar}")); } } }
        // derived-on-derived chain, both registration orders, materialise either level
        1 => { let lo = *ctx.pick(&["a", "ab"]); let hi = *ctx.pick(&["b", "c", "p"]); let b = ctx.pick(&BASE).0;
            let first_lo = ctx.chance(1, 2);
            if first_lo { h.reg(ctx, lo, &[b]); h.reg(ctx, hi, &[lo]); } else { h.reg(ctx, hi, &[lo]); h.reg(ctx, lo, &[b]); }
            if !idx_early { h.push(ctx, "idx".into()); }
            if ctx.chance(1, 2) { h.push(ctx, format!("mat {lo} {}", arity_of(lo))); }
            h.push(ctx, format!("mat {hi} {}", arity_of(hi))); h.observe(ctx, &[hi, lo]);
            for _ in 0..1 + ctx.below(3) { let it = format!("ins {b} {}", rnd_tuple(ctx, arity_of(b))); h.push(ctx, it); h.observe(ctx, &[hi, lo]); if ctx.chance(1, 3) { h.base_update(ctx); h.observe(ctx, &[hi]); } } }
        // catalogue edits of a materialised rule
        2 => { let (d, ar) = *ctx.pick(&DERIVED);
            for _ in 0..1 + ctx.below(3) { let r = ctx.pick(&BASE).0; h.reg(ctx, d, &[r]); }
            if !idx_early { h.push(ctx, "idx".into()); }
            if ctx.chance(4, 5) { h.push(ctx, format!("mat {d} {ar}")); }
            for _ in 0..1 + ctx.below(3) {
                let n = h.sh.get(d).map_or(0, |c| c.len());
                let it = match ctx.below(5) {
                    0 => { let r = ctx.pick(&BASE).0; format!("reg {}", clause_wire(&rnd_clause(ctx, d, &[r]))) }
                    1 => format!("rmc {d} {}", ctx.below(n + 1)),
                    2 => { let r = ctx.pick(&BASE).0; format!("rep {d} {} {}", ctx.below(n + 1), clause_wire(&rnd_clause(ctx, d, &[r]))) }
                    3 => format!("clr {d}"),
                    _ => format!("drop {d}"),
                };
                h.push(ctx, it); h.observe(ctx, &[d]);
                if ctx.chance(1, 3) { h.base_update(ctx); h.observe(ctx, &[d]); }
                if ctx.chance(1, 4) { h.push(ctx, format!("mat {d} {ar}")); } } }
        // self-recursive rule (transitive-closure style), materialised
        3 => { let (d, ar) = *ctx.pick(&[("p", 2usize), ("c", 2), ("b", 1)]);
            if ar == 2 { h.push(ctx, format!("reg {d}(X,Y)<-e(X,Y)"));
                let rc = match ctx.below(3) { 0 => format!("reg {d}(X,Z)<-{d}(X,Y)&e(Y,Z)"), 1 => format!("reg {d}(X,Z)<-e(X,Y)&{d}(Y,Z)"), _ => format!("reg {d}(X,Z)<-{d}(X,Y)&{d}(Y,Z)") }; h.push(ctx, rc); }
            else { h.push(ctx, format!("reg {d}(X)<-f(X)")); h.push(ctx, format!("reg {d}(Y)<-{d}(X)&e(X,Y)")); }
            if !idx_early { h.push(ctx, "idx".into()); }
            h.push(ctx, format!("mat {d} {ar}")); h.observe(ctx, &[d]);
            for _ in 0..1 + ctx.below(3) { let it = if ctx.chance(2, 3) { format!("ins e {}", rnd_tuple(ctx, 2)) } else { format!("del e {}", rnd_tuple(ctx, 2)) }; h.push(ctx, it); h.observe(ctx, &[d]);
                if ctx.chance(1, 3) { h.push(ctx, format!("mat {d} {ar}")); } } }
        // drops underneath / of a materialisation
        4 => { let (d, ar) = *ctx.pick(&DERIVED); let b = ctx.pick(&BASE).0; h.reg(ctx, d, &[b]);
            if ctx.chance(1, 2) { let (d2, _) = *ctx.pick(&DERIVED); if d2 != d { let bs = body_choices(ctx, d2, false, true); h.reg(ctx, d2, &bs); } }
            if !idx_early { h.push(ctx, "idx".into()); }
            h.push(ctx, format!("mat {d} {ar}")); h.observe(ctx, &[d]);
            let it = match ctx.below(5) { 0 => format!("drel {b}"), 1 => format!("drel {d}"), 2 => format!("dropp {}", &d[..1]), 3 => format!("clrp {}", &b[..1]), _ => format!("drop {d}") };
            h.push(ctx, it); h.observe(ctx, &[d]);
            if ctx.chance(1, 2) { h.reg(ctx, d, &[b]); h.observe(ctx, &[d]); h.base_update(ctx); h.observe(ctx, &[d]); } }
        // rules first, index (incremental maintenance) switched on late
        5 => { let (d, ar) = *ctx.pick(&DERIVED); let b = ctx.pick(&BASE).0; h.reg(ctx, d, &[b]);
            if !idx_early { h.push(ctx, "idx".into()); }
            if ctx.chance(1, 3) { let b2 = ctx.pick(&BASE).0; h.reg(ctx, d, &[b2]); }
            h.push(ctx, format!("mat {d} {ar}")); h.observe(ctx, &[d]);
            for _ in 0..1 + ctx.below(3) { let it = format!("ins {b} {}", rnd_tuple(ctx, arity_of(b))); h.push(ctx, it); h.observe(ctx, &[d]); } }
        // random soup incl. the malformed stream
        _ => { let n = 4 + ctx.below(9);
            for _ in 0..n {
                let (d, ar) = *ctx.pick(&DERIVED);
                let it = match ctx.below(24) {
                    0..=4 => { let bs = body_choices(ctx, d, true, true); format!("reg {}", clause_wire(&rnd_clause(ctx, d, &bs))) }
                    5..=8 => { h.base_update(ctx); continue; }
                    9..=11 => format!("mat {d} {ar}"),
                    12 => format!("rmc {d} {}", ctx.below(3)),
                    13 => { let bs = body_choices(ctx, d, false, false); format!("rep {d} {} {}", ctx.below(2), clause_wire(&rnd_clause(ctx, d, &bs))) }
                    14 => format!("clr {d}"),
                    15 => format!("drop {d}"),
                    16 => format!("dropp {}", &d[..1]),
                    17 => format!("drel {}", if ctx.chance(1, 2) { d } else { ctx.pick(&BASE).0 }),
                    18 => "idx".into(),
                    19 => "idxdrop".into(),
                    // malformed: facts under a derived name, wrong arity, materialising a base relation
                    20 => format!("ins {d} {}", rnd_tuple(ctx, ar)),
                    21 => { let (r, a) = *ctx.pick(&BASE); format!("ins {r} {}", rnd_tuple(ctx, a + 1)) }
                    22 => { let (r, a) = *ctx.pick(&BASE); format!("mat {r} {a}") }
                    _ => format!("del {d} {}", rnd_tuple(ctx, ar)),
                };
                if h.push(ctx, it) { h.observe(ctx, &[d]); }
            } }
    }
    h.line()
}

const WITNESSES: [&str; 7] = [
    // the same through the server: schema + `.index create`, rules as `+head <- body`, `?b(X)`
    "c18.hist h | ins e 1,1 ; idx ; reg a(X)<-e(X,Y) ; reg b(X)<-a(X) ; m ; q b(X) ; ins e 2,2 ; q b(X) ; m ; mat b 1 ; ins e 3,3 ; q b(X)",
    // DESIGN §5 C18 as first written: registration alone never materialises on the pinned tree
    "c18.hist se | ins e 1,1 ; idx ; reg a(X)<-e(X,Y) ; reg b(X)<-a(X) ; m ; q b(X) ; ins e 2,2 ; q b(X) ; m",
    "c18.hist se | idx ; ins f 1 ; reg a(X)<-f(X) ; reg b(X)<-a(X) ; mat b 1 ; ins f 2 ; q b(X)",
    "c18.hist se | idx ; ins f 1 ; reg b(X)<-f(X) ; mat b 1 ; ins f 2 ; q b(X) ; mat b 1 ; del f 1 ; q b(X)",
    "c18.hist se | idx ; ins f 1 ; ins g 2 ; reg b(X)<-f(X) ; mat b 1 ; reg b(X)<-g(X) ; q b(X)",
    "c18.hist se | idx ; ins f 1 ; reg b(X)<-f(X) ; mat b 1 ; drel f ; q b(X)",
    "c18.hist se | ins f 1 ; reg b(X)<-f(X) ; idx ; mat b 1 ; ins f 2 ; q b(X)",
];

/// thorough tier: every history over a tiny alphabet of steps, up to length 5 after a fixed prefix
fn exhaustive(ctx: &mut Ctx, out: &mut Vec<String>) {
    let alphabet = ["ins f 1", "del f 1", "ins f 2", "reg a(X)<-f(X)", "reg b(X)<-a(X)", "reg b(X)<-g(X)", "mat a 1", "mat b 1", "rmc b 0", "drop a", "idx", "drel f"];
    let depth = 3;
    let mut idxs = vec![0usize; depth];
    loop {
        let mut items: Vec<String> = vec!["ins g 3".into()];
        for &i in &idxs { items.push(alphabet[i].to_string()); items.push("q b(X)".into()); }
        items.push("q a(X)".into()); items.push("m".into());
        out.push(format!("c18.hist se | {}", items.join(" ; ")));
        ctx.count("exhaustive");
        let mut k = depth;
        loop { if k == 0 { return; } k -= 1; idxs[k] += 1; if idxs[k] < alphabet.len() { break; } idxs[k] = 0; if k == 0 { return; } }
    }
}

pub fn gen(ctx: &mut Ctx) -> Vec<String> {
    let mut out: Vec<String> = WITNESSES.iter().map(|s| s.to_string()).collect();
    let n = ctx.budget(400, 2000);
    for i in 0..n {
        let kind = i % 8;                 // kinds 6,7 = random soup
        ctx.count(&format!("template_{}", kind.min(6)));
        let handler = i % 5 == 4;          // every fifth history goes through the protocol handler as IQL text
        if handler { ctx.count("via_handler"); }
        out.push(template(ctx, kind, handler));
    }
    if ctx.thorough { exhaustive(ctx, &mut out); }
    out
}

pub const TGEN: Option<fn() -> String> = None;
